//go:build verif

// C01 (and the shared walks of C02/C11): random and exhaustive walks over the REAL catchment model;
// every state is projected to grid integers and, implementation-side, compared with a freshly
// initialised instance to which exactly the same active set is applied (the Search oracle).
package main

import (
	"fmt"
	"math"

	"github.com/LindsayBradford/crem/internal/pkg/parameters"
)

func init() { register("C01", runC01) }

var c01LimitedWalks int

type c01Walk struct {
	ds  string
	ops []catchOp
	obs []J
}

func c01RandomOp(p *prng, n int) catchOp {
	i := p.intn(n)
	switch r := p.intn(100); {
	case r < 30:
		return catchOp{Op: "TA", I: i}
	case r < 50:
		return catchOp{Op: "TR", I: i}
	case r < 60:
		return catchOp{Op: "TAR", I: i}
	case r < 75:
		return catchOp{Op: "SET", I: i, B: p.chance(0.5)}
	case r < 88:
		return catchOp{Op: "INIT", I: i, B: p.chance(0.5), L: p.chance(0.5)}
	case r < 96:
		bits := make([]int, n)
		for j := range bits {
			if p.chance(0.4) {
				bits[j] = 1
			}
		}
		return catchOp{Op: "SYNC", Bits: bits}
	default:
		return catchOp{Op: "REINIT"}
	}
}

func c01Oracle(c *catchInst, ds string, ops []catchOp, step int, o J, failures *int) {
	act := o["active"].([]int)
	f := c.freshWith(act)
	fo := f.obs()
	if !catchSameObs(c.allAttrs(), f.allAttrs()) {
		*failures++
		if *failures <= 5 {
			emit(J{"kind": "oracle", "what": "hidden per-unit attributes differ from those of a fresh instance with the same active set (later valuations will depend on the history)",
				"dataset": ds, "ops": ops[:step+1], "reached_attrs": c.allAttrs(), "fresh_attrs": f.allAttrs()})
		}
	}
	if !catchSameObs(o, fo) {
		*failures++
		if *failures <= 5 {
			emit(J{"kind": "oracle", "what": "history-dependence: state reached differs from a fresh instance with the same active set",
				"dataset": ds, "ops": ops[:step+1], "reached": o, "fresh": fo})
		}
	}
}

func runC01(args []string) {
	tier := "quick"
	if len(args) > 0 {
		tier = args[0]
	}
	p := newPrng(101)
	permPath, permCleanup := catchPermutedDataset()
	defer permCleanup()
	txPermutedPath = permPath
	datasets := []string{"ValidModel.csv", "TestingModel.csv", "PERMUTED"}
	genStats := map[string]int{}
	nGen := 3
	if tier == "thorough" {
		nGen = 25
	}
	genNames, genCleanup := txAddGenerated(p, nGen, genStats)
	defer genCleanup()
	datasets = append(datasets, genNames...)
	walkLen, walks, oracleEvery := 60, 2, 3
	if tier == "thorough" {
		walkLen, walks, oracleEvery = 200, 6, 1
	}
	stats := map[string]int{}
	failures := 0
	for _, ds := range datasets {
		c := catchOpen(txPath(ds), nil)
		emit(c.export(ds))
		emit(J{"kind": "init", "dataset": ds, "obs": c.obs()})
		for w := 0; w < walks; w++ {
			c = catchOpen(txPath(ds), nil)
			if w == walks-1 {
				// the last walk runs on a model that has a variable limit configured: direct setting, synchronising and
				// decoding are not subject to it (only proposals are judged), so the observables are those of an unlimited model
				c01LimitedWalks++
				k := c01LimitedWalks % 6
				asIs, allActive := c03Range(ds, k)
				lim := asIs + 0.4*(allActive-asIs) // between the extremes: for a pollutant the as-is state itself lies beyond it
				lim = math.Floor(lim*catchVarScale[k])/catchVarScale[k] + 0.5/catchVarScale[k]
				if math.Abs(allActive-asIs) > 2/catchVarScale[k] && lim > 0 {
					c = catchOpen(txPath(ds), parameters.Map{catchLimitKeys[k]: lim})
					stats["walks_under_a_limit_on_"+catchVarNames[k]]++
				}
			}
			ops := make([]catchOp, 0, walkLen)
			obs := make([]J, 0, walkLen)
			for s := 0; s < walkLen; s++ {
				o := c01RandomOp(p, c.nact)
				stats["op:"+o.Op]++
				c.apply(o)
				ops = append(ops, o)
				ob := c.obs()
				obs = append(obs, ob)
				if s%oracleEvery == 0 || s == walkLen-1 {
					c01Oracle(c, ds, ops, s, ob, &failures)
					stats["oracle_checks"]++
				}
			}
			emit(J{"kind": "case", "dataset": ds, "ops": ops, "obs": obs, "final_attrs": c.allAttrs()})
			stats["walks"]++
			stats["offgrid"] += c.offGrid
		}
		// exhaustive Gray-code walk over all 2^n sets: implementation-side oracle at every state (thorough),
		// a prefix of it in the quick tier
		g := catchOpen(txPath(ds), nil)
		limit := 256
		if limit > 1<<uint(g.nact) {
			limit = 1 << uint(g.nact)
		}
		if tier == "thorough" {
			limit = 1 << uint(g.nact)
			if limit > 1<<15 {
				limit = 1 << 15
			}
		}
		ops := make([]catchOp, 0)
		// thorough tier: the Gray-code walk is also compared with the MODEL, state by state, in shards of 512 steps
		// (each shard starts with a synchronise to the walk's current set, which is a no-op for the implementation and
		// builds the model's state for that set: by C01 they must agree from there on); all 2^n states for n <= 13,
		// the first 8192 beyond
		modelLimit := 0
		if tier == "thorough" {
			modelLimit = limit
			if modelLimit > 8192 {
				modelLimit = 8192
			}
		}
		var shardOps []catchOp
		var shardObs []J
		flushShard := func() {
			if len(shardOps) > 1 {
				emit(J{"kind": "case", "dataset": ds, "ops": shardOps, "obs": shardObs, "final_attrs": g.allAttrs()})
				stats["gray_model_shards"]++
			}
			shardOps, shardObs = nil, nil
		}
		for k := 1; k < limit; k++ {
			if k < modelLimit && len(shardOps) == 0 {
				cur := g.obs()
				shardOps = append(shardOps, catchOp{Op: "SYNC", Bits: cur["active"].([]int)})
				shardObs = append(shardObs, cur)
			}
			bit := 0
			for (k>>uint(bit))&1 == 0 {
				bit++
			}
			o := catchOp{Op: "TA", I: bit}
			if k%3 == 0 {
				o = catchOp{Op: "SET", I: bit, B: !g.m.ManagementActions()[bit].IsActive()}
			}
			g.apply(o)
			ops = append(ops, o)
			if len(ops) > 40 {
				ops = ops[len(ops)-40:]
			}
			ob := g.obs()
			if k < modelLimit {
				shardOps = append(shardOps, o)
				shardObs = append(shardObs, ob)
				stats["gray_model_steps"]++
				if len(shardOps) > 512 || k == modelLimit-1 {
					flushShard()
				}
			}
			f := g.freshWith(ob["active"].([]int))
			if !catchSameObs(ob, f.obs()) {
				failures++
				if failures <= 5 {
					emit(J{"kind": "oracle", "what": "history-dependence on the Gray-code walk (state " + fmt.Sprint(k) + ")",
						"dataset": ds, "last_ops": ops, "reached": ob, "fresh": f.obs()})
				}
			}
			stats["gray_states"]++
		}
	}
	for k, v := range genStats {
		stats[k] = v
	}
	stats["oracle_failures"] = failures
	emit(J{"kind": "stat", "stats": stats})
}
