//go:build verif

// Shared driver of the REAL catchment model for the properties C01, C02, C03, C10, C11:
// loads a data set through the real CSV loader, exports the constants the running model holds
// (exactly, as m*2^e), applies operations of the model API and projects the observables.
package main

import (
	"encoding/json"
	"math"
	mrand "math/rand"
	"os"
	"path/filepath"
	"sort"
	"strconv"
	"strings"

	"github.com/LindsayBradford/crem/internal/pkg/dataset/csv"
	"github.com/LindsayBradford/crem/internal/pkg/model"
	"github.com/LindsayBradford/crem/internal/pkg/model/action"
	"github.com/LindsayBradford/crem/internal/pkg/model/models/catchment"
	"github.com/LindsayBradford/crem/internal/pkg/model/models/catchment/variables/dissolvednitrogen"
	"github.com/LindsayBradford/crem/internal/pkg/model/models/catchment/variables/particulatenitrogen"
	"github.com/LindsayBradford/crem/internal/pkg/model/models/catchment/variables/sedimentproduction"
	"github.com/LindsayBradford/crem/internal/pkg/model/planningunit"
	"github.com/LindsayBradford/crem/internal/pkg/model/variable"
	"github.com/LindsayBradford/crem/internal/pkg/parameters"
	crand "github.com/LindsayBradford/crem/internal/pkg/rand"
	"github.com/LindsayBradford/crem/pkg/attributes"
)

var catchVarNames = []string{"SedimentProduction", "ParticulateNitrogen", "DissolvedNitrogen", "TotalNitrogen", "ImplementationCost", "OpportunityCost"}
var catchVarScale = []float64{1000, 1000, 1000, 1000, 100, 100}
var catchLimitKeys = []string{"MaximumSedimentProduction", "MaximumParticulateNitrogenProduction", "MaximumDissolvedNitrogenProduction",
	"MaximumTotalNitrogenProduction", "MaximumImplementationCost", "MaximumOpportunityCost"}

func catchRepoRoot() string {
	if r := os.Getenv("VERIF_REPO"); r != "" {
		return r
	}
	return "/repo"
}

func catchTestdata(name string) string {
	return filepath.Join(catchRepoRoot(), "internal/pkg/model/models/catchment/testdata", name)
}

// scripted random source: Int63 returns the queued values (then zeros)
type catchScript struct{ q []int64 }

func (s *catchScript) Int63() int64 {
	if len(s.q) == 0 {
		return 0
	}
	v := s.q[0]
	s.q = s.q[1:]
	return v
}
func (s *catchScript) Seed(int64) {}

var _ mrand.Source = new(catchScript)

// catchPickIndex makes the next Intn(n) of the model's action container return i.
func catchPickIndex(m *catchment.CoreModel, i int) {
	src := &catchScript{q: []int64{int64(i) << 32}}
	m.VerifManagementActions().SetRandomNumberGenerator(crand.New(src))
}

type catchInst struct {
	m       *catchment.CoreModel
	full    *catchment.Model // non-nil when built through the configured-and-cloned path
	path    string
	prm     parameters.Map
	pus     planningunit.Ids
	nact    int
	offGrid int
}

// every third instance opened with parameters is built the way a run's model really is: a catchment.Model configured
// through its parameter map (data source path and limit), initialised, and then DEEP-CLONED twice (Runner.run clones
// the annealer, whose explorer clones its model; the multi-objective explorer clones once more for its candidate
// model).  The instance works on the clone of the clone; [full] is what an explorer is handed so that its own
// DeepClone calls dispatch to catchment.Model.DeepClone.
var catchOpenCount int

func catchOpenCloned(dataPath string, prm parameters.Map) *catchInst {
	wd, _ := os.Getwd()
	abs, _ := filepath.Abs(dataPath)
	rel, err := filepath.Rel(wd, abs)
	if err != nil {
		panic(err)
	}
	full := parameters.Map{"DataSourcePath": rel}
	for k, v := range prm {
		full[k] = v
	}
	pm := catchment.NewModel().WithParameters(full)
	if errs := pm.ParameterErrors(); errs != nil {
		panic("parameters rejected: " + errs.Error())
	}
	pm.Initialise(model.AsIs)
	cl := pm.DeepClone().DeepClone().(*catchment.Model)
	cl.Initialise(model.AsIs)
	c := &catchInst{m: &cl.CoreModel, full: cl, path: dataPath, prm: prm}
	c.pus = c.m.PlanningUnits()
	c.nact = len(c.m.ManagementActions())
	return c
}

// the model an explorer is given for this instance
func (c *catchInst) forExplorer() model.Model {
	if c.full != nil {
		return c.full
	}
	return c.m
}

func catchOpen(dataPath string, prm parameters.Map) *catchInst {
	if prm != nil {
		catchOpenCount++
		if catchOpenCount%3 == 0 {
			return catchOpenCloned(dataPath, prm)
		}
	}
	ds := csv.NewDataSet("CatchmentModel")
	if err := ds.Load(dataPath); err != nil {
		panic("cannot load " + dataPath + ": " + err.Error())
	}
	m := catchment.NewCoreModel().WithSourceDataSet(ds)
	if prm != nil {
		if err := m.SetParameters(prm); err != nil {
			panic("parameters rejected: " + err.Error())
		}
	}
	m.Initialise(model.AsIs)
	c := &catchInst{m: m, path: dataPath, prm: prm}
	c.pus = m.PlanningUnits()
	c.nact = len(m.ManagementActions())
	return c
}

func (c *catchInst) grid(v float64, scale float64) int64 {
	x := v * scale
	r := math.Round(x)
	if math.Abs(x-r) > 1e-6 {
		c.offGrid++
	}
	return int64(r)
}

func (c *catchInst) perUnit(name string) variable.PlanningUnitDecisionVariable {
	v := c.m.ContainedDecisionVariables.Variable(name)
	return v.(variable.PlanningUnitDecisionVariable)
}

// observables: active bits, totals and per-unit values as grid integers
func (c *catchInst) obs() J {
	act := make([]int, c.nact)
	for i, a := range c.m.ManagementActions() {
		if a.IsActive() {
			act[i] = 1
		}
	}
	totals := make([]int64, len(catchVarNames))
	vals := make([][]int64, len(catchVarNames))
	for k, name := range catchVarNames {
		v := c.perUnit(name)
		totals[k] = c.grid(v.Value(), catchVarScale[k])
		vals[k] = make([]int64, len(c.pus))
		for j, pu := range c.pus {
			vals[k][j] = c.grid(v.PlanningUnitValue(pu), catchVarScale[k])
		}
	}
	return J{"active": act, "totals": totals, "vals": vals}
}

func catchAttr(a attributes.Attributes, name string) float64 {
	v := a.Value(name)
	if v == nil {
		return 0
	}
	return v.(float64)
}

// hidden attribute records, in the model's component order [veg, rip, gul, hill, wet, aux]
func (c *catchInst) attrs(k int, pu planningunit.Id) [6]float64 {
	switch k {
	case 0:
		a := c.m.ContainedDecisionVariables.Variable("SedimentProduction").(*sedimentproduction.SedimentProduction).PlanningUnitAttributes()[pu]
		return [6]float64{catchAttr(a, "RiverbankVegetationProportion"), catchAttr(a, "RiverbankSedimentContribution"),
			catchAttr(a, "GullySedimentContribution"), catchAttr(a, "HillSlopeSedimentContribution"), catchAttr(a, "WetlandRemovalEfficiency"), 0}
	case 1:
		a := c.m.ContainedDecisionVariables.Variable("ParticulateNitrogen").(*particulatenitrogen.ParticulateNitrogenProduction).VerifSubCatchmentAttributes()[pu]
		return [6]float64{catchAttr(a, "RiverbankVegetationProportion"), catchAttr(a, "RiparianNitrogenContribution"),
			catchAttr(a, "GullyNitrogenContribution"), catchAttr(a, "HillSlopeNitrogenContribution"), catchAttr(a, "WetlandRemovalEfficiency"), 0}
	default:
		a := c.m.ContainedDecisionVariables.Variable("DissolvedNitrogen").(*dissolvednitrogen.DissolvedNitrogenProduction).VerifSubCatchmentAttributes()[pu]
		return [6]float64{catchAttr(a, "ProportionOfRiparianVegetation"), catchAttr(a, "RiparianNitrogenContribution"),
			catchAttr(a, "GullyNitrogenContribution"), catchAttr(a, "HillSlopeNitrogenContribution"),
			catchAttr(a, "WetlandsDissolvedNitrogenRemovalEfficiency"), catchAttr(a, "RiparianDissolvedNitrogenRemovalEfficiency")}
	}
}

func (c *catchInst) allAttrs() [][][][2]int64 {
	res := make([][][][2]int64, 3)
	for k := 0; k < 3; k++ {
		res[k] = make([][][2]int64, len(c.pus))
		for j, pu := range c.pus {
			a := c.attrs(k, pu)
			res[k][j] = flsOf(a[:])
		}
	}
	return res
}

// export of the data set as the running model holds it (must be called in the as-is state)
func (c *catchInst) export(name string) J {
	pus := make([]int64, len(c.pus))
	for j, pu := range c.pus {
		pus[j] = int64(pu)
	}
	acts := make([]J, 0)
	for _, a := range c.m.ManagementActions() {
		keys := a.(interface {
			ModelVariableKeys() []action.ModelVariableName
		}).ModelVariableKeys()
		ks := make([]string, len(keys))
		for i, k := range keys {
			ks[i] = string(k)
		}
		sort.Strings(ks)
		vars := make([]J, 0)
		for _, k := range ks {
			vars = append(vars, J{"n": k, "v": flOf(a.ModelVariableValue(action.ModelVariableName(k)))})
		}
		acts = append(acts, J{"pu": int64(a.PlanningUnit()), "type": string(a.Type()), "vars": vars})
	}
	var limit interface{}
	for k, key := range catchLimitKeys {
		if c.prm != nil {
			if v, ok := c.prm[key]; ok {
				limit = J{"var": k, "max": flOf(v.(float64))}
			}
		}
	}
	return J{"kind": "dataset", "name": name, "pus": pus, "actions": acts, "base": c.allAttrs(), "limit": limit}
}

// ---- operations (the alphabet of Catchment.v) ----

type catchOp struct {
	Op   string `json:"op"`
	I    int    `json:"i"`
	B    bool   `json:"b"`
	L    bool   `json:"l"`
	Bits []int  `json:"bits,omitempty"`
}

func (c *catchInst) toggleObserved(i int) {
	a := c.m.ManagementActions()[i]
	c.m.ToggleAction(a.PlanningUnit(), a.Type())
}

func (c *catchInst) apply(o catchOp) {
	switch o.Op {
	case "TA":
		c.toggleObserved(o.I)
		c.m.AcceptChange()
	case "TR":
		c.toggleObserved(o.I)
		c.m.RevertChange()
	case "TAR":
		c.toggleObserved(o.I)
		c.m.AcceptChange()
		c.m.RevertChange()
	case "SET":
		c.m.SetManagementAction(o.I, o.B)
	case "INIT":
		a := c.m.ManagementActions()[o.I]
		if o.L {
			catchPickIndex(c.m, o.I)
			if o.B {
				c.m.VerifManagementActions().RandomlyInitialiseAnyAction()
			} else {
				c.m.VerifManagementActions().RandomlyDeInitialiseAnyAction()
			}
		} else if o.B {
			a.InitialisingActivation()
		} else {
			a.InitialisingDeactivation()
		}
	case "SYNC":
		for i, b := range o.Bits {
			c.m.SetManagementAction(i, b == 1)
		}
	case "REINIT":
		c.m.Initialise(model.AsIs)
	default:
		panic("unknown op " + o.Op)
	}
}

// a freshly initialised instance to which exactly the given active set is applied, in index order
func (c *catchInst) freshWith(active []int) *catchInst {
	f := catchOpen(c.path, c.prm)
	for i, b := range active {
		f.m.SetManagementAction(i, b == 1)
	}
	return f
}

func catchSameObs(a, b interface{}) bool {
	x, _ := jsonString(a)
	y, _ := jsonString(b)
	return x == y
}

func jsonString(v interface{}) (string, error) {
	b, err := json.Marshal(v)
	return string(b), err
}

// catchPermutedDataset writes a variant of the shipped ValidModel data set into a private temp directory:
// the Subcatchments rows in reversed order (planning-unit ids no longer ascending) and the Actions rows
// rotated.  Same planning units, gullies and actions -- only the row order of the input tables differs.
func catchPermutedDataset() (metaPath string, cleanup func()) {
	dir, err := os.MkdirTemp("", "verif-catch-")
	if err != nil {
		panic(err)
	}
	read := func(n string) []string {
		b, err := os.ReadFile(catchTestdata(n))
		if err != nil {
			panic(err)
		}
		lines := []string{}
		for _, l := range strings.Split(strings.ReplaceAll(string(b), "\r\n", "\n"), "\n") {
			if strings.TrimSpace(l) != "" {
				lines = append(lines, l)
			}
		}
		return lines
	}
	write := func(n string, lines []string) {
		if err := os.WriteFile(filepath.Join(dir, n), []byte(strings.Join(lines, "\n")+"\n"), 0o666); err != nil {
			panic(err)
		}
	}
	sub := read("ValidSubcatchments.csv")
	rev := []string{sub[0]}
	for i := len(sub) - 1; i >= 1; i-- {
		rev = append(rev, sub[i])
	}
	write("PermSubcatchments.csv", rev)
	act := read("ValidActions.csv")
	rot := []string{act[0]}
	rot = append(rot, act[len(act)/2:]...)
	rot = append(rot, act[1:len(act)/2]...)
	write("PermActions.csv", rot)
	write("PermGullies.csv", read("ValidGullies.csv"))
	write("PermModel.csv", []string{"TableName, FilePath", "Subcatchments, PermSubcatchments.csv", "Gullies, PermGullies.csv", "Actions, PermActions.csv"})
	return filepath.Join(dir, "PermModel.csv"), func() { os.RemoveAll(dir) }
}

// catchGeneratedDataset writes a random catchment data set (1..6 planning units with ids in random order, each
// action type present or absent per unit, riparian vegetation on both sides of the 0.25 / 0.75 filter thresholds,
// zero and non-zero hill-slope erosion, 0..3 gullies per unit, costs with and without cents) into a private temp
// directory.  Rows are jittered copies of the shipped rows so that the physical derivations stay in range.
// The data set is loaded through the real loader by the caller; a data set the loader or the model initialisation
// rejects (error or panic) is skipped by the caller and counted.
func catchGeneratedDataset(p *prng) (metaPath string, cleanup func(), desc J) {
	dir, err := os.MkdirTemp("", "verif-gen-")
	if err != nil {
		panic(err)
	}
	cleanup = func() { os.RemoveAll(dir) }
	jit := func(v float64) float64 { return v * (0.7 + 0.6*p.float()) }
	f := func(v float64) string { return strconv.FormatFloat(v, 'g', -1, 64) }
	subT := [][]float64{ // DownstreamId, ChannelLength, ChannelSlope, BankfullFlow, ChannelWidth, ChannelDepth, FloodplainWidth, Veg, Area, BufferArea, HillslopeArea
		{15, 10322, 0.000024, 8.876609127, 14.0095989, 5.03800049, 904.4842277, 0.308863, 1643333, 151005, 17435.3},
		{16, 20702, 0.000120348, 0.088007572, 3.034239867, 0.24099884, 379.9615247, 0.136031, 5919454, 178202, 980041},
		{16, 14114, 0.000194278, 0.024524427, 1.000685636, 0.16199951, 748.9010539, 0.238881, 3518302, 69012.7, 21082.9},
		{14, 17292, 0.0000872, 1.016639781, 5.375386357, 0.93999786, 2953.247506, 0.199359, 2302969, 70059.9, 0},
		{28, 16858, 0.000058, 4.213832717, 21.9467316, 1.4054, 506.9327487, 0.114667, 1035280, 122033, 0},
	}
	vegs := []float64{0.05, 0.2499, 0.25, 0.3, 0.5, 0.7499, 0.75, 0.7501, 0.9, 0.114667, 0.308863}
	nPU := 1 + p.intn(6)
	ids := []int{}
	used := map[int]bool{}
	for len(ids) < nPU {
		id := 3 + p.intn(150)
		if !used[id] {
			used[id] = true
			ids = append(ids, id)
		}
	}
	sub := []string{"Subcatchment,DownstreamId,ChannelLength,ChannelSlope,BankfullFlow,ChannelWidth,ChannelDepth,FloodplainWidth,ProportionOfRiparianVegetation,SubcatchmentArea,RiparianBufferArea,HillslopeArea"}
	gul := []string{"Identifier,Subcatchment,Volume,ChannelLengh"}
	act := []string{"Subcatchment,ActionType,OpportunityCost,ImplementationCost,ParticulateNitrogenOriginal,ParticulateNitrogenActioned,HillslopeErosionOriginal,HillslopeErosionActioned,FineSedimentOriginal,FineSedimentActioned,DissolvedNitrogenOriginal,DissolvedNitrogenActioned,DNRemovalEfficiency,PNRemovalEfficiency,SedimentRemovalEfficiency"}
	cost := func(base float64) float64 {
		c := float64(int64(jit(base)))
		if p.chance(0.3) {
			c += 0.37
		}
		if p.chance(0.15) {
			c = 0
		}
		if p.chance(0.2) {
			// tenths of a cent that are exact in binary: the value sits exactly half-way between two cents, so that
			// activation (round(+c)) and deactivation (round(-c)) must round symmetrically
			c = float64(int64(c)) + []float64{0.125, 0.375, 0.625, 0.875}[p.intn(4)]
		}
		if p.chance(0.1) {
			// exactly one or two steps of the variable's last printed place (costs carry two decimals): the smallest
			// change an action can make to a cost variable is still a change
			c = []float64{0.01, 0.02, 0.01, 0.1}[p.intn(4)]
		}
		if p.chance(0.12) {
			c = -c // the loader accepts a negative cost (a subsidy / a gain): shares and totals may go negative
		}
		return c
	}
	gid := 1
	nAct := 0
	paddedOnce := false
	for idx, id := range ids {
		// the first unit is RICH: it offers all four action types with non-zero effects and removal efficiencies, so that
		// the interactions between the actions of one unit (a wetland filtering what river bank, gully and hill slope
		// deliver) are exercised in every generated data set
		rich := idx == 0
		t := subT[p.intn(len(subT))]
		veg := vegs[p.intn(len(vegs))]
		if p.chance(0.2) {
			veg = p.float()
		}
		hill := jit(t[10])
		if p.chance(0.3) {
			hill = 0
		}
		if rich {
			veg = []float64{0.05, 0.3, 0.5}[p.intn(3)]
			if hill == 0 {
				hill = jit(17435.3)
			}
		}
		sub = append(sub, strings.Join([]string{strconv.Itoa(id), f(t[0]), f(jit(t[1])), f(jit(t[2])), f(jit(t[3])), f(jit(t[4])), f(jit(t[5])),
			f(jit(t[6])), f(veg), f(jit(t[8])), f(jit(t[9])), f(hill)}, ","))
		nGul := 0
		if rich || p.chance(0.5) {
			nGul = 1 + p.intn(3)
		}
		for g := 0; g < nGul; g++ {
			gul = append(gul, strings.Join([]string{strconv.Itoa(gid), strconv.Itoa(id), f(jit([]float64{3859.73, 278538.89}[p.intn(2)])), f(jit([]float64{178.417, 1346.508}[p.intn(2)]))}, ","))
			gid++
		}
		row := func(kind string, v ...float64) {
			if !rich && (p.chance(0.08) || (idx == 1 && !paddedOnce)) {
				paddedOnce = true
				// a hand-aligned cell: the reader trims leading blanks only, so the type name keeps its trailing blank and is
				// no known action type -- the row is either ignored by every part of the model or honoured by every part
				kind += " "
			}
			cells := []string{strconv.Itoa(id), kind}
			for _, x := range v {
				cells = append(cells, f(x))
			}
			act = append(act, strings.Join(cells, ","))
			nAct++
		}
		if nGul > 0 && (rich || p.chance(0.7)) {
			pn := jit(1.76)
			dn := jit(0.0072)
			row("Gully", cost(0), cost(167834), pn, pn*(0.1+0.5*p.float()), 0, 0, 0, 0, dn, dn*(0.2+0.6*p.float()), 0, 0, 0)
		}
		if rich || p.chance(0.7) {
			pn := jit(10.5)
			er := jit(1267.84)
			if hill == 0 || (!rich && p.chance(0.3)) {
				pn, er = 0, 0
			}
			dn := jit(5.2)
			row("Hillslope", cost(96419), cost(4700000), pn, pn*(0.2+0.6*p.float()), er, er*(0.05+0.3*p.float()), 0, 0, dn, dn*(0.8+0.19*p.float()), 0, 0, 0)
		}
		if rich || p.chance(0.75) {
			fs := 0.1 + 0.1*p.float()
			dn := jit(2.0e-7)
			ripEff := []float64{0, 0.5, 0.632175983, 1}[p.intn(4)]
			if rich && ripEff == 0 {
				ripEff = 0.632175983
			}
			row("Riparian", cost(5722), cost(724823), 0, 0, 0, 0, fs, fs*(0.8+0.6*p.float()), dn, dn*(0.4+0.4*p.float()), ripEff, 0, 0)
		}
		if rich || p.chance(0.4) {
			eff := []float64{0, 0.5, 0.98, 0.99, 1}
			if rich {
				eff = []float64{0.5, 0.98, 0.25, 0.99, 0.75}
			}
			row("Wetland", cost(6331), cost(2451354), 0, 0, 0, 0, 0, 0, 0, 0, eff[p.intn(5)], eff[p.intn(5)], eff[p.intn(5)])
		}
	}
	write := func(n string, lines []string) {
		if err := os.WriteFile(filepath.Join(dir, n), []byte(strings.Join(lines, "\n")+"\n"), 0o666); err != nil {
			panic(err)
		}
	}
	write("GenSubcatchments.csv", sub)
	write("GenGullies.csv", gul)
	write("GenActions.csv", act)
	write("GenModel.csv", []string{"TableName, FilePath", "Subcatchments, GenSubcatchments.csv", "Gullies, GenGullies.csv", "Actions, GenActions.csv"})
	return filepath.Join(dir, "GenModel.csv"), cleanup, J{"planning_units": nPU, "gullies": gid - 1, "action_rows": nAct}
}

// catchTryOpen loads a (generated) data set through the real loader; ok = false when the loader or the model
// initialisation rejects it (error or panic) or it offers no action at all
func catchTryOpen(path string) (c *catchInst, ok bool) {
	panicked, _ := protect(func() { c = catchOpen(path, nil) })
	if panicked || c == nil || c.nact == 0 {
		return nil, false
	}
	return c, true
}

// catchSizedDataset writes a generated catchment data set that offers EXACTLY nActions management actions (used by
// C13 and C09 to put the action count on and around the 64-bit word boundaries of the action encoding).  Which
// actions a planning unit offers is decided by the data the same way the model decides it: a river bank restoration
// iff the unit's riparian vegetation is below the 0.75 target, a wetland iff the Actions table has a Wetland row for
// it, a hill-slope restoration iff its Hillslope row has a non-zero original erosion, a gully restoration iff the
// Gullies table lists a gully for it.  Every unit gets 1..3 of the four (ids in random order); rows are jittered
// copies of shipped rows.  The data set is loaded through the real loader and regenerated (at most 20 times) until
// the running model offers exactly nActions actions; desc reports the composition.
func catchSizedDataset(p *prng, nActions int) (metaPath string, cleanup func(), desc J) {
	if nActions < 1 {
		panic("catchSizedDataset: at least one action")
	}
	for attempt := 0; attempt < 20; attempt++ {
		path, clean, d := catchSizedDatasetOnce(p, nActions)
		if c, ok := catchTryOpen(path); ok && c.nact == nActions {
			d["attempts"] = attempt + 1
			return path, clean, d
		}
		clean()
	}
	panic("catchSizedDataset: could not generate a data set with " + strconv.Itoa(nActions) + " management actions")
}

func catchSizedDatasetOnce(p *prng, nActions int) (metaPath string, cleanup func(), desc J) {
	dir, err := os.MkdirTemp("", "verif-sized-")
	if err != nil {
		panic(err)
	}
	cleanup = func() { os.RemoveAll(dir) }
	jit := func(v float64) float64 { return v * (0.7 + 0.6*p.float()) }
	f := func(v float64) string { return strconv.FormatFloat(v, 'g', -1, 64) }
	subT := [][]float64{ // DownstreamId, ChannelLength, ChannelSlope, BankfullFlow, ChannelWidth, ChannelDepth, FloodplainWidth, Veg, Area, BufferArea, HillslopeArea
		{15, 10322, 0.000024, 8.876609127, 14.0095989, 5.03800049, 904.4842277, 0.308863, 1643333, 151005, 17435.3},
		{16, 20702, 0.000120348, 0.088007572, 3.034239867, 0.24099884, 379.9615247, 0.136031, 5919454, 178202, 980041},
		{16, 14114, 0.000194278, 0.024524427, 1.000685636, 0.16199951, 748.9010539, 0.238881, 3518302, 69012.7, 21082.9},
	}
	lowVeg := []float64{0.05, 0.2499, 0.25, 0.3, 0.5, 0.7499, 0.114667, 0.308863}
	highVeg := []float64{0.75, 0.7501, 0.9, 1}
	sub := []string{"Subcatchment,DownstreamId,ChannelLength,ChannelSlope,BankfullFlow,ChannelWidth,ChannelDepth,FloodplainWidth,ProportionOfRiparianVegetation,SubcatchmentArea,RiparianBufferArea,HillslopeArea"}
	gul := []string{"Identifier,Subcatchment,Volume,ChannelLengh"}
	act := []string{"Subcatchment,ActionType,OpportunityCost,ImplementationCost,ParticulateNitrogenOriginal,ParticulateNitrogenActioned,HillslopeErosionOriginal,HillslopeErosionActioned,FineSedimentOriginal,FineSedimentActioned,DissolvedNitrogenOriginal,DissolvedNitrogenActioned,DNRemovalEfficiency,PNRemovalEfficiency,SedimentRemovalEfficiency"}
	cost := func(base float64) float64 {
		c := float64(int64(jit(base)))
		if p.chance(0.3) {
			c += 0.37
		}
		return c
	}
	used := map[int]bool{}
	gid, nPU := 1, 0
	perType := map[string]int{}
	for remaining := nActions; remaining > 0; {
		id := 3 + p.intn(4*nActions+60)
		if used[id] {
			continue
		}
		used[id] = true
		nPU++
		k := 1 + p.intn(3)
		if k > remaining {
			k = remaining
		}
		remaining -= k
		// k of the four action types, chosen at random
		kinds := []string{"Gully", "Hillslope", "Riparian", "Wetland"}
		for i := len(kinds) - 1; i > 0; i-- {
			j := p.intn(i + 1)
			kinds[i], kinds[j] = kinds[j], kinds[i]
		}
		has := map[string]bool{}
		for _, kd := range kinds[:k] {
			has[kd] = true
			perType[kd]++
		}
		t := subT[p.intn(len(subT))]
		veg := highVeg[p.intn(len(highVeg))]
		if has["Riparian"] {
			veg = lowVeg[p.intn(len(lowVeg))]
		}
		sub = append(sub, strings.Join([]string{strconv.Itoa(id), f(t[0]), f(jit(t[1])), f(jit(t[2])), f(jit(t[3])), f(jit(t[4])), f(jit(t[5])),
			f(jit(t[6])), f(veg), f(jit(t[8])), f(jit(t[9])), f(jit(t[10]))}, ","))
		row := func(kind string, v ...float64) {
			cells := []string{strconv.Itoa(id), kind}
			for _, x := range v {
				cells = append(cells, f(x))
			}
			act = append(act, strings.Join(cells, ","))
		}
		if has["Gully"] {
			for g := 1 + p.intn(2); g > 0; g-- {
				gul = append(gul, strings.Join([]string{strconv.Itoa(gid), strconv.Itoa(id), f(jit([]float64{3859.73, 278538.89}[p.intn(2)])), f(jit([]float64{178.417, 1346.508}[p.intn(2)]))}, ","))
				gid++
			}
			pn := jit(1.76)
			dn := jit(0.0072)
			row("Gully", cost(0), cost(167834), pn, pn*(0.1+0.5*p.float()), 0, 0, 0, 0, dn, dn*(0.2+0.6*p.float()), 0, 0, 0)
		}
		if has["Hillslope"] {
			pn := jit(10.5)
			er := jit(1267.84)
			dn := jit(5.2)
			row("Hillslope", cost(96419), cost(4700000), pn, pn*(0.2+0.6*p.float()), er, er*(0.05+0.3*p.float()), 0, 0, dn, dn*(0.8+0.19*p.float()), 0, 0, 0)
		}
		if has["Riparian"] {
			fs := 0.1 + 0.1*p.float()
			dn := jit(2.0e-7)
			row("Riparian", cost(5722), cost(724823), 0, 0, 0, 0, fs, fs*(0.8+0.6*p.float()), dn, dn*(0.4+0.4*p.float()), []float64{0, 0.5, 0.632175983, 1}[p.intn(4)], 0, 0)
		}
		if has["Wetland"] {
			eff := []float64{0, 0.5, 0.98, 0.99, 1}
			row("Wetland", cost(6331), cost(2451354), 0, 0, 0, 0, 0, 0, 0, 0, eff[p.intn(5)], eff[p.intn(5)], eff[p.intn(5)])
		}
	}
	write := func(n string, lines []string) {
		if err := os.WriteFile(filepath.Join(dir, n), []byte(strings.Join(lines, "\n")+"\n"), 0o666); err != nil {
			panic(err)
		}
	}
	write("SizedSubcatchments.csv", sub)
	write("SizedGullies.csv", gul)
	write("SizedActions.csv", act)
	write("SizedModel.csv", []string{"TableName, FilePath", "Subcatchments, SizedSubcatchments.csv", "Gullies, SizedGullies.csv", "Actions, SizedActions.csv"})
	return filepath.Join(dir, "SizedModel.csv"), cleanup, J{"actions": nActions, "planning_units": nPU, "gullies": gid - 1,
		"gully_restorations": perType["Gully"], "hillslope_restorations": perType["Hillslope"], "riverbank_restorations": perType["Riparian"], "wetlands": perType["Wetland"]}
}
