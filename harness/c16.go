//go:build verif

package main

// C16: concurrent engine requests behave as if executed one at a time.
//
// N in 2..8 clients call the REAL engine mux's ServeHTTP at the same time (goroutines released by one barrier,
// httptest recorders; in the thorough tier also through a loop-back httptest.Server).  The requests are commuting and
// conflicting writes (PUT per-subcatchment actions on different / the same subcatchment, PATCH /model encodings, PUT
// whole or partial action tables), rejected writes, and readers.  Oracle (implementation against implementation): every
// response and the final resource state must equal those of SOME serial order of the same requests replayed on a fresh
// engine: first the order in which the mux logged "processing request" (= lock-acquisition order when ServeHTTP is
// lock-wrapped: O(N)), and if that order does not explain the outcome a memoised search over all orders of the writes
// (readers are placed greedily).  No timing assumptions: nothing is expected of WHICH interleaving happens.
//
// A Go runtime fatal error ("concurrent map writes" ...) cannot be recovered: before each trial a `begin` line with the
// request multiset is flushed, so that tools/props/C16.py can report the trial in flight when the process dies.

import (
	"context"
	"encoding/json"
	"fmt"
	"io"
	"net/http"
	"net/http/httptest"
	"net/http/httptrace"
	"os"
	"runtime"
	"sort"
	"strconv"
	"strings"
	"sync"
	"sync/atomic"
	"time"

	api "github.com/LindsayBradford/crem/cmd/cremengine/engine/api"
	"github.com/LindsayBradford/crem/internal/pkg/server"
	"github.com/LindsayBradford/crem/pkg/logging/loggers"
	"github.com/LindsayBradford/crem/pkg/threading"
)

func init() { register("C16", runC16) }

const c16Watchdog = 20 * time.Second

const (
	c16ApiDir      = "cmd/cremengine/engine/api"
	c16ScenarioRel = "testdata/ValidTestScenario.toml"
	c16Base        = "/api/v1"
)

var c16ActionTypes = []string{"GullyRestoration", "HillSlopeRestoration", "RiverBankRestoration", "WetlandsEstablishment"}

type c16Action struct {
	PU   int
	Type string
}

// ---- logger that records the order in which the mux started to process requests ----

type c16Logger struct {
	loggers.NullLogger
	n     int64
	order [64]string
}

func (l *c16Logger) Info(message interface{}) {
	s, ok := message.(string)
	if !ok || !strings.Contains(s, "multiplexer processing request") {
		return
	}
	i := strings.LastIndex(s, "from [")
	if i < 0 {
		return
	}
	who := strings.TrimSuffix(s[i+len("from ["):], "].")
	k := atomic.AddInt64(&l.n, 1) - 1
	if int(k) < len(l.order) {
		l.order[k] = who
	}
}

func (l *c16Logger) reset() { atomic.StoreInt64(&l.n, 0) }

// ---- engine instances ----

type c16Engine struct {
	mux   *api.Mux
	log   *c16Logger
	alias sync.Map // socket address -> client name (loop-back server variant)
}

var c16ScenarioText string

func c16NewEngine() *c16Engine {
	ch := threading.GetMainThreadChannel()
	lg := new(c16Logger)
	m := new(api.Mux).Initialise().WithMainThreadChannel(&ch)
	m.SetLogger(lg)
	e := &c16Engine{mux: m, log: lg}
	st, _ := e.do(c16Req{Method: "POST", Path: c16Base + "/scenario", CT: "application/toml", Body: c16ScenarioText}, "setup")
	if st != 200 {
		panic("C16: the scenario fixture was not accepted: status " + strconv.Itoa(st))
	}
	return e
}

type c16Req struct {
	Kind   string   `json:"k"` // set | rep | get | noop  (abstract form for the Coq model)
	Method string   `json:"method"`
	Path   string   `json:"path"`
	CT     string   `json:"ct,omitempty"`
	Body   string   `json:"body,omitempty"`
	Sets   [][2]int `json:"sets,omitempty"`  // set: (action index, 0/1) in application order
	Flags  []int    `json:"flags,omitempty"` // rep: the whole action set
	Idxs   []int    `json:"idxs,omitempty"`  // get: which actions the response shows
	Gone   int      `json:"gone,omitempty"`  // the client goes away: 1 = its context is already cancelled when the request is served, 2 = cancelled shortly after (the engine's handlers do not look at the context: the request is served all the same)
	Class  string   `json:"class"`
}

func (e *c16Engine) do(r c16Req, who string) (status int, body string) {
	req := httptest.NewRequest(r.Method, "http://engine"+r.Path, strings.NewReader(r.Body))
	req.RemoteAddr = who
	if r.CT != "" {
		req.Header.Add("Content-Type", r.CT)
	}
	if r.Gone != 0 {
		ctx, cancel := context.WithCancel(req.Context())
		defer cancel()
		req = req.WithContext(ctx)
		if r.Gone == 1 {
			cancel()
		} else {
			go func() { time.Sleep(20 * time.Microsecond); cancel() }()
		}
	}
	w := httptest.NewRecorder()
	e.mux.ServeHTTP(w, req)
	return w.Code, w.Body.String()
}

// ---- canonical responses: timestamps dropped, map-order-dependent lists sorted ----

func c16Canon(v interface{}, key string) interface{} {
	switch x := v.(type) {
	case map[string]interface{}:
		out := map[string]interface{}{}
		for k, e := range x {
			if k == "Time" {
				continue
			}
			out[k] = c16Canon(e, k)
		}
		return out
	case []interface{}:
		out := make([]interface{}, len(x))
		allStr := true
		for i, e := range x {
			out[i] = c16Canon(e, key)
			if _, ok := out[i].(string); !ok {
				allStr = false
			}
		}
		if allStr {
			sort.Slice(out, func(i, j int) bool { return out[i].(string) < out[j].(string) })
		} else {
			// lists of {Name, Value} objects (attributes, subcatchment state): order by their JSON text
			sort.SliceStable(out, func(i, j int) bool {
				a, _ := json.Marshal(out[i])
				b, _ := json.Marshal(out[j])
				return string(a) < string(b)
			})
		}
		return out
	}
	return v
}

func c16CanonBody(status int, body string) string {
	var v interface{}
	if err := json.Unmarshal([]byte(body), &v); err != nil {
		return strconv.Itoa(status) + " RAW " + body
	}
	b, _ := json.Marshal(c16Canon(v, ""))
	return strconv.Itoa(status) + " " + string(b)
}

// ---- the action universe (canonical order: by planning unit, then type) ----

var (
	c16Actions []c16Action
	c16Index   = map[c16Action]int{}
	c16PUs     []int
)

func c16Discover() {
	e := c16NewEngine()
	_, body := e.do(c16Req{Method: "GET", Path: c16Base + "/model/actions/applicable"}, "setup")
	var v struct {
		ApplicableActions map[string][]string
	}
	if err := json.Unmarshal([]byte(body), &v); err != nil || len(v.ApplicableActions) == 0 {
		panic("C16: cannot read the applicable actions of the fixture: " + body)
	}
	for pu, types := range v.ApplicableActions {
		n, _ := strconv.Atoi(pu)
		c16PUs = append(c16PUs, n)
		for _, t := range types {
			c16Actions = append(c16Actions, c16Action{n, t})
		}
	}
	sort.Ints(c16PUs)
	sort.Slice(c16Actions, func(i, j int) bool {
		if c16Actions[i].PU != c16Actions[j].PU {
			return c16Actions[i].PU < c16Actions[j].PU
		}
		return c16Actions[i].Type < c16Actions[j].Type
	})
	for i, a := range c16Actions {
		c16Index[a] = i
	}
}

func c16FlagsFromActive(m map[string][]string) []int {
	fl := make([]int, len(c16Actions))
	for pu, types := range m {
		n, _ := strconv.Atoi(pu)
		for _, t := range types {
			if i, ok := c16Index[c16Action{n, t}]; ok {
				fl[i] = 1
			}
		}
	}
	return fl
}

// flags shown by a read response (nil when the response is not a 200 read)
func c16FlagsOfResponse(r c16Req, status int, body string) []int {
	if r.Kind != "get" || status != 200 {
		return nil
	}
	switch {
	case strings.Contains(r.Path, "/subcatchment/"):
		var v []struct {
			Name  string
			Value string
		}
		if json.Unmarshal([]byte(body), &v) != nil {
			return nil
		}
		pu, _ := strconv.Atoi(r.Path[strings.LastIndex(r.Path, "/")+1:])
		fl := make([]int, len(r.Idxs))
		for _, nv := range v {
			gi, ok := c16Index[c16Action{pu, nv.Name}]
			if !ok {
				continue
			}
			for k, idx := range r.Idxs {
				if idx == gi && nv.Value == "Active" {
					fl[k] = 1
				}
			}
		}
		return fl
	case strings.HasSuffix(r.Path, "/applicable"):
		return []int{}
	default:
		var v struct {
			ActiveManagementActions map[string][]string
		}
		if json.Unmarshal([]byte(body), &v) != nil {
			return nil
		}
		all := c16FlagsFromActive(v.ActiveManagementActions)
		fl := make([]int, len(r.Idxs))
		for k, idx := range r.Idxs {
			fl[k] = all[idx]
		}
		return fl
	}
}

func (e *c16Engine) finalState() (canon string, flags []int) {
	st, body := e.do(c16Req{Method: "GET", Path: c16Base + "/model"}, "final")
	canon = c16CanonBody(st, body)
	var v struct {
		ActiveManagementActions map[string][]string
	}
	json.Unmarshal([]byte(body), &v)
	flags = c16FlagsFromActive(v.ActiveManagementActions)
	st2, body2 := e.do(c16Req{Method: "GET", Path: c16Base + "/model/actions/active"}, "final")
	canon += " || " + c16CanonBody(st2, body2)
	st3, body3 := e.do(c16Req{Method: "GET", Path: c16Base + "/scenario"}, "final")
	canon += " || " + strconv.Itoa(st3) + " " + strconv.Itoa(len(body3))
	return
}

// ---- request generators ----

func c16AllIdxs() []int {
	r := make([]int, len(c16Actions))
	for i := range r {
		r[i] = i
	}
	return r
}

func c16IdxsOfPU(pu int) []int {
	var r []int
	for i, a := range c16Actions {
		if a.PU == pu {
			r = append(r, i)
		}
	}
	return r
}

func c16PutSub(p *prng, pu int) c16Req {
	idxs := c16IdxsOfPU(pu)
	// a non-empty random subset of this unit's actions, random values, in random order
	var chosen []int
	for _, i := range idxs {
		if p.chance(0.6) {
			chosen = append(chosen, i)
		}
	}
	if len(chosen) == 0 {
		chosen = []int{idxs[p.intn(len(idxs))]}
	}
	for i := len(chosen) - 1; i > 0; i-- {
		j := p.intn(i + 1)
		chosen[i], chosen[j] = chosen[j], chosen[i]
	}
	type nv struct {
		Name  string
		Value string
	}
	var body []nv
	vals := map[int]int{}
	for _, i := range chosen {
		b := p.intn(2)
		vals[i] = b
		val := "Inactive"
		if b == 1 {
			val = "Active"
		}
		body = append(body, nv{c16Actions[i].Type, val})
	}
	// the handler walks the MODEL's actions of this unit and applies the matching entry: the order of application is the
	// model's, not the body's; every chosen action is distinct, so any order gives the same sets.
	var sets [][2]int
	for _, i := range idxs {
		if b, ok := vals[i]; ok {
			sets = append(sets, [2]int{i, b})
		}
	}
	bs, _ := json.Marshal(body)
	return c16Req{Kind: "set", Method: "PUT", Path: fmt.Sprintf("%s/model/subcatchment/%d", c16Base, pu), CT: "application/json",
		Body: string(bs), Sets: sets, Class: "put-subcatchment"}
}

func c16PutSubRejected(p *prng) c16Req {
	// an action type the unit does not offer: 400, nothing changes
	for {
		pu := c16PUs[p.intn(len(c16PUs))]
		t := c16ActionTypes[p.intn(len(c16ActionTypes))]
		if _, ok := c16Index[c16Action{pu, t}]; ok {
			continue
		}
		body := fmt.Sprintf(`[{"Name":%q,"Value":"Active"}]`, t)
		return c16Req{Kind: "noop", Method: "PUT", Path: fmt.Sprintf("%s/model/subcatchment/%d", c16Base, pu), CT: "application/json",
			Body: body, Class: "put-subcatchment-rejected"}
	}
}

// A request on which the handler itself panics today (non-string action value: `entry.Value.(string)` in
// syntaxCheckPostedAttributes, before anything is changed).  It probes that the mutex is released when a handler panics:
// with a non-deferred Unlock every later request would block for ever.  Whether it (still) panics is established on a
// fresh engine at start-up; if it answers 400 instead it is used as an ordinary rejected write, otherwise not at all.
var c16ProbeKind = "" // "panic" | "noop" | ""

func c16ProbeReq(pu int) c16Req {
	return c16Req{Kind: c16ProbeKind, Method: "PUT", Path: fmt.Sprintf("%s/model/subcatchment/%d", c16Base, pu), CT: "application/json",
		Body: `[{"Name":"RiverBankRestoration","Value":5}]`, Class: "put-subcatchment-nonstring-value(" + c16ProbeKind + ")"}
}

func c16ClassifyProbe() {
	e := c16NewEngine()
	c16ProbeKind = "noop"
	var st int
	panicked, _ := protect(func() { st, _ = e.do(c16ProbeReq(c16PUs[0]), "setup") })
	switch {
	case panicked:
		c16ProbeKind = "panic"
	case st == 400:
		c16ProbeKind = "noop"
	default:
		c16ProbeKind = ""
	}
}

func c16PutTable(p *prng, full bool) c16Req {
	var sb strings.Builder
	sb.WriteString("SubCatchment, " + strings.Join(c16ActionTypes, ", ") + "\n")
	var sets [][2]int
	for _, pu := range c16PUs {
		if !full && p.chance(0.5) {
			continue
		}
		row := []string{strconv.Itoa(pu)}
		for _, t := range c16ActionTypes {
			b := 0
			if i, ok := c16Index[c16Action{pu, t}]; ok {
				b = p.intn(2)
				sets = append(sets, [2]int{i, b})
			}
			row = append(row, strconv.Itoa(b))
		}
		sb.WriteString(strings.Join(row, ", ") + "\n")
	}
	class := "put-table-partial"
	if full {
		class = "put-table-full"
	}
	if len(sets) == 0 {
		return c16PutTable(p, true)
	}
	return c16Req{Kind: "set", Method: "PUT", Path: c16Base + "/model/actions/active", CT: "text/csv", Body: sb.String(), Sets: sets, Class: class}
}

type c16Enc struct {
	Enc   string
	Flags []int
}

var c16Encodings []c16Enc

// valid encodings are taken from the engine itself: put a random table, read the model's Encoding attribute
func c16MakeEncodings(p *prng, n int) {
	e := c16NewEngine()
	for k := 0; k < n; k++ {
		e.do(c16PutTable(p, true), "setup")
		_, body := e.do(c16Req{Method: "GET", Path: c16Base + "/model"}, "setup")
		var v struct {
			ActiveManagementActions map[string][]string
			Attributes              []struct {
				Name  string
				Value interface{}
			}
		}
		if json.Unmarshal([]byte(body), &v) != nil {
			panic("C16: cannot read the model")
		}
		for _, a := range v.Attributes {
			if s, ok := a.Value.(string); ok && a.Name == "Encoding" {
				c16Encodings = append(c16Encodings, c16Enc{s, c16FlagsFromActive(v.ActiveManagementActions)})
			}
		}
	}
	if len(c16Encodings) == 0 {
		panic("C16: the model reports no Encoding attribute")
	}
}

func c16Patch(p *prng) c16Req {
	e := c16Encodings[p.intn(len(c16Encodings))]
	body := fmt.Sprintf(`[{"Name":"Encoding","Value":%q}]`, e.Enc)
	return c16Req{Kind: "rep", Method: "PATCH", Path: c16Base + "/model", CT: "application/json", Body: body, Flags: e.Flags, Class: "patch-encoding"}
}

func c16Read(p *prng) c16Req {
	switch p.intn(4) {
	case 0:
		return c16Req{Kind: "get", Method: "GET", Path: c16Base + "/model", Idxs: c16AllIdxs(), Class: "get-model"}
	case 1:
		return c16Req{Kind: "get", Method: "GET", Path: c16Base + "/model/actions/active", Idxs: c16AllIdxs(), Class: "get-active"}
	case 2:
		pu := c16PUs[p.intn(len(c16PUs))]
		return c16Req{Kind: "get", Method: "GET", Path: fmt.Sprintf("%s/model/subcatchment/%d", c16Base, pu), Idxs: c16IdxsOfPU(pu), Class: "get-subcatchment"}
	default:
		return c16Req{Kind: "get", Method: "GET", Path: c16Base + "/model/actions/applicable", Idxs: []int{}, Class: "get-applicable"}
	}
}

// one batch of N requests; mode decides how much the writes conflict
func c16Batch(p *prng, n int, noProbe bool) ([]c16Req, string) {
	mode := []string{"commuting", "conflicting", "mixed", "write-heavy"}[p.intn(4)]
	reqs := make([]c16Req, 0, n)
	perm := make([]int, len(c16PUs))
	for i := range perm {
		perm[i] = i
	}
	for i := len(perm) - 1; i > 0; i-- {
		j := p.intn(i + 1)
		perm[i], perm[j] = perm[j], perm[i]
	}
	hot := c16PUs[perm[0]]
	for k := 0; k < n; k++ {
		var r c16Req
		switch mode {
		case "commuting": // writers on pairwise different subcatchments, plus readers
			if k < len(perm) && p.chance(0.7) {
				r = c16PutSub(p, c16PUs[perm[k]])
			} else {
				r = c16Read(p)
			}
		case "conflicting": // writers on the same subcatchment / whole-model writers
			switch p.intn(5) {
			case 0, 1:
				r = c16PutSub(p, hot)
			case 2:
				r = c16Patch(p)
			case 3:
				r = c16PutTable(p, p.chance(0.5))
			default:
				r = c16Read(p)
			}
		case "write-heavy":
			switch p.intn(4) {
			case 0:
				r = c16PutSub(p, c16PUs[p.intn(len(c16PUs))])
			case 1:
				r = c16Patch(p)
			case 2:
				r = c16PutTable(p, true)
			default:
				r = c16PutTable(p, false)
			}
		default:
			switch p.intn(8) {
			case 0, 1:
				r = c16PutSub(p, c16PUs[p.intn(len(c16PUs))])
			case 2:
				r = c16Patch(p)
			case 3:
				r = c16PutTable(p, p.chance(0.5))
			case 4:
				r = c16PutSubRejected(p)
			default:
				r = c16Read(p)
			}
		}
		if c16ProbeKind != "" && !noProbe && p.chance(0.06) {
			r = c16ProbeReq(c16PUs[p.intn(len(c16PUs))])
		}
		if p.chance(0.12) {
			r.Gone = 1 + p.intn(2)
		}
		reqs = append(reqs, r)
	}
	return reqs, mode
}

// ---- running ----

type c16Outcome struct {
	Resp   []string // canonical response per request
	Status []int
	Flags  [][]int // flags shown by read responses
	Final  string
	FinalF []int
	Panics []string
}

func c16Flush() { out.Flush() }

func c16Who(i int) string { return "client-" + strconv.Itoa(i) }

type c16Doer func(e *c16Engine, r c16Req, who string) (int, string)

func c16Direct(e *c16Engine, r c16Req, who string) (int, string) { return e.do(r, who) }

func c16Concurrent(e *c16Engine, prefix []c16Req, reqs []c16Req, doer c16Doer) (c16Outcome, []int) {
	for _, r := range prefix {
		e.do(r, "prefix")
	}
	e.log.reset()
	n := len(reqs)
	out := c16Outcome{Resp: make([]string, n), Status: make([]int, n), Flags: make([][]int, n), Panics: make([]string, n)}
	start := make(chan struct{})
	var wg sync.WaitGroup
	for i := range reqs {
		wg.Add(1)
		go func(i int) {
			defer wg.Done()
			<-start
			var st int
			var body string
			panicked, what := protect(func() { st, body = doer(e, reqs[i], c16Who(i)) })
			if panicked {
				out.Panics[i] = what
				out.Resp[i] = "PANIC " + what
				return
			}
			out.Status[i] = st
			out.Resp[i] = c16CanonBody(st, body)
			out.Flags[i] = c16FlagsOfResponse(reqs[i], st, body)
		}(i)
	}
	close(start)
	joined := make(chan struct{})
	go func() { wg.Wait(); close(joined) }()
	select {
	case <-joined:
	case <-time.After(c16Watchdog):
		// not a timing assumption about the schedule: a batch takes milliseconds; this only turns a wedged mux into a report
		emit(J{"kind": "oracle", "what": "requests still blocked " + c16Watchdog.String() + " after the batch was released (mutex never released / deadlock)",
			"prefix": prefix, "requests": reqs})
		c16Flush()
		os.Exit(0)
	}
	// the order in which the mux logged the receipt of the requests
	k := int(atomic.LoadInt64(&e.log.n))
	var order []int
	seen := map[int]bool{}
	for j := 0; j < k && j < len(e.log.order); j++ {
		w := e.log.order[j]
		if a, ok := e.alias.Load(w); ok {
			w = a.(string)
		}
		if strings.HasPrefix(w, "client-") {
			if id, err := strconv.Atoi(strings.TrimPrefix(w, "client-")); err == nil && id < n && !seen[id] {
				seen[id] = true
				order = append(order, id)
			}
		}
	}
	out.Final, out.FinalF = e.finalState()
	return out, order
}

// serial replay of `order` (indices into reqs) on a fresh engine
func c16Serial(prefix []c16Req, reqs []c16Req, order []int) c16Outcome {
	e := c16NewEngine()
	for _, r := range prefix {
		e.do(r, "prefix")
	}
	n := len(reqs)
	out := c16Outcome{Resp: make([]string, n), Status: make([]int, n), Flags: make([][]int, n), Panics: make([]string, n)}
	for _, i := range order {
		var st int
		var body string
		panicked, what := protect(func() { st, body = e.do(reqs[i], c16Who(i)) })
		if panicked {
			out.Panics[i] = what
			out.Resp[i] = "PANIC " + what
			continue
		}
		out.Status[i] = st
		out.Resp[i] = c16CanonBody(st, body)
		out.Flags[i] = c16FlagsOfResponse(reqs[i], st, body)
	}
	out.Final, out.FinalF = e.finalState()
	return out
}

func c16Same(a, b c16Outcome) bool {
	if a.Final != b.Final || len(a.Resp) != len(b.Resp) {
		return false
	}
	for i := range a.Resp {
		if a.Resp[i] != b.Resp[i] {
			return false
		}
	}
	return true
}

func c16IsPerm(order []int, n int) bool {
	if len(order) != n {
		return false
	}
	seen := make([]bool, n)
	for _, i := range order {
		if i < 0 || i >= n || seen[i] {
			return false
		}
		seen[i] = true
	}
	return true
}

// c16Search: is there ANY serial order explaining the observed outcome?  Readers that match the current state are placed
// at once (they do not change it); writers are branched over; (set of placed requests, resource state) is memoised.
func c16Search(prefix []c16Req, reqs []c16Req, obs c16Outcome, budget *int) (found bool, order []int, exhausted bool) {
	n := len(reqs)
	visited := map[string]bool{}
	var rec func(placed []int) bool
	rec = func(placed []int) bool {
		if *budget <= 0 {
			exhausted = true
			return false
		}
		*budget--
		// replay the placed prefix on a fresh engine, checking every response
		e := c16NewEngine()
		for _, r := range prefix {
			e.do(r, "prefix")
		}
		in := make([]bool, n)
		for _, i := range placed {
			in[i] = true
			var st int
			var body string
			panicked, what := protect(func() { st, body = e.do(reqs[i], c16Who(i)) })
			got := c16CanonBody(st, body)
			if panicked {
				got = "PANIC " + what
			}
			if got != obs.Resp[i] {
				return false
			}
		}
		// place every reader that matches now
		for progress := true; progress; {
			progress = false
			for i := 0; i < n; i++ {
				if in[i] || reqs[i].Method != "GET" {
					continue
				}
				st, body := e.do(reqs[i], c16Who(i))
				if c16CanonBody(st, body) == obs.Resp[i] {
					in[i] = true
					placed = append(placed, i)
					progress = true
				}
			}
		}
		final, _ := e.finalState()
		if len(placed) == n {
			if final == obs.Final {
				order = append([]int{}, placed...)
				return true
			}
			return false
		}
		key := fmt.Sprint(in) + final
		if visited[key] {
			return false
		}
		visited[key] = true
		for i := 0; i < n; i++ {
			if in[i] || reqs[i].Method == "GET" {
				continue
			}
			next := append(append([]int{}, placed...), i)
			if rec(next) {
				return true
			}
		}
		return false
	}
	found = rec(nil)
	return
}

// ---- loop-back server variant (thorough): the same batch through real sockets and net/http's own goroutines ----

func c16ViaServer(base string, alias *sync.Map) c16Doer {
	// one connection per request (no keep-alive), so that the socket's local address -- which is what the mux logs as
	// RemoteAddr -- identifies the client
	client := &http.Client{Transport: &http.Transport{DisableKeepAlives: true}}
	return func(e *c16Engine, r c16Req, who string) (int, string) {
		req, err := http.NewRequest(r.Method, base+r.Path, strings.NewReader(r.Body))
		if err != nil {
			panic(err)
		}
		if r.CT != "" {
			req.Header.Add("Content-Type", r.CT)
		}
		trace := &httptrace.ClientTrace{GotConn: func(info httptrace.GotConnInfo) {
			alias.Store(info.Conn.LocalAddr().String(), who)
		}}
		req = req.WithContext(httptrace.WithClientTrace(req.Context(), trace))
		resp, err := client.Do(req)
		if err != nil {
			panic(err)
		}
		defer resp.Body.Close()
		b, _ := io.ReadAll(resp.Body)
		return resp.StatusCode, string(b)
	}
}

// ---- driver ----

// c16CrossMux: the status handler is registered on the API multiplexer AND on the admin multiplexer
// (RestServer.WithApiMux), i.e. it runs under two different request locks.  The responses carry only a status word and a
// timestamp, so nothing but the race detector can observe the unsynchronised access: this mode is run by the -race
// variant of the thorough tier only.
func c16CrossMux() {
	ch := threading.GetMainThreadChannel()
	apiMux := new(api.Mux).Initialise().WithMainThreadChannel(&ch)
	rs := new(server.RestServer).Initialise().WithApiMux(apiMux).WithLogger(loggers.NewNullLogger())
	adminMux := rs.VerifC16AdminMux()
	emit(J{"kind": "begin", "trial": 0, "mode": "cross-mux-status", "requests": []J{
		{"method": "GET", "path": "/", "port": "api"}, {"method": "GET", "path": "/status", "port": "admin"}}})
	c16Flush()
	bad := int64(0)
	var wg sync.WaitGroup
	start := make(chan struct{})
	const pairs = 300
	for k := 0; k < pairs; k++ {
		wg.Add(2)
		go func() {
			defer wg.Done()
			<-start
			w := httptest.NewRecorder()
			apiMux.ServeHTTP(w, httptest.NewRequest("GET", "http://engine/", nil))
			if w.Code != 200 {
				atomic.AddInt64(&bad, 1)
			}
		}()
		go func() {
			defer wg.Done()
			<-start
			w := httptest.NewRecorder()
			adminMux.ServeHTTP(w, httptest.NewRequest("GET", "http://engine/status", nil))
			if w.Code != 200 {
				atomic.AddInt64(&bad, 1)
			}
		}()
	}
	close(start)
	wg.Wait()
	if bad != 0 {
		emit(J{"kind": "oracle", "what": "status request answered with an error under concurrent use of both ports", "probe": "cross-mux-status", "count": bad})
	}
	emit(J{"kind": "stat", "stats": map[string]int{"cross_mux_status_pairs": pairs}})
}

// c16StatusWriteVsRead: the status resource is read (and time-stamped) by GET / on the API port and GET /status on the
// admin port, and written by SetStatus (main goroutine: boot, shutdown) -- three parties under three different locks
// plus the status lock.  Whatever the order, a status written by SetStatus is what the resource says once everything has
// returned (a read does not change the status word): every one-at-a-time ordering ends that way.
func c16StatusWriteVsRead(trials int) {
	ch := threading.GetMainThreadChannel()
	apiMux := new(api.Mux).Initialise().WithMainThreadChannel(&ch)
	rs := new(server.RestServer).Initialise().WithApiMux(apiMux).WithLogger(loggers.NewNullLogger())
	adminMux := rs.VerifC16AdminMux()
	lost := []J{}
	for k := 0; k < trials; k++ {
		want := fmt.Sprintf("STATE_%d", k)
		var wg sync.WaitGroup
		var ready int32
		spin := func() {
			atomic.AddInt32(&ready, 1)
			for atomic.LoadInt32(&ready) < 3 {
			}
		}
		wg.Add(3)
		go func() {
			defer wg.Done()
			spin()
			apiMux.ServeHTTP(httptest.NewRecorder(), httptest.NewRequest("GET", "http://engine/", nil))
		}()
		go func() {
			defer wg.Done()
			spin()
			adminMux.ServeHTTP(httptest.NewRecorder(), httptest.NewRequest("GET", "http://engine/status", nil))
		}()
		go func() {
			defer wg.Done()
			spin()
			adminMux.SetStatus(want)
		}()
		wg.Wait()
		w := httptest.NewRecorder()
		adminMux.ServeHTTP(w, httptest.NewRequest("GET", "http://engine/status", nil))
		var doc struct{ Status string }
		json.Unmarshal(w.Body.Bytes(), &doc)
		if doc.Status != want && len(lost) < 3 {
			lost = append(lost, J{"trial": k, "status_set": want, "status_served_afterwards": doc.Status})
		}
	}
	if len(lost) > 0 {
		emit(J{"kind": "oracle", "what": "a status written while status requests were in flight on the two ports was lost: once all had returned the resource showed an older status, which no one-at-a-time ordering produces",
			"probe": "status-write-vs-read", "requests": []J{{"method": "GET", "path": "/", "port": "api"}, {"method": "GET", "path": "/status", "port": "admin"}, {"call": "SetStatus"}}, "lost": lost})
	}
	emit(J{"kind": "stat", "stats": map[string]int{"status_write_vs_read_trials": trials}})
}

func runC16(args []string) {
	tier := "quick"
	if len(args) > 0 {
		tier = args[0]
	}
	if tier == "crossmux" {
		c16CrossMux()
		return
	}
	if err := os.Chdir(c16ApiDir); err != nil {
		panic("C16: cannot chdir to " + c16ApiDir + " (run from the repository root): " + err.Error())
	}
	b, err := os.ReadFile(c16ScenarioRel)
	if err != nil {
		panic(err)
	}
	c16ScenarioText = string(b)
	c16Discover()
	c16ClassifyProbe()
	p := newPrng(0xC16)
	c16MakeEncodings(p, 24)

	trials, serverTrials := 260, 0
	if tier == "thorough" {
		trials, serverTrials = 6000, 400
	}
	if tier == "thorough" {
		c16StatusWriteVsRead(300000)
	} else {
		c16StatusWriteVsRead(40000)
	}
	if v := os.Getenv("VERIF_C16_TRIALS"); v != "" {
		trials, _ = strconv.Atoi(v)
	}
	if v := os.Getenv("VERIF_C16_SERVER_TRIALS"); v != "" {
		serverTrials, _ = strconv.Atoi(v)
	}
	stats := map[string]int{"gomaxprocs": runtime.GOMAXPROCS(0), "actions": len(c16Actions), "planning_units": len(c16PUs)}
	distinct := map[string]bool{}
	searchBudgetTotal := 4000
	if tier == "thorough" {
		searchBudgetTotal = 60000
	}

	runTrial := func(t int, viaServer bool) {
		n := 2 + p.intn(7) // 2..8 clients
		reqs, mode := c16Batch(p, n, viaServer)
		var prefix []c16Req
		if p.chance(0.5) {
			prefix = []c16Req{c16PutTable(p, true)}
		}
		emit(J{"kind": "begin", "trial": t, "mode": mode, "prefix": prefix, "requests": reqs, "via_server": viaServer})
		out.Flush()

		e := c16NewEngine()
		doer := c16Doer(c16Direct)
		var srv *httptest.Server
		if viaServer {
			srv = httptest.NewServer(e.mux)
			doer = c16ViaServer(srv.URL, &e.alias)
		}
		obs, order := c16Concurrent(e, prefix, reqs, doer)
		if srv != nil {
			srv.Close()
		}

		stats["trials"]++
		stats["clients_"+strconv.Itoa(n)]++
		stats["mode_"+mode]++
		writers := 0
		for _, r := range reqs {
			stats["req_"+r.Class]++
			if r.Method != "GET" {
				writers++
			}
		}
		stats["writers_"+strconv.Itoa(writers)]++
		for _, pn := range obs.Panics {
			if pn != "" {
				stats["panicking_requests"]++ // compared like any other outcome: the serial replay must panic in the same way
			}
		}

		explained := false
		var explainedBy []int
		hintOk := c16IsPerm(order, n)
		if hintOk {
			ser := c16Serial(prefix, reqs, order)
			if c16Same(obs, ser) {
				explained, explainedBy = true, order
				stats["explained_by_logged_order"]++
			}
		}
		if !explained {
			budget := 400
			if budget > searchBudgetTotal {
				budget = searchBudgetTotal
			}
			before := budget
			found, ord, exhausted := c16Search(prefix, reqs, obs, &budget)
			searchBudgetTotal -= before - budget
			stats["search_nodes"] += before - budget
			switch {
			case found:
				explained, explainedBy = true, ord
				stats["explained_by_search"]++
			case exhausted:
				stats["search_undecided"]++
			default:
				stats["not_serialisable"]++
				emit(J{"kind": "oracle", "what": "responses / final state equal those of NO serial order of the same requests",
					"trial": t, "mode": mode, "prefix": prefix, "requests": reqs, "logged_order": order,
					"observed_responses": obs.Resp, "observed_final": obs.Final})
			}
		}
		if !hintOk {
			stats["logged_order_unusable"]++
		}

		// case for the Coq model: the abstract requests, the order that explains the run, what the implementation answered
		if explained {
			init := make([]int, len(c16Actions))
			if len(prefix) > 0 {
				for _, s := range prefix[0].Sets {
					init[s[0]] = s[1]
				}
			}
			sched := make([]int, 0, 4*n)
			for k := 0; k < 4*n; k++ {
				sched = append(sched, p.intn(n))
			}
			resp := make([]J, n)
			for i := range reqs {
				resp[i] = J{"st": obs.Status[i], "flags": obs.Flags[i]}
			}
			emit(J{"kind": "case", "trial": t, "init": init, "reqs": reqs, "order": explainedBy, "logged": hintOk && c16IsPerm(order, n) && fmt.Sprint(order) == fmt.Sprint(explainedBy),
				"resp": resp, "final": obs.FinalF, "sched": sched})
			sig, _ := json.Marshal([]interface{}{init, reqs})
			distinct[string(sig)] = true
		}
	}

	for t := 0; t < trials; t++ {
		runTrial(t, false)
	}
	for t := 0; t < serverTrials; t++ {
		runTrial(trials+t, true)
	}
	stats["distinct_batches"] = len(distinct)
	emit(J{"kind": "stat", "stats": stats})
}
