//go:build verif

// C02 / C10 / C11: (state, action, decision) transactions on the REAL catchment model.
// One case = start set (bits), proposed action, decision; observed: observables before / while
// proposed / after, the reported per-variable changes, the validity verdict and the value quoted in
// the rejection reason.  Implementation-side oracles evaluate each property directly.
package main

import (
	"encoding/json"
	"fmt"
	"math"
	"regexp"
	"strconv"
	"strings"

	"github.com/LindsayBradford/crem/internal/pkg/annealing/solution"
	solcsv "github.com/LindsayBradford/crem/internal/pkg/annealing/solution/encoding/csv"
	soljson "github.com/LindsayBradford/crem/internal/pkg/annealing/solution/encoding/json"
	"github.com/LindsayBradford/crem/internal/pkg/model"
	"github.com/LindsayBradford/crem/internal/pkg/model/archive"
	"github.com/LindsayBradford/crem/internal/pkg/model/models/catchment"
	"github.com/LindsayBradford/crem/internal/pkg/parameters"
)

func init() {
	register("C02", func(a []string) {
		if c02dumbWanted(a) { // second stream of C02: the toy models dumb / modumb (c02dumb.go)
			c02dumbMain(a)
			return
		}
		runTx("C02", a)
	})
	register("C10", func(a []string) { runTx("C10", a) })
	register("C11", func(a []string) { runTx("C11", a) })
}

// data set name -> path of its meta file ("PERMUTED:<path>" = the row-permuted variant in a temp directory)
var txPermutedPath string
var txGenerated = map[string]string{}

func txPath(ds string) string {
	if ds == "PERMUTED" {
		return txPermutedPath
	}
	if p, ok := txGenerated[ds]; ok {
		return p
	}
	return catchTestdata(ds)
}

// txAddGenerated creates n random data sets that the real loader accepts and returns their names
func txAddGenerated(p *prng, n int, stats map[string]int) (names []string, cleanup func()) {
	var cleanups []func()
	for tries := 0; len(names) < n && tries < 20*n; tries++ {
		path, cl, desc := catchGeneratedDataset(p)
		if _, ok := catchTryOpen(path); !ok {
			stats["generated_datasets_rejected_by_loader"]++
			cl()
			continue
		}
		name := "GEN" + strconv.Itoa(len(names))
		txGenerated[name] = path
		names = append(names, name)
		cleanups = append(cleanups, cl)
		stats["generated_datasets"]++
		stats["generated_planning_units"] += desc["planning_units"].(int)
		stats["generated_action_rows"] += desc["action_rows"].(int)
	}
	return names, func() {
		for _, c := range cleanups {
			c()
		}
	}
}

func txBits(p *prng, n int, density float64) []int {
	b := make([]int, n)
	for i := range b {
		if p.chance(density) {
			b[i] = 1
		}
	}
	return b
}

func txEncoding(c *catchInst) string {
	return new(archive.ModelCompressor).Compress(c.m).Encoding()
}

var txQuoteRe = regexp.MustCompile(`^(\S+) (-?[0-9,]+\.[0-9]+) > upper bound`)

// quote parsed from "Name 1,234.567000 > upper bound 1,000.000000" -> grid integer
func txParseQuote(text string, scale float64) (int64, bool) {
	m := txQuoteRe.FindStringSubmatch(text)
	if m == nil {
		return 0, false
	}
	f, err := strconv.ParseFloat(strings.Replace(m[2], ",", "", -1), 64)
	if err != nil {
		return 0, false
	}
	x := f * scale
	if x < 0 {
		return int64(x - 0.5), true
	}
	return int64(x + 0.5), true
}

func txAggregateOracle(c *catchInst, ds string, bits []int, where string, fails *int) {
	o := c.obs()
	totals := o["totals"].([]int64)
	vals := o["vals"].([][]int64)
	bad := ""
	for k := range catchVarNames {
		var s int64
		for _, v := range vals[k] {
			s += v
		}
		if s != totals[k] {
			bad = "total of " + catchVarNames[k] + " differs from the sum of its per-unit values"
		}
	}
	for j := range c.pus {
		if vals[3][j] != vals[1][j]+vals[2][j] {
			bad = "per-unit total nitrogen differs from particulate + dissolved"
		}
	}
	if totals[3] != totals[1]+totals[2] {
		bad = "total nitrogen differs from particulate + dissolved"
	}
	// the figures a solution file / the engine would carry
	sol := new(solution.SolutionBuilder).WithId("verif").ForModel(c.m).Build()
	for _, dv := range sol.DecisionVariables {
		k := -1
		for i, n := range catchVarNames {
			if n == dv.Name {
				k = i
			}
		}
		if k < 0 {
			continue
		}
		var s int64
		for _, pv := range dv.ValuePerPlanningUnit {
			s += c.grid(pv.Value, catchVarScale[k])
		}
		if s != c.grid(dv.Value, catchVarScale[k]) || c.grid(dv.Value, catchVarScale[k]) != totals[k] {
			bad = "solution figures of " + dv.Name + " inconsistent (value vs per-unit sum vs model)"
		}
	}
	// the detail-level solution file as the CSV marshaller writes it: "Name, Value, UnitOfMeasure, <unit columns>"
	var text []byte
	var err error
	if panicked, what := protect(func() { text, err = new(solcsv.DecisionVariableMarshaler).Marshal(sol) }); panicked {
		bad = "writing the detail-level CSV solution file panicked: " + what
		err = fmt.Errorf("panicked")
	}
	if err == nil {
		for li, line := range strings.Split(strings.TrimSpace(string(text)), "\n") {
			if li == 0 {
				continue
			}
			f := strings.Split(line, ", ")
			k := -1
			for i, n := range catchVarNames {
				if n == f[0] {
					k = i
				}
			}
			if k < 0 || len(f) != 3+len(c.pus) {
				bad = "CSV solution file row not understood: " + line
				continue
			}
			val, _ := strconv.ParseFloat(f[1], 64)
			var s int64
			for _, cell := range f[3:] {
				v, _ := strconv.ParseFloat(cell, 64)
				s += c.grid(v, catchVarScale[k])
			}
			if s != c.grid(val, catchVarScale[k]) || c.grid(val, catchVarScale[k]) != totals[k] {
				bad = "CSV solution file: " + f[0] + " value differs from the sum of its planning-unit columns (or from the model)"
			}
		}
	}
	// the same figures as the JSON marshaller writes them (detail-level JSON solution files, the engine's model and
	// solution resources): numbers are localised strings, zero shares are left out
	var jtext []byte
	var jerr error
	if panicked, what := protect(func() { jtext, jerr = new(soljson.Marshaler).Marshal(sol) }); panicked {
		bad = "writing the JSON solution panicked: " + what
		jerr = fmt.Errorf("panicked")
	}
	if jerr == nil {
		var doc struct {
			DecisionVariables []map[string]json.RawMessage
		}
		if e := json.Unmarshal(jtext, &doc); e != nil {
			bad = "JSON solution does not parse: " + e.Error()
		}
		num := func(raw string) (float64, bool) {
			clean := strings.Map(func(r rune) rune {
				if (r >= '0' && r <= '9') || r == '.' || r == '-' || r == 'e' || r == 'E' || r == '+' {
					return r
				}
				return -1
			}, raw)
			v, e := strconv.ParseFloat(clean, 64)
			return v, e == nil
		}
		seen := 0
		for _, dv := range doc.DecisionVariables {
			var name, value string
			json.Unmarshal(dv["Name"], &name)
			json.Unmarshal(dv["Value"], &value)
			k := -1
			for i, n := range catchVarNames {
				if n == name {
					k = i
				}
			}
			if k < 0 {
				continue
			}
			seen++
			val, ok := num(value)
			var s int64
			for key, raw := range dv {
				if !strings.HasPrefix(key, "ValuePer") {
					continue
				}
				var shares []map[string]string
				if e := json.Unmarshal(raw, &shares); e != nil {
					ok = false
				}
				for _, sh := range shares {
					v, okv := num(sh["Value"])
					ok = ok && okv
					s += c.grid(v, catchVarScale[k])
				}
			}
			if !ok || s != c.grid(val, catchVarScale[k]) || c.grid(val, catchVarScale[k]) != totals[k] {
				bad = "JSON solution: " + name + " value differs from the sum of its listed planning-unit shares (or from the model)"
			}
		}
		if seen != len(catchVarNames) && bad == "" {
			bad = "JSON solution does not carry every decision variable"
		}
	}
	if bad != "" {
		*fails++
		if *fails <= 5 {
			emit(J{"kind": "oracle", "what": bad, "dataset": ds, "bits": bits, "where": where, "obs": o})
		}
	}
}

func runTx(prop string, args []string) {
	tier := "quick"
	if len(args) > 0 {
		tier = args[0]
	}
	p := newPrng(202)
	permPath, permCleanup := catchPermutedDataset()
	defer permCleanup()
	txPermutedPath = permPath
	datasets := []string{"ValidModel.csv", "TestingModel.csv", "PERMUTED"}
	stats := map[string]int{}
	nGen := 3
	if tier == "thorough" {
		nGen = 20
	}
	genNames, genCleanup := txAddGenerated(p, nGen, stats)
	defer genCleanup()
	datasets = append(datasets, genNames...)
	fails := 0
	states := 12
	if tier == "thorough" {
		states = 60
	}
	for _, ds := range datasets {
		base := catchOpen(txPath(ds), nil)
		emit(base.export(ds))
		emit(J{"kind": "init", "dataset": ds, "obs": base.obs()})
		n := base.nact
		dsStates := states
		if strings.HasPrefix(ds, "GEN") {
			dsStates = states / 6 // generated data sets: fewer start sets each, many data sets
			if dsStates < 3 {
				dsStates = 3
			}
		}
		for st := 0; st < dsStates; st++ {
			bits := txBits(p, n, []float64{0.1, 0.5, 0.9}[st%3])
			for i := 0; i < n; i++ {
				if tier != "thorough" && p.intn(3) != 0 {
					continue
				}
				for dec := 0; dec < 3; dec++ {
					var prm parameters.Map
					limit := interface{}(nil)
					limVar := -1
					var limMax float64
					if prop == "C10" {
						// probe instance without limit: current and prospective totals of the chosen variable
						probe := catchOpen(txPath(ds), nil)
						probe.apply(catchOp{Op: "SYNC", Bits: bits})
						limVar = p.intn(6)
						cur := probe.perUnit(catchVarNames[limVar]).Value()
						probe.apply(catchOp{Op: "TA", I: i})
						nxt := probe.perUnit(catchVarNames[limVar]).Value()
						lo, hi := cur, nxt
						if lo > hi {
							lo, hi = hi, lo
						}
						half := 0.5 / catchVarScale[limVar]
						switch p.intn(4) {
						case 0:
							limMax = (cur + nxt) / 2 // strictly between (if they differ)
						case 1:
							limMax = lo - half // both above the limit
						case 2:
							limMax = hi + half // both within
						default:
							limMax = nxt - half // prospective value just above the limit
						}
						if limMax < 0 {
							limMax = half
						}
						// keep limits off the grid so that no comparison is within rounding distance
						if x := limMax * catchVarScale[limVar]; math.Abs(x-math.Round(x)) < 0.25 {
							limMax = (math.Round(x) + 0.5) / catchVarScale[limVar]
						}
						if limVar >= 4 && p.chance(0.15) {
							// the smallest legal limit, exactly 0, on a cost variable: costs sit on whole cents, so every value
							// is either exactly 0 or at least a cent away and the comparison is exact in float64 too
							limMax = 0
							stats["limit_exactly_zero"]++
						}
						prm = parameters.Map{catchLimitKeys[limVar]: limMax}
						limit = J{"var": limVar, "max": flOf(limMax)}
					}
					c := catchOpen(txPath(ds), prm)
					// the instance may already have a life behind it: it judged a change and was re-initialised, or it
					// is a clone of a used instance (what explorers, saver and engine do); the property quantifies over
					// all reachable states, and a fresh build must not be the only one exercised
					switch p.intn(3) {
					case 1:
						c.toggleObserved(p.intn(n))
						c.m.ChangeIsValid()
						c.m.RevertChange()
						c.m.Initialise(model.AsIs)
						stats["warm:reinitialised"]++
					case 2:
						c.toggleObserved(p.intn(n))
						c.m.ChangeIsValid()
						c.m.AcceptChange()
						clone := c.m.DeepClone().(*catchment.CoreModel)
						clone.Initialise(model.AsIs)
						c = &catchInst{m: clone, path: c.path, prm: c.prm, pus: clone.PlanningUnits(), nact: len(clone.ManagementActions())}
						stats["warm:clone-of-used"]++
					default:
						stats["warm:fresh"]++
					}
					// the start set is reached through a short random history first (proposals accepted and reverted, direct
					// sets), then pinned with a synchronise: by C01 the model's state for the set does not depend on it
					for w := p.intn(12); w > 0; w-- {
						j := p.intn(n)
						switch p.intn(4) {
						case 0:
							c.apply(catchOp{Op: "TR", I: j})
						case 1:
							c.apply(catchOp{Op: "SET", I: j, B: p.chance(0.5)})
						default:
							c.apply(catchOp{Op: "TA", I: j})
						}
						stats["history_ops_before_start_set"]++
					}
					c.apply(catchOp{Op: "SYNC", Bits: bits})
					before := c.obs()
					attrsBefore := c.allAttrs()
					encBefore := txEncoding(c)
					txAggregateOracle(c, ds, bits, "before", &fails)
					c.toggleObserved(i)
					during := c.obs()
					changes := make([]int64, 6)
					for k, name := range catchVarNames {
						changes[k] = c.grid(c.m.DecisionVariableChange(name), catchVarScale[k])
					}
					valid, verr := c.m.ChangeIsValid()
					quote := int64(0)
					hasQuote := false
					if !valid && verr != nil && limVar >= 0 {
						txt := verr.Error()
						if idx := strings.Index(txt, catchVarNames[limVar]+" "); idx >= 0 {
							quote, hasQuote = txParseQuote(txt[idx:], catchVarScale[limVar])
						}
					}
					switch dec {
					case 0:
						c.m.AcceptChange()
					case 1:
						c.m.RevertChange()
					default: // accept, then undo it again
						c.m.AcceptChange()
						c.m.RevertChange()
					}
					after := c.obs()
					encAfter := txEncoding(c)
					stateValid, _ := c.m.StateIsValid()
					txAggregateOracle(c, ds, bits, "after", &fails)
					emit(J{"kind": "case", "dataset": ds, "bits": bits, "i": i, "accept": dec == 0, "dec": dec, "limit": limit,
						"before": before, "during": during, "changes": changes, "valid": valid, "quote": quote, "has_quote": hasQuote,
						"after": after, "state_valid": stateValid})
					stats["cases"]++
					// ---- implementation-side oracles ----
					bad := ""
					bt, dt, at := before["totals"].([]int64), during["totals"].([]int64), after["totals"].([]int64)
					bv, dv, av := before["vals"].([][]int64), during["vals"].([][]int64), after["vals"].([][]int64)
					puOfAction := c.m.ManagementActions()[i].PlanningUnit()
					for k := range catchVarNames {
						if bt[k] != dt[k] {
							bad = "reported total changed while the change was only proposed"
						}
						if dec == 0 && at[k] != bt[k]+changes[k] {
							bad = "accept did not move " + catchVarNames[k] + " by the reported change"
						}
						if dec >= 1 && at[k] != bt[k] {
							bad = "revert did not restore the total of " + catchVarNames[k]
						}
						for j, pu := range c.pus {
							if bv[k][j] != dv[k][j] {
								bad = "per-unit value changed while the change was only proposed"
							}
							if dec >= 1 && av[k][j] != bv[k][j] {
								bad = "revert did not restore a per-unit value"
							}
							if dec == 0 && pu != puOfAction && av[k][j] != bv[k][j] {
								bad = "accepting a change altered a per-unit value outside the action's own planning unit"
							}
						}
					}
					if dec >= 1 && encAfter != encBefore {
						bad = "revert did not restore the solution encoding"
					}
					if dec >= 1 && !catchSameObs(attrsBefore, c.allAttrs()) {
						bad = "revert did not restore the hidden per-unit attributes (later valuations will be wrong)"
					}
					if dec >= 1 {
						ba, aa := before["active"].([]int), after["active"].([]int)
						for j := range ba {
							if ba[j] != aa[j] {
								bad = "revert did not restore the action states"
							}
						}
					}
					if limVar >= 0 {
						prospective := bt[limVar] + changes[limVar]
						within := float64(prospective)/catchVarScale[limVar] <= limMax
						if valid != within {
							bad = "validity verdict differs from (prospective value <= limit)"
						}
						if !valid && hasQuote && quote != prospective {
							bad = "value quoted in the rejection differs from the value the variable would take"
						}
						if !valid && !hasQuote {
							bad = "rejection reason does not quote the limited variable"
						}
						stats["c10_valid_"+strconv.FormatBool(valid)]++
					}
					if bad != "" {
						fails++
						if fails <= 5 {
							emit(J{"kind": "oracle", "what": bad, "dataset": ds, "bits": bits, "i": i, "accept": dec == 0, "dec": dec, "limit": limit,
								"before": before, "during": during, "changes": changes, "valid": valid, "quote": quote, "after": after})
						}
					}
				}
			}
		}
		stats["offgrid"] += base.offGrid
		if tier == "thorough" && !strings.HasPrefix(ds, "GEN") {
			txExhaustive(prop, ds, stats, &fails)
		}
	}
	stats["oracle_failures"] = fails
	emit(J{"kind": "stat", "stats": stats})
}

// txExhaustive: thorough tier, implementation-side only -- EVERY action set of the data set (Gray-code walk on one
// long-lived instance) x EVERY action: propose / revert and propose / accept / undo, with the C02 clauses checked
// on grid integers; for C10 additionally x each of the six limitable variables with the limit placed between the
// current and the prospective total (verdict and quoted value); for C11 the aggregates at every state.
func txExhaustive(prop, ds string, stats map[string]int, fails *int) {
	c := catchOpen(txPath(ds), nil)
	n := c.nact
	limit := 1 << uint(n)
	if limit > 1<<15 {
		limit = 1 << 15
	}
	type setMax interface{ SetMaximum(float64) }
	report := func(what string, k int, i int, extra J) {
		*fails++
		if *fails <= 5 {
			line := J{"kind": "oracle", "what": what + " (exhaustive sweep)", "dataset": ds, "bits": c03BitsOf(c), "gray_state": k, "i": i}
			for kk, v := range extra {
				line[kk] = v
			}
			emit(line)
		}
	}
	for k := 0; k < limit; k++ {
		if k > 0 {
			bit := 0
			for (k>>uint(bit))&1 == 0 {
				bit++
			}
			c.apply(catchOp{Op: "TA", I: bit})
		}
		if prop == "C11" {
			txAggregateOracle(c, ds, c03BitsOf(c), "exhaustive", fails)
			stats["exhaustive_states"]++
			continue
		}
		before := c.obs()
		bt, bv := before["totals"].([]int64), before["vals"].([][]int64)
		for i := 0; i < n; i++ {
			pu := c.m.ManagementActions()[i].PlanningUnit()
			// propose, look, revert
			c.toggleObserved(i)
			during := c.obs()
			changes := make([]int64, 6)
			for v, name := range catchVarNames {
				changes[v] = c.grid(c.m.DecisionVariableChange(name), catchVarScale[v])
			}
			if prop == "C10" {
				for v, name := range catchVarNames {
					prospective := bt[v] + changes[v]
					for _, lim := range []float64{(float64(prospective) + 0.5) / catchVarScale[v], (float64(prospective) - 0.5) / catchVarScale[v]} {
						c.m.ContainedDecisionVariables.Variable(name).(setMax).SetMaximum(lim)
						valid, verr := c.m.ChangeIsValid()
						within := float64(prospective)/catchVarScale[v] <= lim
						if valid != within {
							report("validity verdict differs from (prospective value <= limit)", k, i, J{"variable": name, "limit": lim, "prospective": prospective, "valid": valid})
						}
						if !valid {
							q, ok := txParseQuote(verr.Error()[strings.Index(verr.Error(), name+" "):], catchVarScale[v])
							if !ok || q != prospective {
								report("value quoted in the rejection differs from the value the variable would take", k, i, J{"variable": name, "quote": q, "prospective": prospective})
							}
						}
						stats["exhaustive_verdicts"]++
					}
					c.m.ContainedDecisionVariables.Variable(name).(setMax).SetMaximum(math.MaxFloat64)
				}
			}
			c.m.RevertChange()
			after := c.obs()
			if !catchSameObs(before["totals"], during["totals"]) || !catchSameObs(before["vals"], during["vals"]) {
				report("reported value changed while the change was only proposed", k, i, nil)
			}
			if !catchSameObs(before, after) {
				report("revert did not restore every observable", k, i, J{"before": before, "after": after})
			}
			// propose, accept, look, undo
			c.toggleObserved(i)
			c.m.AcceptChange()
			acc := c.obs()
			at, av := acc["totals"].([]int64), acc["vals"].([][]int64)
			for v := range catchVarNames {
				if at[v] != bt[v]+changes[v] {
					report("accept did not move "+catchVarNames[v]+" by the reported change", k, i, nil)
				}
				for j, p2 := range c.pus {
					if p2 != pu && av[v][j] != bv[v][j] {
						report("accepting a change altered a per-unit value outside the action's own planning unit", k, i, nil)
					}
				}
			}
			c.m.RevertChange()
			if !catchSameObs(before, c.obs()) {
				report("undoing an accepted change did not restore every observable", k, i, nil)
			}
			stats["exhaustive_transactions"] += 2
		}
	}
}

func c03BitsOf(c *catchInst) []int { return c03Bits(c) }
