// astfacts: stand-alone translator (stdlib go/ast + go/parser only, no crem imports).
//
// Reads the CURRENT source of the crem repository and regenerates
//   - coq/gen/Specs.v  : every component's parameter specification table (Key, Validator as a `vkind`,
//                        DefaultValue as a `value`, IsOptional), which Assign* variant the component calls,
//                        and every typed getter call site Get{Int64,Float64,String,Boolean}(Key) with the
//                        HasEntry guards that lexically enclose it;
//   - a JSON rendering of the same facts for the Go harness (value palette at the validators' bounds,
//                        independent oracle) and for the evidence file.
//
// A literal / function shape that is not recognised is a HARD ERROR (exit 3), never a silent skip.
package main

import (
	"encoding/json"
	"flag"
	"fmt"
	"go/ast"
	"go/parser"
	"go/token"
	"math"
	"math/big"
	"os"
	"path/filepath"
	"sort"
	"strconv"
	"strings"
)

const specPkgSuffix = "internal/pkg/parameters/specification"
const paramPkgSuffix = "internal/pkg/parameters"

type constInfo struct {
	name  string
	typ   ast.Expr // explicit or inherited type, may be nil
	value ast.Expr // may be nil (implicit repetition in an iota group)
	file  *fileInfo
}

type fileInfo struct {
	rel     string
	ast     *ast.File
	pkg     *pkgInfo
	imports map[string]string // local name -> import path ("." entries in dotImports)
	dots    []string
}

type pkgInfo struct {
	dir        string
	importPath string
	name       string
	files      []*fileInfo
	consts     map[string]*constInfo
	funcs      map[string]*funcInfo
	methods    map[string]*funcInfo // "T.M"
}

type funcInfo struct {
	decl *ast.FuncDecl
	file *fileInfo
}

var (
	fset     = token.NewFileSet()
	pkgs     = map[string]*pkgInfo{} // by import path
	module   string
	repoRoot string
)

func die(pos token.Pos, format string, args ...interface{}) {
	where := ""
	if pos.IsValid() {
		p := fset.Position(pos)
		rel, err := filepath.Rel(repoRoot, p.Filename)
		if err != nil {
			rel = p.Filename
		}
		where = fmt.Sprintf("%s:%d:%d: ", rel, p.Line, p.Column)
	}
	fmt.Fprintf(os.Stderr, "astfacts: UNRECOGNISED SHAPE: %s%s\n", where, fmt.Sprintf(format, args...))
	os.Exit(3)
}

// ---------------------------------------------------------------- loading

func readModule() string {
	b, err := os.ReadFile(filepath.Join(repoRoot, "go.mod"))
	if err != nil {
		fmt.Fprintln(os.Stderr, "astfacts: cannot read go.mod:", err)
		os.Exit(2)
	}
	for _, ln := range strings.Split(string(b), "\n") {
		ln = strings.TrimSpace(ln)
		if strings.HasPrefix(ln, "module ") {
			return strings.TrimSpace(strings.TrimPrefix(ln, "module "))
		}
	}
	fmt.Fprintln(os.Stderr, "astfacts: no module line in go.mod")
	os.Exit(2)
	return ""
}

func load() {
	err := filepath.Walk(repoRoot, func(path string, info os.FileInfo, err error) error {
		if err != nil {
			return err
		}
		if info.IsDir() {
			base := info.Name()
			if path != repoRoot && (strings.HasPrefix(base, ".") || base == "vendor" || base == "testdata" || base == "node_modules") {
				return filepath.SkipDir
			}
			return nil
		}
		if !strings.HasSuffix(path, ".go") || strings.HasSuffix(path, "_test.go") {
			return nil
		}
		f, perr := parser.ParseFile(fset, path, nil, parser.SkipObjectResolution)
		if perr != nil {
			fmt.Fprintln(os.Stderr, "astfacts: parse error:", perr)
			os.Exit(2)
		}
		rel, _ := filepath.Rel(repoRoot, path)
		rel = filepath.ToSlash(rel)
		dir := filepath.ToSlash(filepath.Dir(rel))
		ip := module
		if dir != "." {
			ip = module + "/" + dir
		}
		p := pkgs[ip]
		if p == nil {
			p = &pkgInfo{dir: dir, importPath: ip, name: f.Name.Name, consts: map[string]*constInfo{},
				funcs: map[string]*funcInfo{}, methods: map[string]*funcInfo{}}
			pkgs[ip] = p
		}
		if f.Name.Name != p.name {
			// e.g. package main next to a library, or a _test package: keep them apart
			ip = ip + "#" + f.Name.Name
			q := pkgs[ip]
			if q == nil {
				q = &pkgInfo{dir: dir, importPath: ip, name: f.Name.Name, consts: map[string]*constInfo{},
					funcs: map[string]*funcInfo{}, methods: map[string]*funcInfo{}}
				pkgs[ip] = q
			}
			p = q
		}
		fi := &fileInfo{rel: rel, ast: f, pkg: p, imports: map[string]string{}}
		for _, im := range f.Imports {
			ipath, _ := strconv.Unquote(im.Path.Value)
			if im.Name != nil {
				switch im.Name.Name {
				case ".":
					fi.dots = append(fi.dots, ipath)
				case "_":
				default:
					fi.imports[im.Name.Name] = ipath
				}
			} else {
				fi.imports["?"+ipath] = ipath // resolved by package name later
			}
		}
		p.files = append(p.files, fi)
		for _, d := range f.Decls {
			switch t := d.(type) {
			case *ast.GenDecl:
				if t.Tok != token.CONST {
					continue
				}
				var lastTyp ast.Expr
				var lastHadValues bool
				for _, s := range t.Specs {
					vs := s.(*ast.ValueSpec)
					typ := vs.Type
					if len(vs.Values) > 0 {
						lastTyp = vs.Type
						lastHadValues = true
					} else if lastHadValues {
						typ = lastTyp
					}
					for i, n := range vs.Names {
						ci := &constInfo{name: n.Name, typ: typ, file: fi}
						if i < len(vs.Values) {
							ci.value = vs.Values[i]
						}
						p.consts[n.Name] = ci
					}
				}
			case *ast.FuncDecl:
				if t.Recv == nil {
					p.funcs[t.Name.Name] = &funcInfo{t, fi}
				} else if len(t.Recv.List) == 1 {
					rt := t.Recv.List[0].Type
					if st, ok := rt.(*ast.StarExpr); ok {
						rt = st.X
					}
					if id, ok := rt.(*ast.Ident); ok {
						p.methods[id.Name+"."+t.Name.Name] = &funcInfo{t, fi}
					}
				}
			}
		}
		return nil
	})
	if err != nil {
		fmt.Fprintln(os.Stderr, "astfacts:", err)
		os.Exit(2)
	}
}

// importedPackage resolves a local package name used in file fi to its import path.
func (fi *fileInfo) importedPath(local string) (string, bool) {
	if ip, ok := fi.imports[local]; ok {
		return ip, true
	}
	for k, ip := range fi.imports {
		if !strings.HasPrefix(k, "?") {
			continue
		}
		if p := pkgs[ip]; p != nil {
			if p.name == local {
				return ip, true
			}
		} else if ip == local || strings.HasSuffix(ip, "/"+local) {
			return ip, true
		}
	}
	return "", false
}

func isSpecPkg(ip string) bool  { return strings.HasSuffix(ip, specPkgSuffix) }

// resolveIdent finds the package that declares a bare identifier used in fi (own package, then dot imports).
func (fi *fileInfo) lookupConst(name string) *constInfo {
	if c := fi.pkg.consts[name]; c != nil {
		return c
	}
	for _, ip := range fi.dots {
		if p := pkgs[ip]; p != nil {
			if c := p.consts[name]; c != nil {
				return c
			}
		}
	}
	return nil
}

func (fi *fileInfo) lookupFunc(e ast.Expr) (*funcInfo, *pkgInfo) {
	switch t := e.(type) {
	case *ast.Ident:
		if f := fi.pkg.funcs[t.Name]; f != nil {
			return f, fi.pkg
		}
		for _, ip := range fi.dots {
			if p := pkgs[ip]; p != nil {
				if f := p.funcs[t.Name]; f != nil {
					return f, p
				}
			}
		}
	case *ast.SelectorExpr:
		if x, ok := t.X.(*ast.Ident); ok {
			if ip, ok := fi.importedPath(x.Name); ok {
				if p := pkgs[ip]; p != nil {
					if f := p.funcs[t.Sel.Name]; f != nil {
						return f, p
					}
				}
			}
		}
	}
	return nil, nil
}

// ---------------------------------------------------------------- values

type value struct {
	Kind string   `json:"kind"` // int64 | float64 | string | bool | nil | other
	I    int64    `json:"i,omitempty"`
	F    *[2]int64 `json:"f,omitempty"` // m * 2^e
	S    string   `json:"s,omitempty"`
	B    bool     `json:"b,omitempty"`
	Why  string   `json:"why,omitempty"`
	f    float64
}

func flOf(f float64) [2]int64 {
	if math.IsNaN(f) || math.IsInf(f, 0) {
		die(token.NoPos, "non-finite float constant")
	}
	if f == 0 {
		return [2]int64{0, 0}
	}
	mant, exp := math.Frexp(f)
	m := int64(mant * (1 << 53))
	e := int64(exp - 53)
	for m%2 == 0 {
		m /= 2
		e++
	}
	if math.Ldexp(float64(m), int(e)) != f {
		die(token.NoPos, "flOf inexact")
	}
	return [2]int64{m, e}
}

func floatValue(f float64) value {
	me := flOf(f)
	return value{Kind: "float64", F: &me, f: f}
}

func coqString(pos token.Pos, s string) string {
	for _, c := range []byte(s) {
		if c < 32 || c > 126 {
			die(pos, "string constant %q contains a byte outside printable ASCII", s)
		}
	}
	return "\"" + strings.ReplaceAll(s, "\"", "\"\"") + "\""
}

func coqZ(i int64) string { return fmt.Sprintf("(%d)%%Z", i) }
func coqFl(me [2]int64) string { return fmt.Sprintf("(fl (%d) (%d))", me[0], me[1]) }

func (v value) coq(pos token.Pos) string {
	switch v.Kind {
	case "int64":
		return "(VInt " + coqZ(v.I) + ")"
	case "float64":
		return "(VFloat " + coqFl(*v.F) + ")"
	case "string":
		return "(VString " + coqString(pos, v.S) + ")"
	case "bool":
		if v.B {
			return "(VBool true)"
		}
		return "(VBool false)"
	case "nil":
		return "VNil"
	default:
		return "VOther"
	}
}

type env map[string]float64

func litFloat(b *ast.BasicLit) float64 {
	f, err := strconv.ParseFloat(strings.ReplaceAll(b.Value, "_", ""), 64)
	if err != nil {
		die(b.Pos(), "numeric literal %s: %v", b.Value, err)
	}
	return f
}

func mathConst(fi *fileInfo, e *ast.SelectorExpr) (float64, bool) {
	x, ok := e.X.(*ast.Ident)
	if !ok {
		return 0, false
	}
	ip, ok := fi.importedPath(x.Name)
	if !ok || ip != "math" {
		return 0, false
	}
	switch e.Sel.Name {
	case "MaxFloat64":
		return math.MaxFloat64, true
	case "SmallestNonzeroFloat64":
		return math.SmallestNonzeroFloat64, true
	case "MaxFloat32":
		return math.MaxFloat32, true
	}
	return 0, false
}

// evalFloat evaluates a float64 expression the way the running program does (IEEE binary64 operations);
// the second result says whether the expression is a compile-time constant.
func evalFloat(fi *fileInfo, e ast.Expr, en env) (float64, bool) {
	switch t := e.(type) {
	case *ast.BasicLit:
		if t.Kind == token.INT || t.Kind == token.FLOAT {
			return litFloat(t), true
		}
	case *ast.ParenExpr:
		return evalFloat(fi, t.X, en)
	case *ast.Ident:
		if v, ok := en[t.Name]; ok {
			return v, false
		}
	case *ast.SelectorExpr:
		if v, ok := mathConst(fi, t); ok {
			return v, true
		}
	case *ast.UnaryExpr:
		if t.Op == token.SUB {
			v, c := evalFloat(fi, t.X, en)
			return -v, c
		}
		if t.Op == token.ADD {
			return evalFloat(fi, t.X, en)
		}
	case *ast.BinaryExpr:
		l, lc := evalFloat(fi, t.X, en)
		r, rc := evalFloat(fi, t.Y, en)
		if lc && rc {
			die(e.Pos(), "arithmetic on two compile-time constants (exact constant folding is not modelled)")
		}
		switch t.Op {
		case token.MUL:
			return l * r, false
		case token.QUO:
			return l / r, false
		case token.ADD:
			return l + r, false
		case token.SUB:
			return l - r, false
		}
	case *ast.CallExpr:
		if id, ok := t.Fun.(*ast.Ident); ok && id.Name == "float64" && len(t.Args) == 1 {
			return evalFloat(fi, t.Args[0], en)
		}
		if sel, ok := t.Fun.(*ast.SelectorExpr); ok {
			if x, ok := sel.X.(*ast.Ident); ok {
				if ip, ok := fi.importedPath(x.Name); ok && ip == "math" {
					switch {
					case sel.Sel.Name == "Pow" && len(t.Args) == 2:
						a, _ := evalFloat(fi, t.Args[0], en)
						b, _ := evalFloat(fi, t.Args[1], en)
						return math.Pow(a, b), false
					case sel.Sel.Name == "Pow10" && len(t.Args) == 1:
						if n, ok := evalInt(fi, t.Args[0]); ok {
							return math.Pow10(int(n)), false
						}
					case sel.Sel.Name == "Sqrt" && len(t.Args) == 1:
						a, _ := evalFloat(fi, t.Args[0], en)
						return math.Sqrt(a), false
					}
				}
			}
		}
	}
	die(e.Pos(), "float expression of an unsupported shape (%T)", e)
	return 0, false
}

func evalInt(fi *fileInfo, e ast.Expr) (int64, bool) {
	switch t := e.(type) {
	case *ast.BasicLit:
		if t.Kind == token.INT {
			n, err := strconv.ParseInt(strings.ReplaceAll(t.Value, "_", ""), 0, 64)
			if err != nil {
				die(t.Pos(), "integer literal %s: %v", t.Value, err)
			}
			return n, true
		}
	case *ast.ParenExpr:
		return evalInt(fi, t.X)
	case *ast.BinaryExpr:
		// exact integer constant arithmetic (math/big), rejected when the result leaves int64
		l, ok1 := evalInt(fi, t.X)
		r, ok2 := evalInt(fi, t.Y)
		if ok1 && ok2 {
			a, b, z := big.NewInt(l), big.NewInt(r), new(big.Int)
			switch t.Op {
			case token.ADD:
				z.Add(a, b)
			case token.SUB:
				z.Sub(a, b)
			case token.MUL:
				z.Mul(a, b)
			default:
				return 0, false
			}
			if z.IsInt64() {
				return z.Int64(), true
			}
		}
	case *ast.UnaryExpr:
		if t.Op == token.SUB {
			if n, ok := evalInt(fi, t.X); ok && n != math.MinInt64 {
				return -n, true
			}
		}
	case *ast.SelectorExpr:
		if x, ok := t.X.(*ast.Ident); ok {
			if ip, ok := fi.importedPath(x.Name); ok && ip == "math" {
				switch t.Sel.Name {
				case "MaxInt64":
					return math.MaxInt64, true
				case "MinInt64":
					return math.MinInt64, true
				case "MaxInt32":
					return math.MaxInt32, true
				case "MinInt32":
					return math.MinInt32, true
				}
			}
		}
	case *ast.CallExpr:
		if id, ok := t.Fun.(*ast.Ident); ok && id.Name == "int64" && len(t.Args) == 1 {
			return evalInt(fi, t.Args[0])
		}
	}
	return 0, false
}

func containsCall(e ast.Expr) bool {
	found := false
	ast.Inspect(e, func(n ast.Node) bool {
		if _, ok := n.(*ast.CallExpr); ok {
			found = true
		}
		return !found
	})
	return found
}

// evalStringMethod evaluates C.String() for a constant C of a named type T whose String method is
//   func (x T) String() string { switch x { case A: return "a" ... default: return "d" } }
func evalStringMethod(fi *fileInfo, c *constInfo, pos token.Pos) string {
	tid, ok := c.typ.(*ast.Ident)
	if !ok {
		die(pos, "constant %s has no named type; cannot evaluate its String()", c.name)
	}
	m := c.file.pkg.methods[tid.Name+".String"]
	if m == nil {
		die(pos, "no method %s.String found", tid.Name)
	}
	body := m.decl.Body
	if body == nil || len(body.List) != 1 {
		die(m.decl.Pos(), "String method is not a single switch statement")
	}
	sw, ok := body.List[0].(*ast.SwitchStmt)
	if !ok || sw.Init != nil {
		die(m.decl.Pos(), "String method is not a single switch statement")
	}
	recv := ""
	if len(m.decl.Recv.List[0].Names) == 1 {
		recv = m.decl.Recv.List[0].Names[0].Name
	}
	if tag, ok := sw.Tag.(*ast.Ident); !ok || tag.Name != recv {
		die(sw.Pos(), "String method does not switch on its receiver")
	}
	retLit := func(cc *ast.CaseClause) string {
		if len(cc.Body) != 1 {
			die(cc.Pos(), "case body is not a single return of a string literal")
		}
		r, ok := cc.Body[0].(*ast.ReturnStmt)
		if !ok || len(r.Results) != 1 {
			die(cc.Pos(), "case body is not a single return of a string literal")
		}
		bl, ok := r.Results[0].(*ast.BasicLit)
		if !ok || bl.Kind != token.STRING {
			die(cc.Pos(), "case body is not a single return of a string literal")
		}
		s, _ := strconv.Unquote(bl.Value)
		return s
	}
	var def *ast.CaseClause
	for _, st := range sw.Body.List {
		cc := st.(*ast.CaseClause)
		if cc.List == nil {
			def = cc
			continue
		}
		for _, x := range cc.List {
			id, ok := x.(*ast.Ident)
			if !ok {
				die(x.Pos(), "case label is not a constant name")
			}
			if c.file.pkg.consts[id.Name] == nil {
				die(x.Pos(), "case label %s is not a constant of the package", id.Name)
			}
			if id.Name == c.name {
				return retLit(cc)
			}
		}
	}
	if def == nil {
		die(sw.Pos(), "String method has no case for %s and no default", c.name)
	}
	return retLit(def)
}

func evalConstValue(fi *fileInfo, c *constInfo, pos token.Pos) value {
	if c.value == nil {
		die(pos, "constant %s has an implicit (iota) value; not usable as a parameter value", c.name)
	}
	tname := ""
	if c.typ != nil {
		if id, ok := c.typ.(*ast.Ident); ok {
			tname = id.Name
		} else {
			die(pos, "constant %s has an unsupported type expression", c.name)
		}
	}
	bl, ok := c.value.(*ast.BasicLit)
	if !ok {
		die(pos, "constant %s is not defined by a basic literal", c.name)
	}
	switch {
	case bl.Kind == token.STRING && (tname == "" || tname == "string"):
		s, _ := strconv.Unquote(bl.Value)
		return value{Kind: "string", S: s}
	case (bl.Kind == token.FLOAT || bl.Kind == token.INT) && tname == "float64":
		return floatValue(litFloat(bl))
	case bl.Kind == token.FLOAT && tname == "":
		return floatValue(litFloat(bl))
	case bl.Kind == token.INT && tname == "int64":
		n, _ := evalInt(c.file, bl)
		return value{Kind: "int64", I: n}
	case bl.Kind == token.INT && tname == "":
		return value{Kind: "other", Why: "untyped integer constant stored in interface{} has dynamic type int, not int64"}
	}
	die(pos, "constant %s : %s has an unsupported literal/type combination", c.name, tname)
	return value{}
}

// evalDefault: the dynamic value (with its dynamic Go type) that `DefaultValue: <e>` stores in interface{}.
func evalDefault(fi *fileInfo, e ast.Expr) value {
	if e == nil {
		return value{Kind: "nil"}
	}
	switch t := e.(type) {
	case *ast.ParenExpr:
		return evalDefault(fi, t.X)
	case *ast.BasicLit:
		switch t.Kind {
		case token.INT:
			return value{Kind: "other", Why: "untyped integer literal stored in interface{} has dynamic type int, not int64"}
		case token.FLOAT:
			return floatValue(litFloat(t))
		case token.STRING:
			s, err := strconv.Unquote(t.Value)
			if err != nil {
				die(t.Pos(), "string literal: %v", err)
			}
			return value{Kind: "string", S: s}
		case token.CHAR:
			return value{Kind: "other", Why: "rune literal has dynamic type int32"}
		}
	case *ast.Ident:
		switch t.Name {
		case "true":
			return value{Kind: "bool", B: true}
		case "false":
			return value{Kind: "bool", B: false}
		case "nil":
			return value{Kind: "nil"}
		}
		if c := fi.lookupConst(t.Name); c != nil {
			return evalConstValue(fi, c, t.Pos())
		}
		die(t.Pos(), "identifier %s is not a constant this translator can evaluate", t.Name)
	case *ast.SelectorExpr:
		if v, ok := mathConst(fi, t); ok {
			return floatValue(v)
		}
		if x, ok := t.X.(*ast.Ident); ok {
			if ip, ok := fi.importedPath(x.Name); ok {
				if p := pkgs[ip]; p != nil {
					if c := p.consts[t.Sel.Name]; c != nil {
						return evalConstValue(c.file, c, t.Pos())
					}
				}
			}
		}
		die(t.Pos(), "selector is not a constant this translator can evaluate")
	case *ast.UnaryExpr:
		if bl, ok := t.X.(*ast.BasicLit); ok && t.Op == token.SUB {
			if bl.Kind == token.FLOAT {
				return floatValue(-litFloat(bl))
			}
			if bl.Kind == token.INT {
				return value{Kind: "other", Why: "untyped integer literal stored in interface{} has dynamic type int, not int64"}
			}
		}
		if containsCall(e) {
			v, _ := evalFloat(fi, e, env{})
			return floatValue(v)
		}
	case *ast.BinaryExpr:
		if containsCall(e) {
			v, _ := evalFloat(fi, e, env{})
			return floatValue(v)
		}
		die(e.Pos(), "constant arithmetic in a default value (exact constant folding is not modelled)")
	case *ast.CallExpr:
		if id, ok := t.Fun.(*ast.Ident); ok && len(t.Args) == 1 {
			switch id.Name {
			case "int64":
				if n, ok := evalInt(fi, t.Args[0]); ok {
					return value{Kind: "int64", I: n}
				}
				die(t.Pos(), "int64(...) of an unsupported expression")
			case "float64":
				v, _ := evalFloat(fi, t.Args[0], env{})
				return floatValue(v)
			case "string":
				if bl, ok := t.Args[0].(*ast.BasicLit); ok && bl.Kind == token.STRING {
					s, _ := strconv.Unquote(bl.Value)
					return value{Kind: "string", S: s}
				}
			case "int", "int32", "uint", "uint64", "float32", "int8", "int16", "uint8", "uint16", "uint32":
				return value{Kind: "other", Why: "conversion to " + id.Name + " gives a dynamic type none of the typed getters accepts"}
			}
		}
		if sel, ok := t.Fun.(*ast.SelectorExpr); ok {
			if sel.Sel.Name == "String" && len(t.Args) == 0 {
				if x, ok := sel.X.(*ast.Ident); ok {
					if c := fi.lookupConst(x.Name); c != nil {
						return value{Kind: "string", S: evalStringMethod(fi, c, t.Pos())}
					}
				}
			}
			if x, ok := sel.X.(*ast.Ident); ok {
				if ip, ok := fi.importedPath(x.Name); ok && ip == "math" {
					v, _ := evalFloat(fi, e, env{})
					return floatValue(v)
				}
			}
		}
	}
	die(e.Pos(), "DefaultValue expression of an unsupported shape (%T)", e)
	return value{}
}

// ---------------------------------------------------------------- validators

type vkind struct {
	K    string     `json:"k"` // decimal | decimal_between | integer | integer_between | string | boolean | readable_file | one_of
	Lo   *[2]int64  `json:"lo,omitempty"`
	Hi   *[2]int64  `json:"hi,omitempty"`
	ILo  *int64     `json:"ilo,omitempty"`
	IHi  *int64     `json:"ihi,omitempty"`
	Strs []string   `json:"strs,omitempty"`
	Name string     `json:"name"`
}

var primitives = map[string]string{
	"IsDecimal": "decimal", "IsInteger": "integer", "IsString": "string", "IsBoolean": "boolean",
	"IsReadableFile": "readable_file",
}

func (k vkind) coq(pos token.Pos) string {
	switch k.K {
	case "decimal":
		return "KDecimal"
	case "integer":
		return "KInteger"
	case "string":
		return "KString"
	case "boolean":
		return "KBoolean"
	case "readable_file":
		return "KReadableFile"
	case "decimal_between":
		return "(KDecimalBetween " + coqFl(*k.Lo) + " " + coqFl(*k.Hi) + ")"
	case "integer_between":
		return "(KIntegerBetween " + coqZ(*k.ILo) + " " + coqZ(*k.IHi) + ")"
	case "one_of":
		items := []string{}
		for _, s := range k.Strs {
			items = append(items, coqString(pos, s))
		}
		return "(KOneOf [" + strings.Join(items, "; ") + "])"
	}
	die(pos, "internal: vkind %q", k.K)
	return ""
}

func paramNames(fd *ast.FuncDecl) []string {
	res := []string{}
	for _, f := range fd.Type.Params.List {
		for _, n := range f.Names {
			res = append(res, n.Name)
		}
	}
	return res
}

func isSpecFuncRef(fi *fileInfo, e ast.Expr, name string) bool {
	f, p := fi.lookupFunc(e)
	return f != nil && isSpecPkg(p.importPath) && f.decl.Name.Name == name
}

func isIdent(e ast.Expr, name string) bool {
	id, ok := e.(*ast.Ident)
	return ok && id.Name == name
}

// shape A:   [x := <float expr>]* ; return Is{Decimal,Integer}WithInclusiveBounds(key, value, lo, hi)
func recogniseBounds(f *funcInfo) (vkind, bool) {
	fd := f.decl
	ps := paramNames(fd)
	if len(ps) != 2 || fd.Body == nil || len(fd.Body.List) == 0 {
		return vkind{}, false
	}
	ret, ok := fd.Body.List[len(fd.Body.List)-1].(*ast.ReturnStmt)
	if !ok || len(ret.Results) != 1 {
		return vkind{}, false
	}
	call, ok := ret.Results[0].(*ast.CallExpr)
	if !ok || len(call.Args) != 4 || !isIdent(call.Args[0], ps[0]) || !isIdent(call.Args[1], ps[1]) {
		return vkind{}, false
	}
	isDec := isSpecFuncRef(f.file, call.Fun, "IsDecimalWithInclusiveBounds")
	isInt := isSpecFuncRef(f.file, call.Fun, "IsIntegerWithInclusiveBounds")
	if !isDec && !isInt {
		return vkind{}, false
	}
	en := env{}
	for _, st := range fd.Body.List[:len(fd.Body.List)-1] {
		as, ok := st.(*ast.AssignStmt)
		if !ok || as.Tok != token.DEFINE || len(as.Lhs) != 1 || len(as.Rhs) != 1 {
			die(st.Pos(), "validator %s: statement before the final return is not `name := <float expression>`", fd.Name.Name)
		}
		id, ok := as.Lhs[0].(*ast.Ident)
		if !ok {
			die(st.Pos(), "validator %s: unsupported assignment", fd.Name.Name)
		}
		if !isDec {
			die(st.Pos(), "validator %s: local variables are only supported for decimal bounds", fd.Name.Name)
		}
		v, _ := evalFloat(f.file, as.Rhs[0], en)
		en[id.Name] = v
	}
	if isDec {
		lo, _ := evalFloat(f.file, call.Args[2], en)
		hi, _ := evalFloat(f.file, call.Args[3], en)
		l, h := flOf(lo), flOf(hi)
		return vkind{K: "decimal_between", Lo: &l, Hi: &h}, true
	}
	lo, ok1 := evalInt(f.file, call.Args[2])
	hi, ok2 := evalInt(f.file, call.Args[3])
	if !ok1 || !ok2 {
		die(call.Pos(), "validator %s: integer bound of an unsupported shape", fd.Name.Name)
	}
	return vkind{K: "integer_between", ILo: &lo, IHi: &hi}, true
}

// shape B (membership in a list of constants' String() texts):
//   s, ok := value.(string); if !ok { return NewInvalidSpecificationError(..) }
//   if _, err := parse(s); err == nil { return NewValidSpecificationError(key, value) } else { return NewInvalid...(..) }
// with parse:  xs := []T{A, B, ...}; for _, x := range xs { if v == x.String() { return x, nil } } ; ... ; return <zero>, <error>
func recogniseOneOf(f *funcInfo) (vkind, bool) {
	fd := f.decl
	ps := paramNames(fd)
	if len(ps) != 2 || fd.Body == nil || len(fd.Body.List) != 3 {
		return vkind{}, false
	}
	as, ok := fd.Body.List[0].(*ast.AssignStmt)
	if !ok || as.Tok != token.DEFINE || len(as.Lhs) != 2 || len(as.Rhs) != 1 {
		return vkind{}, false
	}
	ta, ok := as.Rhs[0].(*ast.TypeAssertExpr)
	if !ok || !isIdent(ta.X, ps[1]) || !isIdent(ta.Type, "string") {
		return vkind{}, false
	}
	sName := as.Lhs[0].(*ast.Ident).Name
	okName := as.Lhs[1].(*ast.Ident).Name
	if1, ok := fd.Body.List[1].(*ast.IfStmt)
	if !ok || if1.Init != nil || if1.Else != nil {
		return vkind{}, false
	}
	neg, ok := if1.Cond.(*ast.UnaryExpr)
	if !ok || neg.Op != token.NOT || !isIdent(neg.X, okName) || !returnsCallTo(f.file, if1.Body, "NewInvalidSpecificationError") {
		return vkind{}, false
	}
	if2, ok := fd.Body.List[2].(*ast.IfStmt)
	if !ok || if2.Init == nil || if2.Else == nil {
		return vkind{}, false
	}
	init, ok := if2.Init.(*ast.AssignStmt)
	if !ok || init.Tok != token.DEFINE || len(init.Lhs) != 2 || len(init.Rhs) != 1 || !isIdent(init.Lhs[0], "_") {
		return vkind{}, false
	}
	errName := init.Lhs[1].(*ast.Ident).Name
	pcall, ok := init.Rhs[0].(*ast.CallExpr)
	if !ok || len(pcall.Args) != 1 || !isIdent(pcall.Args[0], sName) {
		return vkind{}, false
	}
	cond, ok := if2.Cond.(*ast.BinaryExpr)
	if !ok || cond.Op != token.EQL || !isIdent(cond.X, errName) || !isIdent(cond.Y, "nil") {
		return vkind{}, false
	}
	elseBlock, ok := if2.Else.(*ast.BlockStmt)
	if !ok || !returnsCallTo(f.file, if2.Body, "NewValidSpecificationError") || !returnsCallTo(f.file, elseBlock, "NewInvalidSpecificationError") {
		return vkind{}, false
	}
	pf, _ := f.file.lookupFunc(pcall.Fun)
	if pf == nil {
		die(pcall.Pos(), "validator %s: cannot find the parse function", fd.Name.Name)
	}
	// ---- the parse function
	pd := pf.decl
	pps := paramNames(pd)
	if len(pps) != 1 || pd.Body == nil || len(pd.Body.List) < 3 {
		die(pd.Pos(), "parse function %s has an unsupported shape", pd.Name.Name)
	}
	las, ok := pd.Body.List[0].(*ast.AssignStmt)
	if !ok || las.Tok != token.DEFINE || len(las.Lhs) != 1 || len(las.Rhs) != 1 {
		die(pd.Pos(), "parse function %s: first statement is not `xs := []T{...}`", pd.Name.Name)
	}
	listName := las.Lhs[0].(*ast.Ident).Name
	cl, ok := las.Rhs[0].(*ast.CompositeLit)
	if !ok {
		die(las.Pos(), "parse function %s: first statement is not `xs := []T{...}`", pd.Name.Name)
	}
	if _, ok := cl.Type.(*ast.ArrayType); !ok {
		die(las.Pos(), "parse function %s: first statement is not `xs := []T{...}`", pd.Name.Name)
	}
	rs, ok := pd.Body.List[1].(*ast.RangeStmt)
	if !ok || !isIdent(rs.X, listName) || rs.Value == nil || len(rs.Body.List) != 1 {
		die(pd.Body.List[1].Pos(), "parse function %s: second statement is not a range over the list", pd.Name.Name)
	}
	elemName := rs.Value.(*ast.Ident).Name
	inner, ok := rs.Body.List[0].(*ast.IfStmt)
	if !ok || inner.Init != nil || inner.Else != nil {
		die(rs.Pos(), "parse function %s: loop body is not a single if", pd.Name.Name)
	}
	ic, ok := inner.Cond.(*ast.BinaryExpr)
	if !ok || ic.Op != token.EQL || !isIdent(ic.X, pps[0]) {
		die(inner.Pos(), "parse function %s: loop condition is not `value == x.String()`", pd.Name.Name)
	}
	sc, ok := ic.Y.(*ast.CallExpr)
	if !ok || len(sc.Args) != 0 {
		die(inner.Pos(), "parse function %s: loop condition is not `value == x.String()`", pd.Name.Name)
	}
	ssel, ok := sc.Fun.(*ast.SelectorExpr)
	if !ok || ssel.Sel.Name != "String" || !isIdent(ssel.X, elemName) {
		die(inner.Pos(), "parse function %s: loop condition is not `value == x.String()`", pd.Name.Name)
	}
	if len(inner.Body.List) != 1 {
		die(inner.Pos(), "parse function %s: match branch is not `return x, nil`", pd.Name.Name)
	}
	r1, ok := inner.Body.List[0].(*ast.ReturnStmt)
	if !ok || len(r1.Results) != 2 || !isIdent(r1.Results[0], elemName) || !isIdent(r1.Results[1], "nil") {
		die(inner.Pos(), "parse function %s: match branch is not `return x, nil`", pd.Name.Name)
	}
	last, ok := pd.Body.List[len(pd.Body.List)-1].(*ast.ReturnStmt)
	if !ok || len(last.Results) != 2 || isIdent(last.Results[1], "nil") {
		die(pd.Pos(), "parse function %s: does not end with a return of a non-nil error", pd.Name.Name)
	}
	for _, st := range pd.Body.List[2 : len(pd.Body.List)-1] {
		bad := false
		ast.Inspect(st, func(n ast.Node) bool {
			if _, ok := n.(*ast.ReturnStmt); ok {
				bad = true
			}
			return !bad
		})
		if bad {
			die(st.Pos(), "parse function %s: unexpected return between the loop and the final error", pd.Name.Name)
		}
	}
	strs := []string{}
	for _, el := range cl.Elts {
		id, ok := el.(*ast.Ident)
		if !ok {
			die(el.Pos(), "parse function %s: list element is not a constant name", pd.Name.Name)
		}
		c := pf.file.lookupConst(id.Name)
		if c == nil {
			die(el.Pos(), "parse function %s: %s is not a constant", pd.Name.Name, id.Name)
		}
		strs = append(strs, evalStringMethod(pf.file, c, el.Pos()))
	}
	return vkind{K: "one_of", Strs: strs}, true
}

func returnsCallTo(fi *fileInfo, b *ast.BlockStmt, name string) bool {
	if len(b.List) != 1 {
		return false
	}
	r, ok := b.List[0].(*ast.ReturnStmt)
	if !ok || len(r.Results) != 1 {
		return false
	}
	c, ok := r.Results[0].(*ast.CallExpr)
	if !ok {
		return false
	}
	return isSpecFuncRef(fi, c.Fun, name)
}

func recogniseValidator(fi *fileInfo, e ast.Expr) vkind {
	if e == nil {
		die(token.NoPos, "Specification literal without a Validator (nil function: Validate would panic)")
	}
	f, p := fi.lookupFunc(e)
	if f == nil {
		die(e.Pos(), "Validator is not a reference to a function declared in the repository")
	}
	name := f.decl.Name.Name
	if isSpecPkg(p.importPath) {
		if k, ok := primitives[name]; ok {
			return vkind{K: k, Name: name}
		}
	}
	if k, ok := recogniseBounds(f); ok {
		k.Name = name
		return k
	}
	if k, ok := recogniseOneOf(f); ok {
		k.Name = name
		return k
	}
	die(e.Pos(), "Validator %s (%s) has a body this translator does not recognise", name, f.file.rel)
	return vkind{}
}

// ---------------------------------------------------------------- tables

type spec struct {
	Key       string `json:"key"`
	Validator vkind  `json:"validator"`
	Default   value  `json:"default"`
	Optional  bool   `json:"optional"`
	Line      int    `json:"line"`
	pos       token.Pos
}

type site struct {
	File    string `json:"file"`
	Line    int    `json:"line"`
	Getter  string `json:"getter"`
	Key     string `json:"key"`
	Guarded bool   `json:"guarded"`
}

type component struct {
	Name    string `json:"name"`
	Pkg     string `json:"pkg"`
	Func    string `json:"func"`
	File    string `json:"file"`
	Kind    string `json:"kind"`    // model | other
	Variant string `json:"variant"` // all | enforced
	Specs   []spec `json:"specs"`
	Sites   []site `json:"sites"`
	Assigns []string `json:"assign_calls"`
	pkg     *pkgInfo
}

func isSpecificationType(fi *fileInfo, e ast.Expr) bool {
	switch t := e.(type) {
	case *ast.Ident:
		if t.Name != "Specification" {
			return false
		}
		if isSpecPkg(fi.pkg.importPath) {
			return true
		}
		for _, ip := range fi.dots {
			if isSpecPkg(ip) {
				return true
			}
		}
	case *ast.SelectorExpr:
		if t.Sel.Name != "Specification" {
			return false
		}
		if x, ok := t.X.(*ast.Ident); ok {
			if ip, ok := fi.importedPath(x.Name); ok && isSpecPkg(ip) {
				return true
			}
		}
	}
	return false
}

func resolveKey(fi *fileInfo, e ast.Expr) (string, *pkgInfo, bool) {
	switch t := e.(type) {
	case *ast.BasicLit:
		if t.Kind == token.STRING {
			s, _ := strconv.Unquote(t.Value)
			return s, nil, true
		}
	case *ast.Ident:
		if c := fi.lookupConst(t.Name); c != nil {
			if c.value == nil {
				return "", nil, false
			}
			if bl, ok := c.value.(*ast.BasicLit); ok && bl.Kind == token.STRING {
				s, _ := strconv.Unquote(bl.Value)
				return s, c.file.pkg, true
			}
		}
	case *ast.SelectorExpr:
		if x, ok := t.X.(*ast.Ident); ok {
			if ip, ok := fi.importedPath(x.Name); ok {
				if p := pkgs[ip]; p != nil {
					if c := p.consts[t.Sel.Name]; c != nil && c.value != nil {
						if bl, ok := c.value.(*ast.BasicLit); ok && bl.Kind == token.STRING {
							s, _ := strconv.Unquote(bl.Value)
							return s, p, true
						}
					}
				}
			}
		}
	}
	return "", nil, false
}

func findTables() []*component {
	comps := []*component{}
	for _, p := range pkgs {
		for _, fi := range p.files {
			claimed := map[*ast.CompositeLit]bool{}
			for _, d := range fi.ast.Decls {
				fd, ok := d.(*ast.FuncDecl)
				if !ok || fd.Body == nil {
					continue
				}
				lits := []*ast.CompositeLit{}
				ast.Inspect(fd.Body, func(n ast.Node) bool {
					if cl, ok := n.(*ast.CompositeLit); ok && cl.Type != nil && isSpecificationType(fi, cl.Type) {
						lits = append(lits, cl)
					}
					return true
				})
				if len(lits) == 0 {
					continue
				}
				if fd.Recv != nil {
					die(fd.Pos(), "Specification literal inside a method; only plain table functions are recognised")
				}
				// every literal must be the single argument of an .Add(...) call that is not nested in control flow
				added := map[*ast.CompositeLit]bool{}
				var walk func(n ast.Node, ctl bool)
				walk = func(n ast.Node, ctl bool) {
					ast.Inspect(n, func(x ast.Node) bool {
						switch t := x.(type) {
						case *ast.IfStmt, *ast.ForStmt, *ast.RangeStmt, *ast.SwitchStmt, *ast.TypeSwitchStmt, *ast.SelectStmt, *ast.FuncLit, *ast.GoStmt, *ast.DeferStmt:
							if x != n {
								walk(x, true)
								return false
							}
						case *ast.CallExpr:
							if sel, ok := t.Fun.(*ast.SelectorExpr); ok && sel.Sel.Name == "Add" {
								if len(t.Args) == 1 {
									if cl, ok := t.Args[0].(*ast.CompositeLit); ok && cl.Type != nil && isSpecificationType(fi, cl.Type) {
										if ctl {
											die(cl.Pos(), "Specification added under control flow (if/for/switch/closure): table is not a fixed list")
										}
										added[cl] = true
										return true
									}
								}
								die(t.Pos(), "call to .Add(...) in a table function whose argument is not a Specification{...} literal")
							}
						}
						return true
					})
				}
				walk(fd.Body, false)
				for _, cl := range lits {
					if !added[cl] {
						die(cl.Pos(), "Specification literal that is not directly the argument of an .Add(...) call")
					}
					claimed[cl] = true
				}
				sort.Slice(lits, func(i, j int) bool { return lits[i].Pos() < lits[j].Pos() })
				c := &component{Name: p.dir + "." + fd.Name.Name, Pkg: p.dir, Func: fd.Name.Name, File: fi.rel, pkg: p}
				if strings.HasPrefix(p.dir, "internal/pkg/model/") {
					c.Kind = "model"
				} else {
					c.Kind = "other"
				}
				for _, cl := range lits {
					s := spec{pos: cl.Pos(), Line: fset.Position(cl.Pos()).Line}
					var keyE, valE, defE, optE ast.Expr
					seen := map[string]bool{}
					for _, el := range cl.Elts {
						kv, ok := el.(*ast.KeyValueExpr)
						if !ok {
							die(el.Pos(), "positional field in a Specification literal")
						}
						fn, ok := kv.Key.(*ast.Ident)
						if !ok {
							die(el.Pos(), "unsupported field name in a Specification literal")
						}
						if seen[fn.Name] {
							die(el.Pos(), "duplicate field %s", fn.Name)
						}
						seen[fn.Name] = true
						switch fn.Name {
						case "Key":
							keyE = kv.Value
						case "Validator":
							valE = kv.Value
						case "DefaultValue":
							defE = kv.Value
						case "IsOptional":
							optE = kv.Value
						default:
							die(el.Pos(), "unknown Specification field %s", fn.Name)
						}
					}
					if keyE == nil {
						die(cl.Pos(), "Specification literal without Key")
					}
					k, _, ok := resolveKey(fi, keyE)
					if !ok {
						die(keyE.Pos(), "Key is not a string constant")
					}
					s.Key = k
					if valE == nil {
						die(cl.Pos(), "Specification literal without Validator")
					}
					s.Validator = recogniseValidator(fi, valE)
					s.Default = evalDefault(fi, defE)
					if optE != nil {
						switch {
						case isIdent(optE, "true"):
							s.Optional = true
						case isIdent(optE, "false"):
						default:
							die(optE.Pos(), "IsOptional is not the literal true/false")
						}
					}
					c.Specs = append(c.Specs, s)
				}
				comps = append(comps, c)
			}
			// any Specification literal outside a recognised table function?
			ast.Inspect(fi.ast, func(n ast.Node) bool {
				if cl, ok := n.(*ast.CompositeLit); ok && cl.Type != nil && isSpecificationType(fi, cl.Type) && !claimed[cl] {
					die(cl.Pos(), "Specification literal outside a table function")
				}
				return true
			})
		}
	}
	sort.Slice(comps, func(i, j int) bool { return comps[i].Name < comps[j].Name })
	return comps
}

// ---------------------------------------------------------------- call sites

var getters = map[string]bool{"GetInt64": true, "GetFloat64": true, "GetString": true, "GetBoolean": true}

func isParamPkgItself(p *pkgInfo) bool {
	return strings.HasSuffix(p.importPath, paramPkgSuffix) || isSpecPkg(p.importPath)
}

func componentOfPkg(comps []*component, p *pkgInfo) []*component {
	res := []*component{}
	for _, c := range comps {
		if c.pkg == p {
			res = append(res, c)
		}
	}
	return res
}

func hasEntryKeys(fi *fileInfo, e ast.Expr) []string {
	switch t := e.(type) {
	case *ast.ParenExpr:
		return hasEntryKeys(fi, t.X)
	case *ast.BinaryExpr:
		if t.Op == token.LAND {
			return append(hasEntryKeys(fi, t.X), hasEntryKeys(fi, t.Y)...)
		}
	case *ast.CallExpr:
		if sel, ok := t.Fun.(*ast.SelectorExpr); ok && sel.Sel.Name == "HasEntry" && len(t.Args) == 1 {
			if k, p, ok := resolveKey(fi, t.Args[0]); ok && p != nil {
				return []string{p.importPath + "\x00" + k}
			}
		}
	}
	return nil
}

func findSites(comps []*component) {
	for _, p := range pkgs {
		if isParamPkgItself(p) {
			continue // the generic machinery itself (its getters are the definitions, not call sites)
		}
		for _, fi := range p.files {
			var walk func(n ast.Node, guards map[string]bool)
			walk = func(n ast.Node, guards map[string]bool) {
				ast.Inspect(n, func(x ast.Node) bool {
					switch t := x.(type) {
					case *ast.IfStmt:
						if x == n {
							return true
						}
						if t.Init != nil {
							walk(t.Init, guards)
						}
						walk(t.Cond, guards)
						g := guards
						if ks := hasEntryKeys(fi, t.Cond); len(ks) > 0 {
							g = map[string]bool{}
							for k := range guards {
								g[k] = true
							}
							for _, k := range ks {
								g[k] = true
							}
						}
						walk(t.Body, g)
						if t.Else != nil {
							if _, isIf := t.Else.(*ast.IfStmt); isIf {
								// wrap so that the nested if is handled as a child, not as the root
								walk(&ast.BlockStmt{List: []ast.Stmt{t.Else}}, guards)
							} else {
								walk(t.Else, guards)
							}
						}
						return false
					case *ast.CallExpr:
						sel, ok := t.Fun.(*ast.SelectorExpr)
						if !ok || len(t.Args) != 1 {
							return true
						}
						name := sel.Sel.Name
						switch {
						case getters[name]:
							k, kp, ok := resolveKey(fi, t.Args[0])
							if !ok || kp == nil {
								die(t.Pos(), "%s(...) whose argument is not a parameter-key constant", name)
							}
							cs := componentOfPkg(comps, kp)
							if len(cs) != 1 {
								die(t.Pos(), "%s(%s): the key's package %s declares %d specification tables (need exactly 1)", name, k, kp.dir, len(cs))
							}
							pos := fset.Position(t.Pos())
							cs[0].Sites = append(cs[0].Sites, site{File: fi.rel, Line: pos.Line, Getter: name, Key: k,
								Guarded: guards[kp.importPath+"\x00"+k]})
						case name == "HasEntry":
							k, kp, ok := resolveKey(fi, t.Args[0])
							if ok && kp != nil {
								cs := componentOfPkg(comps, kp)
								if len(cs) == 1 {
									pos := fset.Position(t.Pos())
									cs[0].Sites = append(cs[0].Sites, site{File: fi.rel, Line: pos.Line, Getter: name, Key: k, Guarded: false})
								}
							}
						case name == "AssignAllUserValues" || name == "AssignOnlyEnforcedUserValues":
							c := assignTarget(comps, fi, t.Pos())
							v := "all"
							if name == "AssignOnlyEnforcedUserValues" {
								v = "enforced"
							}
							pos := fset.Position(t.Pos())
							c.Assigns = append(c.Assigns, fmt.Sprintf("%s:%d:%s", fi.rel, pos.Line, v))
							if c.Variant != "" && c.Variant != v {
								die(t.Pos(), "component %s is assigned through both variants", c.Name)
							}
							c.Variant = v
						}
					}
					return true
				})
			}
			for _, d := range fi.ast.Decls {
				walk(d, map[string]bool{})
			}
		}
	}
	for _, c := range comps {
		sort.Slice(c.Sites, func(i, j int) bool {
			a, b := c.Sites[i], c.Sites[j]
			if a.File != b.File {
				return a.File < b.File
			}
			if a.Line != b.Line {
				return a.Line < b.Line
			}
			return a.Getter+a.Key < b.Getter+b.Key
		})
		sort.Strings(c.Assigns)
		if c.Variant == "" {
			die(token.NoPos, "component %s: no AssignAllUserValues/AssignOnlyEnforcedUserValues call found for it", c.Name)
		}
	}
}

// assignTarget: the component whose Parameters an Assign* call in file fi's package fills:
// the package's own table, else the single imported package that declares a table.
func assignTarget(comps []*component, fi *fileInfo, pos token.Pos) *component {
	own := componentOfPkg(comps, fi.pkg)
	if len(own) == 1 {
		return own[0]
	}
	if len(own) > 1 {
		die(pos, "package %s declares several specification tables", fi.pkg.dir)
	}
	cands := map[*component]bool{}
	for _, f := range fi.pkg.files {
		ips := []string{}
		for _, ip := range f.imports {
			ips = append(ips, ip)
		}
		ips = append(ips, f.dots...)
		for _, ip := range ips {
			if q := pkgs[ip]; q != nil {
				for _, c := range componentOfPkg(comps, q) {
					// a `<pkg>/parameters` sub-package of the calling package
					if strings.HasPrefix(q.dir, fi.pkg.dir+"/") {
						cands[c] = true
					}
				}
			}
		}
	}
	if len(cands) != 1 {
		die(pos, "Assign* call in package %s: cannot tell which specification table it fills (%d candidates)", fi.pkg.dir, len(cands))
	}
	for c := range cands {
		return c
	}
	return nil
}

// ---------------------------------------------------------------- the validators of the specification package

func isValidatorSignature(fd *ast.FuncDecl) bool {
	if fd.Recv != nil || fd.Type.Results == nil || len(fd.Type.Results.List) != 1 {
		return false
	}
	if !isIdent(fd.Type.Results.List[0].Type, "error") {
		return false
	}
	types := []ast.Expr{}
	for _, f := range fd.Type.Params.List {
		n := len(f.Names)
		if n == 0 {
			n = 1
		}
		for i := 0; i < n; i++ {
			types = append(types, f.Type)
		}
	}
	if len(types) != 2 || !isIdent(types[0], "string") {
		return false
	}
	it, ok := types[1].(*ast.InterfaceType)
	return ok && (it.Methods == nil || len(it.Methods.List) == 0)
}

// findValidators: every exported SpecValidator-shaped function of the specification package, recognised or hard error.
func findValidators() *component {
	var sp *pkgInfo
	for ip, p := range pkgs {
		if isSpecPkg(ip) {
			sp = p
		}
	}
	if sp == nil {
		die(token.NoPos, "package %s not found", specPkgSuffix)
	}
	c := &component{Name: sp.dir + ".<validators>", Pkg: sp.dir, Func: "<validators>", Kind: "other", Variant: "all", pkg: sp}
	names := []string{}
	for n, f := range sp.funcs {
		if ast.IsExported(n) && isValidatorSignature(f.decl) {
			names = append(names, n)
		}
	}
	sort.Strings(names)
	for _, n := range names {
		f := sp.funcs[n]
		var k vkind
		if pk, ok := primitives[n]; ok {
			k = vkind{K: pk, Name: n}
		} else if bk, ok := recogniseBounds(f); ok {
			bk.Name = n
			k = bk
		} else {
			die(f.decl.Pos(), "validator %s of the specification package has a body this translator does not recognise", n)
		}
		c.Specs = append(c.Specs, spec{Key: n, Validator: k, Default: value{Kind: "nil"}, Optional: true,
			Line: fset.Position(f.decl.Pos()).Line, pos: f.decl.Pos()})
		if c.File == "" {
			c.File = f.file.rel
		}
	}
	return c
}

// ---------------------------------------------------------------- output

func writeCoq(path string, comps []*component, vals *component) {
	var b strings.Builder
	b.WriteString("(* GENERATED by harness/astfacts from the Go source of the repository on this run -- do not edit *)\n")
	b.WriteString("From Coq Require Import List ZArith QArith String Bool.\n")
	b.WriteString("From Crem Require Import Base.Fl Params.\n")
	b.WriteString("Import ListNotations.\nOpen Scope string_scope.\n\n")
	names := []string{}
	for i, c := range comps {
		n := fmt.Sprintf("comp_%d", i)
		names = append(names, n)
		fmt.Fprintf(&b, "(* %s  (%s) *)\n", c.Name, c.File)
		kind := "COther"
		if c.Kind == "model" {
			kind = "CModel"
		}
		variant := "AssignAll"
		if c.Variant == "enforced" {
			variant = "AssignEnforced"
		}
		fmt.Fprintf(&b, "Definition %s : component := mkComp %s %s %s\n  [", n, coqString(token.NoPos, c.Name), kind, variant)
		for j, s := range c.Specs {
			if j > 0 {
				b.WriteString(";\n   ")
			}
			opt := "false"
			if s.Optional {
				opt = "true"
			}
			fmt.Fprintf(&b, "mkSpec %s %s %s %s", coqString(s.pos, s.Key), s.Validator.coq(s.pos), s.Default.coq(s.pos), opt)
		}
		b.WriteString("]\n  [")
		first := true
		for _, s := range c.Sites {
			if s.Getter == "HasEntry" {
				continue
			}
			if !first {
				b.WriteString(";\n   ")
			}
			first = false
			g := "false"
			if s.Guarded {
				g = "true"
			}
			gt := map[string]string{"GetInt64": "TInt", "GetFloat64": "TFloat", "GetString": "TString", "GetBoolean": "TBool"}[s.Getter]
			fmt.Fprintf(&b, "mkSite %s %d%%N %s %s %s", coqString(token.NoPos, s.File), s.Line, gt, coqString(token.NoPos, s.Key), g)
		}
		b.WriteString("].\n\n")
	}
	fmt.Fprintf(&b, "Definition all_components : list component := [%s].\n\n", strings.Join(names, "; "))
	b.WriteString("(* every exported validator of internal/pkg/parameters/specification, as recognised *)\n")
	b.WriteString("Definition all_validators : list (string * vkind) :=\n  [")
	for j, s := range vals.Specs {
		if j > 0 {
			b.WriteString(";\n   ")
		}
		fmt.Fprintf(&b, "(%s, %s)", coqString(s.pos, s.Key), s.Validator.coq(s.pos))
	}
	b.WriteString("].\n")
	if err := os.WriteFile(path, []byte(b.String()), 0644); err != nil {
		fmt.Fprintln(os.Stderr, "astfacts:", err)
		os.Exit(2)
	}
}

func main() {
	repo := flag.String("repo", "/repo", "repository root")
	coq := flag.String("coq", "", "output Specs.v")
	js := flag.String("json", "", "output JSON facts")
	flag.Parse()
	var err error
	repoRoot, err = filepath.Abs(*repo)
	if err != nil {
		fmt.Fprintln(os.Stderr, err)
		os.Exit(2)
	}
	module = readModule()
	load()
	comps := findTables()
	if len(comps) == 0 {
		die(token.NoPos, "no specification table found anywhere in the repository")
	}
	findSites(comps)
	vals := findValidators()
	if *coq != "" {
		writeCoq(*coq, comps, vals)
	}
	out := map[string]interface{}{"module": module, "components": comps, "validators": vals}
	bs, _ := json.MarshalIndent(out, "", " ")
	if *js != "" {
		if err := os.WriteFile(*js, bs, 0644); err != nil {
			fmt.Fprintln(os.Stderr, "astfacts:", err)
			os.Exit(2)
		}
	} else if *coq == "" {
		os.Stdout.Write(bs)
	}
}
