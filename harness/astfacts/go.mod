module verif/astfacts

go 1.21
