module astfacts16

go 1.21
