// astfacts16 -- stand-alone translator for property C16 (go/ast + go/parser only, no crem imports).
//
//	astfacts16 <repo root> <output Facts16.v>
//
// Reads the CURRENT source of the repository and regenerates the Coq record `Facts16.facts : serve_facts`
// (coq/theories/Serialise.v) that the instantiation theorem of Properties/C16.v is applied to:
//
//   - the shape of rest.MuxImpl.ServeHTTP (Lock on a sync.Mutex field of the pointer receiver first; `defer` Unlock of
//     the same field second; nothing called before the Lock; no other operation on that mutex in the package);
//   - handlers are looked up / invoked only from ServeHTTP, and the http.Server is given the mux itself as Handler;
//   - every type that (transitively) embeds rest.MuxImpl and whether it declares its own ServeHTTP;
//   - `go` statements, written package-level variables and re-entrant ServeHTTP calls in the handler packages.
//
// A shape it does not recognise is a hard error (exit 3), never a silent skip.  What it extracted is also printed as one
// JSON object on stdout (copied into the evidence).
package main

import (
	"encoding/json"
	"fmt"
	"go/ast"
	"go/parser"
	"go/token"
	"os"
	"path/filepath"
	"sort"
	"strings"
)

const (
	restPkg      = "internal/pkg/server/rest"
	engineApiPkg = "cmd/cremengine/engine/api"
	serverApiPkg = "internal/pkg/server/api"
	muxImplType  = "MuxImpl"
)

var handlerPkgs = []string{engineApiPkg, restPkg, serverApiPkg}

type fileInfo struct {
	path    string // relative to the repo root
	file    *ast.File
	imports map[string]string // local name -> import path
}

type pkgInfo struct {
	dir   string
	files []*fileInfo
}

var (
	fset    = token.NewFileSet()
	module  string
	pkgs    = map[string]*pkgInfo{}
	repoDir string
)

func fatal(format string, a ...interface{}) {
	fmt.Fprintf(os.Stderr, "astfacts16: "+format+"\n", a...)
	os.Exit(3)
}

func readModule() {
	b, err := os.ReadFile(filepath.Join(repoDir, "go.mod"))
	if err != nil {
		fatal("cannot read go.mod: %v", err)
	}
	for _, ln := range strings.Split(string(b), "\n") {
		ln = strings.TrimSpace(ln)
		if strings.HasPrefix(ln, "module ") {
			module = strings.TrimSpace(strings.TrimPrefix(ln, "module "))
			return
		}
	}
	fatal("no module line in go.mod")
}

func verifOnly(f *ast.File) bool {
	for _, cg := range f.Comments {
		if cg.Pos() > f.Package {
			break
		}
		for _, c := range cg.List {
			t := strings.TrimSpace(c.Text)
			if strings.HasPrefix(t, "//go:build") && strings.Contains(t, "verif") && !strings.Contains(t, "!verif") {
				return true
			}
		}
	}
	return false
}

func parseRepo() {
	err := filepath.Walk(repoDir, func(p string, info os.FileInfo, err error) error {
		if err != nil {
			return err
		}
		name := info.Name()
		if info.IsDir() {
			if p != repoDir && (strings.HasPrefix(name, ".") || strings.HasPrefix(name, "_") || name == "vendor" || name == "testdata") {
				return filepath.SkipDir
			}
			return nil
		}
		if !strings.HasSuffix(name, ".go") || strings.HasSuffix(name, "_test.go") {
			return nil
		}
		f, perr := parser.ParseFile(fset, p, nil, parser.ParseComments)
		if perr != nil {
			fatal("cannot parse %s: %v", p, perr)
		}
		if verifOnly(f) {
			return nil // hooks compiled only under the verif build tag are not part of the shipped program
		}
		rel, _ := filepath.Rel(repoDir, p)
		dir := filepath.ToSlash(filepath.Dir(rel))
		fi := &fileInfo{path: filepath.ToSlash(rel), file: f, imports: map[string]string{}}
		for _, im := range f.Imports {
			ip := strings.Trim(im.Path.Value, "\"`")
			local := ip[strings.LastIndex(ip, "/")+1:]
			if im.Name != nil {
				local = im.Name.Name
			}
			fi.imports[local] = ip
		}
		if pkgs[dir] == nil {
			pkgs[dir] = &pkgInfo{dir: dir}
		}
		pkgs[dir].files = append(pkgs[dir].files, fi)
		return nil
	})
	if err != nil {
		fatal("walking %s: %v", repoDir, err)
	}
}

func recvBase(fd *ast.FuncDecl) (typeName string, pointer bool, recvName string) {
	if fd.Recv == nil || len(fd.Recv.List) != 1 {
		return "", false, ""
	}
	fld := fd.Recv.List[0]
	if len(fld.Names) == 1 {
		recvName = fld.Names[0].Name
	}
	t := fld.Type
	if st, ok := t.(*ast.StarExpr); ok {
		pointer = true
		t = st.X
	}
	if id, ok := t.(*ast.Ident); ok {
		typeName = id.Name
	}
	return
}

func exprString(e ast.Expr) string {
	switch x := e.(type) {
	case *ast.Ident:
		return x.Name
	case *ast.SelectorExpr:
		return exprString(x.X) + "." + x.Sel.Name
	case *ast.StarExpr:
		return "*" + exprString(x.X)
	case *ast.ParenExpr:
		return exprString(x.X)
	case *ast.BasicLit:
		return x.Value
	case *ast.CallExpr:
		return exprString(x.Fun) + "(...)"
	case *ast.IndexExpr:
		return exprString(x.X) + "[...]"
	case *ast.UnaryExpr:
		return x.Op.String() + exprString(x.X)
	}
	return fmt.Sprintf("<%T>", e)
}

// mutexCall recognises  <recv>.<field>.<method>()  and returns the field.
func mutexCall(e ast.Expr, recv string) (field, method string, ok bool) {
	call, isCall := e.(*ast.CallExpr)
	if !isCall || len(call.Args) != 0 {
		return
	}
	outer, isSel := call.Fun.(*ast.SelectorExpr)
	if !isSel {
		return
	}
	inner, isSel2 := outer.X.(*ast.SelectorExpr)
	if !isSel2 {
		return
	}
	id, isId := inner.X.(*ast.Ident)
	if !isId || id.Name != recv || recv == "" || recv == "_" {
		return
	}
	return inner.Sel.Name, outer.Sel.Name, true
}

var lockish = map[string]bool{"Lock": true, "Unlock": true, "RLock": true, "RUnlock": true, "TryLock": true, "TryRLock": true}

// walkWithStack calls f(node, stack of ancestors (outermost first, not including node)).
func walkWithStack(root ast.Node, f func(n ast.Node, stack []ast.Node)) {
	var stack []ast.Node
	ast.Inspect(root, func(n ast.Node) bool {
		if n == nil {
			stack = stack[:len(stack)-1]
			return true
		}
		f(n, stack)
		stack = append(stack, n)
		return true
	})
}

type result struct {
	Repo                 string         `json:"repo"`
	MutexField           string         `json:"mutex_field"`
	MutexFieldType       string         `json:"mutex_field_type"`
	PointerReceiver      bool           `json:"pointer_receiver"`
	ServeBody            []string       `json:"serve_body_statements"`
	LockFirst            bool           `json:"sf_lock_first"`
	UnlockDeferred       bool           `json:"sf_unlock_deferred"`
	UnlockPresent        bool           `json:"sf_unlock_present"`
	CallsBeforeLock      int            `json:"sf_calls_before_lock"`
	OtherMutexOps        int            `json:"sf_other_mutex_ops"`
	OtherMutexOpsAt      []string       `json:"other_mutex_ops_at"`
	DispatchOnlyInServe  bool           `json:"sf_dispatch_only_in_serve"`
	DispatchNotes        []string       `json:"dispatch_notes"`
	Embedders            [][2]string    `json:"sf_embedders"`
	GoStmts              int            `json:"sf_go_stmts"`
	GoStmtsAt            []string       `json:"go_stmts_at"`
	PkgVars              []string       `json:"package_level_vars"`
	PkgVarsWritten       int            `json:"sf_pkg_vars_written"`
	PkgVarsWrittenAt     []string       `json:"pkg_vars_written_at"`
	ReentrantServeCalls  int            `json:"sf_reentrant_serve_calls"`
	ReentrantAt          []string       `json:"reentrant_serve_calls_at"`
	CrossMux             []string       `json:"cross_mux_registrations"`
	UnlockedEntryPoints  []string       `json:"unlocked_entry_points"`
	BootConcurrentAt     []string       `json:"boot_concurrent_at"`
	BootCallers          []string       `json:"boot_callers"`
	GoStmtsImportClosure map[string]int `json:"go_stmts_in_import_closure"`
	FilesParsed          int            `json:"files_parsed"`
}

func pos(n ast.Node) string {
	p := fset.Position(n.Pos())
	rel, _ := filepath.Rel(repoDir, p.Filename)
	return fmt.Sprintf("%s:%d", filepath.ToSlash(rel), p.Line)
}

// ---------------------------------------------------------------------------------------------------------------

func analyseServe(res *result) {
	rp := pkgs[restPkg]
	if rp == nil {
		fatal("package %s not found", restPkg)
	}
	// the struct
	var st *ast.StructType
	var stFile *fileInfo
	for _, fi := range rp.files {
		for _, d := range fi.file.Decls {
			gd, ok := d.(*ast.GenDecl)
			if !ok || gd.Tok != token.TYPE {
				continue
			}
			for _, sp := range gd.Specs {
				ts := sp.(*ast.TypeSpec)
				if ts.Name.Name == muxImplType {
					s, isStruct := ts.Type.(*ast.StructType)
					if !isStruct {
						fatal("%s.%s is not a struct type", restPkg, muxImplType)
					}
					if st != nil {
						fatal("%s.%s declared twice", restPkg, muxImplType)
					}
					st, stFile = s, fi
				}
			}
		}
	}
	if st == nil {
		fatal("type %s.%s not found", restPkg, muxImplType)
	}
	// the method
	var serve *ast.FuncDecl
	for _, fi := range rp.files {
		for _, d := range fi.file.Decls {
			fd, ok := d.(*ast.FuncDecl)
			if !ok || fd.Name.Name != "ServeHTTP" {
				continue
			}
			tn, _, _ := recvBase(fd)
			if tn == muxImplType {
				if serve != nil {
					fatal("two ServeHTTP methods on %s", muxImplType)
				}
				serve = fd
			}
		}
	}
	if serve == nil || serve.Body == nil {
		fatal("method (%s).ServeHTTP not found in %s", muxImplType, restPkg)
	}
	_, pointer, recv := recvBase(serve)
	res.PointerReceiver = pointer
	stmts := serve.Body.List
	for _, s := range stmts {
		switch x := s.(type) {
		case *ast.ExprStmt:
			res.ServeBody = append(res.ServeBody, exprString(x.X))
		case *ast.DeferStmt:
			res.ServeBody = append(res.ServeBody, "defer "+exprString(x.Call))
		default:
			res.ServeBody = append(res.ServeBody, fmt.Sprintf("<%T>", s))
		}
	}

	// every lock-like call in the body must be of the recognised form
	lockIdx, deferIdx, tailIdx := -1, -1, -1
	field := ""
	recognised := map[ast.Node]bool{}
	for i, s := range stmts {
		switch x := s.(type) {
		case *ast.ExprStmt:
			if f, m, ok := mutexCall(x.X, recv); ok && m == "Lock" && lockIdx < 0 {
				lockIdx, field = i, f
				recognised[x.X] = true
			}
		}
	}
	if lockIdx >= 0 {
		for i, s := range stmts {
			switch x := s.(type) {
			case *ast.DeferStmt:
				if f, m, ok := mutexCall(x.Call, recv); ok && m == "Unlock" && f == field && i > lockIdx && deferIdx < 0 {
					deferIdx = i
					recognised[x.Call] = true
				}
			case *ast.ExprStmt:
				if f, m, ok := mutexCall(x.X, recv); ok && m == "Unlock" && f == field && i == len(stmts)-1 && i > lockIdx {
					tailIdx = i
					recognised[x.X] = true
				}
			}
		}
	}
	ast.Inspect(serve.Body, func(n ast.Node) bool {
		call, ok := n.(*ast.CallExpr)
		if !ok || recognised[call] {
			return true
		}
		if sel, isSel := call.Fun.(*ast.SelectorExpr); isSel && lockish[sel.Sel.Name] {
			fatal("%s: unrecognised locking shape in ServeHTTP: %s", pos(call), exprString(call))
		}
		return true
	})
	hasReturn := false
	ast.Inspect(serve.Body, func(n ast.Node) bool {
		switch n.(type) {
		case *ast.ReturnStmt:
			hasReturn = true
		case *ast.FuncLit:
			return false
		}
		return true
	})

	// the field's type
	fieldTypeOk := false
	if field != "" {
		found := false
		for _, fld := range st.Fields.List {
			for _, nm := range fld.Names {
				if nm.Name != field {
					continue
				}
				found = true
				res.MutexFieldType = exprString(fld.Type)
				if sel, ok := fld.Type.(*ast.SelectorExpr); ok {
					if id, ok2 := sel.X.(*ast.Ident); ok2 && stFile.imports[id.Name] == "sync" &&
						(sel.Sel.Name == "Mutex" || sel.Sel.Name == "RWMutex") {
						fieldTypeOk = true
					}
				}
			}
		}
		if !found {
			fatal("ServeHTTP locks %s.%s but %s has no such field", recv, field, muxImplType)
		}
	}
	res.MutexField = field
	res.LockFirst = lockIdx >= 0 && pointer && fieldTypeOk // what precedes it is accounted for in sf_calls_before_lock
	res.UnlockDeferred = lockIdx >= 0 && deferIdx == lockIdx+1
	res.UnlockPresent = lockIdx >= 0 && (deferIdx > lockIdx || (tailIdx > lockIdx && !hasReturn))
	// what runs before the Lock: only the receipt log line is tolerated; a handler lookup / invocation there is the defect
	// "dispatch before the lock"; anything else is a shape this translator does not know.
	dispatchCalls := func(n ast.Node) int {
		c := 0
		ast.Inspect(n, func(x ast.Node) bool {
			call, ok := x.(*ast.CallExpr)
			if !ok {
				return true
			}
			switch f := call.Fun.(type) {
			case *ast.SelectorExpr:
				if f.Sel.Name == "handlerFor" || f.Sel.Name == "NotFoundError" {
					c++
				}
			case *ast.Ident:
				if f.Obj != nil && f.Obj.Kind == ast.Var { // a function value held in a local variable: the handler
					c++
				}
			case *ast.IndexExpr: // mi.HandlerMap[key](w, r)
				c++
			}
			return true
		})
		return c
	}
	if lockIdx < 0 {
		res.CallsBeforeLock = dispatchCalls(serve.Body)
		if res.CallsBeforeLock == 0 {
			fatal("unrecognised shape: ServeHTTP neither locks nor dispatches")
		}
	} else {
		for _, s := range stmts[:lockIdx] {
			if d := dispatchCalls(s); d > 0 {
				res.CallsBeforeLock += d
				continue
			}
			if es, ok := s.(*ast.ExprStmt); ok {
				if call, isCall := es.X.(*ast.CallExpr); isCall {
					if sel, isSel := call.Fun.(*ast.SelectorExpr); isSel && sel.Sel.Name == "logRequestReceipt" {
						continue // logging only; reported in serve_body_statements
					}
				}
			}
			fatal("%s: unrecognised statement before the Lock in ServeHTTP", pos(s))
		}
	}

	// any other use of the mutex field in the package
	res.OtherMutexOpsAt = []string{}
	if field != "" {
		for _, fi := range rp.files {
			walkWithStack(fi.file, func(n ast.Node, stack []ast.Node) {
				sel, ok := n.(*ast.SelectorExpr)
				if !ok || sel.Sel.Name != field {
					return
				}
				// parent selector + grandparent call is one of the recognised two?
				if len(stack) >= 2 {
					if call, isCall := stack[len(stack)-2].(*ast.CallExpr); isCall && recognised[call] {
						return
					}
				}
				res.OtherMutexOps++
				res.OtherMutexOpsAt = append(res.OtherMutexOpsAt, pos(sel))
			})
		}
	}

	// dispatch: HandlerMap is read only by handlerFor (and filled by Initialise/AddHandler); handlerFor is called only by
	// ServeHTTP; the http.Server gets the mux itself as Handler.
	res.DispatchNotes = []string{}
	ok := true
	handlerForCallsInServe := 0
	serverLits := 0
	for dir, p := range pkgs {
		for _, fi := range p.files {
			for _, d := range fi.file.Decls {
				fd, isFn := d.(*ast.FuncDecl)
				if !isFn || fd.Body == nil {
					continue
				}
				tn, _, rn := recvBase(fd)
				inRestMux := dir == restPkg && tn == muxImplType
				walkWithStack(fd.Body, func(n ast.Node, stack []ast.Node) {
					switch x := n.(type) {
					case *ast.SelectorExpr:
						if x.Sel.Name == "HandlerMap" {
							if len(stack) >= 1 {
								if psel, isSel := stack[len(stack)-1].(*ast.SelectorExpr); isSel && psel.Sel.Name == "AddHandler" && psel.X == x {
									return // registration
								}
							}
							if inRestMux && (fd.Name.Name == "Initialise" || fd.Name.Name == "handlerFor") {
								return
							}
							ok = false
							res.DispatchNotes = append(res.DispatchNotes, pos(x)+": HandlerMap used outside handlerFor/registration in "+fd.Name.Name)
						}
						if x.Sel.Name == "handlerFor" {
							if inRestMux && fd.Name.Name == "ServeHTTP" {
								handlerForCallsInServe++
								return
							}
							ok = false
							res.DispatchNotes = append(res.DispatchNotes, pos(x)+": handlerFor used outside ServeHTTP in "+fd.Name.Name)
						}
					case *ast.CompositeLit:
						sel, isSel := x.Type.(*ast.SelectorExpr)
						if !isSel || sel.Sel.Name != "Server" {
							return
						}
						id, isId := sel.X.(*ast.Ident)
						if !isId || fi.imports[id.Name] != "net/http" {
							return
						}
						serverLits++
						good := false
						for _, el := range x.Elts {
							kv, isKv := el.(*ast.KeyValueExpr)
							if !isKv {
								continue
							}
							if k, isK := kv.Key.(*ast.Ident); isK && k.Name == "Handler" {
								if v, isV := kv.Value.(*ast.Ident); isV && v.Name == rn && rn != "" {
									good = true
								}
							}
						}
						if !good {
							ok = false
							res.DispatchNotes = append(res.DispatchNotes, pos(x)+": http.Server literal whose Handler is not the mux itself")
						}
					case *ast.CallExpr:
						if sel, isSel := x.Fun.(*ast.SelectorExpr); isSel {
							if id, isId := sel.X.(*ast.Ident); isId && fi.imports[id.Name] == "net/http" &&
								(sel.Sel.Name == "ListenAndServe" || sel.Sel.Name == "ListenAndServeTLS" || sel.Sel.Name == "Serve" ||
									sel.Sel.Name == "Handle" || sel.Sel.Name == "HandleFunc") {
								ok = false
								res.DispatchNotes = append(res.DispatchNotes, pos(x)+": "+exprString(x.Fun)+" bypasses the mux's own server")
							}
						}
					}
				})
			}
		}
	}
	if handlerForCallsInServe == 0 {
		fatal("unrecognised dispatch shape: ServeHTTP does not call handlerFor")
	}
	if serverLits == 0 {
		fatal("unrecognised server shape: no http.Server composite literal found")
	}
	res.DispatchOnlyInServe = ok
}

type typeKey struct{ dir, name string }

func analyseEmbedders(res *result) {
	embeds := map[typeKey][]typeKey{} // type -> embedded types
	for dir, p := range pkgs {
		for _, fi := range p.files {
			for _, d := range fi.file.Decls {
				gd, ok := d.(*ast.GenDecl)
				if !ok || gd.Tok != token.TYPE {
					continue
				}
				for _, sp := range gd.Specs {
					ts := sp.(*ast.TypeSpec)
					s, isStruct := ts.Type.(*ast.StructType)
					if !isStruct {
						continue
					}
					for _, fld := range s.Fields.List {
						if len(fld.Names) != 0 {
							continue
						}
						t := fld.Type
						if se, isStar := t.(*ast.StarExpr); isStar {
							t = se.X
						}
						switch x := t.(type) {
						case *ast.Ident:
							embeds[typeKey{dir, ts.Name.Name}] = append(embeds[typeKey{dir, ts.Name.Name}], typeKey{dir, x.Name})
						case *ast.SelectorExpr:
							if id, isId := x.X.(*ast.Ident); isId {
								ip := fi.imports[id.Name]
								if strings.HasPrefix(ip, module+"/") {
									embeds[typeKey{dir, ts.Name.Name}] = append(embeds[typeKey{dir, ts.Name.Name}],
										typeKey{strings.TrimPrefix(ip, module+"/"), x.Sel.Name})
								}
							}
						}
					}
				}
			}
		}
	}
	target := typeKey{restPkg, muxImplType}
	reach := map[typeKey]bool{}
	changed := true
	for changed {
		changed = false
		for k, es := range embeds {
			if reach[k] {
				continue
			}
			for _, e := range es {
				if e == target || reach[e] {
					reach[k] = true
					changed = true
				}
			}
		}
	}
	keys := make([]typeKey, 0, len(reach))
	for k := range reach {
		keys = append(keys, k)
	}
	sort.Slice(keys, func(i, j int) bool {
		if keys[i].dir != keys[j].dir {
			return keys[i].dir < keys[j].dir
		}
		return keys[i].name < keys[j].name
	})
	res.Embedders = [][2]string{}
	for _, k := range keys {
		shadow := "false"
		for _, fi := range pkgs[k.dir].files {
			for _, d := range fi.file.Decls {
				if fd, ok := d.(*ast.FuncDecl); ok && fd.Name.Name == "ServeHTTP" {
					if tn, _, _ := recvBase(fd); tn == k.name {
						shadow = "true"
					}
				}
			}
		}
		res.Embedders = append(res.Embedders, [2]string{k.dir + "." + k.name, shadow})
	}
}

func rootIdent(e ast.Expr) *ast.Ident {
	for {
		switch x := e.(type) {
		case *ast.Ident:
			return x
		case *ast.SelectorExpr:
			e = x.X
		case *ast.IndexExpr:
			e = x.X
		case *ast.StarExpr:
			e = x.X
		case *ast.ParenExpr:
			e = x.X
		default:
			return nil
		}
	}
}

// zeroSizeStruct resolves a package-level variable's declared type and says whether it is `struct{}`.
func zeroSizeStruct(fi *fileInfo, dir string, t ast.Expr) (known bool, zero bool) {
	var k typeKey
	switch x := t.(type) {
	case *ast.Ident:
		k = typeKey{dir, x.Name}
	case *ast.SelectorExpr:
		id, ok := x.X.(*ast.Ident)
		if !ok {
			return false, false
		}
		ip := fi.imports[id.Name]
		if !strings.HasPrefix(ip, module+"/") {
			return false, false
		}
		k = typeKey{strings.TrimPrefix(ip, module+"/"), x.Sel.Name}
	default:
		return false, false
	}
	p := pkgs[k.dir]
	if p == nil {
		return false, false
	}
	for _, f := range p.files {
		for _, d := range f.file.Decls {
			gd, ok := d.(*ast.GenDecl)
			if !ok || gd.Tok != token.TYPE {
				continue
			}
			for _, sp := range gd.Specs {
				ts := sp.(*ast.TypeSpec)
				if ts.Name.Name != k.name {
					continue
				}
				s, isStruct := ts.Type.(*ast.StructType)
				if !isStruct {
					return true, false
				}
				return true, len(s.Fields.List) == 0
			}
		}
	}
	return false, false
}

func analyseHandlerPackages(res *result) {
	res.GoStmtsAt, res.PkgVars, res.PkgVarsWrittenAt, res.ReentrantAt = []string{}, []string{}, []string{}, []string{}
	for _, dir := range handlerPkgs {
		p := pkgs[dir]
		if p == nil {
			fatal("handler package %s not found", dir)
		}
		// package-level variables
		type pv struct {
			fi *fileInfo
			t  ast.Expr
		}
		vars := map[string]pv{}
		for _, fi := range p.files {
			for _, d := range fi.file.Decls {
				gd, ok := d.(*ast.GenDecl)
				if !ok || gd.Tok != token.VAR {
					continue
				}
				for _, sp := range gd.Specs {
					vs := sp.(*ast.ValueSpec)
					for _, nm := range vs.Names {
						if nm.Name == "_" {
							continue
						}
						vars[nm.Name] = pv{fi, vs.Type}
						ty := "<inferred>"
						if vs.Type != nil {
							ty = exprString(vs.Type)
						}
						res.PkgVars = append(res.PkgVars, dir+"."+nm.Name+" : "+ty)
					}
				}
			}
		}
		written := map[string]bool{}
		mark := func(name string, n ast.Node, why string) {
			if !written[name] {
				written[name] = true
				res.PkgVarsWritten++
			}
			res.PkgVarsWrittenAt = append(res.PkgVarsWrittenAt, pos(n)+": "+name+" "+why)
		}
		for _, fi := range p.files {
			for _, d := range fi.file.Decls {
				fd, isFn := d.(*ast.FuncDecl)
				if !isFn || fd.Body == nil {
					continue
				}
				walkWithStack(fd.Body, func(n ast.Node, stack []ast.Node) {
					switch x := n.(type) {
					case *ast.GoStmt:
						res.GoStmts++
						res.GoStmtsAt = append(res.GoStmtsAt, pos(x))
					case *ast.AssignStmt:
						if x.Tok == token.DEFINE {
							return
						}
						for _, l := range x.Lhs {
							if id := rootIdent(l); id != nil {
								if _, isVar := vars[id.Name]; isVar && isPackageLevel(id, p) {
									mark(id.Name, x, "assigned")
								}
							}
						}
					case *ast.IncDecStmt:
						if id := rootIdent(x.X); id != nil {
							if _, isVar := vars[id.Name]; isVar && isPackageLevel(id, p) {
								mark(id.Name, x, "incremented/decremented")
							}
						}
					case *ast.UnaryExpr:
						if x.Op == token.AND {
							if id := rootIdent(x.X); id != nil {
								if _, isVar := vars[id.Name]; isVar && isPackageLevel(id, p) {
									mark(id.Name, x, "address taken")
								}
							}
						}
					case *ast.SelectorExpr:
						if x.Sel.Name == "ServeHTTP" {
							res.ReentrantServeCalls++
							res.ReentrantAt = append(res.ReentrantAt, pos(x))
						}
						// method call / field access on a package-level variable: harmless only if its type is struct{}
						if id, isId := x.X.(*ast.Ident); isId {
							if v, isVar := vars[id.Name]; isVar && isPackageLevel(id, p) {
								if v.t == nil {
									fatal("%s: package-level variable %s without a declared type is used by a handler package", pos(x), id.Name)
								}
								known, zero := zeroSizeStruct(v.fi, dir, v.t)
								if !known {
									fatal("%s: cannot resolve the type %s of package-level variable %s", pos(x), exprString(v.t), id.Name)
								}
								if !zero {
									mark(id.Name, x, "of a type with state is used ("+x.Sel.Name+")")
								}
							}
						}
					}
				})
			}
		}
	}
	sort.Strings(res.PkgVars)
}

// isPackageLevel: the identifier refers to the file-scope object (the parser's resolver links identifiers that are
// declared in the same FILE; identifiers of package-level variables declared in another file stay unresolved).
func isPackageLevel(id *ast.Ident, p *pkgInfo) bool {
	if id.Obj == nil {
		return true
	}
	if id.Obj.Kind != ast.Var {
		return false
	}
	vs, ok := id.Obj.Decl.(*ast.ValueSpec)
	if !ok {
		return false
	}
	for _, fi := range p.files {
		for _, d := range fi.file.Decls {
			if gd, isGd := d.(*ast.GenDecl); isGd && gd.Tok == token.VAR {
				for _, sp := range gd.Specs {
					if sp == ast.Spec(vs) {
						return true
					}
				}
			}
		}
	}
	return false
}

func analyseInformational(res *result) {
	res.CrossMux, res.UnlockedEntryPoints = []string{}, []string{}
	registered := map[string]bool{}
	for _, p := range pkgs {
		for _, fi := range p.files {
			ast.Inspect(fi.file, func(n ast.Node) bool {
				call, ok := n.(*ast.CallExpr)
				if !ok || len(call.Args) != 2 {
					return true
				}
				sel, isSel := call.Fun.(*ast.SelectorExpr)
				if !isSel || sel.Sel.Name != "AddHandler" {
					return true
				}
				h, isMethodValue := call.Args[1].(*ast.SelectorExpr)
				if !isMethodValue {
					return true
				}
				registered[h.Sel.Name] = true
				muxExpr := strings.TrimSuffix(exprString(sel.X), ".HandlerMap")
				owner := exprString(h.X)
				if muxExpr != owner {
					res.CrossMux = append(res.CrossMux, fmt.Sprintf("%s: %s.AddHandler(%s, %s)", pos(call), exprString(sel.X), exprString(call.Args[0]), exprString(h)))
				}
				return true
			})
		}
	}
	for _, fi := range pkgs[engineApiPkg].files {
		for _, d := range fi.file.Decls {
			fd, ok := d.(*ast.FuncDecl)
			if !ok {
				continue
			}
			tn, _, _ := recvBase(fd)
			if tn == "Mux" && ast.IsExported(fd.Name.Name) && !registered[fd.Name.Name] {
				res.UnlockedEntryPoints = append(res.UnlockedEntryPoints, fd.Name.Name)
			}
		}
	}
	sort.Strings(res.CrossMux)
	sort.Strings(res.UnlockedEntryPoints)

	// go statements in the module-internal import closure of the engine's handler package (reported, not an obligation)
	res.GoStmtsImportClosure = map[string]int{}
	seen := map[string]bool{}
	var visit func(dir string)
	visit = func(dir string) {
		if seen[dir] || pkgs[dir] == nil {
			return
		}
		seen[dir] = true
		c := 0
		for _, fi := range pkgs[dir].files {
			ast.Inspect(fi.file, func(n ast.Node) bool {
				if _, ok := n.(*ast.GoStmt); ok {
					c++
				}
				return true
			})
			for _, ip := range fi.imports {
				if strings.HasPrefix(ip, module+"/") {
					visit(strings.TrimPrefix(ip, module+"/"))
				}
			}
		}
		if c > 0 {
			res.GoStmtsImportClosure[dir] = c
		}
	}
	visit(engineApiPkg)
}

// The engine's exported Mux methods that are not registered as handlers (SetScenario, SetSolution, SetSolutionSummary, ...)
// change the served state WITHOUT the request lock. That is sound only while no request can be in flight: they must be
// reached, outside the handler packages, only from straight-line start-up code that runs BEFORE the server is started -
// never from a go statement or a function literal, and never after the call that runs the server. This pass lists every
// site that breaks that rule (an empty list is the side condition of C16's boot clause).
func analyseBoot(res *result) {
	res.BootConcurrentAt, res.BootCallers = []string{}, []string{}
	entry := map[string]bool{}
	for _, n := range res.UnlockedEntryPoints {
		if strings.HasPrefix(n, "Set") {
			entry[n] = true
		}
	}
	isHandlerPkg := map[string]bool{}
	for _, h := range handlerPkgs {
		isHandlerPkg[h] = true
	}
	entryCall := func(n ast.Node) bool {
		call, ok := n.(*ast.CallExpr)
		if !ok {
			return false
		}
		sel, ok := call.Fun.(*ast.SelectorExpr)
		return ok && entry[sel.Sel.Name]
	}
	dirs := []string{}
	for d := range pkgs {
		dirs = append(dirs, d)
	}
	sort.Strings(dirs)
	for _, dir := range dirs {
		if isHandlerPkg[dir] {
			continue
		}
		p := pkgs[dir]
		funcs := map[string]*ast.FuncDecl{}
		for _, fi := range p.files {
			for _, d := range fi.file.Decls {
				if fd, ok := d.(*ast.FuncDecl); ok && fd.Body != nil {
					funcs[fd.Name.Name] = fd // methods and functions by bare name: an over-approximation
				}
			}
		}
		// an engine type that merely forwards (func (e *Engine) SetScenario(f) { e.mux.SetScenario(f) }) is an entry itself
		reaches := map[string]bool{}
		calledName := func(call *ast.CallExpr) string {
			switch f := call.Fun.(type) {
			case *ast.Ident:
				return f.Name
			case *ast.SelectorExpr:
				return f.Sel.Name
			}
			return ""
		}
		for changed := true; changed; {
			changed = false
			for name, fd := range funcs {
				if reaches[name] {
					continue
				}
				hit := false
				ast.Inspect(fd.Body, func(n ast.Node) bool {
					if call, ok := n.(*ast.CallExpr); ok {
						if entryCall(call) || (funcs[calledName(call)] != nil && reaches[calledName(call)]) {
							hit = true
						}
					}
					return !hit
				})
				if hit {
					reaches[name] = true
					changed = true
				}
			}
		}
		if len(reaches) == 0 {
			continue
		}
		// which functions of this package start the server: a call of a method named Run / Start / ListenAndServe
		serves := map[string]bool{}
		for changed := true; changed; {
			changed = false
			for name, fd := range funcs {
				if serves[name] {
					continue
				}
				hit := false
				ast.Inspect(fd.Body, func(n ast.Node) bool {
					if call, ok := n.(*ast.CallExpr); ok {
						cn := calledName(call)
						if _, isSel := call.Fun.(*ast.SelectorExpr); isSel && (cn == "Run" || cn == "Start" || cn == "ListenAndServe") {
							hit = true
						}
						if funcs[cn] != nil && serves[cn] && !reaches[cn] {
							hit = true
						}
					}
					return !hit
				})
				if hit {
					serves[name] = true
					changed = true
				}
			}
		}
		reachesCall := func(n ast.Node) bool {
			found := false
			ast.Inspect(n, func(m ast.Node) bool {
				if call, ok := m.(*ast.CallExpr); ok {
					if entryCall(call) || (funcs[calledName(call)] != nil && reaches[calledName(call)]) {
						found = true
					}
				}
				return !found
			})
			return found
		}
		// a go statement (function literal, deferred call) that carries the WHOLE start-up-then-serve sequence to another
		// goroutine keeps the order; one that reaches the loaders but not the start of the server runs beside it
		servesAny := map[string]bool{}
		for changed := true; changed; {
			changed = false
			for name, fd := range funcs {
				if servesAny[name] {
					continue
				}
				hit := false
				ast.Inspect(fd.Body, func(n ast.Node) bool {
					if call, ok := n.(*ast.CallExpr); ok {
						cn := calledName(call)
						if _, isSel := call.Fun.(*ast.SelectorExpr); isSel && (cn == "Run" || cn == "Start" || cn == "ListenAndServe") {
							hit = true
						}
						if funcs[cn] != nil && servesAny[cn] {
							hit = true
						}
					}
					return !hit
				})
				if hit {
					servesAny[name] = true
					changed = true
				}
			}
		}
		servesCall := func(n ast.Node) bool {
			found := false
			ast.Inspect(n, func(m ast.Node) bool {
				if call, ok := m.(*ast.CallExpr); ok {
					cn := calledName(call)
					if _, isSel := call.Fun.(*ast.SelectorExpr); isSel && (cn == "Run" || cn == "Start" || cn == "ListenAndServe") {
						found = true
					}
					if funcs[cn] != nil && servesAny[cn] {
						found = true
					}
				}
				return !found
			})
			return found
		}
		names := []string{}
		for n := range reaches {
			names = append(names, n)
		}
		sort.Strings(names)
		for _, n := range names {
			res.BootCallers = append(res.BootCallers, dir+"."+n)
		}
		for _, fi := range p.files {
			ast.Inspect(fi.file, func(n ast.Node) bool {
				switch x := n.(type) {
				case *ast.GoStmt:
					if reachesCall(x.Call) && !servesCall(x.Call) {
						res.BootConcurrentAt = append(res.BootConcurrentAt, pos(x)+": go statement reaches an unlocked state-changing entry point of the engine")
					}
				case *ast.FuncLit:
					if reachesCall(x.Body) && !servesCall(x.Body) {
						res.BootConcurrentAt = append(res.BootConcurrentAt, pos(x)+": function literal reaches an unlocked state-changing entry point of the engine")
					}
				case *ast.DeferStmt:
					if reachesCall(x.Call) {
						res.BootConcurrentAt = append(res.BootConcurrentAt, pos(x)+": deferred call reaches an unlocked state-changing entry point of the engine")
					}
				case *ast.BlockStmt:
					served := false
					for _, st := range x.List {
						es, ok := st.(*ast.ExprStmt)
						if !ok {
							continue
						}
						call, ok := es.X.(*ast.CallExpr)
						if !ok {
							continue
						}
						cn := calledName(call)
						if served && reachesCall(call) {
							res.BootConcurrentAt = append(res.BootConcurrentAt, pos(call)+": an unlocked state-changing entry point of the engine is reached after the server was started")
						}
						if funcs[cn] != nil && serves[cn] && !reaches[cn] {
							served = true
						}
						if _, isSel := call.Fun.(*ast.SelectorExpr); isSel && (cn == "Run" || cn == "Start" || cn == "ListenAndServe") {
							served = true
						}
					}
				}
				return true
			})
		}
	}
	sort.Strings(res.BootConcurrentAt)
}

func coqBool(b bool) string {
	if b {
		return "true"
	}
	return "false"
}

func coqString(s string) string { return "\"" + strings.ReplaceAll(s, "\"", "\"\"") + "\"" }

func coqStringList(xs []string) string {
	parts := make([]string, len(xs))
	for i, x := range xs {
		parts[i] = coqString(x)
	}
	return "[" + strings.Join(parts, "; ") + "]"
}

func writeCoq(res *result, path string) {
	var b strings.Builder
	b.WriteString("(* GENERATED by harness/astfacts16 from the current source of " + repoDir + " -- do not edit *)\n")
	b.WriteString("From Coq Require Import String List.\nFrom Crem Require Import Serialise.\nImport ListNotations.\nOpen Scope string_scope.\n\n")
	b.WriteString("Definition mutex_field : string := " + coqString(res.MutexField) + ".\n")
	b.WriteString("Definition serve_body : list string := " + coqStringList(res.ServeBody) + ".\n\n")
	emb := make([]string, len(res.Embedders))
	for i, e := range res.Embedders {
		emb[i] = "(" + coqString(e[0]) + ", " + e[1] + ")"
	}
	b.WriteString("Definition facts : serve_facts := {|\n")
	b.WriteString("  sf_lock_first := " + coqBool(res.LockFirst) + ";\n")
	b.WriteString("  sf_unlock_deferred := " + coqBool(res.UnlockDeferred) + ";\n")
	b.WriteString("  sf_unlock_present := " + coqBool(res.UnlockPresent) + ";\n")
	b.WriteString(fmt.Sprintf("  sf_calls_before_lock := %d;\n", res.CallsBeforeLock))
	b.WriteString(fmt.Sprintf("  sf_other_mutex_ops := %d;\n", res.OtherMutexOps))
	b.WriteString("  sf_dispatch_only_in_serve := " + coqBool(res.DispatchOnlyInServe) + ";\n")
	b.WriteString("  sf_embedders := [" + strings.Join(emb, "; ") + "];\n")
	b.WriteString(fmt.Sprintf("  sf_go_stmts := %d;\n", res.GoStmts))
	b.WriteString(fmt.Sprintf("  sf_pkg_vars_written := %d;\n", res.PkgVarsWritten))
	b.WriteString(fmt.Sprintf("  sf_reentrant_serve_calls := %d\n|}.\n\n", res.ReentrantServeCalls))
	b.WriteString("(* reported, not an obligation *)\n")
	b.WriteString("Definition cross_mux_registrations : list string := " + coqStringList(res.CrossMux) + ".\n")
	b.WriteString("Definition unlocked_entry_points : list string := " + coqStringList(res.UnlockedEntryPoints) + ".\n")
	b.WriteString("(* sites where an unlocked state-changing entry point is reached concurrently with (or after) serving: must be [] *)\n")
	b.WriteString("Definition boot_concurrent_sites : list string := " + coqStringList(res.BootConcurrentAt) + ".\n")
	b.WriteString("Definition boot_callers : list string := " + coqStringList(res.BootCallers) + ".\n")
	if err := os.WriteFile(path, []byte(b.String()), 0o644); err != nil {
		fatal("cannot write %s: %v", path, err)
	}
}

func main() {
	if len(os.Args) != 3 {
		fmt.Fprintln(os.Stderr, "usage: astfacts16 <repo root> <output Facts16.v>")
		os.Exit(2)
	}
	var err error
	repoDir, err = filepath.Abs(os.Args[1])
	if err != nil {
		fatal("%v", err)
	}
	readModule()
	parseRepo()
	res := &result{Repo: repoDir}
	for _, p := range pkgs {
		res.FilesParsed += len(p.files)
	}
	analyseServe(res)
	analyseEmbedders(res)
	analyseHandlerPackages(res)
	analyseInformational(res)
	analyseBoot(res)
	found := false
	for _, e := range res.Embedders {
		if e[0] == engineApiPkg+".Mux" {
			found = true
		}
	}
	if !found {
		// reported through the facts (engine_embeds = false), not an error: the engine's mux no longer goes through rest.MuxImpl
		fmt.Fprintln(os.Stderr, "astfacts16: warning: "+engineApiPkg+".Mux does not embed "+restPkg+"."+muxImplType)
	}
	writeCoq(res, os.Args[2])
	out, _ := json.Marshal(res)
	fmt.Println(string(out))
}
