//go:build verif

// C03: (a) the REAL randomisation loops (CoreModel.Randomize under a limit) driven by scripted picks,
// compared with Limits.rand_loop including the attempt-limit panic; (b) full optimisation runs of both
// explorer families on the catchment model under limits: every boundary state (after the initial
// randomisation and after every iteration) and every archive entry is projected and, implementation-side,
// checked against the limit (the Search oracle); (c) composed single-objective runs: see c03ckp.go.
package main

import (
	"fmt"
	mrand "math/rand"
	"strings"

	"github.com/LindsayBradford/crem/internal/pkg/annealing/explorer/kirkpatrick"
	"github.com/LindsayBradford/crem/internal/pkg/annealing/explorer/suppapitnarm"
	"github.com/LindsayBradford/crem/internal/pkg/model"
	"github.com/LindsayBradford/crem/internal/pkg/model/archive"
	"github.com/LindsayBradford/crem/internal/pkg/observer"
	"github.com/LindsayBradford/crem/internal/pkg/parameters"
	crand "github.com/LindsayBradford/crem/internal/pkg/rand"
	"github.com/LindsayBradford/crem/pkg/logging/loggers"
)

func init() { register("C03", runC03) }

// scripted source that panics when exhausted (so that a loop that would spin forever is observable)
type c03Script struct{ q []int64 }

func (s *c03Script) Int63() int64 {
	if len(s.q) == 0 {
		panic("verif: scripted picks exhausted")
	}
	v := s.q[0]
	s.q = s.q[1:]
	return v
}
func (s *c03Script) Seed(int64) {}

var _ mrand.Source = new(c03Script)

// value range of variable k on a data set: as-is total and all-active total
func c03Range(ds string, k int) (float64, float64) {
	c := catchOpen(txPath(ds), nil)
	lo := c.perUnit(catchVarNames[k]).Value()
	for i := 0; i < c.nact; i++ {
		c.m.SetManagementAction(i, true)
	}
	hi := c.perUnit(catchVarNames[k]).Value()
	return lo, hi
}

// a limit for variable k that is attainable at the optimiser's starting extreme, at the given fraction of the range
func c03Limit(ds string, k int, frac float64) float64 {
	if frac == 0 && k >= 4 {
		// the smallest legal limit, exactly attained by the cost-limit starting extreme (nothing active): "only actions that
		// cost nothing"; every other state is at least a cent away, so the comparison with it is exact in float64 too
		return 0
	}
	asIs, allActive := c03Range(ds, k)
	var start, other float64
	if k >= 4 { // cost: starts with nothing active (0), grows with activation
		start, other = asIs, allActive
	} else { // pollutant: starts with everything active (lowest), grows with deactivation
		start, other = allActive, asIs
	}
	l := start + frac*(other-start)
	half := 0.5 / catchVarScale[k]
	x := l * catchVarScale[k]
	l = (float64(int64(x)) + 0.5) / catchVarScale[k] // off the grid
	if l < start+half {
		l = start + half
	}
	return l
}

func c03Bits(c *catchInst) []int {
	b := make([]int, c.nact)
	for i, a := range c.m.ManagementActions() {
		if a.IsActive() {
			b[i] = 1
		}
	}
	return b
}

func runC03(args []string) {
	tier := "quick"
	if len(args) > 0 {
		tier = args[0]
	}
	p := newPrng(303)
	stats := map[string]int{}
	fails := 0
	// the shipped data set with the full budget, generated random data sets with a smaller one
	nGen := 2
	if tier == "thorough" {
		nGen = 10
	}
	genNames, genCleanup := txAddGenerated(p, nGen, stats)
	defer genCleanup()
	if tier == "thorough" {
		c03OnDataset("ValidModel.csv", p, stats, &fails, 240, 1500, 36)
		for _, g := range genNames {
			c03OnDataset(g, p, stats, &fails, 60, 400, 6)
		}
	} else {
		c03OnDataset("ValidModel.csv", p, stats, &fails, 96, 240, 12)
		for _, g := range genNames {
			c03OnDataset(g, p, stats, &fails, 24, 80, 4)
		}
	}
	// ---------- (c) composed single-objective runs (c03ckp.go; own random stream, after everything else so that
	// the cases above stay as they are) ----------
	ckpFails := 0
	c03ckpAll(tier, append([]string{"ValidModel.csv"}, genNames...), stats, &ckpFails)
}

func c03OnDataset(ds string, p *prng, stats map[string]int, failsp *int, loopCases, iters, runs int) {
	fails := 0
	defer func() { *failsp += fails }()
	base := catchOpen(txPath(ds), nil)
	emit(base.export(ds))
	n := base.nact

	// ---------- (a) randomisation loops ----------
	for lc := 0; lc < loopCases; lc++ {
		k := lc % 6
		frac := []float64{0.05, 0.3, 0.6, 0.95, 1.5}[p.intn(5)]
		if k >= 4 && lc%5 == 4 {
			frac = 0
			stats["loop:cost-limit-exactly-zero"]++
		}
		limit := c03Limit(ds, k, frac)
		prm := parameters.Map{catchLimitKeys[k]: limit}
		c := catchOpen(txPath(ds), prm)
		if lc%3 == 1 {
			// the instance has a life behind it: an earlier Initialise(Random) + Randomize (what a previous run of the
			// same explorer did) -- the limit must be enforced on the CURRENT state after re-initialisation too
			protect(func() {
				withWatchdog(20, "CoreModel.Randomize (warm-up)", J{"limit": J{"var": k, "max": limit}}, func() {
					c.m.Initialise(model.Random)
					c.m.Randomize()
				})
			})
			stats["loop:warmed-up-instance"]++
		}
		var start interface{}
		if p.chance(0.5) {
			c.m.Initialise(model.Random) // the starting extreme chosen by the real code
			start = nil
		} else {
			// a state somewhere between the extremes that respects the limit: walk from the extreme
			c.m.Initialise(model.Random)
			for tries := 0; tries < n; tries++ {
				i := p.intn(n)
				c.toggleObserved(i)
				if ok, _ := c.m.ChangeIsValid(); ok {
					c.m.AcceptChange()
				} else {
					c.m.RevertChange()
				}
			}
			start = c03Bits(c)
		}
		npicks := 1 + p.intn(5*n)
		picks := make([]int, npicks)
		q := make([]int64, npicks)
		for j := range picks {
			picks[j] = p.intn(n)
			q[j] = int64(picks[j]) << 32
		}
		c.m.VerifManagementActions().SetRandomNumberGenerator(crand.New(&c03Script{q: q}))
		outcome := "ok"
		panicked, what := protect(func() {
			withWatchdog(20, "CoreModel.Randomize under a limit", J{"limit": J{"var": k, "max": limit}, "start": start, "picks": picks},
				func() { c.m.Randomize() })
		})
		if panicked {
			switch {
			case strings.Contains(what, "Attempt limit reached"):
				outcome = "panic"
			case strings.Contains(what, "scripted picks exhausted"):
				outcome = "nopicks"
			default:
				outcome = "other-panic: " + what
			}
		}
		stats["loop:"+outcome]++
		o := c.obs()
		emit(J{"kind": "case", "sub": "loop", "dataset": ds, "limit": J{"var": k, "max": flOf(limit)}, "start": start, "picks": picks,
			"outcome": outcome, "obs": o})
		if outcome == "ok" {
			v := c.perUnit(catchVarNames[k]).Value()
			if v > limit {
				fails++
				emit(J{"kind": "oracle", "dataset": ds, "what": "limit exceeded after the randomisation loop", "limit": J{"var": k, "max": limit},
					"start": start, "picks": picks, "value": v})
			}
		}
	}

	// ---------- (b) full runs ----------
	for r := 0; r < runs; r++ {
		k := r % 6
		family := []string{"kirkpatrick", "suppapitnarm"}[(r/6+r)%2]
		frac := []float64{0.1, 0.5, 0.9}[p.intn(3)]
		if k >= 4 && (r/6)%2 == 1 {
			frac = 0
			stats["run:cost-limit-exactly-zero"]++
		}
		limit := c03Limit(ds, k, frac)
		prm := parameters.Map{catchLimitKeys[k]: limit}
		var trace []J
		var csteps []J
		var cstart []int
		var runErr string
		attempts := 0
		for attempts < 12 { // D14(b): the attempt-limit panic strikes randomly; it is an outcome, try again
			attempts++
			trace = trace[:0]
			c := catchOpen(txPath(ds), prm)
			scratch := catchOpen(txPath(ds), prm)
			record := func(cur *catchInst, arch []*archive.CompressedModelState) {
				e := J{"bits": c03Bits(cur), "val": cur.grid(cur.perUnit(catchVarNames[k]).Value(), catchVarScale[k])}
				entries := make([]J, 0)
				for _, a := range arch {
					new(archive.ModelCompressor).Decompress(a, scratch.m)
					entries = append(entries, J{"bits": c03Bits(scratch), "val": scratch.grid(scratch.perUnit(catchVarNames[k]).Value(), catchVarScale[k])})
				}
				e["arch"] = entries
				trace = append(trace, e)
			}
			panicked, what := protect(func() {
				withWatchdog(120, "optimisation run under a limit ("+family+")", J{"family": family, "limit": J{"var": k, "max": limit}}, func() {
					if family == "kirkpatrick" {
						ex := kirkpatrick.New()
						ex.SetLogHandler(new(loggers.NullLogger))
						ex.SetModel(c.forExplorer())
						ex.SetParameters(parameters.Map{"DecisionVariable": "SedimentProduction", "StartingTemperature": 50.0, "CoolingFactor": 0.99})
						if r%2 == 1 {
							ex.Initialise() // a previous run of the same explorer instance
							for it := 0; it < 5; it++ {
								ex.TryRandomChange()
							}
						}
						ex.Initialise()
						record(c, nil)
						for it := 0; it < iters; it++ {
							ex.TryRandomChange()
							ex.CoolDown()
							record(c, nil)
						}
					} else {
						ex := suppapitnarm.New()
						ex.SetLogHandler(new(loggers.NullLogger))
						ex.SetModel(c.forExplorer())
						ex.SetParameters(parameters.Map{"StartingTemperature": 50.0, "CoolingFactor": 0.99,
							"InitialReturnToBaseStep": int64(7), "MinimumReturnToBaseRate": int64(2), "ReturnToBaseAdjustmentFactor": 0.9})
						ex.Initialise()
						cur := &catchInst{m: nil}
						_ = cur
						getArch := func() []*archive.CompressedModelState {
							attrs := ex.EventAttributes(observer.FinishedAnnealing)
							v := attrs.Value("ModelArchive")
							if a, ok := v.(archive.NonDominanceModelArchive); ok {
								return a.Archive()
							}
							return nil
						}
						record(c, getArch())
						csteps = csteps[:0]
						cstart = c03Bits(c)
						sortedVars := []int{2, 4, 5, 1, 0, 3} // catchVarNames indices in sorted-name order
						for it := 0; it < iters/4; it++ {
							ex.TryRandomChange()
							ex.CoolDown()
							record(c, getArch())
							// what the composed model (Compose.v) needs to replay this iteration
							_, pot := ex.VerifC05Models()
							cand := make([]int, 0)
							for _, a := range pot.ManagementActions() {
								if a.IsActive() {
									cand = append(cand, 1)
								} else {
									cand = append(cand, 0)
								}
							}
							_, accepted, _ := ex.VerifC06Flags()
							current, lastReturned := ex.VerifC06Iteration()
							ordered := make([]J, 0)
							for _, a := range ex.VerifC05Archive().Archive() {
								new(archive.ModelCompressor).Decompress(a, scratch.m)
								vals := make([]int64, 6)
								for vi, k2 := range sortedVars {
									vals[vi] = scratch.grid(scratch.perUnit(catchVarNames[k2]).Value(), catchVarScale[k2])
								}
								ordered = append(ordered, J{"bits": c03Bits(scratch), "vals": vals})
							}
							csteps = append(csteps, J{"cand": cand, "accepted": accepted, "rtb": lastReturned == current-1 && current > 1,
								"cur": c03Bits(c), "arch": ordered})
						}
					}
				})
			})
			if !panicked {
				runErr = ""
				break
			}
			runErr = what
			if strings.Contains(what, "Attempt limit reached") {
				stats["run:attempt-limit-panic"]++
				continue
			}
			break
		}
		if runErr != "" && !strings.Contains(runErr, "Attempt limit reached") {
			fails++
			emit(J{"kind": "oracle", "dataset": ds, "what": "run panicked: " + runErr, "family": family, "limit": J{"var": k, "max": limit}})
			continue
		}
		if runErr != "" {
			stats["run:gave-up"]++
			continue
		}
		stats["run:"+family]++
		stats["boundaries"] += len(trace)
		// implementation-side oracle
		for t, e := range trace {
			bad := ""
			if float64(e["val"].(int64))/catchVarScale[k] > limit {
				bad = fmt.Sprintf("limit exceeded by the held state at boundary %d", t)
			}
			for _, a := range e["arch"].([]J) {
				if float64(a["val"].(int64))/catchVarScale[k] > limit {
					bad = fmt.Sprintf("limit exceeded by an archived solution at boundary %d", t)
				}
			}
			if bad != "" {
				fails++
				if fails <= 5 {
					emit(J{"kind": "oracle", "dataset": ds, "what": bad, "family": family, "limit": J{"var": k, "max": limit}, "trace_prefix": trace[:t+1]})
				}
				break
			}
		}
		emit(J{"kind": "case", "sub": "run", "dataset": ds, "family": family, "limit": J{"var": k, "max": flOf(limit)}, "trace": trace})
		if family == "suppapitnarm" {
			emit(J{"kind": "case", "sub": "crun", "dataset": ds, "limit": J{"var": k, "max": flOf(limit)}, "start": cstart, "steps": append([]J{}, csteps...)})
			stats["composed_steps"] += len(csteps)
		}
	}
	stats["oracle_failures"] = fails
	emit(J{"kind": "stat", "stats": stats})
}
