//go:build verif

package main

// C18: parameter validation is sound.
//
// Drives (a) the real generic machinery internal/pkg/parameters.Parameters with the real specification table of
// every component (both Assign* variants) and (b) the real components through their own SetParameters, on user
// maps built from a palette of values of every TOML type (and a few non-TOML Go types) incl. the boundaries of
// every validator.  Observes the ValidationErrors and HasEntry + all four typed getters (under recover) on
// every specified key.  An independent oracle (written from the property, using the validator facts extracted
// from the source by harness/astfacts) is evaluated on every run; a late-failure probe initialises the real
// models with every accepted single value.

import (
	"encoding/json"
	"fmt"
	"math"
	"os"
	"path/filepath"
	"reflect"
	"regexp"
	"sort"
	"strings"
	"time"

	"github.com/LindsayBradford/crem/internal/pkg/annealing/annealers"
	coolAveraged "github.com/LindsayBradford/crem/internal/pkg/annealing/cooling/coolants/averaged"
	coolKirk "github.com/LindsayBradford/crem/internal/pkg/annealing/cooling/coolants/kirkpatrick"
	coolSupp "github.com/LindsayBradford/crem/internal/pkg/annealing/cooling/coolants/suppapitnarm"
	expKirk "github.com/LindsayBradford/crem/internal/pkg/annealing/explorer/kirkpatrick"
	expSupp "github.com/LindsayBradford/crem/internal/pkg/annealing/explorer/suppapitnarm"
	"github.com/LindsayBradford/crem/internal/pkg/model"
	"github.com/LindsayBradford/crem/internal/pkg/model/models/catchment"
	catchParams "github.com/LindsayBradford/crem/internal/pkg/model/models/catchment/parameters"
	"github.com/LindsayBradford/crem/internal/pkg/model/models/dumb"
	"github.com/LindsayBradford/crem/internal/pkg/model/models/modumb"
	modumbParams "github.com/LindsayBradford/crem/internal/pkg/model/models/modumb/parameters"
	"github.com/LindsayBradford/crem/internal/pkg/parameters"
	"github.com/LindsayBradford/crem/internal/pkg/parameters/specification"
	cremerrors "github.com/LindsayBradford/crem/pkg/errors"
)

func init() { register("C18", runC18) }

// ---------------------------------------------------------------- facts from harness/astfacts

type c18Vkind struct {
	K    string    `json:"k"`
	Lo   *[2]int64 `json:"lo"`
	Hi   *[2]int64 `json:"hi"`
	ILo  *int64    `json:"ilo"`
	IHi  *int64    `json:"ihi"`
	Strs []string  `json:"strs"`
	Name string    `json:"name"`
}

type c18Value struct {
	Kind string    `json:"kind"`
	I    int64     `json:"i"`
	F    *[2]int64 `json:"f"`
	S    string    `json:"s"`
	B    bool      `json:"b"`
}

type c18Spec struct {
	Key       string   `json:"key"`
	Validator c18Vkind `json:"validator"`
	Default   c18Value `json:"default"`
	Optional  bool     `json:"optional"`
}

type c18Site struct {
	File    string `json:"file"`
	Line    int    `json:"line"`
	Getter  string `json:"getter"`
	Key     string `json:"key"`
	Guarded bool   `json:"guarded"`
}

type c18Component struct {
	Name    string    `json:"name"`
	Kind    string    `json:"kind"`
	Variant string    `json:"variant"`
	Specs   []c18Spec `json:"specs"`
	Sites   []c18Site `json:"sites"`
}

type c18Facts struct {
	Components []c18Component `json:"components"`
	Validators *c18Component  `json:"validators"`
}

// the validators of the specification package that the harness can call by name
var c18ValidatorFuncs = map[string]specification.SpecValidator{
	"IsDecimal": specification.IsDecimal, "IsDecimalBetweenZeroAndOne": specification.IsDecimalBetweenZeroAndOne,
	"IsNonNegativeDecimal": specification.IsNonNegativeDecimal, "IsInteger": specification.IsInteger,
	"IsNonNegativeInteger": specification.IsNonNegativeInteger, "IsString": specification.IsString,
	"IsBoolean": specification.IsBoolean, "IsReadableFile": specification.IsReadableFile,
}

func (c *c18Component) spec(key string) *c18Spec {
	// Specifications.Add overwrites: the LAST literal with this key is the effective one
	var res *c18Spec
	for i := range c.Specs {
		if c.Specs[i].Key == key {
			res = &c.Specs[i]
		}
	}
	return res
}

func (c *c18Component) keys() []string {
	seen := map[string]bool{}
	res := []string{}
	for _, s := range c.Specs {
		if !seen[s.Key] {
			seen[s.Key] = true
			res = append(res, s.Key)
		}
	}
	return res
}

func c18FromFl(me *[2]int64) float64 { return math.Ldexp(float64(me[0]), int(me[1])) }

// ---------------------------------------------------------------- the real components

type c18Real struct {
	name  string
	table func() *specification.Specifications
	// fresh component: returns SetParameters and the component's own Parameters
	fresh func() (set func(parameters.Map), params func() *parameters.Parameters)
	// late-failure probe: use the component after SetParameters reported no error (nil = no probe)
	late func(user parameters.Map) (errText string)
	// the parameters of a DEEP CLONE of a fresh component of the deployed type to which the maps were applied in
	// order (every run of a scenario works on clones of the configured components); nil = component is not cloned
	cloneOf func(maps []parameters.Map) *parameters.Parameters
}

func c18Reals(csvPath string) []c18Real {
	return []c18Real{
		{name: "internal/pkg/annealing/annealers.DefineSpecifications", table: annealers.DefineSpecifications,
			fresh: func() (func(parameters.Map), func() *parameters.Parameters) {
				sa := new(annealers.SimpleAnnealer)
				sa.Initialise()
				return func(m parameters.Map) { sa.SetParameters(m) }, sa.VerifC18Params
			},
			cloneOf: func(maps []parameters.Map) *parameters.Parameters {
				sa := new(annealers.SimpleAnnealer)
				sa.Initialise()
				for _, m := range maps {
					sa.SetParameters(m)
				}
				return sa.DeepClone().(*annealers.SimpleAnnealer).VerifC18Params()
			}},
		{name: "internal/pkg/annealing/cooling/coolants/averaged.ParameterSpecifications", table: coolAveraged.ParameterSpecifications,
			fresh: func() (func(parameters.Map), func() *parameters.Parameters) {
				c := coolAveraged.NewCoolant()
				return func(m parameters.Map) { c.SetParameters(m) }, c.VerifC18Params
			},
			cloneOf: func(maps []parameters.Map) *parameters.Parameters {
				c := coolAveraged.NewCoolant()
				for _, m := range maps {
					c.SetParameters(m)
				}
				return c.DeepClone().(*coolAveraged.Coolant).VerifC18Params()
			}},
		{name: "internal/pkg/annealing/cooling/coolants/kirkpatrick.ParameterSpecifications", table: coolKirk.ParameterSpecifications,
			fresh: func() (func(parameters.Map), func() *parameters.Parameters) {
				c := new(coolKirk.Coolant).Initialise()
				return func(m parameters.Map) { c.WithParameters(m) }, c.VerifC18Params
			}},
		{name: "internal/pkg/annealing/cooling/coolants/suppapitnarm.ParameterSpecifications", table: coolSupp.ParameterSpecifications,
			fresh: func() (func(parameters.Map), func() *parameters.Parameters) {
				c := coolSupp.NewCoolant()
				return func(m parameters.Map) { c.SetParameters(m) }, c.VerifC18Params
			},
			cloneOf: func(maps []parameters.Map) *parameters.Parameters {
				c := coolSupp.NewCoolant()
				for _, m := range maps {
					c.SetParameters(m)
				}
				return c.DeepClone().(*coolSupp.Coolant).VerifC18Params()
			}},
		{name: "internal/pkg/annealing/explorer/kirkpatrick.ParameterSpecifications", table: expKirk.ParameterSpecifications,
			fresh: func() (func(parameters.Map), func() *parameters.Parameters) {
				e := expKirk.New()
				return func(m parameters.Map) { e.SetParameters(m) }, e.VerifC18Params
			},
			cloneOf: func(maps []parameters.Map) *parameters.Parameters {
				e := expKirk.New()
				for _, m := range maps {
					e.SetParameters(m)
				}
				return e.DeepClone().(*expKirk.Explorer).VerifC18Params()
			}},
		{name: "internal/pkg/annealing/explorer/suppapitnarm.ParameterSpecifications", table: expSupp.ParameterSpecifications,
			fresh: func() (func(parameters.Map), func() *parameters.Parameters) {
				e := expSupp.New()
				return func(m parameters.Map) { e.SetParameters(m) }, e.VerifC18Params
			},
			cloneOf: func(maps []parameters.Map) *parameters.Parameters {
				e := expSupp.New()
				for _, m := range maps {
					e.SetParameters(m)
				}
				return e.DeepClone().(*expSupp.Explorer).VerifC18Params()
			}},
		{name: "internal/pkg/model/models/catchment/parameters.ParameterSpecifications", table: catchParams.ParameterSpecifications,
			fresh: func() (func(parameters.Map), func() *parameters.Parameters) {
				m := catchment.NewCoreModel()
				return func(u parameters.Map) { m.SetParameters(u) }, m.VerifC18Params
			},
			cloneOf: func(maps []parameters.Map) *parameters.Parameters {
				// the deployed type: catchment.Model (its DeepClone re-initialises the clone, loading the data source
				// the parameters name when there is one)
				m := catchment.NewModel()
				for _, u := range maps {
					m.SetParameters(u)
				}
				return m.DeepClone().(*catchment.Model).VerifC18Params()
			},
			late: func(user parameters.Map) string {
				u := parameters.Map{}
				for k, v := range user {
					u[k] = v
				}
				if _, has := u[catchParams.DataSourcePath]; !has {
					u[catchParams.DataSourcePath] = csvPath
				}
				m := catchment.NewModel()
				if err := m.SetParameters(u); err != nil {
					return "" // reported: not a late failure
				}
				m.Initialise(model.AsIs)
				if err := m.ParameterErrors(); err != nil {
					return "" // reported gracefully at initialisation
				}
				m.DoRandomChange()
				m.AcceptChange()
				m.DoRandomChange()
				m.RevertChange()
				return ""
			}},
		{name: "internal/pkg/model/models/dumb.ParameterSpecifications", table: dumb.ParameterSpecifications,
			fresh: func() (func(parameters.Map), func() *parameters.Parameters) {
				m := dumb.NewModel()
				return func(u parameters.Map) { m.SetParameters(u) }, m.VerifC18Params
			},
			cloneOf: func(maps []parameters.Map) *parameters.Parameters {
				m := dumb.NewModel()
				for _, u := range maps {
					m.SetParameters(u)
				}
				return m.DeepClone().(*dumb.Model).VerifC18Params()
			},
			late: func(user parameters.Map) string {
				m := dumb.NewModel()
				if err := m.SetParameters(user); err != nil {
					return ""
				}
				m.Initialise(model.AsIs)
				m.DoRandomChange()
				m.AcceptChange()
				m.DoRandomChange()
				m.RevertChange()
				return ""
			}},
		{name: "internal/pkg/model/models/modumb/parameters.ParameterSpecifications", table: modumbParams.ParameterSpecifications,
			fresh: func() (func(parameters.Map), func() *parameters.Parameters) {
				m := modumb.NewModel()
				return func(u parameters.Map) { m.SetParameters(u) }, m.VerifC18Params
			},
			cloneOf: func(maps []parameters.Map) *parameters.Parameters {
				m := modumb.NewModel()
				for _, u := range maps {
					if n, ok := u[modumbParams.NumberOfPlanningUnits].(int64); ok && n > 2000 {
						return nil // allocation proportional to the value: out of the probe's budget
					}
					m.SetParameters(u)
				}
				return m.DeepClone().(*modumb.Model).VerifC18Params()
			},
			late: func(user parameters.Map) string {
				if n, ok := user[modumbParams.NumberOfPlanningUnits].(int64); ok && n > 2000 {
					return "" // allocation proportional to the value: out of the probe's budget
				}
				m := modumb.NewModel()
				if err := m.SetParameters(user); err != nil {
					return ""
				}
				m.Initialise(model.AsIs)
				if len(m.ManagementActions()) > 0 {
					m.DoRandomChange()
					m.AcceptChange()
					m.DoRandomChange()
					m.RevertChange()
				}
				return ""
			}},
	}
}

// ---------------------------------------------------------------- values

type c18Other struct{ x int }

func c18Enc(v interface{}) J {
	switch t := v.(type) {
	case nil:
		return J{"t": "nil"}
	case int64:
		return J{"t": "int", "v": fmt.Sprint(t)}
	case float64:
		switch {
		case math.IsNaN(t):
			return J{"t": "nan"}
		case math.IsInf(t, 1):
			return J{"t": "inf", "neg": false}
		case math.IsInf(t, -1):
			return J{"t": "inf", "neg": true}
		}
		return J{"t": "float", "f": flOf(t), "g": fmt.Sprintf("%g", t)}
	case string:
		return J{"t": "string", "s": t}
	case bool:
		return J{"t": "bool", "b": t}
	case []interface{}:
		return J{"t": "array"}
	case map[string]interface{}:
		return J{"t": "table"}
	}
	return J{"t": "other", "go": fmt.Sprintf("%T", v)}
}

func c18Same(a, b interface{}) bool {
	fa, oka := a.(float64)
	fb, okb := b.(float64)
	if oka && okb {
		return fa == fb || (math.IsNaN(fa) && math.IsNaN(fb))
	}
	if oka != okb {
		return false
	}
	return reflect.DeepEqual(a, b)
}

func c18Readable(path string) bool {
	f, err := os.OpenFile(path, os.O_RDONLY, 0666)
	if f != nil {
		f.Close()
	}
	return err == nil
}

func c18DefaultValue(d c18Value) (interface{}, bool) {
	switch d.Kind {
	case "int64":
		return d.I, true
	case "float64":
		return c18FromFl(d.F), true
	case "string":
		return d.S, true
	case "bool":
		return d.B, true
	case "nil":
		return nil, true
	}
	return nil, false
}

var c18csv string

func c18CommonPalette() []interface{} {
	negZero := math.Copysign(0, -1)
	return []interface{}{
		int64(0), int64(1), int64(-1), int64(2), int64(100), int64(20000), int64(math.MaxInt64), int64(math.MaxInt64 - 1), int64(math.MinInt64),
		float64(0), negZero, float64(1), 0.5, -0.5, 0.95, 1e-5, 1.5e-4, 2.0, 100.0, 1e154, 1e300, -1e300, 1e308, math.MaxFloat64, -math.MaxFloat64,
		math.SmallestNonzeroFloat64, -math.SmallestNonzeroFloat64, math.Nextafter(1, 2), math.Nextafter(1, 0),
		math.NaN(), math.Inf(1), math.Inf(-1),
		"", "x", "Minimising", "Maximising", "minimising", "Invalid", "ObjectiveValue", "go.mod", c18csv, "/nonexistent/verif-c18", ".",
		true, false,
		[]interface{}{}, []interface{}{int64(1), int64(2)}, map[string]interface{}{}, map[string]interface{}{"a": 1.0},
		nil, int(5), int32(5), float32(0.5), time.Date(2020, 1, 2, 3, 4, 5, 0, time.UTC), c18Other{1},
	}
}

func c18KeyPalette(s *c18Spec) []interface{} {
	res := c18CommonPalette()
	k := s.Validator
	switch k.K {
	case "decimal_between":
		lo, hi := c18FromFl(k.Lo), c18FromFl(k.Hi)
		res = append(res, lo, hi, math.Nextafter(lo, math.Inf(-1)), math.Nextafter(hi, math.Inf(1)),
			math.Nextafter(lo, math.Inf(1)), math.Nextafter(hi, math.Inf(-1)), lo/2+hi/2)
	case "integer_between":
		lo, hi := *k.ILo, *k.IHi
		res = append(res, lo, hi, lo+1)
		if lo > math.MinInt64 {
			res = append(res, lo-1)
		}
		if hi < math.MaxInt64 {
			res = append(res, hi+1)
		}
		if hi > math.MinInt64 {
			res = append(res, hi-1)
		}
	case "one_of":
		for _, x := range k.Strs {
			res = append(res, x, x+" ", strings.ToLower(x), strings.ToUpper(x))
		}
	}
	if d, ok := c18DefaultValue(s.Default); ok {
		res = append(res, d)
	}
	return res
}

// ---------------------------------------------------------------- independent oracle

// c18Accepts: what the specification says about (validator, value); unsure=true for NaN under a bounded
// decimal validator (the bounds say nothing about NaN; the code accepts it -- noted in the evidence).
func c18Accepts(k *c18Vkind, v interface{}) (accept bool, unsure bool) {
	switch k.K {
	case "decimal":
		_, ok := v.(float64)
		return ok, false
	case "decimal_between":
		f, ok := v.(float64)
		if !ok {
			return false, false
		}
		if math.IsNaN(f) {
			return false, true
		}
		return c18FromFl(k.Lo) <= f && f <= c18FromFl(k.Hi), false
	case "integer":
		_, ok := v.(int64)
		return ok, false
	case "integer_between":
		i, ok := v.(int64)
		return ok && *k.ILo <= i && i <= *k.IHi, false
	case "string":
		_, ok := v.(string)
		return ok, false
	case "boolean":
		_, ok := v.(bool)
		return ok, false
	case "readable_file":
		s, ok := v.(string)
		return ok && c18Readable(s), false
	case "one_of":
		s, ok := v.(string)
		if !ok {
			return false, false
		}
		for _, x := range k.Strs {
			if x == s {
				return true, false
			}
		}
		return false, false
	}
	panic("c18Accepts: unknown validator kind " + k.K)
}

func c18GoType(k *c18Vkind) string {
	switch k.K {
	case "decimal", "decimal_between":
		return "float64"
	case "integer", "integer_between":
		return "int64"
	case "boolean":
		return "bool"
	}
	return "string"
}

type c18Obs struct {
	errCount     int      // specification.ValidationError entries
	errKeys      []string // keys named by the messages (complete iff keysComplete)
	keysComplete bool
	unsupported  []string
	otherErrors  []string // messages added by the component itself (not ValidationErrors)
	has          map[string]bool
	stored       map[string]interface{} // value returned by the one getter that did not panic
	probe        map[string]J
	getterOk     map[string]map[string]bool // key -> getter name -> did not panic
	setPanic     string
}

var c18KeyRe = regexp.MustCompile(`^Parameter \[(.*?)\] (must be|supplied with|is not supported)`)
var c18UnsupRe = regexp.MustCompile(`^Parameter \[(.*)\] is not supported$`)

func c18Observe(p *parameters.Parameters, probeKeys []string) *c18Obs {
	o := &c18Obs{has: map[string]bool{}, stored: map[string]interface{}{}, probe: map[string]J{},
		getterOk: map[string]map[string]bool{}, keysComplete: true}
	if err := p.ValidationErrors(); err != nil {
		ce, ok := err.(*cremerrors.CompositeError)
		if !ok {
			panic(fmt.Sprintf("ValidationErrors() returned %T", err))
		}
		for _, e := range ce.VerifC18Errors() {
			if _, isVal := e.(specification.ValidationError); !isVal {
				o.otherErrors = append(o.otherErrors, e.Error())
				continue
			}
			o.errCount++
			msg := e.Error()
			if m := c18KeyRe.FindStringSubmatch(msg); m != nil {
				o.errKeys = append(o.errKeys, m[1])
			} else {
				o.keysComplete = false
			}
			if m := c18UnsupRe.FindStringSubmatch(msg); m != nil {
				o.unsupported = append(o.unsupported, m[1])
			}
		}
	}
	sort.Strings(o.errKeys)
	sort.Strings(o.unsupported)
	for _, k := range probeKeys {
		o.has[k] = p.HasEntry(k)
		var vi int64
		var vf float64
		var vs string
		var vb bool
		pi, _ := protect(func() { vi = p.GetInt64(k) })
		pf, _ := protect(func() { vf = p.GetFloat64(k) })
		ps, _ := protect(func() { vs = p.GetString(k) })
		pb, _ := protect(func() { vb = p.GetBoolean(k) })
		o.getterOk[k] = map[string]bool{"GetInt64": !pi, "GetFloat64": !pf, "GetString": !ps, "GetBoolean": !pb}
		n := 0
		for _, x := range []bool{pi, pf, ps, pb} {
			if !x {
				n++
			}
		}
		switch {
		case n == 0:
			o.probe[k] = J{"p": "none"}
		case n > 1:
			o.probe[k] = J{"p": "weird"}
		case !pi:
			o.probe[k], o.stored[k] = J{"p": "val", "v": c18Enc(vi)}, vi
		case !pf:
			o.probe[k], o.stored[k] = J{"p": "val", "v": c18Enc(vf)}, vf
		case !ps:
			o.probe[k], o.stored[k] = J{"p": "val", "v": c18Enc(vs)}, vs
		default:
			o.probe[k], o.stored[k] = J{"p": "val", "v": c18Enc(vb)}, vb
		}
	}
	return o
}

var c18stats = map[string]int{}
var c18oracleCount = 0

func c18Oracle(what string, level string, comp *c18Component, variant string, user []c18KV, extra J) {
	c18oracleCount++
	c18stats["oracle_failures"]++
	if c18oracleCount > 200 {
		return
	}
	line := J{"kind": "oracle", "what": what, "level": level, "component": comp.Name, "variant": variant, "user": c18EncUser(user)}
	for k, v := range extra {
		line[k] = v
	}
	emit(line)
}

type c18KV struct {
	k string
	v interface{}
}

func c18EncUser(user []c18KV) []J {
	res := []J{}
	for _, kv := range user {
		res = append(res, J{"k": kv.k, "v": c18Enc(kv.v)})
	}
	return res
}

// c18Check evaluates the property on what the implementation did.
//
//	level "generic": real parameters.Parameters driven directly with `variant`;
//	level "component": the real component's SetParameters (variant = what the property demands for its kind).
func c18Check(level string, comp *c18Component, variant string, user []c18KV, real *c18Real, o *c18Obs) {
	invalid, unknown, unsure := 0, 0, 0
	for _, kv := range user {
		s := comp.spec(kv.k)
		if s == nil {
			unknown++
			if variant == "all" {
				found := false
				for _, u := range o.unsupported {
					if u == kv.k {
						found = true
					}
				}
				if !found {
					what := "key not in the specification is not reported by the assign-all variant"
					if level == "component" {
						what = "a model ignores a parameter it does not support instead of reporting it"
					}
					c18Oracle(what, level, comp, variant, user, J{"key": kv.k, "value": c18Enc(kv.v)})
				}
			}
			if o.has[kv.k] {
				c18Oracle("unspecified key was stored in the parameter map", level, comp, variant, user, J{"key": kv.k, "value": c18Enc(kv.v)})
			}
			continue
		}
		acc, uns := c18Accepts(&s.Validator, kv.v)
		if uns {
			unsure++
			continue
		}
		st, hasStored := o.stored[kv.k]
		if acc {
			if !hasStored || !c18Same(st, kv.v) {
				c18Oracle("valid user value did not replace the default", level, comp, variant, user,
					J{"key": kv.k, "value": c18Enc(kv.v), "stored": o.probe[kv.k], "validator": s.Validator.Name})
			}
		} else {
			invalid++
			def, defKnown := c18DefaultValue(s.Default)
			switch {
			case s.Optional && o.has[kv.k]:
				c18Oracle("invalid value for an optional key was stored", level, comp, variant, user,
					J{"key": kv.k, "value": c18Enc(kv.v), "stored": o.probe[kv.k], "validator": s.Validator.Name})
			case !s.Optional && defKnown && (!hasStored || !c18Same(st, def)):
				c18Oracle("invalid user value did not leave the default in place", level, comp, variant, user,
					J{"key": kv.k, "value": c18Enc(kv.v), "stored": o.probe[kv.k], "validator": s.Validator.Name})
			}
			if o.keysComplete {
				found := false
				for _, u := range o.errKeys {
					if u == kv.k {
						found = true
					}
				}
				if !found {
					c18Oracle("invalid user value was not reported", level, comp, variant, user,
						J{"key": kv.k, "value": c18Enc(kv.v), "validator": s.Validator.Name})
				}
			}
		}
	}
	want := invalid
	if variant == "all" {
		want += unknown
	}
	if unsure == 0 && o.errCount != want {
		c18Oracle("number of reported validation errors differs from the number of invalid/unsupported entries", level, comp, variant, user,
			J{"reported": o.errCount, "expected": want})
	}
	// every specified non-optional key: present, of the validator's type, accepted by the REAL validator
	table := real.table()
	for _, k := range comp.keys() {
		s := comp.spec(k)
		if !s.Optional && !o.has[k] {
			c18Oracle("specified non-optional key is missing from the parameter map", level, comp, variant, user, J{"key": k})
			continue
		}
		if !o.has[k] {
			continue
		}
		st, hasStored := o.stored[k]
		if !hasStored || fmt.Sprintf("%T", st) != c18GoType(&s.Validator) {
			c18Oracle("stored value does not have the type its specification demands", level, comp, variant, user,
				J{"key": k, "stored": o.probe[k], "validator": s.Validator.Name})
			continue
		}
		verr, _ := table.Validate(k, st).(specification.ValidationError)
		if verr == nil || !verr.IsValid() {
			def, defKnown := c18DefaultValue(s.Default)
			if s.Validator.K == "readable_file" && defKnown && c18Same(st, def) {
				c18stats["default_not_a_readable_file(env)"]++
			} else {
				c18Oracle("stored value is rejected by its own validator", level, comp, variant, user,
					J{"key": k, "stored": o.probe[k], "validator": s.Validator.Name})
			}
		}
	}
	// every typed getter call site found in the source
	for _, site := range comp.Sites {
		if site.Getter == "HasEntry" {
			continue
		}
		if site.Guarded && !o.has[site.Key] {
			continue
		}
		if ok, probed := o.getterOk[site.Key][site.Getter]; probed && !ok {
			c18Oracle("typed getter at a call site panics", level, comp, variant, user,
				J{"key": site.Key, "getter": site.Getter, "site": fmt.Sprintf("%s:%d", site.File, site.Line), "stored": o.probe[site.Key]})
		}
	}
}

// ---------------------------------------------------------------- running

func c18ProbeList(o *c18Obs, keys []string) []J {
	res := []J{}
	for _, k := range keys {
		res = append(res, J{"k": k, "has": o.has[k], "g": o.probe[k]})
	}
	return res
}

func c18ReadableList(comp *c18Component, user []c18KV) []string {
	res := []string{}
	seen := map[string]bool{}
	add := func(v interface{}) {
		if s, ok := v.(string); ok && !seen[s] {
			seen[s] = true
			if c18Readable(s) {
				res = append(res, s)
			}
		}
	}
	for _, kv := range user {
		add(kv.v)
	}
	for _, s := range comp.Specs {
		if d, ok := c18DefaultValue(s.Default); ok {
			add(d)
		}
	}
	return res
}

func c18ToMap(user []c18KV) parameters.Map {
	m := parameters.Map{}
	for _, kv := range user {
		m[kv.k] = kv.v
	}
	return m
}

func c18ProbeKeys(comp *c18Component, user []c18KV, full bool, focus string) []string {
	keys := comp.keys()
	res := []string{}
	if full || len(keys) <= 5 {
		res = append(res, keys...)
	} else {
		// the touched key and its two successors in the table
		idx := 0
		for i, k := range keys {
			if k == focus {
				idx = i
			}
		}
		for d := 0; d < 3; d++ {
			res = append(res, keys[(idx+d)%len(keys)])
		}
	}
	for _, kv := range user {
		dup := false
		for _, k := range res {
			if k == kv.k {
				dup = true
			}
		}
		if !dup {
			res = append(res, kv.k)
		}
	}
	return res
}

// the component's own defaults as a user map: applying it is a no-op on a fresh component (every default satisfies
// its validator -- theorem C18_tables_ok) and reports nothing; it stands for an EARLIER, valid application of
// parameters to the same instance, after which a later application must still be validated afresh
var c18primeCounter int

func c18DefaultsMap(comp *c18Component) parameters.Map {
	m := parameters.Map{}
	for i := range comp.Specs {
		sp := &comp.Specs[i]
		if sp.Optional || sp.Key == "DataSourcePath" {
			continue // the default "" of DataSourcePath is not a readable file: applying it would itself be reported
		}
		if v, ok := c18DefaultValue(sp.Default); ok {
			m[sp.Key] = v
		}
	}
	return m
}

func c18RunGeneric(comp *c18Component, real *c18Real, variant string, user []c18KV, full bool, class string) {
	p := new(parameters.Parameters).Initialise("verif C18").Enforcing(real.table())
	um := c18ToMap(user)
	c18primeCounter++
	prime := c18primeCounter%2 == 0
	panicked, what := protect(func() {
		if prime {
			c18stats["primed_with_defaults"]++
			if variant == "all" {
				p.AssignAllUserValues(c18DefaultsMap(comp))
			} else {
				p.AssignOnlyEnforcedUserValues(c18DefaultsMap(comp))
			}
		}
		if variant == "all" {
			p.AssignAllUserValues(um)
		} else {
			p.AssignOnlyEnforcedUserValues(um)
		}
	})
	focus := ""
	if len(user) > 0 {
		focus = user[0].k
	}
	// the oracle always looks at every key; the exported case may carry fewer probes
	allKeys := c18ProbeKeys(comp, user, true, focus)
	o := c18Observe(p, allKeys)
	c18stats["generic_"+variant+"_"+class]++
	if panicked {
		c18Oracle("Assign* panicked", "generic", comp, variant, user, J{"panic": what})
		return
	}
	c18Check("generic", comp, variant, user, real, o)
	c18Emit("generic", comp, variant, user, o, c18ProbeKeys(comp, user, full, focus), class)
}

func c18Emit(level string, comp *c18Component, variant string, user []c18KV, o *c18Obs, probeKeys []string, class string) {
	line := J{"kind": "case", "level": level, "component": comp.Name, "variant": variant, "class": class,
		"user": c18EncUser(user), "readable": c18ReadableList(comp, user), "nerr": o.errCount,
		"unsupported": o.unsupported, "probes": c18ProbeList(o, probeKeys)}
	if o.keysComplete {
		ks := o.errKeys
		if ks == nil {
			ks = []string{}
		}
		line["errkeys"] = ks
	}
	if line["unsupported"] == nil || o.unsupported == nil {
		line["unsupported"] = []string{}
	}
	emit(line)
}

func c18RunComponent(comp *c18Component, real *c18Real, user []c18KV, class string) {
	var set func(parameters.Map)
	var params func() *parameters.Parameters
	if p, what := protect(func() { set, params = real.fresh() }); p {
		// the constructor itself reads its parameters through the typed getters (on the defaults)
		c18stats["component_constructor_panics"]++
		c18Oracle("constructing the component panicked before any user value was supplied", "component", comp, comp.Variant, nil, J{"panic": what})
		return
	}
	um := c18ToMap(user)
	c18primeCounter++
	var applied []parameters.Map
	panicked, what := protect(func() {
		if c18primeCounter%2 == 0 {
			c18stats["primed_with_defaults"]++
			set(c18DefaultsMap(comp))
			applied = append(applied, c18DefaultsMap(comp))
		}
		set(um)
		applied = append(applied, um)
	})
	focus := ""
	if len(user) > 0 {
		focus = user[0].k
	}
	keys := c18ProbeKeys(comp, user, true, focus)
	o := c18Observe(params(), keys)
	c18stats["component_"+class]++
	// what the property demands: models report unsupported keys ("all"); the others share one map between
	// annealer, explorer and coolant (today they ignore foreign keys: "enforced")
	demanded := comp.Variant // annealer, explorers, coolants: the property does not say which; follow the source
	if comp.Kind == "model" {
		demanded = "all"
	}
	if panicked {
		c18Oracle("SetParameters panicked", "component", comp, demanded, user, J{"panic": what})
		return
	}
	c18Check("component", comp, demanded, user, real, o)
	c18CloneCheck(comp, real, user, applied, keys, o)
	// the case is compared against the model run with the variant the translator found in the source
	c18Emit("component", comp, comp.Variant, user, o, keys, class)
}

// what every run actually reads: the parameters of a deep clone of the configured component must be, key by key,
// what the component the map was applied to reads (same presence, same getter, same value)
func c18CloneCheck(comp *c18Component, real *c18Real, user []c18KV, applied []parameters.Map, keys []string, o *c18Obs) {
	if real.cloneOf == nil {
		return
	}
	var oc *c18Obs
	panicked, what := protect(func() {
		if p := real.cloneOf(applied); p != nil {
			oc = c18Observe(p, keys)
		}
	})
	if panicked {
		c18stats["clone_probe_panics"]++
		if o.errCount == 0 && len(o.otherErrors) == 0 {
			c18Oracle("component reported no parameter error but deep-cloning it (what every run does) panics", "clone", comp, comp.Variant, user, J{"panic": what})
		}
		return
	}
	if oc == nil {
		return
	}
	c18stats["clone_probe_runs"]++
	diffs := []J{}
	for _, k := range keys {
		a, _ := json.Marshal(o.probe[k])
		b, _ := json.Marshal(oc.probe[k])
		if o.has[k] != oc.has[k] || string(a) != string(b) {
			diffs = append(diffs, J{"key": k, "component_has": o.has[k], "clone_has": oc.has[k], "component_reads": o.probe[k], "clone_reads": oc.probe[k]})
		}
	}
	if len(diffs) > 0 {
		c18Oracle("a deep clone of the configured component (what every run of a scenario works on) does not read the parameter values the component itself reads", "clone", comp, comp.Variant, user, J{"differences": diffs})
	}
}

var c18LateSeen = map[string]bool{}

// c18LateOnce runs the late-failure probe on one user map; returns the panic text ("" = fine).
func c18LateOnce(real *c18Real, user []c18KV) string {
	c18stats["late_probe_runs"]++
	um := c18ToMap(user)
	panicked, what := protect(func() { real.late(um) })
	if !panicked {
		return ""
	}
	if what == "" {
		what = "(panic)"
	}
	if len(what) > 300 {
		what = what[:300]
	}
	return what
}

// c18Late: use the component after it reported no parameter error.  A failing combination is shrunk to the single
// entries that fail on their own (reported once each); only if none does is the combination itself reported.
func c18Late(comp *c18Component, real *c18Real, user []c18KV) {
	if real.late == nil {
		return
	}
	what := c18LateOnce(real, user)
	if what == "" {
		return
	}
	c18stats["late_probe_panics"]++
	report := func(u []c18KV, what string) {
		key, val, text := "", J{}, ""
		if len(u) == 1 {
			key, val, text = u[0].k, c18Enc(u[0].v), fmt.Sprintf("%v", u[0].v)
		}
		id := fmt.Sprint(comp.Name, c18EncUser(u))
		if c18LateSeen[id] {
			return
		}
		c18LateSeen[id] = true
		c18Oracle("component reported no parameter error but later fails on the parameter's value", "late", comp, comp.Variant, u,
			J{"key": key, "value": val, "value_text": text, "panic": what})
	}
	if len(user) <= 1 {
		report(user, what)
		return
	}
	shrunk := false
	for _, kv := range user {
		if w := c18LateOnce(real, []c18KV{kv}); w != "" {
			shrunk = true
			report([]c18KV{kv}, w)
		}
	}
	if !shrunk {
		report(user, what)
	}
}

func runC18(args []string) {
	tier := "quick"
	if len(args) > 0 {
		tier = args[0]
	}
	factsPath := os.Getenv("VERIF_C18_FACTS")
	bs, err := os.ReadFile(factsPath)
	if err != nil {
		fmt.Fprintln(os.Stderr, "C18: cannot read facts (VERIF_C18_FACTS):", err)
		os.Exit(2)
	}
	var facts c18Facts
	if err := json.Unmarshal(bs, &facts); err != nil {
		fmt.Fprintln(os.Stderr, "C18: facts:", err)
		os.Exit(2)
	}
	wd, _ := os.Getwd()
	c18csv = "internal/pkg/model/models/catchment/testdata/ValidModel.csv"
	if !c18Readable(filepath.Join(wd, c18csv)) {
		fmt.Fprintln(os.Stderr, "C18: fixture not found:", c18csv)
		os.Exit(2)
	}
	reals := c18Reals(c18csv)
	byName := map[string]*c18Real{}
	for i := range reals {
		byName[reals[i].name] = &reals[i]
	}
	rng := newPrng(18)
	combos := 40
	if tier == "thorough" {
		combos = 1500
	}
	covered := []string{}
	for ci := range facts.Components {
		comp := &facts.Components[ci]
		real := byName[comp.Name]
		if real == nil {
			emit(J{"kind": "uncovered", "component": comp.Name})
			continue
		}
		covered = append(covered, comp.Name)
		variants := []string{comp.Variant}
		other := "all"
		if comp.Variant == "all" {
			other = "enforced"
		}
		keys := comp.keys()
		// 0. no user values at all: the defaults
		for _, v := range []string{"all", "enforced"} {
			c18RunGeneric(comp, real, v, nil, true, "empty")
		}
		c18RunComponent(comp, real, nil, "empty")
		// 1. every key x every palette value, alone
		for _, k := range keys {
			s := comp.spec(k)
			for vi, v := range c18KeyPalette(s) {
				user := []c18KV{{k, v}}
				for _, vr := range variants {
					c18RunGeneric(comp, real, vr, user, vi%7 == 0, "single")
				}
				if tier == "thorough" || vi%3 == 0 {
					c18RunGeneric(comp, real, other, user, false, "single")
				}
				if tier == "thorough" || vi%2 == 0 {
					c18RunComponent(comp, real, user, "single")
				}
				if acc, uns := c18Accepts(&s.Validator, v); acc || uns {
					c18Late(comp, real, user)
				}
			}
		}
		// 2. keys that are not in the specification
		foreign := []string{"NotAParameter", "", strings.ToLower(keys[0]), keys[0] + " "}
		for _, oc := range facts.Components {
			if oc.Name != comp.Name && comp.spec(oc.Specs[0].Key) == nil {
				foreign = append(foreign, oc.Specs[0].Key)
				break
			}
		}
		for _, fk := range foreign {
			for _, v := range []interface{}{1.0, int64(1), "x", nil} {
				user := []c18KV{{fk, v}}
				c18RunGeneric(comp, real, "all", user, false, "foreign")
				c18RunGeneric(comp, real, "enforced", user, false, "foreign")
				c18RunComponent(comp, real, user, "foreign")
			}
		}
		// 2b. near misses of specified keys (first letter in the other case, a blank before or after, a trailing dot)
		// carrying a value that IS valid for the key they resemble: such a key is not in the specification -- a model
		// reports it, and no component starts using the value
		for _, k := range keys {
			spec := comp.spec(k)
			if spec == nil || k == "" {
				continue
			}
			var valid interface{}
			for _, cand := range c18KeyPalette(spec) {
				if acc, uns := c18Accepts(&spec.Validator, cand); acc && !uns {
					valid = cand
					break
				}
			}
			if valid == nil {
				continue
			}
			first := k[:1]
			other := strings.ToLower(first)
			if other == first {
				other = strings.ToUpper(first)
			}
			for _, fk := range []string{other + k[1:], " " + k, k + ".", strings.ToUpper(k)} {
				if comp.spec(fk) != nil {
					continue
				}
				user := []c18KV{{fk, valid}}
				c18RunGeneric(comp, real, "all", user, false, "near-miss-key")
				c18RunGeneric(comp, real, "enforced", user, false, "near-miss-key")
				c18RunComponent(comp, real, user, "near-miss-key")
			}
		}
		// 3. random combinations
		for n := 0; n < combos; n++ {
			user := []c18KV{}
			for _, k := range keys {
				if !rng.chance(0.5) {
					continue
				}
				s := comp.spec(k)
				pal := c18KeyPalette(s)
				v := pal[rng.intn(len(pal))]
				if rng.chance(0.5) {
					// bias towards values of the right type
					for tries := 0; tries < 20; tries++ {
						if fmt.Sprintf("%T", v) == c18GoType(&s.Validator) {
							break
						}
						v = pal[rng.intn(len(pal))]
					}
				}
				user = append(user, c18KV{k, v})
			}
			for _, fk := range foreign {
				if rng.chance(0.15) {
					pal := c18CommonPalette()
					user = append(user, c18KV{fk, pal[rng.intn(len(pal))]})
				}
			}
			// random order of application is Go's own (map iteration); shuffle the recorded order too
			for i := len(user) - 1; i > 0; i-- {
				j := rng.intn(i + 1)
				user[i], user[j] = user[j], user[i]
			}
			c18stats[fmt.Sprintf("combo_size_%02d", len(user))]++
			c18RunGeneric(comp, real, "all", user, true, "combo")
			c18RunGeneric(comp, real, "enforced", user, true, "combo")
			c18RunComponent(comp, real, user, "combo")
			if tier == "thorough" {
				c18Late(comp, real, user) // late() itself returns quietly when SetParameters reports an error
			}
		}
		// 3b. (thorough) every pair of keys x a reduced palette: the type-correct boundary values and one value of
		//     every other type
		if tier == "thorough" {
			reduced := func(sp *c18Spec) []interface{} {
				res := []interface{}{}
				for _, v := range c18KeyPalette(sp)[len(c18CommonPalette()):] {
					res = append(res, v)
				}
				res = append(res, int64(1), 0.5, "x", true, nil, []interface{}{})
				return res
			}
			for i := 0; i < len(keys); i++ {
				for j := i + 1; j < len(keys); j++ {
					for _, vi := range reduced(comp.spec(keys[i])) {
						for _, vj := range reduced(comp.spec(keys[j])) {
							user := []c18KV{{keys[i], vi}, {keys[j], vj}}
							c18RunGeneric(comp, real, comp.Variant, user, false, "pair")
							if rng.chance(0.25) {
								c18RunComponent(comp, real, user, "pair")
							}
						}
					}
				}
			}
		}
	}
	// 4. every validator of the specification package directly (whether or not a component uses it):
	//    a synthetic table with one optional key per validator, named after the validator
	if vc := facts.Validators; vc != nil {
		direct := []string{}
		specs := specification.NewSpecifications()
		for _, sp := range vc.Specs {
			if f, ok := c18ValidatorFuncs[sp.Key]; ok {
				specs.Add(specification.Specification{Key: sp.Key, Validator: f, IsOptional: true})
				direct = append(direct, sp.Key)
			} else {
				c18stats["validator_not_callable_by_name_"+sp.Key]++
			}
		}
		real := &c18Real{name: vc.Name, table: func() *specification.Specifications { return specs }}
		sub := *vc
		sub.Specs = nil
		for _, sp := range vc.Specs {
			if _, ok := c18ValidatorFuncs[sp.Key]; ok {
				sub.Specs = append(sub.Specs, sp)
			}
		}
		for _, k := range direct {
			for _, v := range c18KeyPalette(sub.spec(k)) {
				user := []c18KV{{k, v}}
				c18RunGeneric(&sub, real, "all", user, false, "validator")
				c18RunGeneric(&sub, real, "enforced", user, false, "validator")
			}
		}
		emit(J{"kind": "validators", "direct": direct})
	}
	sort.Strings(covered)
	emit(J{"kind": "covered", "components": covered})
	emit(J{"kind": "stat", "stats": c18stats})
}
