//go:build verif

package main

import (
	"fmt"
	"math"
	"sort"
	"strings"

	marchive "github.com/LindsayBradford/crem/internal/pkg/model/archive"
	"github.com/LindsayBradford/crem/pkg/archive"
	"github.com/LindsayBradford/crem/pkg/dominance"
)

// C05: internal/pkg/model/archive.NonDominanceModelArchive driven directly with CompressedModelState
// values (objective vector + action bits), and through live suppapitnarm runs (c05live.go).
//
// Operation kinds (the language of coq/theories/NdArchive.v):
//   0 Offer       AttemptToArchiveState(c)
//   1 OfferForce  AttemptToArchiveState(c); if "rejected, dominated": ForceModelStateIntoArchive(c)
//   2 ForceRaw    ForceModelStateIntoArchive(c) in an arbitrary state (never done by the explorer)

const (
	c05Offer      = 0
	c05OfferForce = 1
	c05ForceRaw   = 2
)

type c05cand struct {
	vec  []float64
	bits []bool
}

type c05op struct {
	kind int
	cand c05cand
}

func c05bitsString(bits []bool) string {
	var sb strings.Builder
	for _, b := range bits {
		if b {
			sb.WriteByte('1')
		} else {
			sb.WriteByte('0')
		}
	}
	return sb.String()
}

func c05newState(c c05cand) *marchive.CompressedModelState {
	ba := archive.New(len(c.bits))
	for i, b := range c.bits {
		ba.SetValue(i, b)
	}
	return &marchive.CompressedModelState{
		Variables: dominance.Float64Vector(append([]float64{}, c.vec...)),
		Actions:   *ba,
	}
}

// ---- the property, stated independently on the implementation's own values ----

func c05dominates(x, y []float64) bool { // strict Pareto order on equal-length vectors
	if len(x) != len(y) {
		return false
	}
	allLe, someLt := true, false
	for i := range x {
		if !(x[i] <= y[i]) {
			allLe = false
		}
		if x[i] < y[i] {
			someLt = true
		}
	}
	return allLe && someLt
}

func c05sameVec(x, y []float64) bool {
	if len(x) != len(y) {
		return false
	}
	for i := range x {
		if x[i] != y[i] {
			return false
		}
	}
	return true
}

type c05entry struct {
	vec  []float64
	acts string // bit string, length = declared size
}

func c05entryOf(s *marchive.CompressedModelState) c05entry {
	n := s.Actions.Len()
	bits := make([]bool, n)
	for i := 0; i < n; i++ {
		bits[i] = s.Actions.Value(i)
	}
	return c05entry{vec: []float64(s.Variables), acts: c05bitsString(bits)}
}

// ---- one archive under observation ----

type c05obs struct {
	Panic   bool    `json:"p"`
	Res     []uint  `json:"r"`
	Removed []int   `json:"rm"`
	Added   []int   `json:"ad"`
	Len     int     `json:"len"`
	Nd      *string `json:"nd"` // IsNonDominant(): "T"/"F"/"P"(panicked), nil when not called at this step
}

type c05run struct {
	arch            *marchive.NonDominanceModelArchive
	ops             []c05op
	idxOf           map[*marchive.CompressedModelState]int
	anyForce        bool // an OfferForce/ForceRaw operation occurred
	anyRaw          bool
	consistent      bool
	vecOfActs       map[string][]float64
	sameDim         bool
	class           string
	oracleOn        bool
	alwaysSelfCheck bool
	live            bool // the archive of a real run: the invariant is demanded unconditionally
}

func c05newRun(class string) *c05run {
	return &c05run{arch: marchive.New(), idxOf: map[*marchive.CompressedModelState]int{},
		consistent: true, vecOfActs: map[string][]float64{}, sameDim: true, class: class, oracleOn: true}
}

func (r *c05run) snapshot() []*marchive.CompressedModelState {
	return append([]*marchive.CompressedModelState{}, r.arch.Archive()...)
}

// c05grid3: every value of the stream is the canonical double of k/1000 with |k| < 2^40 (what the catchment model
// reports).  k -> float64(k)/1000 is strictly monotone there, so such a stream is exported as the integers k: the
// order relations between its values -- all the archive looks at -- are exactly preserved and Coq compares small
// integers instead of 53-bit mantissas.  Any other stream is exported exactly (m * 2^e).
func c05grid3(ops []c05op) bool {
	for _, o := range ops {
		for _, v := range o.cand.vec {
			k := math.Round(v * 1000)
			if math.IsNaN(k) || math.Abs(k) >= 1<<40 || k/1000 != v {
				return false
			}
		}
	}
	return true
}

func c05exportVec(v []float64, grid3 bool) [][2]int64 {
	if !grid3 {
		return flsOf(v)
	}
	res := make([][2]int64, len(v))
	for i, x := range v {
		res[i] = flOf(math.Round(x * 1000))
	}
	return res
}

func (r *c05run) opsJSON() []J {
	grid3 := c05grid3(r.ops)
	res := make([]J, len(r.ops))
	for i, o := range r.ops {
		res[i] = J{"k": o.kind, "v": c05exportVec(o.cand.vec, grid3), "a": c05bitsString(o.cand.bits)}
	}
	return res
}

func (r *c05run) opsPlain() []J {
	res := make([]J, len(r.ops))
	for i, o := range r.ops {
		res[i] = J{"kind": []string{"Offer", "OfferForce", "ForceRaw"}[o.kind], "vec": o.cand.vec, "acts": c05bitsString(o.cand.bits)}
	}
	return res
}

var c05stats = map[string]int{}
var c05oracleCount = 0

func (r *c05run) fail(what string, detailOf func() J) {
	c05oracleCount++
	c05stats["oracle: "+what]++
	if c05oracleCount > 40 {
		return
	}
	line := J{"kind": "oracle", "what": what, "class": r.class, "ops": r.opsPlain(), "at_op": len(r.ops) - 1}
	for k, v := range detailOf() {
		line[k] = v
	}
	emit(line)
}

// apply executes one operation on the real archive and records what it observed.
func (r *c05run) apply(o c05op) c05obs {
	st := c05newState(o.cand)
	before := r.snapshot()
	var results []uint
	var mid []*marchive.CompressedModelState // archive between attempt and force (OfferForce)
	panicked, _ := protect(func() {
		switch o.kind {
		case c05Offer:
			results = append(results, uint(r.arch.AttemptToArchiveState(st)))
		case c05OfferForce:
			first := r.arch.AttemptToArchiveState(st)
			results = append(results, uint(first))
			if first == marchive.RejectedWithStoredEntryDominanceDetected {
				mid = r.snapshot()
				results = append(results, uint(r.arch.ForceModelStateIntoArchive(st)))
			}
		case c05ForceRaw:
			results = append(results, uint(r.arch.ForceModelStateIntoArchive(st)))
		}
	})
	return r.record(o, panicked, results, before, mid, r.snapshot())
}

// record books one executed operation (whoever executed it: apply above, or a live explorer): stream
// flags, the lossless before/after diff by entry identity, Len(), IsNonDominant(), and (if enabled) the
// property evaluated on before/after.
func (r *c05run) record(o c05op, panicked bool, results []uint, before, mid, after []*marchive.CompressedModelState) c05obs {
	k := len(r.ops)
	r.ops = append(r.ops, o)
	acts := c05bitsString(o.cand.bits)
	if prev, seen := r.vecOfActs[acts]; seen {
		if !c05sameVec(prev, o.cand.vec) {
			r.consistent = false
		}
	} else {
		r.vecOfActs[acts] = o.cand.vec
	}
	if k > 0 && len(o.cand.vec) != len(r.ops[0].cand.vec) {
		r.sameDim = false
	}
	if o.kind != c05Offer {
		r.anyForce = true
	}
	if o.kind == c05ForceRaw {
		r.anyRaw = true
	}
	ob := c05obs{Panic: panicked, Res: results, Removed: []int{}, Added: []int{}}
	if ob.Res == nil {
		ob.Res = []uint{}
	}
	if panicked {
		return ob
	}
	inAfter := map[*marchive.CompressedModelState]bool{}
	for _, s := range after {
		inAfter[s] = true
	}
	inBefore := map[*marchive.CompressedModelState]bool{}
	for _, s := range before {
		inBefore[s] = true
		if !inAfter[s] {
			ob.Removed = append(ob.Removed, r.idxOf[s])
		}
	}
	for _, s := range after {
		if !inBefore[s] {
			r.idxOf[s] = k // whatever entered the archive during operation k is exported as candidate k
			ob.Added = append(ob.Added, k)
			if e := c05entryOf(s); !c05sameVec(e.vec, o.cand.vec) || e.acts != acts {
				r.fail("an entry that is not the offered candidate entered the archive", func() J { return J{"entered": J{"vec": e.vec, "acts": e.acts}} })
			}
		}
	}
	ob.Len = r.arch.Len()
	if k < 12 || k%8 == 0 || r.alwaysSelfCheck {
		nd := obsBool(func() bool { return r.arch.IsNonDominant() })
		ob.Nd = &nd
	}
	if r.oracleOn && r.sameDim {
		r.oracle(o, before, mid, after, results)
	}
	return ob
}

func c05plainEntries(ss []*marchive.CompressedModelState) []J {
	res := make([]J, len(ss))
	for i, s := range ss {
		e := c05entryOf(s)
		res[i] = J{"vec": e.vec, "acts": e.acts}
	}
	return res
}

// oracle: C05 evaluated on what the real archive did (independent of the Coq model).
func (r *c05run) oracle(o c05op, before, mid, after []*marchive.CompressedModelState, results []uint) {
	c := c05entry{vec: o.cand.vec, acts: c05bitsString(o.cand.bits)}
	removedFrom := func(from, to []*marchive.CompressedModelState) []*marchive.CompressedModelState {
		in := map[*marchive.CompressedModelState]bool{}
		for _, s := range to {
			in[s] = true
		}
		var res []*marchive.CompressedModelState
		for _, s := range from {
			if !in[s] {
				res = append(res, s)
			}
		}
		return res
	}
	// the candidate is present in post: one entry that was not in pre and carries the candidate's vector and action set
	present := func(pre, post []*marchive.CompressedModelState) bool {
		for _, s := range removedFrom(post, pre) {
			if e := c05entryOf(s); c05sameVec(e.vec, c.vec) && e.acts == c.acts {
				return true
			}
		}
		return false
	}
	detail := func() J {
		return J{"candidate": J{"vec": c.vec, "acts": c.acts}, "results": results,
			"before": c05plainEntries(before), "after": c05plainEntries(after)}
	}
	checkAttempt := func(res uint, pre, post []*marchive.CompressedModelState) {
		switch marchive.StorageResult(res) {
		case marchive.RejectedWithStoredEntryDominanceDetected:
			found := false
			for _, m := range pre {
				if c05dominates(c05entryOf(m).vec, c.vec) {
					found = true
				}
			}
			if !found {
				r.fail("candidate refused as dominated although no member dominates it", detail)
			}
			if len(removedFrom(pre, post)) > 0 || len(post) != len(pre) {
				r.fail("a refusal changed the archive", detail)
			}
		case marchive.RejectedWithDuplicateEntryDetected:
			found := false
			for _, m := range pre {
				if c05entryOf(m).acts == c.acts {
					found = true
				}
			}
			if !found {
				r.fail("candidate refused as duplicate although no member has its action set", detail)
			}
			if len(removedFrom(pre, post)) > 0 || len(post) != len(pre) {
				r.fail("a refusal changed the archive", detail)
			}
		case marchive.StoredWithNoDominanceDetected, marchive.StoredReplacingDominatedEntries:
			if !present(pre, post) {
				r.fail("stored candidate is not present afterwards", detail)
			}
			for _, m := range removedFrom(pre, post) {
				if !c05dominates(c.vec, c05entryOf(m).vec) {
					r.fail("a member was evicted by a normal store although the new candidate does not dominate it", detail)
				}
			}
			if len(post) != len(pre)-len(removedFrom(pre, post))+1 {
				r.fail("a normal store added something other than the candidate", detail)
			}
		default:
			r.fail(fmt.Sprintf("unexpected storage result %d from AttemptToArchiveState", res), detail)
		}
	}
	checkForce := func(res uint, pre, post []*marchive.CompressedModelState) {
		if marchive.StorageResult(res) != marchive.StoredForcingDominatingStateRemoval {
			r.fail(fmt.Sprintf("unexpected storage result %d from ForceModelStateIntoArchive", res), detail)
		}
		if !present(pre, post) {
			r.fail("forced candidate is not present afterwards", detail)
		}
		for _, m := range removedFrom(pre, post) {
			if !c05dominates(c05entryOf(m).vec, c.vec) {
				r.fail("a member was evicted by a forced store although it does not dominate the candidate", detail)
			}
		}
		if len(post) != len(pre)-len(removedFrom(pre, post))+1 {
			r.fail("a forced store added something other than the candidate", detail)
		}
	}
	switch o.kind {
	case c05Offer:
		if len(results) != 1 {
			r.fail("wrong number of results", detail)
			return
		}
		checkAttempt(results[0], before, after)
	case c05OfferForce:
		if len(results) == 1 {
			checkAttempt(results[0], before, after)
		} else if len(results) == 2 {
			checkAttempt(results[0], before, mid)
			checkForce(results[1], mid, after)
		}
	case c05ForceRaw:
		checkForce(results[0], before, after)
	}
	// invariant: after every operation of the explorer's language (no raw force); consistency is only
	// needed once something has been forced
	if r.live || (!r.anyRaw && (r.consistent || !r.anyForce)) {
		es := make([]c05entry, len(after))
		for i, s := range after {
			es[i] = c05entryOf(s)
		}
		domFound, dupFound := false, false
		for i := range es {
			for j := range es {
				if i != j && !domFound && c05dominates(es[i].vec, es[j].vec) {
					domFound = true
					r.fail("archive contains a member dominated by another member", detail)
				}
				if i < j && !dupFound && es[i].acts == es[j].acts {
					dupFound = true
					r.fail("archive contains two members with the same action set", detail)
				}
			}
		}
		// without forced stores, on consistent streams: archive = Pareto front of all offers so far
		if !r.anyForce && r.consistent {
			if msg := c05frontDiff(es, r.ops); msg != "" {
				r.fail("archive differs from the Pareto-optimal subset of the candidates offered so far: "+msg, detail)
			}
		}
	}
}

func c05key(vec []float64, acts string) string {
	parts := make([]string, len(vec))
	for i, f := range vec {
		if f == 0 {
			f = 0 // -0.0 and 0.0 are the same value
		}
		parts[i] = fmt.Sprintf("%x", math.Float64bits(f))
	}
	return acts + "|" + strings.Join(parts, ",")
}

func c05frontDiff(members []c05entry, ops []c05op) string {
	front := map[string]bool{}
	for _, o := range ops {
		dominated := false
		for _, p := range ops {
			if c05dominates(p.cand.vec, o.cand.vec) {
				dominated = true
				break
			}
		}
		if !dominated {
			front[c05key(o.cand.vec, c05bitsString(o.cand.bits))] = true
		}
	}
	have := map[string]bool{}
	for _, m := range members {
		have[c05key(m.vec, m.acts)] = true
	}
	var missing, extra []string
	for k := range front {
		if !have[k] {
			missing = append(missing, k)
		}
	}
	for k := range have {
		if !front[k] {
			extra = append(extra, k)
		}
	}
	if len(missing)+len(extra) == 0 {
		return ""
	}
	sort.Strings(missing)
	sort.Strings(extra)
	return fmt.Sprintf("%d Pareto-optimal offers missing, %d members not Pareto-optimal", len(missing), len(extra))
}

// ---- explicit sequences ----

func c05emitSeq(r *c05run, obs []c05obs) {
	c05stats["seq_"+r.class]++
	c05stats["seq_ops"] += len(r.ops)
	if c05grid3(r.ops) {
		c05stats["seq_exported_as_grid_integers"]++
	}
	emit(J{"kind": "case", "type": "seq", "class": r.class, "ops": r.opsJSON(), "obs": obs, "grid3": c05grid3(r.ops),
		"consistent": r.consistent, "any_force": r.anyForce, "any_raw": r.anyRaw, "same_dim": r.sameDim})
}

func c05runSeq(class string, ops []c05op) {
	r := c05newRun(class)
	var obs []c05obs
	for _, o := range ops {
		ob := r.apply(o)
		obs = append(obs, ob)
		if ob.Panic {
			c05stats["panics"]++
			break
		}
		for _, res := range ob.Res {
			c05stats[fmt.Sprintf("result_%d", res)]++
		}
		if ob.Len > c05stats["max_archive_len"] {
			c05stats["max_archive_len"] = ob.Len
		}
		if ob.Nd != nil {
			c05stats["self_check_calls"]++
			if *ob.Nd != "T" {
				c05stats["self_check_false"]++
			}
		}
	}
	c05emitSeq(r, obs)
}

// random stream generator: dimension d, a pool of action sets (so that sets repeat), small value grids
// (ties, equal vectors) or 3-decimal floats; consistent streams fix the vector per action set.
func c05randomOps(rng *prng, n, d int, consistent bool, pForce, pRaw float64) []c05op {
	sizes := []int{1, 2, 3, 5, 8, 13, 63, 64, 65, 130}
	size := sizes[rng.intn(len(sizes))]
	poolN := 2 + rng.intn(14)
	if n > 60 {
		poolN = 10 + rng.intn(120)
	}
	randBits := func() []bool {
		b := make([]bool, size)
		for i := range b {
			b[i] = rng.chance(0.5)
		}
		return b
	}
	pool := make([][]bool, poolN)
	sharePrefix := size > 64 && rng.chance(0.5)
	for i := range pool {
		pool[i] = randBits()
		if sharePrefix && i > 0 {
			copy(pool[i][:64], pool[0][:64]) // keys that differ only beyond the first 64-bit word
		}
	}
	grid := 1 + rng.intn(5)
	style := rng.intn(6)
	if n <= 30 && rng.intn(6) == 0 {
		style = 6 // arbitrary doubles (53-bit mantissas): short sequences only, exact comparison is slow inside Coq
	}
	randVal := func() float64 {
		switch style {
		case 0, 1, 2:
			return float64(rng.intn(grid + 1))
		case 3:
			return float64(rng.intn(4000)-500) / 1024
		case 4:
			return float64(rng.intn(4000)-500) / 1000 // 3-decimal values as the catchment model produces
		case 6:
			if rng.intn(4) == 0 {
				return float64(rng.intn(3))
			}
			return (rng.float() - 0.5) * 2000
		default:
			if rng.intn(8) == 0 {
				return math.Copysign(0, -1)
			}
			return float64(rng.intn(7) - 3)
		}
	}
	randVec := func() []float64 {
		v := make([]float64, d)
		for i := range v {
			v[i] = randVal()
		}
		return v
	}
	fixed := map[string][]float64{}
	var last []float64
	ops := make([]c05op, n)
	for i := range ops {
		var bits []bool
		switch rng.intn(12) {
		case 0:
			bits = randBits()
		case 1:
			// same words, different declared size: IsEquivalentTo must say "different"
			bits = append(append([]bool{}, pool[rng.intn(len(pool))]...), false)
		default:
			bits = pool[rng.intn(len(pool))]
		}
		var vec []float64
		key := c05bitsString(bits)
		if consistent {
			if v, ok := fixed[key]; ok {
				vec = v
			} else {
				vec = randVec()
				if last != nil && rng.intn(5) == 0 {
					vec = append([]float64{}, last...) // equal vector, different action set
				}
				fixed[key] = vec
			}
		} else {
			vec = randVec()
			if last != nil && rng.intn(6) == 0 {
				vec = append([]float64{}, last...)
			}
		}
		last = vec
		kind := c05Offer
		u := rng.float()
		if u < pRaw {
			kind = c05ForceRaw
		} else if u < pRaw+pForce {
			kind = c05OfferForce
		}
		ops[i] = c05op{kind: kind, cand: c05cand{vec: vec, bits: bits}}
	}
	return ops
}

// ---- exhaustive blocks over a candidate alphabet ----

type c05alphabet struct {
	cands  []c05cand
	states []*marchive.CompressedModelState
	index  map[*marchive.CompressedModelState]int
}

func c05gridAlphabet() *c05alphabet {
	a := &c05alphabet{index: map[*marchive.CompressedModelState]int{}}
	sets := [][]bool{{true, false, false}, {false, true, false}, {true, true, false}}
	for _, bits := range sets {
		for x := 0; x < 3; x++ {
			for y := 0; y < 3; y++ {
				a.cands = append(a.cands, c05cand{vec: []float64{float64(x), float64(y)}, bits: bits})
			}
		}
	}
	return a
}

func (al *c05alphabet) mask(ss []*marchive.CompressedModelState, idxOf map[*marchive.CompressedModelState]int, ops []c05op, alphaIdx []int) int64 {
	var m int64
	for _, s := range ss {
		m |= 1 << uint(alphaIdx[idxOf[s]])
	}
	return m
}

// c05blocks enumerates every sequence of length <= maxLen over kinds {Offer, OfferForce} x alphabet against the
// real archive (fresh archive per sequence; the oracle judges the last operation of every sequence, so every
// operation of every sequence is judged once).  For the Coq side one block = one prefix + the outcome of each of
// its one-step extensions; prefixes that lead to the same ORDERED archive content with the same outcome vector
// are emitted once (counted in the statistics).
func c05blocks(maxLen int) {
	al := c05gridAlphabet()
	n := len(al.cands)
	kinds := []int{c05Offer, c05OfferForce}
	emit(J{"kind": "alphabet", "cands": func() []J {
		res := make([]J, n)
		for i, c := range al.cands {
			res[i] = J{"v": flsOf(c.vec), "a": c05bitsString(c.bits)}
		}
		return res
	}()})
	seen := map[string]bool{}
	pow := int64(1) << uint(n)
	var rec func(prefix [][2]int)
	rec = func(prefix [][2]int) {
		// replay the prefix on a fresh archive (oracle off: each prefix step was judged as an extension)
		replay := func() (*c05run, []int) {
			r := c05newRun("grid_exhaustive")
			r.oracleOn = false
			alphaIdx := []int{}
			for _, p := range prefix {
				r.apply(c05op{kind: p[0], cand: al.cands[p[1]]})
				alphaIdx = append(alphaIdx, p[1])
			}
			return r, alphaIdx
		}
		r0, ai0 := replay()
		snap := r0.snapshot()
		stateMask := al.mask(snap, r0.idxOf, r0.ops, ai0)
		stateCode := int64(len(snap))*pow + stateMask
		order := make([]string, len(snap))
		for i, s := range snap {
			order[i] = fmt.Sprint(ai0[r0.idxOf[s]])
		}
		outcomes := make([]int64, 0, len(kinds)*n)
		for _, k := range kinds {
			for i := 0; i < n; i++ {
				r, ai := replay()
				r.oracleOn = true
				ob := r.apply(c05op{kind: k, cand: al.cands[i]})
				ai = append(ai, i)
				c05stats["grid_sequences"]++
				c05stats[fmt.Sprintf("grid_len_%d", len(prefix)+1)]++
				if r.consistent {
					c05stats["grid_sequences_consistent"]++
				}
				code := int64(-1)
				if !ob.Panic {
					r1, r2 := int64(6), int64(6)
					if len(ob.Res) > 0 {
						r1 = int64(ob.Res[0])
					}
					if len(ob.Res) > 1 {
						r2 = int64(ob.Res[1])
					}
					m := al.mask(r.snapshot(), r.idxOf, r.ops, ai)
					code = ((r1*7+r2)*16+int64(ob.Len))*pow + m
				}
				outcomes = append(outcomes, code)
			}
		}
		key := strings.Join(order, ",") + "|" + fmt.Sprint(outcomes)
		if seen[key] {
			c05stats["grid_blocks_deduplicated"]++
		} else {
			seen[key] = true
			c05stats["grid_blocks"]++
			emit(J{"kind": "case", "type": "block", "prefix": prefix, "state": stateCode, "outcomes": outcomes})
		}
		if len(prefix)+1 < maxLen {
			for _, k := range kinds {
				for i := 0; i < n; i++ {
					rec(append(append([][2]int{}, prefix...), [2]int{k, i}))
				}
			}
		}
	}
	rec([][2]int{})
}

// c05witnesses replays, on the real archive, the witnesses of the *_refuted theorems of Properties/C05.v (they also
// go through the correspondence as ordinary sequence cases) and records whether the real code shows the same effect.
func c05witnesses() {
	A, B := []bool{true, false}, []bool{false, true}
	mk := func(kind int, vec []float64, bits []bool) c05op {
		return c05op{kind: kind, cand: c05cand{vec: vec, bits: bits}}
	}
	run := func(name string, ops []c05op, confirmed func(r *c05run, last c05obs) bool) {
		r := c05newRun("witness_" + name)
		r.alwaysSelfCheck = true
		var obs []c05obs
		for _, o := range ops {
			obs = append(obs, r.apply(o))
		}
		if confirmed(r, obs[len(obs)-1]) {
			c05stats["witness_confirmed_"+name]++
		} else {
			c05stats["witness_NOT_confirmed_"+name]++
		}
		c05emitSeq(r, obs)
	}
	hasDup := func(r *c05run) bool {
		seen := map[string]bool{}
		for _, s := range r.arch.Archive() {
			a := c05entryOf(s).acts
			if seen[a] {
				return true
			}
			seen[a] = true
		}
		return false
	}
	hasDominated := func(r *c05run) bool {
		ss := r.arch.Archive()
		for _, x := range ss {
			for _, y := range ss {
				if c05dominates(x.Variables, y.Variables) {
					return true
				}
			}
		}
		return false
	}
	// C05_needs_consistency_refuted: inconsistent stream, forced store => two members with one action set
	run("needs_consistency_dup", []c05op{mk(c05Offer, []float64{3, 0}, B), mk(c05Offer, []float64{0, 5}, A), mk(c05OfferForce, []float64{4, 1}, A)},
		func(r *c05run, _ c05obs) bool { return hasDup(r) })
	// C05_front_needs_consistency_refuted: a Pareto-optimal candidate refused as duplicate
	run("needs_consistency_front", []c05op{mk(c05Offer, []float64{0, 1}, A), mk(c05Offer, []float64{1, 0}, A)},
		func(r *c05run, last c05obs) bool {
			return len(last.Res) == 1 && last.Res[0] == uint(marchive.RejectedWithDuplicateEntryDetected) && r.arch.Len() == 1
		})
	// C05_raw_force_refuted
	run("raw_force_dominated", []c05op{mk(c05Offer, []float64{1, 1}, A), mk(c05ForceRaw, []float64{0, 0}, B)},
		func(r *c05run, _ c05obs) bool { return hasDominated(r) })
	run("raw_force_dup", []c05op{mk(c05Offer, []float64{1, 1}, A), mk(c05ForceRaw, []float64{1, 1}, A)},
		func(r *c05run, _ c05obs) bool { return hasDup(r) })
	// C05_self_check_incomplete_refuted: IsNonDominant() = true although the last entry dominates the first
	run("self_check_incomplete", []c05op{mk(c05Offer, []float64{1}, A), mk(c05ForceRaw, []float64{0}, B)},
		func(r *c05run, last c05obs) bool { return hasDominated(r) && last.Nd != nil && *last.Nd == "T" })
}

func runC05(args []string) {
	tier := "quick"
	if len(args) > 0 {
		tier = args[0]
	}
	rng := newPrng(5)

	maxLen := 3
	nShort, nMid, nLong := 60, 30, 8
	if tier == "thorough" {
		maxLen = 4
		nShort, nMid, nLong = 400, 200, 60
	}
	c05blocks(maxLen)

	classes := []struct {
		name         string
		consistent   bool
		pForce, pRaw float64
	}{
		{"offers_consistent", true, 0, 0},
		{"offerforce_consistent", true, 0.45, 0},
		{"offerforce_inconsistent", false, 0.45, 0},
		{"offers_inconsistent", false, 0, 0},
		{"with_raw_force", true, 0.3, 0.15},
	}
	gen := func(count, lo, hi int) {
		for i := 0; i < count; i++ {
			cl := classes[i%len(classes)]
			n := lo + rng.intn(hi-lo+1)
			d := 1 + rng.intn(6)
			c05stats[fmt.Sprintf("dim_%d", d)]++
			c05runSeq(cl.name, c05randomOps(rng, n, d, cl.consistent, cl.pForce, cl.pRaw))
		}
	}
	gen(nShort, 1, 12)
	gen(nMid, 13, 60)
	gen(nLong, 120, 200)

	// dimension mismatch: outside the property's quantifier; validates the model's Panic outcome only
	for i := 0; i < 12; i++ {
		ops := c05randomOps(rng, 2+rng.intn(5), 2+rng.intn(2), true, 0.3, 0.1)
		j := 1 + rng.intn(len(ops)-1)
		v := ops[j].cand.vec
		if rng.chance(0.5) {
			v = v[:len(v)-1]
		} else {
			v = append(append([]float64{}, v...), 1)
		}
		ops[j].cand = c05cand{vec: v, bits: append([]bool{}, ops[j].cand.bits...)}
		c05runSeq("dimension_mismatch", ops)
	}

	c05witnesses()
	c05live(tier, rng)

	c05stats["oracle_failures"] = c05oracleCount
	emit(J{"kind": "stat", "stats": c05stats})
}

func init() { register("C05", runC05) }
