//go:build verif

// C03, composed single-objective runs (ComposeKp.v): the REAL kirkpatrick.Explorer on the REAL catchment model under
// a limit.  The explorer's acceptance draws come from a scripted rand.Source (as in c04.go), the model's action pick
// from a scripted generator installed in the model's action container (as catchPickIndex does).  Per iteration the
// harness records: pick, the Int63 value behind the draw, temperature bits before / after, the change the explorer
// read from the model (bits), validity, decision (event note), draws made, the objective value the explorer reads
// after the iteration (bits), all six totals (grid integers) and the active action set.  Coq replays every run
// through ComposeKp.ckp_iterate (ComposeKpCorr.check_krun).
//
// Search (implementation side, independent of the Coq model): after every iteration
//   - the limited variable is within the limit;
//   - the decision is the Metropolis decision for (validity, reported change, temperature, draw);
//   - the action set is the previous one, with the picked action toggled iff the proposal was accepted;
//   - the six totals and the objective value equal those of a SECOND model instance that is taken to the same action
//     set by SetManagementAction only (no proposals): the explorer's objective must never drift from what the model
//     reports for the action set;
//   - the objective moved by exactly the reported change (accepted) or not at all;
// and at the end of the run the totals equal those of a freshly loaded instance given the final action set.
package main

import (
	"fmt"
	"math"
	mrand "math/rand"
	"sort"
	"strings"

	kcoolant "github.com/LindsayBradford/crem/internal/pkg/annealing/cooling/coolants/kirkpatrick"
	"github.com/LindsayBradford/crem/internal/pkg/annealing/explorer/kirkpatrick"
	"github.com/LindsayBradford/crem/internal/pkg/observer"
	"github.com/LindsayBradford/crem/internal/pkg/parameters"
	crand "github.com/LindsayBradford/crem/internal/pkg/rand"
	"github.com/LindsayBradford/crem/pkg/logging/loggers"
)

// the explorer's random source: answers k to every Int63
type c03ckpSource struct {
	k     int64
	calls int
}

func (s *c03ckpSource) Int63() int64 { s.calls++; return s.k }
func (s *c03ckpSource) Seed(int64)   {}

// the model's generator: Intn(n) returns [pick] (Int63 = pick<<32)
type c03ckpPicker struct {
	pick  int
	calls int
}

func (s *c03ckpPicker) Int63() int64 { s.calls++; return int64(s.pick) << 32 }
func (s *c03ckpPicker) Seed(int64)   {}

var _ mrand.Source = new(c03ckpSource)
var _ mrand.Source = new(c03ckpPicker)

type c03ckpEvents struct{ evs []observer.Event }

func (o *c03ckpEvents) ObserveEvent(e observer.Event) {
	if e.EventType == observer.Explorer {
		o.evs = append(o.evs, e)
	}
}

const c03ckpMask = int64(1)<<53 - 1

// what the REAL Float64Unitary returns when the source answers k
func c03ckpUnitary(k int64) float64 {
	return crand.New(&c03ckpSource{k: k}).Float64Unitary()
}

// a source value whose draw is as close as possible to the target (equal where the grid k/(2^53-1) allows)
func c03ckpKFor(target float64) int64 {
	if !(target > 0) {
		return 0
	}
	if target >= 1 {
		return c03ckpMask
	}
	k0 := int64(math.Round(target * float64(c03ckpMask)))
	best, bestD := k0, math.Inf(1)
	for dk := int64(-3); dk <= 3; dk++ {
		k := k0 + dk
		if k < 0 || k > c03ckpMask {
			continue
		}
		u := c03ckpUnitary(k)
		if u == target {
			return k
		}
		if d := math.Abs(u - target); d < bestD {
			best, bestD = k, d
		}
	}
	return best
}

type c03ckpPlan struct {
	limVar int     // limited variable (index into catchVarNames)
	frac   float64 // position of the limit in the attainable range
	obj    int     // objective variable
	dir    int     // 1 minimising, 2 maximising
	iters  int
	cf     float64
}

func c03ckpTotals(c *catchInst) []int64 {
	t := make([]int64, len(catchVarNames))
	for k, name := range catchVarNames {
		t[k] = c.grid(c.perUnit(name).Value(), catchVarScale[k])
	}
	return t
}

func c03ckpSameInts(a, b []int64) bool {
	if len(a) != len(b) {
		return false
	}
	for i := range a {
		if a[i] != b[i] {
			return false
		}
	}
	return true
}

func c03ckpAll(tier string, datasets []string, stats map[string]int, failsp *int) {
	p := newPrng(30317)
	for di, ds := range datasets {
		var plans []c03ckpPlan
		shipped := di == 0
		switch {
		case shipped && tier == "thorough":
			for lv := 0; lv < 6; lv++ {
				for _, ob := range []int{lv, (lv + 4) % 6, (lv + 1) % 6} {
					plans = append(plans, c03ckpPlan{lv, []float64{0.1, 0.5, 0.9}[p.intn(3)], ob, 1 + p.intn(2), 400, 0.99})
				}
			}
		case shipped:
			plans = []c03ckpPlan{
				{0, 0.5, 0, 1, 110, 0.97}, // limit on the objective itself, minimising
				{4, 0.5, 0, 1, 110, 0.97}, // the usual configuration: minimise sediment under a budget
				{4, 0.3, 3, 2, 110, 0.97}, // maximising
				{0, 0.5, 4, 1, 110, 0.97}, // minimise cost under a sediment cap
				{5, 0.9, 5, 2, 110, 0.97}, // maximising the limited variable: pushes against the limit
				{1, 0.1, 2, 1, 110, 0.97},
			}
		case tier == "thorough":
			for r := 0; r < 6; r++ {
				lv := p.intn(6)
				plans = append(plans, c03ckpPlan{lv, []float64{0.1, 0.5, 0.9}[p.intn(3)], []int{lv, p.intn(6)}[r%2], 1 + r%2, 150, 0.98})
			}
		default:
			lv := p.intn(6)
			plans = []c03ckpPlan{
				{lv, 0.5, lv, 1 + p.intn(2), 60, 0.95},
				{4 + p.intn(2), 0.5, p.intn(4), 1 + p.intn(2), 60, 0.95},
			}
		}
		for ri, pl := range plans {
			c03ckpRun(ds, ri, pl, p, stats, failsp)
		}
	}
	emit(J{"kind": "stat", "stats": stats})
}

func c03ckpRun(ds string, ri int, pl c03ckpPlan, p *prng, stats map[string]int, failsp *int) {
	limit := c03Limit(ds, pl.limVar, pl.frac)
	objName := catchVarNames[pl.obj]
	dirName := []string{"", "Minimising", "Maximising"}[pl.dir]

	// starting temperature: the median non-zero |change| of the objective over single activations from the as-is state
	probe := catchOpen(txPath(ds), nil)
	n := probe.nact
	var mags []float64
	for i := 0; i < n; i++ {
		probe.toggleObserved(i)
		if ch := math.Abs(probe.m.DecisionVariableChange(objName)); ch > 0 {
			mags = append(mags, ch)
		}
		probe.m.RevertChange()
	}
	t0 := 1.0
	if len(mags) > 0 {
		sort.Float64s(mags)
		t0 = mags[len(mags)/2]
	}

	fails := 0
	oracle := func(what string, extra J) {
		fails++
		*failsp++
		if fails <= 3 {
			line := J{"kind": "oracle", "dataset": ds, "what": "composed single-objective run: " + what, "family": "kirkpatrick-composed",
				"limit": J{"var": pl.limVar, "max": limit}, "objective": objName, "direction": dirName, "T0": t0, "cf": pl.cf}
			for k, v := range extra {
				line[k] = v
			}
			emit(line)
		}
	}

	var steps []J
	var start []int
	var startTotals []int64
	var startObj float64
	runErr := ""
	for attempts := 0; attempts < 12; attempts++ { // D14(b): the attempt-limit panic of Initialise is an outcome; try again
		steps = steps[:0]
		if attempts > 0 && attempts%3 == 0 {
			// under some limits the panic is (nearly) certain: move the limit within the attainable range
			limit = c03Limit(ds, pl.limVar, []float64{0.5, 0.9, 0.3, 0.7}[(attempts/3)%4])
			stats["ckp:limit-moved-after-attempt-limit-panics"]++
		}
		prm := parameters.Map{catchLimitKeys[pl.limVar]: limit}
		c := catchOpen(txPath(ds), prm)
		panicked, what := protect(func() {
			withWatchdog(120, "composed single-objective run", J{"family": "kirkpatrick-composed", "limit": J{"var": pl.limVar, "max": limit}}, func() {
				ex := kirkpatrick.New()
				ex.SetLogHandler(new(loggers.NullLogger))
				ex.SetModel(c.forExplorer())
				if err := ex.SetParameters(parameters.Map{kirkpatrick.DecisionVariableName: objName, kirkpatrick.OptimisationDirection: dirName,
					kcoolant.StartingTemperature: t0, kcoolant.CoolingFactor: pl.cf}); err != nil {
					panic("verif: explorer parameters rejected: " + err.Error())
				}
				ev := new(c03ckpEvents)
				ex.AddObserver(ev)
				if ri%2 == 1 {
					ex.Initialise() // a previous run of the same explorer instance
					for it := 0; it < 5; it++ {
						ex.TryRandomChange()
					}
				}
				ex.Initialise()
				if ex.Temperature != t0 || ex.CoolingFactor != pl.cf {
					panic("verif: explorer not configured as requested")
				}
				src := new(c03ckpSource)
				ex.SetRandomNumberGenerator(crand.New(src))
				picker := new(c03ckpPicker)
				c.m.VerifManagementActions().SetRandomNumberGenerator(crand.New(picker))

				start = c03Bits(c)
				startTotals = c03ckpTotals(c)
				startObj = ex.ObjectiveValue()
				// the second instance: same action set, reached without a single proposal
				probe = catchOpen(txPath(ds), nil)
				for i, b := range start {
					probe.m.SetManagementAction(i, b == 1)
				}
				if !c03ckpSameInts(c03ckpTotals(probe), startTotals) || probe.perUnit(objName).Value() != startObj {
					oracle("after Explorer.Initialise the model's totals differ from those of a second instance given the same action set",
						J{"bits": start, "totals": startTotals, "second_instance_totals": c03ckpTotals(probe)})
				}
				if c.perUnit(catchVarNames[pl.limVar]).Value() > limit {
					oracle("limit exceeded after Explorer.Initialise", J{"bits": start})
				}

				prevPick := p.intn(n)
				for it := 0; it < pl.iters; it++ {
					pick := p.intn(n)
					if p.chance(0.15) {
						pick = prevPick // toggle the same action back
					}
					prevPick = pick
					// what the pick will report (on the second instance), to aim some draws at the acceptance probability
					probe.toggleObserved(pick)
					aim := math.Exp(-math.Abs(probe.m.DecisionVariableChange(objName)) / ex.Temperature)
					probe.m.RevertChange()
					var k int64
					ukind := "random"
					switch p.intn(10) {
					case 0:
						k, ukind = 0, "zero"
					case 1:
						k, ukind = c03ckpMask, "one"
					case 2, 3:
						k, ukind = c03ckpKFor(aim), "at_p"
					case 4:
						k, ukind = c03ckpKFor(aim)+int64(p.intn(3))-1, "next_to_p"
						if k < 0 {
							k = 0
						}
						if k > c03ckpMask {
							k = c03ckpMask
						}
					default:
						k = int64(p.next() >> 1) // the high bits are garbage that Int63n must mask away
					}
					cool := !(ri%3 == 2 && it%3 == 2) // the annealer cools after every iteration; one run in three skips some

					bitsBefore := c03Bits(c)
					objBefore := ex.ObjectiveValue()
					tBefore := ex.Temperature
					picker.pick, picker.calls = pick, 0
					src.k, src.calls = k, 0
					ev.evs = nil

					ex.TryRandomChange()

					_, _, fAcc, fInv, change := ex.VerifC04Flags()
					if cool {
						ex.CoolDown()
					}
					tAfter := ex.Temperature
					objAfter := ex.ObjectiveValue()
					totals := c03ckpTotals(c)
					bits := c03Bits(c)
					u := c03ckpUnitary(k)
					arg := -math.Abs(change) / tBefore
					e := math.Exp(arg)
					dec, ndec := "", 0
					for _, evt := range ev.evs {
						switch evt.Note() {
						case "Invalid Change":
							dec, ndec = "RI", ndec+1
						case "Accepting Desirable Change":
							dec, ndec = "AD", ndec+1
						case "Accepting Undesirable Change":
							dec, ndec = "AU", ndec+1
						case "Reverting Undesirable Change":
							dec, ndec = "RU", ndec+1
						}
					}
					if ndec != 1 {
						dec = "?"
					}
					steps = append(steps, J{"pick": pick, "k": k, "cool": cool, "T": math.Float64bits(tBefore), "valid": !fInv,
						"change": math.Float64bits(change), "arg": math.Float64bits(arg), "e": math.Float64bits(e), "u": math.Float64bits(u),
						"draws": src.calls, "dec": dec, "obj": math.Float64bits(objAfter), "totals": totals, "bits": bits,
						"Tafter": math.Float64bits(tAfter), "ukind": ukind})
					stats["ckp:dec_"+dec]++
					stats["ckp:u_"+ukind]++
					if change == 0 {
						stats["ckp:zero_change"]++
					}
					if !fInv && dec != "AD" && u == e {
						stats["ckp:draw_equals_probability"]++
					}

					// ---- Search ----
					where := J{"iteration": it, "pick": pick, "source_int63": k, "bits_before": bitsBefore, "bits_after": bits,
						"change": change, "temperature": tBefore, "draw": u, "decision": dec, "objective_before": objBefore, "objective_after": objAfter}
					if picker.calls != 1 {
						oracle(fmt.Sprintf("the model consulted its generator %d times in one TryRandomChange", picker.calls), where)
					}
					if c.perUnit(catchVarNames[pl.limVar]).Value() > limit {
						oracle("limit exceeded by the held state", where)
					}
					want := "RI"
					if !fInv {
						improving := (pl.dir == 1 && change < 0) || (pl.dir == 2 && change > 0)
						switch {
						case improving:
							want = "AD"
						case e > u:
							want = "AU"
						default:
							want = "RU"
						}
					}
					accepted := want == "AD" || want == "AU"
					if dec != want || fAcc != accepted {
						oracle("decision differs from the Metropolis rule for the reported change, temperature and draw", where)
					}
					wantBits := append([]int{}, bitsBefore...)
					if accepted {
						wantBits[pick] = 1 - wantBits[pick]
					}
					if fmt.Sprint(wantBits) != fmt.Sprint(bits) {
						oracle("action set after the iteration is not (previous, with the picked action toggled iff accepted)", where)
					}
					probe.m.SetManagementAction(pick, bits[pick] == 1)
					if pt := c03ckpTotals(probe); !c03ckpSameInts(pt, totals) || probe.perUnit(objName).Value() != objAfter {
						where["totals"], where["second_instance_totals"] = totals, pt
						oracle("the objective / totals held after the iteration differ from what a second model instance reports for the same action set", where)
					}
					moved := c.grid(objAfter, catchVarScale[pl.obj]) - c.grid(objBefore, catchVarScale[pl.obj])
					wantMoved := int64(0)
					if accepted {
						wantMoved = c.grid(change, catchVarScale[pl.obj])
					}
					if moved != wantMoved {
						oracle("objective did not move by exactly the reported change (accepted) / moved although rejected", where)
					}
				}
				fresh := c.freshWith(c03Bits(c))
				if !c03ckpSameInts(c03ckpTotals(fresh), c03ckpTotals(c)) {
					oracle("totals at the end of the run differ from a freshly loaded model given the final action set",
						J{"bits": c03Bits(c), "totals": c03ckpTotals(c), "fresh_totals": c03ckpTotals(fresh)})
				}
				if c.offGrid+probe.offGrid > 0 {
					oracle("a reported value is off the decimal grid (A-FLOAT)", J{"count": c.offGrid + probe.offGrid})
				}
			})
		})
		if !panicked {
			runErr = ""
			break
		}
		runErr = what
		if strings.Contains(what, "Attempt limit reached") {
			stats["ckp:attempt-limit-panic"]++
			continue
		}
		break
	}
	if runErr != "" && !strings.Contains(runErr, "Attempt limit reached") {
		oracle("run panicked: "+runErr, J{})
		return
	}
	if runErr != "" {
		stats["ckp:gave-up"]++
		return
	}
	stats["ckp:runs"]++
	stats["ckp:iterations"] += len(steps)
	emit(J{"kind": "case", "sub": "ckp", "dataset": ds, "limit": J{"var": pl.limVar, "max": flOf(limit)}, "obj": pl.obj, "dir": pl.dir,
		"T0": math.Float64bits(t0), "cf": math.Float64bits(pl.cf), "start": start, "start_totals": startTotals,
		"start_obj": math.Float64bits(startObj), "steps": append([]J{}, steps...)})
}
