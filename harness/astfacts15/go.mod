module astfacts15

go 1.21
