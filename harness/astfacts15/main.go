// astfacts15 -- stand-alone panic-site census for property C15 (go/ast + go/parser only, no crem imports).
//
//	astfacts15 <repo root> <output Facts15.v>
//
// Reads the CURRENT source of the request-handling packages (cmd/cremengine/engine/api, internal/pkg/server/rest,
// internal/pkg/server/admin and internal/pkg/server;
// _test.go files and files under the `verif` build tag excluded) and regenerates coq/gen/Facts15.v:
//
//	Facts15.sites     : per function, how many syntactically UNAMBIGUOUS panic sites it contains, by kind
//	                    - assert : single-result type assertions x.(T)   (not `v, ok := x.(T)`, not a type switch)
//	                    - panic  : explicit panic(...) calls
//	                    - pcall  : calls of functions known to panic on bad input (list below = the callee names that
//	                               Engine.v models with a Panic branch or documents as unreachable)
//	Facts15.declared  : every function declared in those packages (to tell a renamed function from a new one)
//	Facts15.indexed   : per function the number of index / slice expressions -- REPORTED only (a syntactic count cannot
//	                    tell a map read from a slice index)
//
// The obligation gen/obl_C15.v evaluates `census_matches Engine.accounted_sites Facts15.sites Facts15.declared`.
// Every site with file:line is also printed as one JSON object on stdout (copied into the evidence / replay).
// A file that does not parse is a hard error (exit 3), never a silent skip.
package main

import (
	"encoding/json"
	"fmt"
	"go/ast"
	"go/parser"
	"go/token"
	"os"
	"path/filepath"
	"sort"
	"strings"
)

var scanned = []string{"cmd/cremengine/engine/api", "internal/pkg/server/rest", "internal/pkg/server/admin", "internal/pkg/server"}

// callee names counted as `pcall` (selector or plain identifier, whatever the receiver)
var panickingCallees = map[string]string{
	"CellFloat64":      "tables.baseTable.CellFloat64: unchecked .(float64)",
	"DecisionVariable": "variable container: explicit panic on an unknown name",
	"MustCompile":      "regexp.MustCompile: panics on a malformed pattern",
	"Holds":            "assert/debug: a failed assertion panics",
	"ToCsvTable":       "dataset conversion: unchecked assertion",
	"Remove":           "attributes.Attributes.Remove: a[:removeIndex] with removeIndex = -1",
}

type site struct {
	Pkg  string `json:"pkg"`
	File string `json:"file"`
	Line int    `json:"line"`
	Func string `json:"func"`
	Kind string `json:"kind"`
	Text string `json:"text"`
}

var fset = token.NewFileSet()

func fatal(format string, a ...interface{}) {
	fmt.Fprintf(os.Stderr, "astfacts15: "+format+"\n", a...)
	os.Exit(3)
}

func verifOnly(src string) bool {
	for _, ln := range strings.Split(src, "\n") {
		t := strings.TrimSpace(ln)
		if strings.HasPrefix(t, "package ") {
			return false
		}
		if strings.HasPrefix(t, "//go:build") && strings.Contains(t, "verif") {
			return true
		}
	}
	return false
}

func funcName(fd *ast.FuncDecl) string {
	if fd.Recv == nil || len(fd.Recv.List) == 0 {
		return fd.Name.Name
	}
	t := fd.Recv.List[0].Type
	if st, ok := t.(*ast.StarExpr); ok {
		t = st.X
	}
	if id, ok := t.(*ast.Ident); ok {
		return id.Name + "." + fd.Name.Name
	}
	return "?." + fd.Name.Name
}

func exprText(e ast.Node) string {
	p := fset.Position(e.Pos())
	q := fset.Position(e.End())
	b, err := os.ReadFile(p.Filename)
	if err != nil || q.Offset > len(b) {
		return ""
	}
	s := strings.Join(strings.Fields(string(b[p.Offset:q.Offset])), " ")
	if len(s) > 90 {
		s = s[:90] + "..."
	}
	return s
}

func main() {
	if len(os.Args) != 3 {
		fatal("usage: astfacts15 <repo root> <output Facts15.v>")
	}
	repo, out := os.Args[1], os.Args[2]
	var sites []site
	declared := map[string]bool{}
	indexed := map[string]int{}
	var files []string
	for _, pkg := range scanned {
		dir := filepath.Join(repo, pkg)
		entries, err := os.ReadDir(dir)
		if err != nil {
			fatal("cannot read %s: %v", dir, err)
		}
		for _, e := range entries {
			name := e.Name()
			if e.IsDir() || !strings.HasSuffix(name, ".go") || strings.HasSuffix(name, "_test.go") {
				continue
			}
			path := filepath.Join(dir, name)
			src, err := os.ReadFile(path)
			if err != nil {
				fatal("cannot read %s: %v", path, err)
			}
			if verifOnly(string(src)) {
				continue
			}
			f, err := parser.ParseFile(fset, path, src, parser.ParseComments)
			if err != nil {
				fatal("%s does not parse: %v", path, err)
			}
			rel := pkg + "/" + name
			files = append(files, rel)
			for _, d := range f.Decls {
				fd, ok := d.(*ast.FuncDecl)
				if !ok {
					continue
				}
				fn := filepath.Base(pkg) + "/" + funcName(fd) // e.g. api/Mux.v1GetModelHandler, rest/MuxImpl.ServeHTTP
				declared[fn] = true
				if fd.Body == nil {
					continue
				}
				// type assertions that appear in a `v, ok := x.(T)` / `var v, ok = x.(T)` form are checked ones
				checked := map[*ast.TypeAssertExpr]bool{}
				ast.Inspect(fd.Body, func(n ast.Node) bool {
					switch s := n.(type) {
					case *ast.AssignStmt:
						if len(s.Lhs) == 2 && len(s.Rhs) == 1 {
							if ta, ok := s.Rhs[0].(*ast.TypeAssertExpr); ok {
								checked[ta] = true
							}
						}
					case *ast.ValueSpec:
						if len(s.Names) == 2 && len(s.Values) == 1 {
							if ta, ok := s.Values[0].(*ast.TypeAssertExpr); ok {
								checked[ta] = true
							}
						}
					}
					return true
				})
				add := func(n ast.Node, kind string) {
					p := fset.Position(n.Pos())
					sites = append(sites, site{Pkg: pkg, File: rel, Line: p.Line, Func: fn, Kind: kind, Text: exprText(n)})
				}
				ast.Inspect(fd.Body, func(n ast.Node) bool {
					switch e := n.(type) {
					case *ast.TypeAssertExpr:
						if e.Type != nil && !checked[e] { // Type == nil: the guard of a type switch
							add(e, "assert")
						}
					case *ast.CallExpr:
						switch fun := e.Fun.(type) {
						case *ast.Ident:
							if fun.Name == "panic" {
								add(e, "panic")
							} else if _, known := panickingCallees[fun.Name]; known {
								add(e, "pcall")
							}
						case *ast.SelectorExpr:
							if _, known := panickingCallees[fun.Sel.Name]; known {
								add(e, "pcall")
							}
						}
					case *ast.IndexExpr, *ast.SliceExpr:
						indexed[fn]++
					}
					return true
				})
			}
		}
	}
	// ---- per function counts ----
	type prof struct{ a, p, c int }
	counts := map[string]*prof{}
	for _, s := range sites {
		pr := counts[s.Func]
		if pr == nil {
			pr = &prof{}
			counts[s.Func] = pr
		}
		switch s.Kind {
		case "assert":
			pr.a++
		case "panic":
			pr.p++
		case "pcall":
			pr.c++
		}
	}
	names := func(m map[string]bool) []string {
		r := []string{}
		for k := range m {
			r = append(r, k)
		}
		sort.Strings(r)
		return r
	}
	fnames := []string{}
	for k := range counts {
		fnames = append(fnames, k)
	}
	sort.Strings(fnames)
	var sb strings.Builder
	sb.WriteString("(* GENERATED by harness/astfacts15 from the CURRENT source of " + strings.Join(scanned, ", ") + " -- do not edit *)\n")
	sb.WriteString("From Coq Require Import List String.\nImport ListNotations.\nOpen Scope string_scope.\n\n")
	sb.WriteString("(* function, (unchecked type assertions, explicit panic calls, calls of known-panicking functions) *)\n")
	sb.WriteString("Definition sites : list (string * (nat * nat * nat)) := [\n")
	for i, fn := range fnames {
		pr := counts[fn]
		sep := ";"
		if i == len(fnames)-1 {
			sep = ""
		}
		sb.WriteString(fmt.Sprintf("  (%q, (%d, %d, %d))%s\n", fn, pr.a, pr.p, pr.c, sep))
	}
	sb.WriteString("]%nat.\n\nDefinition declared : list string := [\n")
	dn := names(declared)
	for i, fn := range dn {
		sep := ";"
		if i == len(dn)-1 {
			sep = ""
		}
		sb.WriteString(fmt.Sprintf("  %q%s\n", fn, sep))
	}
	sb.WriteString("].\n\n(* index / slice expressions per function: reported in the evidence, no obligation *)\nDefinition indexed : list (string * nat) := [\n")
	in := []string{}
	for k := range indexed {
		in = append(in, k)
	}
	sort.Strings(in)
	for i, fn := range in {
		sep := ";"
		if i == len(in)-1 {
			sep = ""
		}
		sb.WriteString(fmt.Sprintf("  (%q, %d)%s\n", fn, indexed[fn], sep))
	}
	sb.WriteString("]%nat.\n")
	if err := os.WriteFile(out, []byte(sb.String()), 0o644); err != nil {
		fatal("cannot write %s: %v", out, err)
	}
	sort.Slice(sites, func(i, j int) bool {
		if sites[i].File != sites[j].File {
			return sites[i].File < sites[j].File
		}
		return sites[i].Line < sites[j].Line
	})
	total := 0
	for _, n := range indexed {
		total += n
	}
	js, _ := json.Marshal(map[string]interface{}{"files": files, "sites": sites, "declared": dn, "indexed": indexed, "indexed_total": total,
		"panicking_callees": panickingCallees})
	fmt.Println(string(js))
}
