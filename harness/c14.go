//go:build verif

package main

// C14 / C15 -- differential stateful runner for the REST engine (cmd/cremengine/engine/api).
//
// Every generated request sequence is run against a fresh REAL Mux through Mux.ServeHTTP with httptest recorders
// (no sockets), every call under recover.  For each request the harness computes the PARSE-LEVEL view the handler
// works on with the very library calls the handlers use (TOML decoder + model interpreter + Initialise; encoding/csv +
// caster through csv.DataSet; encoding/json into attributes.Attributes) and classifies the path with its own matcher.
// After every request the six read-only resources (and the per-subcatchment resource of every planning unit) are
// fetched.  Output: one {"kind":"case"} line per sequence (abstract requests + projected responses + projected
// resources), {"kind":"desc"} lines (scenario descriptors), {"kind":"conv"} lines (float -> planning unit id),
// {"kind":"oracle"} lines for what the implementation itself gets wrong, {"kind":"stat"}.

import (
	"crypto/sha256"
	stdcsv "encoding/csv"
	"encoding/hex"
	"encoding/json"
	"fmt"
	"io"
	"io/ioutil"
	"math"
	"net/http/httptest"
	"net/url"
	"sort"
	"strconv"
	"strings"

	engineData "github.com/LindsayBradford/crem/cmd/cremengine/config/data"
	engineApi "github.com/LindsayBradford/crem/cmd/cremengine/engine/api"
	"github.com/LindsayBradford/crem/internal/pkg/annealing/solution"
	"github.com/LindsayBradford/crem/internal/pkg/config/interpreter"
	"github.com/LindsayBradford/crem/internal/pkg/dataset"
	"github.com/LindsayBradford/crem/internal/pkg/dataset/csv"
	"github.com/LindsayBradford/crem/internal/pkg/model"
	"github.com/LindsayBradford/crem/internal/pkg/model/models/catchment"
	"github.com/LindsayBradford/crem/internal/pkg/model/planningunit"
	"github.com/LindsayBradford/crem/pkg/archive"
	"github.com/LindsayBradford/crem/pkg/attributes"
)

func init() { register("C14", runC14) }

const (
	c14Toml = "application/toml"
	c14Csv  = "text/csv"
	c14Json = "application/json"
	c14Api  = "/api/v1"
)

// ---------------------------------------------------------------------------------------------------
// byte-safe strings and interned texts

// c14S maps every byte to the code point of the same value so that JSON carries arbitrary bytes losslessly
// (tools/coqgen.string maps them back through latin-1).
func c14S(s string) string {
	ascii := true
	for i := 0; i < len(s); i++ {
		if s[i] >= 0x80 {
			ascii = false
			break
		}
	}
	if ascii {
		return s
	}
	r := make([]rune, len(s))
	for i := 0; i < len(s); i++ {
		r[i] = rune(s[i])
	}
	return string(r)
}

type c14Texts struct {
	ids   map[string]int
	bytes []string
}

func (t *c14Texts) token(s string) string {
	if s == "" {
		return ""
	}
	if id, ok := t.ids[s]; ok {
		return "t" + strconv.Itoa(id)
	}
	id := len(t.bytes)
	t.ids[s] = id
	t.bytes = append(t.bytes, s)
	return "t" + strconv.Itoa(id)
}

// ---------------------------------------------------------------------------------------------------
// scenario descriptors (the MOk view)

type c14Desc struct {
	id      int
	text    string
	config  *engineData.ScenarioConfig
	actions [][2]string // (planning unit as decimal, type)
	puIds   []uint64
	actPu   []uint64
	asis    map[string]float64
	w       *c14World
	dataset J   // the data set as the (as-is) model instance holds it: catchInst.export
	served  []J // sampled GET /model answers: served action set, six totals (grid integers), validity
	seenSrv map[string]bool
	invalid map[string]string   // bit strings of the reached sets whose fresh instance is invalid -> token of its error text
	fresh   map[string]c14Fresh // bit string -> fresh evaluation
	// generated catchments (c14sized.go): an own budget of served samples (0: the run-wide budget c14ServedCap) and what a
	// reader needs to replay a failing input on this scenario (action count, composition, the data set's files)
	servedCap int
	gen       J
	genShown  bool
}

type c14Fresh struct {
	vars  string
	valid bool
	errs  string // the validation error text of the fresh instance ("" when valid)
}

type c14World struct {
	texts  *c14Texts
	descs  map[string]*c14Desc // by TOML text
	views  map[string]J        // toml view cache by text
	dlist  []*c14Desc
	stats  map[string]int
	oracle int
	errTok map[string]string // validation error text of some fresh instance -> token
	big    map[string]J      // large generated body -> its compact description (c14big.go)
	cur    *c14Engine        // the engine the request being judged was sent to (its history goes into oracle lines)
}

func c14NewWorld() *c14World {
	return &c14World{texts: &c14Texts{ids: map[string]int{}}, descs: map[string]*c14Desc{}, views: map[string]J{}, stats: map[string]int{}, errTok: map[string]string{}, big: map[string]J{}}
}

func c14BuildModel(config *engineData.ScenarioConfig) (m *catchment.Model, kind string) {
	interp := interpreter.NewModelConfigInterpreter()
	interpreted := interp.Interpret(&config.Model).Model()
	if interp.Errors() != nil {
		return nil, "interp"
	}
	cm, isCatchment := interpreted.(*catchment.Model)
	if !isCatchment {
		return nil, "notcatchment"
	}
	cm.Initialise(model.AsIs)
	if cm.ParameterErrors() != nil {
		return nil, "init"
	}
	return cm, "ok"
}

// tomlView: the outcome of the library calls v1PostScenarioHandler makes on this text, computed on fresh objects.
func (w *c14World) tomlView(text string) (view J) {
	if v, ok := w.views[text]; ok {
		return v
	}
	defer func() {
		if p := recover(); p != nil {
			if view == nil || view["k"] != "ok" {
				view = J{"k": "panic"}
			} else {
				view = J{"k": "ok", "name": view["name"], "model": J{"k": "panic"}}
			}
			w.views[text] = view
		}
	}()
	config, err := engineData.RetrieveScenarioConfigFromString(text)
	if err != nil {
		view = J{"k": "err"}
		w.views[text] = view
		return view
	}
	view = J{"k": "ok", "name": c14S(config.Scenario.Name)}
	cm, kind := c14BuildModel(config)
	if kind != "ok" {
		view["model"] = J{"k": kind}
		w.views[text] = view
		return view
	}
	d := &c14Desc{id: len(w.dlist), text: text, config: config, asis: map[string]float64{}, invalid: map[string]string{}, fresh: map[string]c14Fresh{}, w: w}
	d.seenSrv = map[string]bool{}
	inst := &catchInst{m: &cm.CoreModel, prm: config.Model.Parameters}
	inst.pus = cm.PlanningUnits()
	inst.nact = len(cm.ManagementActions())
	d.dataset = inst.export("ds" + strconv.Itoa(d.id))
	for _, a := range cm.ManagementActions() {
		d.actions = append(d.actions, [2]string{strconv.FormatUint(uint64(a.PlanningUnit()), 10), string(a.Type())})
		d.actPu = append(d.actPu, uint64(a.PlanningUnit()))
	}
	for _, pu := range cm.PlanningUnits() {
		d.puIds = append(d.puIds, uint64(pu))
	}
	for name, v := range *cm.NameMappedVariables() {
		d.asis[name] = v.Value()
	}
	w.descs[text] = d
	w.dlist = append(w.dlist, d)
	view["model"] = J{"k": "ok", "desc": d.id}
	w.views[text] = view
	return view
}

func c14BitKey(bits []bool) string {
	b := make([]byte, len(bits))
	for i, v := range bits {
		if v {
			b[i] = '1'
		} else {
			b[i] = '0'
		}
	}
	return string(b)
}

func c14Canon(v interface{}) string {
	b, err := json.Marshal(v)
	if err != nil {
		return "!" + err.Error()
	}
	var x interface{}
	if json.Unmarshal(b, &x) != nil {
		return "!" + string(b)
	}
	b, _ = json.Marshal(x)
	return string(b)
}

// freshEval: the valuation and validity of a NEW model instance of this scenario put into the given action set.
func (d *c14Desc) freshEval(bits []bool) c14Fresh {
	key := c14BitKey(bits)
	if f, ok := d.fresh[key]; ok {
		return f
	}
	cm, kind := c14BuildModel(d.config)
	if kind != "ok" {
		panic("freshEval: scenario no longer builds")
	}
	for i, b := range bits {
		cm.SetManagementAction(i, b)
	}
	sol := new(solution.SolutionBuilder).WithId("fresh").ForModel(cm).Build()
	valid, verrs := cm.StateIsValid()
	f := c14Fresh{vars: c14Canon(sol.DecisionVariables), valid: valid}
	if !valid && verrs != nil {
		f.errs = verrs.Error()
	}
	d.fresh[key] = f
	if !valid {
		tok, ok := d.w.errTok[f.errs]
		if !ok {
			tok = "E" + strconv.Itoa(len(d.w.errTok))
			d.w.errTok[f.errs] = tok
		}
		d.invalid[key] = tok
	}
	return f
}

// sampleServed: the first c14ServedCap distinct (scenario, action set) pairs served by GET /model are exported with the six
// served totals as grid integers; Coq recomputes them from the exported data set (EngineCatchment.served_ok).
var c14ServedCap = 40

func (w *c14World) sampleServed(d *c14Desc, bits []bool, vars interface{}, attrs [][]interface{}) {
	key := c14BitKey(bits)
	if d.seenSrv[key] {
		return
	}
	if d.servedCap > 0 {
		if len(d.served) >= d.servedCap {
			return
		}
	} else if w.stats["served_samples_shipped"] >= c14ServedCap {
		return
	}
	arr, ok := vars.([]interface{})
	if !ok {
		return
	}
	totals := make([]int64, len(catchVarNames))
	found := 0
	for _, e := range arr {
		obj, _ := e.(map[string]interface{})
		name, _ := obj["Name"].(string)
		text, _ := obj["Value"].(string)
		f, err := strconv.ParseFloat(strings.ReplaceAll(text, ",", ""), 64)
		if err != nil {
			return
		}
		for k, n := range catchVarNames {
			if n == name {
				totals[k] = int64(math.Round(f * catchVarScale[k]))
				found++
			}
		}
	}
	if found != len(catchVarNames) {
		return
	}
	var valid interface{}
	for _, a := range attrs {
		if a[0] == "ValidAgainstScenario" {
			if val, _ := a[1].(J); val != nil {
				valid = val["b"]
			}
		}
	}
	d.seenSrv[key] = true
	w.stats["served_samples"]++
	if d.servedCap == 0 {
		w.stats["served_samples_shipped"]++
	}
	d.served = append(d.served, J{"bits": key, "totals": totals, "valid": valid})
}

// bitsOf: the action set a served ActiveManagementActions map denotes; ok=false if it names an unknown action.
func (d *c14Desc) bitsOf(active map[string][]string) ([]bool, bool) {
	bits := make([]bool, len(d.actions))
	n := 0
	for pu, types := range active {
		for _, ty := range types {
			found := false
			for i, a := range d.actions {
				if a[0] == pu && a[1] == ty {
					if bits[i] {
						return bits, false
					}
					bits[i] = true
					found = true
				}
			}
			if !found {
				return bits, false
			}
			n++
		}
	}
	return bits, true
}

// ---------------------------------------------------------------------------------------------------
// parse-level views of CSV and JSON bodies

func c14FloatJ(f float64) interface{} {
	switch {
	case math.IsNaN(f):
		return "nan"
	case math.IsInf(f, 1):
		return "pinf"
	case math.IsInf(f, -1):
		return "ninf"
	}
	return flOf(f)
}

func c14CsvView(text string) (view J) {
	defer func() {
		if p := recover(); p != nil {
			view = J{"k": "panic"}
		}
	}()
	ds := csv.NewDataSet("view")
	defer ds.Teardown()
	ds.ParseCsvTextIntoTable("t", text)
	if ds.Errors() != nil {
		return J{"k": "err"}
	}
	tb, terr := ds.Table("t")
	if terr != nil || tb == nil {
		return J{"k": "err"}
	}
	ht, ok := tb.(dataset.HeadingsTable)
	if !ok {
		return J{"k": "err"}
	}
	// the field texts as encoding/csv delivers them (same reader settings as csv.DataSet), read independently of the
	// table so that CellString itself stays under test
	rd := stdcsv.NewReader(strings.NewReader(text))
	rd.TrimLeadingSpace = true
	records, rerr := rd.ReadAll()
	if rerr != nil || len(records) == 0 {
		return J{"k": "err"}
	}
	hdr := []string{}
	for _, h := range ht.Header() {
		hdr = append(hdr, c14S(h))
	}
	cols, rows := ht.ColumnAndRowSize()
	// consecutive identical rows (same field texts, same cast values) are run-length encoded: a large table made of
	// filler rows stays small in the generated Coq case (EngineCorr.rle expands it again)
	runs := []J{}
	lastKey := ""
	var kb strings.Builder
	for r := uint(0); r < rows; r++ {
		kb.Reset()
		for c := uint(0); c < cols; c++ {
			raw := "?"
			if int(r)+1 < len(records) && int(c) < len(records[r+1]) {
				raw = records[r+1][c]
			}
			fmt.Fprintf(&kb, "%T|%v|%s\x00", ht.Cell(c, r), ht.Cell(c, r), raw)
		}
		key := kb.String()
		if len(runs) > 0 && key == lastKey {
			runs[len(runs)-1]["n"] = runs[len(runs)-1]["n"].(int) + 1
			continue
		}
		lastKey = key
		row := []J{}
		for c := uint(0); c < cols; c++ {
			raw := "?"
			if int(r)+1 < len(records) && int(c) < len(records[r+1]) {
				raw = records[r+1][c]
			}
			switch v := ht.Cell(c, r).(type) {
			case float64:
				row = append(row, J{"t": "f", "f": c14FloatJ(v), "txt": c14S(raw)})
			case bool:
				row = append(row, J{"t": "b", "v": v, "txt": c14S(raw)})
			case string:
				row = append(row, J{"t": "s", "v": c14S(v)})
			default:
				row = append(row, J{"t": "s", "v": "?"})
			}
		}
		runs = append(runs, J{"n": 1, "r": row})
	}
	if len(runs) == int(rows) {
		rs := [][]J{}
		for _, run := range runs {
			rs = append(rs, run["r"].([]J))
		}
		return J{"k": "ok", "header": hdr, "rows": rs}
	}
	return J{"k": "ok", "header": hdr, "rle": runs}
}

// c14ViewRows: the distinct rows of a CSV view, whichever way it carries them
func c14ViewRows(view J) [][]J {
	if rs, ok := view["rows"].([][]J); ok {
		return rs
	}
	out := [][]J{}
	if runs, ok := view["rle"].([]J); ok {
		for _, run := range runs {
			out = append(out, run["r"].([]J))
		}
	}
	return out
}

// c14BigString: strings beyond this length (attribute values) are replaced by (length, hash) on both sides -- in the
// parse-level view of the request and in the projection of what the engine serves -- so that generated cases stay small.
// No handler inspects such a value except as an Encoding (the generators never produce an Encoding that long).
const c14BigString = 2048

func c14Sha(s string) string {
	h := sha256.Sum256([]byte(s))
	return hex.EncodeToString(h[:])
}

func c14Aval(v interface{}) interface{} {
	switch x := v.(type) {
	case nil:
		return nil
	case bool:
		return J{"b": x}
	case string:
		if len(x) > c14BigString {
			return J{"s": fmt.Sprintf("big-string:%d:%s", len(x), c14Sha(x))}
		}
		return J{"s": c14S(x)}
	}
	return J{"o": c14S(c14Canon(v))}
}

func c14JsonView(body string) (view J) {
	defer func() {
		if p := recover(); p != nil {
			view = J{"k": "panic"}
		}
	}()
	attrs := attributes.Attributes{}
	if err := json.Unmarshal([]byte(body), &attrs); err != nil {
		return J{"k": "err"}
	}
	l := [][]interface{}{}
	runs := [][]interface{}{} // (count, name, value): consecutive identical entries run-length encoded
	lastKey := ""
	for _, a := range attrs {
		name, val := c14S(a.Name), c14Aval(a.Value)
		l = append(l, []interface{}{name, val})
		key := name + "\x00" + c14Canon(val)
		if len(runs) > 0 && key == lastKey {
			runs[len(runs)-1][0] = runs[len(runs)-1][0].(int) + 1
			continue
		}
		lastKey = key
		runs = append(runs, []interface{}{1, name, val})
	}
	if len(runs) == len(l) {
		return J{"k": "attrs", "l": l}
	}
	return J{"k": "attrs", "rle": runs}
}

// c14Route: the harness's own reading of the route table of Mux.Initialise (no regexp).
func c14Route(path string) J {
	parts := strings.Split(path, "/")
	if len(parts) < 4 || parts[0] != "" || parts[1] != "api" || parts[2] != "v1" {
		return J{"k": "none"}
	}
	rest := parts[3:]
	isWord := func(s string) bool {
		if s == "" {
			return false
		}
		for i := 0; i < len(s); i++ {
			c := s[i]
			if !(c >= '0' && c <= '9' || c >= 'a' && c <= 'z' || c >= 'A' && c <= 'Z' || c == '_' || c == '-') {
				return false
			}
		}
		return true
	}
	isDigits := func(s string) bool {
		if s == "" {
			return false
		}
		for i := 0; i < len(s); i++ {
			if s[i] < '0' || s[i] > '9' {
				return false
			}
		}
		return true
	}
	switch {
	case len(rest) == 1 && rest[0] == "scenario":
		return J{"k": "scenario"}
	case len(rest) == 1 && rest[0] == "solutions":
		return J{"k": "solutions"}
	case len(rest) == 2 && rest[0] == "solutions" && isWord(rest[1]):
		return J{"k": "solution", "label": rest[1]}
	case len(rest) == 1 && rest[0] == "model":
		return J{"k": "model"}
	case len(rest) == 3 && rest[0] == "model" && rest[1] == "actions" && rest[2] == "applicable":
		return J{"k": "applicable"}
	case len(rest) == 3 && rest[0] == "model" && rest[1] == "actions" && rest[2] == "active":
		return J{"k": "active"}
	case len(rest) == 2 && rest[0] == "model" && rest[1] == "subcatchment" && isDigits(rest[1]):
		return J{"k": "none"}
	case len(rest) == 3 && rest[0] == "model" && rest[1] == "subcatchment" && isDigits(rest[2]):
		// strconv.Atoi range = int (64 bit)
		d := strings.TrimLeft(rest[2], "0")
		if len(d) > 19 || (len(d) == 19 && d > "9223372036854775807") {
			return J{"k": "sub", "id": nil}
		}
		if d == "" {
			d = "0"
		}
		return J{"k": "sub", "id": d}
	}
	return J{"k": "none"}
}

func c14Meth(m string) string {
	switch m {
	case "GET", "POST", "PUT", "PATCH":
		return m
	}
	return "OTHER"
}

func c14Ct(ct string) string {
	switch ct {
	case c14Toml:
		return "toml"
	case c14Csv:
		return "csv"
	case c14Json:
		return "json"
	}
	return "other"
}

// ---------------------------------------------------------------------------------------------------
// requests and projected responses

type c14Req struct{ Method, Path, Ctype, Body string }

// c14DecodedPath: what r.URL.Path holds for this request target (percent-escapes decoded)
func c14DecodedPath(path string) string {
	u, err := url.ParseRequestURI("http://dummyUrl" + path)
	if err != nil {
		return path
	}
	return u.Path
}

func (w *c14World) abstract(q c14Req) J {
	route := c14Route(c14DecodedPath(q.Path))
	a := J{"m": c14Meth(q.Method), "route": route, "ct": c14Ct(q.Ctype), "raw": "",
		"toml": J{"k": "err"}, "csv": J{"k": "err"}, "json": J{"k": "err"}}
	k := route["k"]
	switch {
	case k == "scenario" && q.Method == "POST":
		a["raw"] = w.texts.token(q.Body)
		a["toml"] = w.tomlView(q.Body)
	case (k == "solutions" && q.Method == "POST") || (k == "active" && q.Method == "PUT"):
		a["raw"] = w.texts.token(q.Body)
		a["csv"] = c14CsvView(q.Body)
	case (k == "model" && q.Method == "PATCH") || (k == "sub" && q.Method == "PUT"):
		a["json"] = c14JsonView(q.Body)
	}
	return a
}

// c14ChunkReader delivers a body in pieces of the given sizes (cyclically), as a network connection would: the meaning
// of a request must not depend on how many bytes one Read returns.
type c14ChunkReader struct {
	s      string
	pos    int
	sizes  []int
	k      int
	failAt int // > 0: the connection breaks after that many bytes (the client went away in the middle of its upload)
}

func (c *c14ChunkReader) Read(p []byte) (int, error) {
	if c.failAt > 0 && c.pos >= c.failAt {
		return 0, io.ErrUnexpectedEOF // what net/http's body reader reports when fewer bytes than Content-Length arrive
	}
	if c.pos >= len(c.s) {
		return 0, io.EOF
	}
	n := c.sizes[c.k%len(c.sizes)]
	if c.failAt > 0 && n > c.failAt-c.pos {
		n = c.failAt - c.pos
	}
	c.k++
	if n > len(p) {
		n = len(p)
	}
	if n > len(c.s)-c.pos {
		n = len(c.s) - c.pos
	}
	copy(p, c.s[c.pos:c.pos+n])
	c.pos += n
	return n, nil
}

func c14Do(m *engineApi.Mux, q c14Req) c15Resp { return c14DoChunked(m, q, nil) }

// c14AbortAt: a first chunk size -k says that the transport fails after k bytes of the body (if the body is that long)
func c14AbortAt(chunks []int, body string) int {
	if len(chunks) > 1 && chunks[0] < 0 && -chunks[0] < len(body) {
		return -chunks[0]
	}
	if len(chunks) > 0 && chunks[0] < 0 {
		return len(body) + 1 // marker present but the body is shorter: delivered completely
	}
	return 0
}

// c14DoChunked: chunks == nil: the body is a strings.Reader (one Read returns everything, Content-Length known);
// otherwise the body arrives in pieces; a first size of 0 stands for "Content-Length unknown" (chunked transfer).
func c14DoChunked(m *engineApi.Mux, q c14Req, chunks []int) (r c15Resp) {
	defer func() {
		if p := recover(); p != nil {
			r = c15Resp{Panicked: true, Panic: fmt.Sprint(p)}
		}
	}()
	rec := httptest.NewRecorder()
	var body io.Reader = strings.NewReader(q.Body)
	known := true
	failAt := c14AbortAt(chunks, q.Body)
	if failAt > 0 {
		chunks = chunks[1:]
	}
	if len(chunks) > 0 && chunks[0] == 0 {
		known, chunks = false, chunks[1:]
	}
	if len(chunks) > 0 && q.Body != "" {
		body = &c14ChunkReader{s: q.Body, sizes: chunks, failAt: failAt}
	}
	req := httptest.NewRequest(q.Method, "http://dummyUrl"+q.Path, body)
	if known {
		req.ContentLength = int64(len(q.Body))
	} else {
		req.ContentLength = -1
	}
	if q.Ctype != "" {
		req.Header.Add("Content-Type", q.Ctype)
	}
	m.ServeHTTP(rec, req)
	res := rec.Result()
	b, _ := ioutil.ReadAll(res.Body)
	return c15Resp{Status: res.StatusCode, Ctype: res.Header.Get("Content-Type"), Body: string(b)}
}

func c14MapJ(m map[string][]string) [][]interface{} {
	keys := make([]string, 0, len(m))
	for k := range m {
		keys = append(keys, k)
	}
	sort.Strings(keys)
	out := [][]interface{}{}
	for _, k := range keys {
		out = append(out, []interface{}{k, m[k]})
	}
	return out
}

func c14ActionMap(v interface{}) (map[string][]string, bool) {
	obj, ok := v.(map[string]interface{})
	if !ok {
		return nil, false
	}
	out := map[string][]string{}
	for k, tv := range obj {
		if _, err := strconv.ParseUint(k, 10, 64); err != nil {
			return nil, false
		}
		arr, ok := tv.([]interface{})
		if !ok && tv != nil {
			return nil, false
		}
		ts := []string{}
		for _, t := range arr {
			s, ok := t.(string)
			if !ok {
				return nil, false
			}
			ts = append(ts, s)
		}
		out[k] = ts
	}
	return out, true
}

// attrs: ordered attribute list of a served solution; a ValidationErrors value equal to the validation error text of
// some fresh model instance evaluated so far is replaced by that text's token (what the model's d_errs yields).
func (w *c14World) attrs(v interface{}) ([][]interface{}, bool) {
	if v == nil {
		return [][]interface{}{}, true
	}
	arr, ok := v.([]interface{})
	if !ok {
		return nil, false
	}
	out := [][]interface{}{}
	for _, e := range arr {
		obj, ok := e.(map[string]interface{})
		if !ok || len(obj) != 2 {
			return nil, false
		}
		name, ok := obj["Name"].(string)
		if !ok {
			return nil, false
		}
		val, has := obj["Value"]
		if !has {
			return nil, false
		}
		if name == "ValidationErrors" {
			if text, isStr := val.(string); isStr {
				if tok, known := w.errTok[text]; known {
					val = tok
				}
			}
		}
		out = append(out, []interface{}{c14S(name), c14Aval(val)})
	}
	return out, true
}

func c14IsMessageDoc(obj map[string]interface{}, typ string) (string, bool) {
	if len(obj) != 3 || obj["Type"] != typ {
		return "", false
	}
	msg, ok1 := obj["Message"].(string)
	_, ok2 := obj["Time"].(string)
	return msg, ok1 && ok2
}

// project: what of a response is compared with the model.  desc: the scenario GET /scenario currently serves
// (nil if none), used for the fresh valuation of a served action set.
func (w *c14World) project(routeKind string, r c15Resp, d *c14Desc) J {
	if r.Panicked {
		return J{"k": "panic", "what": r.Panic}
	}
	out := J{"k": "resp", "status": r.Status, "ct": c14Ct(r.Ctype)}
	other := func(what string) J { out["b"] = J{"k": "other", "what": what}; return out }
	switch r.Ctype {
	case c14Toml, c14Csv:
		out["b"] = J{"k": "text", "t": w.texts.token(r.Body)}
		if r.Body == "" {
			out["b"] = J{"k": "text", "t": ""}
		}
		return out
	case c14Json:
	default:
		return other("content type " + r.Ctype)
	}
	var v interface{}
	dec := json.NewDecoder(strings.NewReader(r.Body))
	if err := dec.Decode(&v); err != nil {
		return other("invalid json")
	}
	if dec.More() {
		return other("trailing data after json")
	}
	switch x := v.(type) {
	case []interface{}:
		l := [][]interface{}{}
		for _, e := range x {
			obj, ok := e.(map[string]interface{})
			name, ok1 := obj["Name"].(string)
			val, ok2 := obj["Value"].(string)
			if !ok || !ok1 || !ok2 || len(obj) != 2 || (val != "Active" && val != "Inactive") {
				return other("array that is no subcatchment state")
			}
			l = append(l, []interface{}{name, val == "Active"})
		}
		out["b"] = J{"k": "sub", "l": l}
		return out
	case map[string]interface{}:
		if _, ok := c14IsMessageDoc(x, "ERROR"); ok {
			out["b"] = J{"k": "err"}
			return out
		}
		if msg, ok := c14IsMessageDoc(x, "SUCCESS"); ok {
			out["b"] = J{"k": "success", "msg": msg}
			return out
		}
		if len(x) == 4 {
			name, ok1 := x["ServiceName"].(string)
			version, ok2 := x["Version"].(string)
			status, ok3 := x["Status"].(string)
			_, ok4 := x["Time"].(string)
			if ok1 && ok2 && ok3 && ok4 {
				out["b"] = J{"k": "status", "name": c14S(name), "version": c14S(version), "status": c14S(status)}
				return out
			}
		}
		if am, has := x["ActiveManagementActions"]; has && len(x) == 1 {
			m, ok := c14ActionMap(am)
			if !ok {
				return other("malformed ActiveManagementActions")
			}
			out["b"] = J{"k": "active", "l": c14MapJ(m)}
			return out
		}
		if am, has := x["ApplicableActions"]; has && len(x) == 1 {
			m, ok := c14ActionMap(am)
			if !ok {
				return other("malformed ApplicableActions")
			}
			out["b"] = J{"k": "applicable", "l": c14MapJ(m)}
			return out
		}
		if id, has := x["Id"].(string); has {
			m, ok := c14ActionMap(x["ActiveManagementActions"])
			varsOk := false
			var servedBits []bool
			if d != nil && ok {
				if bits, okb := d.bitsOf(m); okb {
					varsOk = d.freshEval(bits).vars == c14Canon(x["DecisionVariables"])
					servedBits = bits
				}
			}
			attrs, ok2 := w.attrs(x["Attributes"])
			if routeKind == "model" && servedBits != nil && ok2 {
				w.sampleServed(d, servedBits, x["DecisionVariables"], attrs)
			}
			// the served Encoding attribute against the canonical encoding of the served action set, computed by the
			// harness's own encoder (c14CanonEncoding: no code of pkg/archive involved)
			encOk := true
			if servedBits != nil && ok2 {
				for _, a := range attrs {
					if a[0] == "Encoding" {
						val, _ := a[1].(J)
						text, isText := val["s"].(string)
						encOk = isText && text == c14CanonEncoding(servedBits)
					}
				}
			}
			if !ok || !ok2 || len(x) != 4 {
				return other("malformed solution document")
			}
			if routeKind == "solution" {
				b := J{"k": "solution", "id": c14S(id), "active": c14MapJ(m), "vars_ok": varsOk,
					"enc": nil, "summary": nil, "pfm": nil, "valid": nil}
				for _, a := range attrs {
					val, _ := a[1].(J) // nil map for a null value
					switch a[0] {
					case "Encoding":
						if s, ok := val["s"]; ok {
							b["enc"] = s
						}
					case "Summary":
						if s, ok := val["s"]; ok {
							b["summary"] = s
						}
					case "ParetoFrontMember":
						if s, ok := val["b"]; ok {
							b["pfm"] = s
						}
					case "ValidAgainstScenario":
						if s, ok := val["b"]; ok {
							b["valid"] = s
						}
					}
				}
				out["b"] = b
				return out
			}
			out["b"] = J{"k": "model", "id": c14S(id), "active": c14MapJ(m), "vars_ok": varsOk, "attrs": attrs, "enc_ok": encOk}
			return out
		}
	}
	return other("unrecognised json document")
}

// ---------------------------------------------------------------------------------------------------
// one engine under test

type c14Engine struct {
	w      *c14World
	mux    *engineApi.Mux
	hist   []c14Req
	steps  []J
	last   string // canonical text of the last emitted observation
	raw    map[string]c15Resp
	name   string
	dead   bool
	chunks []int // how request bodies are delivered to this engine (c14DoChunked)
	lastDesc *c14Desc // the scenario descriptor this engine served last (for oracle lines on generated catchments)
}

func (w *c14World) newEngine(name string) *c14Engine {
	return &c14Engine{w: w, mux: c15NewMux(), name: name, raw: map[string]c15Resp{}}
}

func (e *c14Engine) currentDesc() *c14Desc {
	r := c14Do(e.mux, c14Req{Method: "GET", Path: c14Api + "/scenario"})
	if r.Panicked || r.Status != 200 {
		return nil
	}
	return e.w.descs[r.Body]
}

// observe fetches the read-only resources; returns the projected observation and the raw responses
func (e *c14Engine) observe() (J, map[string]c15Resp) {
	d := e.currentDesc()
	raw := map[string]c15Resp{}
	get := func(kind, path string) J {
		r := c14Do(e.mux, c14Req{Method: "GET", Path: path})
		raw[path] = r
		return e.w.project(kind, r, d)
	}
	o := J{
		"scenario":   get("scenario", c14Api+"/scenario"),
		"solutions":  get("solutions", c14Api+"/solutions"),
		"model":      get("model", c14Api+"/model"),
		"active":     get("active", c14Api+"/model/actions/active"),
		"applicable": get("applicable", c14Api+"/model/actions/applicable"),
	}
	subs := [][]interface{}{}
	ids := []string{"999", "99999999999999999999"}
	if d != nil {
		for _, pu := range d.puIds {
			ids = append(ids, strconv.FormatUint(pu, 10))
		}
	}
	for _, id := range ids {
		p := c14Api + "/model/subcatchment/" + id
		subs = append(subs, []interface{}{c14Route(p)["id"], get("sub", p)})
	}
	o["subs"] = subs
	return o, raw
}

// send runs one request, records the step, runs the implementation-side oracle of C14 and C15 on it.
func (e *c14Engine) send(q c14Req) c15Resp {
	if e.dead {
		return c15Resp{Panicked: true}
	}
	w := e.w
	w.cur = e
	abs := w.abstract(q)
	aborted := 0
	if at := c14AbortAt(e.chunks, q.Body); at > 0 && at < len(q.Body) {
		// an upload that broke off is no request body at all: the model is asked what the engine does with an EMPTY body
		// on this route (every body-carrying handler refuses it and changes nothing)
		aborted = at
		empty := q
		empty.Body = ""
		abs = w.abstract(empty)
	}
	kind := abs["route"].(J)["k"].(string)
	before := e.raw
	if kind == "model" && q.Method == "PATCH" {
		e.registerIntermediateSets(q.Body)
	}
	r := c14DoChunked(e.mux, q, e.chunks)
	w.stats["requests"]++
	w.stats["route:"+kind+":"+c14Meth(q.Method)]++
	goRec := J{"method": q.Method, "path": q.Path, "ctype": q.Ctype, "body": c14Short(q.Body)}
	if len(q.Body) > 300 {
		goRec["body_len"] = len(q.Body)
		goRec["body_sha256"] = c14Sha(q.Body)
	}
	if gen, ok := w.big[q.Body]; ok {
		goRec["body_generated_as"] = c14ShortGen(gen)
		w.stats["big:requests"]++
		if len(q.Body) > 1<<20 {
			w.stats["big:over_1MiB"]++
			w.stats["big:over_1MiB:"+c14Meth(q.Method)+" "+kind]++
		}
	}
	if aborted > 0 {
		goRec["upload_broke_off_after_bytes"] = aborted
		w.stats["aborted_uploads"]++
		if !r.Panicked && r.Status == 200 {
			w.oracleLine("incomplete-body-acted-upon", q, r, abs, fmt.Sprintf("the body reader failed after %d of %d bytes (upload broken off) and the request was answered 200", aborted, len(q.Body)))
		}
	}
	if len(e.chunks) > 0 && q.Body != "" {
		goRec["delivered_in_chunks_of"] = e.chunks
		w.stats["chunked_bodies"]++
	}
	step := J{"req": abs, "go": goRec}
	if r.Panicked {
		w.stats["status:panic"]++
		step["resp"] = J{"k": "panic", "what": r.Panic}
		step["obs"] = nil
		e.steps = append(e.steps, step)
		e.dead = true
		w.oracleLine("panic", q, r, abs, "the handler panicked: "+r.Panic)
		return r
	}
	w.stats["status:"+strconv.Itoa(r.Status)]++
	step["resp"] = w.project(kind, r, e.currentDesc())
	obs, raw := e.observe()
	e.raw = raw
	if d := e.currentDesc(); d != nil {
		e.lastDesc = d
	}
	canon := c14Canon(obs)
	if canon == e.last {
		step["obs"] = nil
	} else {
		step["obs"] = obs
		e.last = canon
	}
	e.steps = append(e.steps, step)

	// ---- implementation-side oracle (Search) ----
	switch r.Status {
	case 200, 400, 404, 405, 415, 500, 503:
	default:
		w.oracleLine("undocumented-status", q, r, abs, fmt.Sprintf("status %d is not in the documented set", r.Status))
	}
	pb, _ := step["resp"].(J)["b"].(J)
	if r.Status/100 != 2 && (r.Ctype != c14Json || pb["k"] != "err") {
		w.oracleLine("error-body-not-json-error-document", q, r, abs, "non-2xx answer whose body is not the JSON error document")
	}
	if r.Status/100 == 2 && pb["k"] == "err" {
		w.oracleLine("error-document-with-2xx", q, r, abs, "2xx answer carrying an error document")
	}
	if r.Ctype == c14Json && !json.Valid([]byte(r.Body)) {
		w.oracleLine("invalid-json", q, r, abs, "JSON declared but the body is not valid JSON")
	}
	if r.Status != 200 && before != nil {
		for path, was := range before {
			now := raw[path]
			if was.Status != now.Status || was.Ctype != now.Ctype || c14NoTime(was.Body) != c14NoTime(now.Body) {
				w.oracleLine("error-status-but-resource-changed", q, r, abs, "answered "+strconv.Itoa(r.Status)+" but "+path+" changed")
				break
			}
		}
	}
	if r.Status != 200 && (q.Method == "POST" || q.Method == "PUT" || q.Method == "PATCH") && kind != "none" {
		// hidden state: replay the history with and without the failed request, then one successful no-op write
		// (which rebuilds the served snapshot from the live model), and compare what is served
		if diff := c14HiddenChange(e.hist, q, e.chunks); diff != "" {
			w.oracleLine("error-status-but-hidden-state-changed", q, r, abs, "answered "+strconv.Itoa(r.Status)+" but after a later no-op write "+diff+" differs from the run without this request")
		}
	}
	e.hist = append(e.hist, q)
	if r.Status == 200 && q.Method == "POST" && kind == "solutions" {
		// silent acceptance: an accepted summary must not contain an Actions cell the scenario's compressor rejects
		if d := e.currentDesc(); d != nil {
			if view, _ := abs["csv"].(J); view != nil && view["k"] == "ok" {
				for _, row := range c14ViewRows(view) {
					if len(row) < 2 {
						continue
					}
					c := row[len(row)-2]
					text, _ := c["txt"].(string)
					if c["t"] == "s" {
						text, _ = c["v"].(string)
					}
					_, independentlyOk := c14IndependentDecode(len(d.actions), text)
					if archive.New(len(d.actions)).Decode(text) != nil || !independentlyOk {
						w.oracleLine("undecodable-encoding-accepted", q, r, abs, "POST /solutions answered 200 although the Actions cell ["+text+"] does not decode into the "+strconv.Itoa(len(d.actions))+" management actions of the scenario")
						break
					}
				}
			}
		}
	}
	if r.Status == 200 && aborted == 0 {
		// silent acceptance: the body as a whole does not parse (same library call, on all of the bytes sent)
		view := ""
		switch {
		case kind == "scenario" && q.Method == "POST":
			view = "toml"
		case (kind == "solutions" && q.Method == "POST") || (kind == "active" && q.Method == "PUT"):
			view = "csv"
		case (kind == "model" && q.Method == "PATCH") || (kind == "sub" && q.Method == "PUT"):
			view = "json"
		}
		if v, _ := abs[view].(J); view != "" && v["k"] == "err" {
			w.oracleLine("unparsable-body-accepted", q, r, abs, "answered 200 although the body as a whole is not a "+view+" document the handler's parser accepts")
		}
	}
	if r.Status == 200 && aborted == 0 && kind == "model" && q.Method == "PATCH" {
		// an acknowledged encoding patch: every Encoding value is a well-formed encoding of the scenario's action count
		// and the set served afterwards is the one the LAST of them denotes (decoder of the harness: c14IndependentDecode)
		if d := e.currentDesc(); d != nil {
			posted := attributes.Attributes{}
			var last []bool
			if json.Unmarshal([]byte(q.Body), &posted) == nil {
				for _, a := range posted {
					if a.Name != "Encoding" {
						continue
					}
					text, isText := a.Value.(string)
					bits, ok := c14IndependentDecode(len(d.actions), text)
					if !isText || !ok {
						w.oracleLine("undecodable-encoding-accepted", q, r, abs, fmt.Sprintf("PATCH /model answered 200 although its Encoding value %v is no encoding of the %d management actions of the scenario (%d hexadecimal 64-bit words)", a.Value, len(d.actions), (len(d.actions)+63)/64))
						last = nil
						break
					}
					last = bits
				}
			}
			if served, ok := e.servedBits(d); last != nil && (!ok || c14BitKey(served) != c14BitKey(last)) {
				w.oracleLine("patched-encoding-is-not-the-set-served", q, r, abs, fmt.Sprintf("PATCH /model answered 200, its (last) Encoding denotes the actions %v, but GET /model/actions/active then serves %v", c14ActiveIndices(last), c14ActiveIndices(served)))
			}
		}
	}
	if kind == "solution" && q.Method == "GET" {
		w.solutionLookupOracle(q, r, abs, step, raw[c14Api+"/solutions"])
	}
	if r.Status == 200 && aborted == 0 && q.Method == "POST" && (kind == "scenario" || kind == "solutions") {
		got := raw[c14Api+"/"+kind]
		if got.Status != 200 || got.Body != q.Body {
			w.oracleLine("text-not-verbatim", q, r, abs, "GET /"+kind+" does not return the bytes just posted")
		}
	}
	if m, ok := obs["model"].(J)["b"].(J); ok && m["k"] == "model" && m["vars_ok"] == false {
		w.oracleLine("served-valuation-differs-from-fresh-instance", q, r, abs, "GET /model serves decision variables that a fresh model in the served action set does not have")
	}
	if m, ok := obs["model"].(J)["b"].(J); ok && m["k"] == "model" && m["enc_ok"] == false {
		w.oracleLine("served-encoding-not-canonical", q, r, abs, "GET /model serves an Encoding attribute that is not the canonical encoding (64 actions per ':'-separated upper-case hexadecimal word, action k = bit k mod 64 of word k div 64) of the action set it serves")
	}
	return r
}

// solutionLookupOracle: GET /solutions/<label> is answered from the summary GET /solutions serves NOW: 404 unless a row
// of it carries the label, and (for labels other than As-Is) the served Encoding is the Actions cell of the FIRST such
// row.  The summary text is read here with encoding/csv directly, independently of the engine's table.
func (w *c14World) solutionLookupOracle(q c14Req, r c15Resp, abs J, step J, current c15Resp) {
	label, _ := abs["route"].(J)["label"].(string)
	var row []string
	if current.Status == 200 {
		rd := stdcsv.NewReader(strings.NewReader(current.Body))
		rd.TrimLeadingSpace = true
		rd.FieldsPerRecord = -1
		if recs, err := rd.ReadAll(); err == nil && len(recs) > 1 {
			for _, rec := range recs[1:] {
				if len(rec) > 0 && rec[0] == label {
					row = rec
					break
				}
			}
		}
	}
	switch {
	case r.Status == 200 && row == nil:
		w.oracleLine("solution-served-under-label-not-in-current-summary", q, r, abs, "GET /solutions/"+label+" answered 200 although no row of the summary GET /solutions serves now carries that label")
	case r.Status == 404 && row != nil:
		w.oracleLine("label-of-current-summary-not-found", q, r, abs, "GET /solutions/"+label+" answered 404 although a row of the summary GET /solutions serves now carries that label")
	case r.Status == 200 && label != "As-Is" && len(row) >= 2:
		pb, _ := step["resp"].(J)["b"].(J)
		if enc, isText := pb["enc"].(string); pb["k"] == "solution" && (!isText || enc != c14S(row[len(row)-2])) {
			w.oracleLine("solution-served-from-another-row", q, r, abs, fmt.Sprintf("GET /solutions/%s serves Encoding %v but the Actions cell of the label's first row in the current summary is [%s]", label, pb["enc"], row[len(row)-2]))
		}
	}
}

// registerIntermediateSets: a PATCH with several Encoding entries passes through action sets that are never served;
// their validity (which decides where ValidationErrors ends up in the attribute list) must be in the descriptor too.
func (e *c14Engine) registerIntermediateSets(body string) {
	d := e.currentDesc()
	if d == nil {
		return
	}
	attrs := attributes.Attributes{}
	if json.Unmarshal([]byte(body), &attrs) != nil {
		return
	}
	for _, a := range attrs {
		enc, isText := a.Value.(string)
		if a.Name != "Encoding" || !isText {
			continue
		}
		arch := archive.New(len(d.actions))
		if arch.Decode(enc) != nil {
			continue
		}
		bits := make([]bool, len(d.actions))
		for i := range bits {
			bits[i] = arch.Value(i)
		}
		d.freshEval(bits)
	}
}

func c14HiddenChange(hist []c14Req, failed c14Req, chunks []int) string {
	noop := c14Req{"PUT", c14Api + "/model/actions/active", c14Csv, "SubCatchment\n"}
	serve := func(with bool) map[string]string {
		m := c15NewMux()
		for _, q := range hist {
			c14DoChunked(m, q, chunks)
		}
		if with {
			c14DoChunked(m, failed, chunks)
		}
		c14Do(m, noop)
		out := map[string]string{}
		for _, p := range []string{"/scenario", "/solutions", "/model", "/model/actions/active"} {
			r := c14Do(m, c14Req{Method: "GET", Path: c14Api + p})
			out[p] = strconv.Itoa(r.Status) + " " + c14NoTime(r.Body)
		}
		return out
	}
	a, b := serve(true), serve(false)
	for p, v := range a {
		if b[p] != v {
			return p
		}
	}
	return ""
}

func c14NoTime(body string) string {
	i := strings.Index(body, `"Time":`)
	if i < 0 {
		return body
	}
	return body[:i]
}

func c14Short(s string) string {
	s = c14S(s)
	if len(s) > 300 {
		return s[:300] + "..."
	}
	return s
}

func (w *c14World) oracleLine(what string, q c14Req, r c15Resp, abs J, detail string) {
	w.oracle++
	shape := fmt.Sprintf("%s %s", q.Method, abs["route"].(J)["k"])
	tail := q.Body
	if len(tail) > 120 {
		tail = tail[len(tail)-120:]
	}
	line := J{"kind": "oracle", "what": what, "detail": detail, "shape": shape, "method": q.Method, "path": q.Path, "ctype": q.Ctype,
		"body": c14Short(q.Body), "body_tail": c14S(tail), "status": r.Status, "panic": r.Panic}
	if len(q.Body) > 300 {
		line["body_len"] = len(q.Body)
		line["body_sha256"] = c14Sha(q.Body)
	}
	if gen, ok := w.big[q.Body]; ok {
		line["body_generated_as"] = gen // body = prefix + count x unit + pad_count x pad + suffix, in full
	}
	if e := w.cur; e != nil {
		// the requests this engine had received before (the failing one comes after them, on a fresh Mux)
		line["sequence"] = e.name
		hist := []J{}
		for _, h := range e.hist {
			item := J{"method": h.Method, "path": h.Path, "ctype": h.Ctype, "body": c14S(h.Body)}
			if len(h.Body) > 1500 {
				item["body"] = c14Short(h.Body)
				item["body_len"], item["body_sha256"] = len(h.Body), c14Sha(h.Body)
				if gen, ok := w.big[h.Body]; ok {
					item["body_generated_as"] = c14ShortGen(gen)
				}
			}
			hist = append(hist, item)
		}
		if len(hist) > 40 {
			hist = hist[len(hist)-40:]
		}
		line["history"] = hist
		if d := e.lastDesc; d != nil && d.gen != nil {
			// a generated catchment: the data set the scenario text names (in full the first time, by name afterwards)
			if d.genShown {
				line["generated_catchment"] = J{"actions": d.gen["actions"], "see": "the first oracle line on this catchment"}
			} else {
				line["generated_catchment"] = d.gen
				d.genShown = true
			}
		}
		if len(e.chunks) > 0 {
			line["delivered_in_chunks_of"] = e.chunks
		}
	}
	emit(line)
}

func (e *c14Engine) finish(tag string) {
	emit(J{"kind": "case", "name": e.name, "tag": tag, "steps": e.steps})
	e.w.stats["sequences"]++
	e.w.stats["len:"+strconv.Itoa((len(e.steps)+4)/5*5)]++
}

func (w *c14World) finish() {
	for _, d := range w.dlist {
		keys := []string{}
		for k := range d.invalid {
			keys = append(keys, k)
		}
		sort.Strings(keys)
		inv := [][2]string{}
		for _, k := range keys {
			inv = append(inv, [2]string{k, d.invalid[k]})
		}
		asis := [][]interface{}{}
		names := []string{}
		for n := range d.asis {
			names = append(names, n)
		}
		sort.Strings(names)
		for _, n := range names {
			asis = append(asis, []interface{}{n, flOf(d.asis[n])})
		}
		emit(J{"kind": "desc", "id": d.id, "actions": d.actions, "pus": d.puIds, "asis": asis, "invalid": inv, "nfresh": len(d.fresh),
			"dataset": d.dataset, "served": d.served})
	}
	// float -> planningunit.Id as this binary performs it
	for _, f := range []float64{0, 17, 17.5, 17.999, -0.5, -1, -17, 1e18, 9223372036854775807, 9223372036854775808, 1.5e19, 1.8446744073709552e19, 1e30, -9.3e18, -1e30,
		math.NaN(), math.Inf(1), math.Inf(-1)} {
		emit(J{"kind": "conv", "f": c14FloatJ(f), "id": strconv.FormatUint(uint64(planningunit.Id(f)), 10)})
	}
	w.stats["distinct_texts"] = len(w.texts.bytes)
	w.stats["scenario_descriptors"] = len(w.dlist)
	w.stats["oracle_lines"] = w.oracle
	emit(J{"kind": "stat", "stats": w.stats})
}

// ---------------------------------------------------------------------------------------------------
// generators

type c14Gen struct {
	p       *prng
	w       *c14World
	valid   string
	summary string
	scen    []string // usable scenario texts
	badScen []string
	tenMiB  map[string]bool // c14big.go: the families that get a 10 MiB body in the quick tier
	bsets   [][]bool        // c14sized.go: while a generated catchment is in use, its word-boundary action sets
}

func c14NewGen(w *c14World, salt uint64) *c14Gen {
	g := &c14Gen{p: newPrng(salt), w: w}
	g.valid = c15ReadFile("testdata/ValidTestScenario.toml")
	g.summary = c15ReadFile("testdata/ValidSolutions-Summary.csv")
	v := g.valid
	g.scen = []string{
		v,
		strings.Replace(v, `Name = "Kirkpatrick"`, `Name = "100% \"quoted\" %s %d %v"`, 1) + "# trailing comment with % and \"quotes\"\r\n",
		strings.Replace(strings.Replace(v, "\n", "\r\n", -1), `Name = "Kirkpatrick"`, `Name = "CRLF-scenario"`, 1),
		strings.Replace(v, `Name = "Kirkpatrick"`, `Name = "Limited"`, 1) + "MaximumImplementationCost = 150_000.0\n",
		strings.Replace(v, `Name = "Kirkpatrick"`, `Name = "AsIsInvalid"`, 1) + "MaximumSedimentProduction = 900.0\n",
		strings.Replace(v, `Name = "Kirkpatrick"`, `Name = "Grüße ☃"`, 1),
		strings.Replace(v, `Name = "Kirkpatrick"`, `Name = ""`, 1),
		// the SAME name as the first entry, other content: a vegetation target that changes which actions the scenario
		// offers (a re-post under its own name must replace everything the engine derived from the earlier posting)
		v + "RiparianBufferVegetationProportionTarget = 0.2\n",
		v + "GullySedimentReductionTarget = 0.5\nHillSlopeDeliveryRatio = 0.2\n",
	}
	g.badScen = []string{
		// a byte order mark in front of an otherwise valid text (what spreadsheet and notepad exports prepend)
		"\xef\xbb\xbf" + v,
		"This isn't TOML",
		"",
		c15ReadFile("testdata/InvalidModelTestScenario.toml"),
		c15ReadFile("testdata/InvalidModelParameterTestScenario.toml"),
		strings.Replace(v, `Type = "CatchmentModel"`, `Type = "NullModel"`, 1),
		strings.Replace(v, `Type = "CatchmentModel"`, `Type = "DumbModel"`, 1),
		strings.Replace(v, "testdata/ValidModel.csv", "testdata/Nope.csv", 1),
		strings.Replace(v, "testdata/ValidModel.csv", "testdata/ValidGullies.csv", 1),
		strings.Replace(v, "testdata/ValidModel.csv", "testdata", 1),
		strings.Replace(v, `Name = "Kirkpatrick"`, "Name = \"bad \xff\xfe utf8\"", 1),
		v + "[Scenario]\n",
		"[Model]\nType = 5\n",
	}
	return g
}

func (g *c14Gen) pick(xs []string) string { return xs[g.p.intn(len(xs))] }

var c14Types = []string{"GullyRestoration", "HillSlopeRestoration", "RiverBankRestoration", "WetlandsEstablishment"}

func (g *c14Gen) randomBits(d *c14Desc) []bool {
	if len(g.bsets) > 0 && len(g.bsets[0]) == len(d.actions) && g.p.chance(0.4) {
		// generated catchment: the sets that fill / empty / straddle the words of the encoding
		return append([]bool{}, g.bsets[g.p.intn(len(g.bsets))]...)
	}
	bits := make([]bool, len(d.actions))
	dens := g.p.float()
	for i := range bits {
		bits[i] = g.p.chance(dens)
	}
	return bits
}

func c14Encoding(bits []bool) string {
	a := archive.New(len(bits))
	for i, b := range bits {
		a.SetValue(i, b)
	}
	return a.Encoding()
}

// tableFor: a whole-table upload that drives the model into exactly [bits] (every action listed)
func c14TableFor(d *c14Desc, bits []bool) string {
	var sb strings.Builder
	sb.WriteString("SubCatchment, " + strings.Join(c14Types, ", ") + "\n")
	for _, pu := range d.puIds {
		row := []string{strconv.FormatUint(pu, 10)}
		for _, ty := range c14Types {
			cell := "0"
			for i, a := range d.actions {
				if d.actPu[i] == pu && a[1] == ty && bits[i] {
					cell = "1"
				}
			}
			row = append(row, cell)
		}
		sb.WriteString(strings.Join(row, ", ") + "\n")
	}
	return sb.String()
}

// subPutsFor: per-subcatchment updates that drive the model into exactly [bits]
func c14SubPutsFor(d *c14Desc, bits []bool) []c14Req {
	reqs := []c14Req{}
	for _, pu := range d.puIds {
		entries := []string{}
		for i, a := range d.actions {
			if d.actPu[i] == pu {
				v := "Inactive"
				if bits[i] {
					v = "Active"
				}
				entries = append(entries, fmt.Sprintf(`{"Name":%q,"Value":%q}`, a[1], v))
			}
		}
		if len(entries) > 0 {
			reqs = append(reqs, c14Req{"PUT", c14Api + "/model/subcatchment/" + strconv.FormatUint(pu, 10), c14Json, "[" + strings.Join(entries, ",") + "]"})
		}
	}
	return reqs
}

func (g *c14Gen) actionsTable(d *c14Desc, wellFormed bool) string {
	p := g.p
	types := []string{}
	for _, ty := range c14Types {
		if p.chance(0.7) {
			types = append(types, ty)
		}
	}
	if !wellFormed && p.chance(0.3) {
		types = append(types, g.pick([]string{"Foo", "GullyRestoration", "", "SubCatchment"}))
	}
	first := "SubCatchment"
	if !wellFormed && p.chance(0.15) {
		first = g.pick([]string{"Subcatchment", "PlanningUnit", ""})
	}
	var sb strings.Builder
	sb.WriteString(strings.Join(append([]string{first}, types...), ", ") + "\n")
	rows := p.intn(5)
	if wellFormed {
		rows = 1 + p.intn(5)
	}
	for i := 0; i < rows; i++ {
		pu := "99"
		if d != nil && len(d.puIds) > 0 && p.chance(0.85) {
			pu = strconv.FormatUint(d.puIds[p.intn(len(d.puIds))], 10)
		}
		if !wellFormed && p.chance(0.25) {
			pu = g.pick([]string{"abc", "17.5", "-17", "1e30", "NaN", "", "true", "18 ", "0x12", "+Inf", "1_7"})
		}
		row := []string{pu}
		for range types {
			c := g.pick([]string{"0", "1", "1", "0", "1.0", "0.0"})
			if !wellFormed && p.chance(0.15) {
				c = g.pick([]string{"2", "x", "", "T", "-1", "0.5", "NaN", "1e0", "\"1\""})
			}
			row = append(row, c)
		}
		if !wellFormed && p.chance(0.08) {
			if p.chance(0.5) && len(row) > 1 { // ragged: one fewer or one more
				row = row[:len(row)-1]
			} else {
				row = append(row, "1")
			}
		}
		sb.WriteString(strings.Join(row, ", ") + "\n")
	}
	return sb.String()
}

func (g *c14Gen) summaryTable(d *c14Desc, wellFormed bool) string {
	p := g.p
	lines := strings.Split(strings.TrimRight(g.summary, "\n"), "\n")
	hdr, asis, rest := lines[0], lines[1], lines[2:]
	out := []string{hdr}
	if wellFormed || p.chance(0.8) {
		out = append(out, asis)
	}
	for _, l := range rest {
		if p.chance(0.6) {
			f := strings.Split(l, ", ")
			if d != nil && p.chance(0.7) {
				f[7] = c14Encoding(g.randomBits(d))
			}
			if !wellFormed && p.chance(0.12) { // passes the hex pattern, does not decode
				f[7] = g.pick([]string{"1:2", "10000000000000000", ":", "", "0:", "FFFFFFFFFFFFFFFFF", "1::2"})
			}
			if p.chance(0.2) {
				f[8] = g.pick([]string{"100% %s", "\"quoted, summary\"", "plain", "Grüße"})
			}
			out = append(out, strings.Join(f, ", "))
		}
	}
	if p.chance(0.3) { // a label that occurs twice, with different encodings
		out = append(out, "1-of-8, 1, 2, 3, 4, 5, 6, 3, duplicate label")
	}
	text := strings.Join(out, "\n") + "\n"
	if wellFormed {
		return text
	}
	switch p.intn(14) {
	case 0:
		return ""
	case 1:
		return hdr + "\n"
	case 2:
		return strings.Replace(text, "As-Is, 13.682", "As-Is, abc", 1)
	case 3:
		return strings.Replace(text, "DissolvedNitrogen", "Dissolved", 1)
	case 4:
		return "Solution\nAs-Is\n"
	case 5:
		return "Solution, SedimentProduction, Actions, Summary\nAs-Is, 1059.911, 0, x\n"
	case 6:
		return strings.Replace(text, "As-Is, 13.682", "As-Is, 13.683", 1)
	case 7:
		return strings.Replace(text, "Actions, Summary", "Summary, Actions", 1)
	case 8:
		return strings.Replace(text, ", 40,", ", 4G,", 1) + "9-of-9, 1, 2, 3, 4, 5, 6, xyz, bad encoding\n"
	case 9:
		return text + "ragged, 1, 2\n"
	case 10:
		return strings.Replace(text, "Solution, ", "Label, ", 1)
	case 11:
		return text + "7-of-8, 1, 2, x, 4, 5, 6, 3, text in a variable cell\n"
	case 12:
		return strings.Replace(text, "As-Is,", "1-of-1,", 1) // no As-Is row at all
	}
	return hdr + "\n" + strings.Join(out[2:], "\n") + "\n" + asis + "\n" // As-Is row last
}

func (g *c14Gen) subBody(d *c14Desc, pu uint64, wellFormed bool) string {
	p := g.p
	entries := []string{}
	n := p.intn(4)
	for i := 0; i < n; i++ {
		ty := g.pick(c14Types)
		if d != nil && p.chance(0.8) { // a type this planning unit supports
			cands := []string{}
			for j, a := range d.actions {
				if d.actPu[j] == pu {
					cands = append(cands, a[1])
				}
			}
			if len(cands) > 0 {
				ty = g.pick(cands)
			}
		}
		val := g.pick([]string{`"Active"`, `"Inactive"`})
		if !wellFormed && p.chance(0.25) {
			val = g.pick([]string{`5`, `null`, `true`, `"active"`, `["Active"]`, `{"a":1}`, `""`, `1e400`})
		}
		name := strconv.Quote(ty)
		if !wellFormed && p.chance(0.15) {
			name = g.pick([]string{`"Foo"`, `""`, `5`, `null`})
		}
		entries = append(entries, `{"Name":`+name+`,"Value":`+val+`}`)
	}
	body := "[" + strings.Join(entries, ",") + "]"
	if !wellFormed && p.chance(0.2) {
		body = g.pick([]string{"", "null", "{}", "[null]", "[[]]", "nonsense", `{"Name":"GullyRestoration","Value":"Active"}`, "[" + strings.Join(entries, ",") + ",]", `[{"name":"GullyRestoration","value":"Active"}]`})
	}
	return body
}

func (g *c14Gen) patchBody(d *c14Desc, wellFormed bool) string {
	p := g.p
	entries := []string{}
	n := 1 + p.intn(3)
	for i := 0; i < n; i++ {
		switch {
		case p.chance(0.55):
			enc := "0"
			if d != nil {
				enc = c14Encoding(g.randomBits(d))
			}
			v := strconv.Quote(enc)
			if !wellFormed && p.chance(0.4) {
				v = g.pick([]string{`"zz"`, `""`, `"1:2"`, `"FFFFFFFFFFFFFFFFF"`, `5`, `null`, `["1"]`, `"0x10"`, `" 1"`, `"00000000000000000001F"`, `"ffff"`})
			}
			entries = append(entries, `{"Name":"Encoding","Value":`+v+`}`)
		case p.chance(0.5):
			entries = append(entries, `{"Name":`+g.pick([]string{`"Summary"`, `"Foo"`, `"Bar"`})+`,"Value":`+g.pick([]string{`"some text with % and \"quotes\""`, `5`, `1.5`, `[1,2]`, `{"k":"v"}`, `true`, `"x"`})+`}`)
		default:
			if wellFormed {
				entries = append(entries, `{"Name":"Note","Value":"n`+strconv.Itoa(p.intn(3))+`"}`)
			} else {
				entries = append(entries, `{"Name":`+g.pick([]string{`"ValidAgainstScenario"`, `"ParetoFrontMember"`, `"ValidationErrors"`, `"ModelSuppliedPlanningUnitName"`, `"Foo"`, `""`})+`,"Value":`+g.pick([]string{`null`, `"x"`, `false`, `7`})+`}`)
			}
		}
	}
	body := "[" + strings.Join(entries, ",") + "]"
	if !wellFormed && p.chance(0.15) {
		body = g.pick([]string{"", "null", "{}", "[null]", "here is some text that isn't JSON", `{"Name":"Encoding","Value":"0"}`, `[{"Name":5}]`})
	}
	return body
}

func (g *c14Gen) randomLabel(e *c14Engine) string {
	cands := []string{"As-Is", "1-of-8", "2-of-8", "3-of-8", "5-of-8", "8-of-8", "nope", "13", "as-is"}
	if r, ok := e.raw[c14Api+"/solutions"]; ok && r.Status == 200 && g.p.chance(0.7) {
		for _, l := range strings.Split(r.Body, "\n")[1:] {
			f := strings.Split(l, ",")
			lab := strings.TrimSpace(f[0])
			if c14Route(c14Api + "/solutions/" + lab)["k"] == "solution" {
				cands = append(cands, lab)
			}
		}
	}
	return g.pick(cands)
}

// step: one state-aware random request
func (g *c14Gen) step(e *c14Engine, malformed float64) c14Req {
	p := g.p
	d := e.currentDesc()
	wf := !p.chance(malformed)
	pu := uint64(99)
	if d != nil && len(d.puIds) > 0 {
		pu = d.puIds[p.intn(len(d.puIds))]
	}
	sub := c14Api + "/model/subcatchment/" + strconv.FormatUint(pu, 10)
	if !wf && p.chance(0.2) {
		sub = c14Api + "/model/subcatchment/" + g.pick([]string{"0", "99", "0018", "99999999999999999999", "9223372036854775807", "9223372036854775808", "18446744073709551617"})
	}
	ct := func(want string) string {
		if !wf && p.chance(0.2) {
			return g.pick([]string{"", "text/plain", c14Toml, c14Csv, c14Json, "application/json; charset=utf-8", "TEXT/CSV"})
		}
		return want
	}
	var q c14Req
	switch k := p.intn(100); {
	case k < 8:
		q = c14Req{"POST", c14Api + "/scenario", ct(c14Toml), g.pick(g.scen)}
		if !wf {
			q.Body = g.pick(g.badScen)
		}
	case k < 24:
		q = c14Req{"PUT", c14Api + "/model/actions/active", ct(c14Csv), g.actionsTable(d, wf)}
	case k < 40:
		q = c14Req{"PUT", sub, ct(c14Json), g.subBody(d, pu, wf)}
	case k < 54:
		q = c14Req{"PATCH", c14Api + "/model", ct(c14Json), g.patchBody(d, wf)}
	case k < 64:
		q = c14Req{"POST", c14Api + "/solutions", ct(c14Csv), g.summaryTable(d, wf)}
	case k < 76:
		q = c14Req{"GET", c14Api + "/solutions/" + g.randomLabel(e), "", ""}
	case k < 84:
		q = c14Req{"GET", g.pick([]string{c14Api + "/model", c14Api + "/scenario", c14Api + "/solutions", sub, c14Api + "/model/actions/active", c14Api + "/model/actions/applicable"}), "", ""}
	case k < 92 && d != nil:
		// a full-table / per-subcatchment / encoding write of a random target set
		bits := g.randomBits(d)
		switch p.intn(3) {
		case 0:
			q = c14Req{"PUT", c14Api + "/model/actions/active", c14Csv, c14TableFor(d, bits)}
		case 1:
			rs := c14SubPutsFor(d, bits)
			q = rs[p.intn(len(rs))]
		default:
			q = c14Req{"PATCH", c14Api + "/model", c14Json, `[{"Name":"Encoding","Value":"` + c14Encoding(bits) + `"}]`}
		}
	default:
		paths := []string{c14Api + "/scenario", c14Api + "/solutions", c14Api + "/solutions/1-of-8", c14Api + "/model", c14Api + "/model/actions/active",
			c14Api + "/model/actions/applicable", sub, c14Api + "/", c14Api, "/", "/api/v2/model", "/API/v1/model", c14Api + "/model/", c14Api + "/model/subcatchment/",
			c14Api + "/model/subcatchment/abc", c14Api + "/model/subcatchment/18/", c14Api + "/solutions/a.b", c14Api + "/solutions/a%20b", c14Api + "/solutions/", "//api/v1/model",
			c14Api + "/model/actions", c14Api + "/model/subcatchment/-18", c14Api + "/model/subcatchment/1%38", c14Api + "/scenario/extra", c14Api + "/solutions/x_y-Z0"}
		q = c14Req{g.pick([]string{"GET", "POST", "PUT", "PATCH", "DELETE", "HEAD", "OPTIONS", "FOO"}), g.pick(paths),
			g.pick([]string{"", c14Toml, c14Csv, c14Json, "text/plain"}), g.pick([]string{"", "here is some text", "[]", "SubCatchment\n"})}
	}
	return q
}

// routeTriple: the same target set reached from the same prefix by the three write routes, on three engines
// reservedPatch != "": the prefix also PATCHes that engine-maintained attribute name (regression case: this used to make
// the routes disagree; PATCH /model now refuses such names -- C14_regression_patched_planning_unit_name)
func (g *c14Gen) routeTriple(i int, reservedPatch string) {
	p := g.p
	w := g.w
	scen := g.scen[p.intn(len(g.scen))]
	d := w.descs[scen]
	if w.tomlView(scen)["k"] != "ok" {
		return
	}
	d = w.descs[scen]
	if d == nil {
		return
	}
	prefix := []c14Req{{"POST", c14Api + "/scenario", c14Toml, scen}}
	if p.chance(0.5) {
		prefix = append(prefix, c14Req{"POST", c14Api + "/solutions", c14Csv, g.summaryTable(d, true)})
	}
	if p.chance(0.6) {
		prefix = append(prefix, c14Req{"PUT", c14Api + "/model/actions/active", c14Csv, c14TableFor(d, g.randomBits(d))})
	}
	if p.chance(0.3) {
		prefix = append(prefix, c14Req{"PATCH", c14Api + "/model", c14Json, `[{"Name":"Summary","Value":"kept"}]`})
	}
	if reservedPatch != "" {
		prefix = append(prefix, c14Req{"PATCH", c14Api + "/model", c14Json, `[{"Name":"` + reservedPatch + `","Value":"X"}]`})
	}
	target := g.randomBits(d)
	routes := [][]c14Req{
		{{"PUT", c14Api + "/model/actions/active", c14Csv, c14TableFor(d, target)}},
		c14SubPutsFor(d, target),
		{{"PATCH", c14Api + "/model", c14Json, `[{"Name":"Encoding","Value":"` + c14Encoding(target) + `"}]`}},
	}
	bodies := []string{}
	engines := []*c14Engine{}
	for ri, route := range routes {
		e := w.newEngine(fmt.Sprintf("route-triple-%d-%d", i, ri))
		engines = append(engines, e)
		for _, q := range prefix {
			e.send(q)
		}
		for _, q := range route {
			e.send(q)
		}
		r := c14Do(e.mux, c14Req{Method: "GET", Path: c14Api + "/model"})
		var v interface{}
		json.Unmarshal([]byte(r.Body), &v)
		bodies = append(bodies, fmt.Sprintf("%d %s", r.Status, c14Canon(v)))
		e.finish("route-triple")
	}
	w.stats["route_triples"]++
	// every readable resource (model, active / applicable actions, every per-subcatchment resource, the texts)
	differing := c14RouteDiff(engines[0], engines[1])
	if differing == "" {
		differing = c14RouteDiff(engines[0], engines[2])
	}
	if bodies[0] != bodies[1] || bodies[0] != bodies[2] || differing != "" {
		last := routes[1][len(routes[1])-1]
		w.oracle++
		emit(J{"kind": "oracle", "what": "routes-disagree", "shape": "route triple", "prefix_patch": reservedPatch,
			"detail": "whole-table PUT, per-subcatchment PUTs and encoding PATCH reach action set " + c14BitKey(target) + " but GET /model (or " + differing + ") differs between them",
			"method": last.Method, "path": last.Path, "body": c14Short(last.Body), "models": bodies, "differing_resource": differing})
	}
}

func runC14(args []string) {
	c15Chdir()
	tier := "quick"
	if len(args) > 0 {
		tier = args[0]
	}
	w := c14NewWorld()
	g := c14NewGen(w, 14)
	nseq, maxLen, ntriple := 110, 20, 14
	if tier == "thorough" {
		nseq, maxLen, ntriple = 700, 40, 100
		c14ServedCap = 400
	}
	for i := 0; i < nseq; i++ {
		e := w.newEngine(fmt.Sprintf("seq-%d", i))
		if g.p.chance(0.3) { // the bodies of this walk arrive in pieces
			e.chunks = c14ChunkPatterns[1+g.p.intn(len(c14ChunkPatterns)-1)]
			if g.p.chance(0.4) {
				e.chunks = []int{1}
			}
		}
		if g.p.chance(0.85) {
			e.send(c14Req{"POST", c14Api + "/scenario", c14Toml, g.pick(g.scen)})
		}
		if g.p.chance(0.3) {
			e.send(c14Req{"POST", c14Api + "/solutions", c14Csv, g.summaryTable(e.currentDesc(), true)})
		}
		n := 3 + g.p.intn(maxLen-2)
		for len(e.steps) < n && !e.dead {
			e.send(g.step(e, 0.2))
		}
		e.finish("walk")
	}
	for i := 0; i < ntriple; i++ {
		g.routeTriple(i, "")
	}
	for k, name := range []string{"ModelSuppliedPlanningUnitName", "ValidationErrors", "ParetoFrontMember", "ValidAgainstScenario"} {
		g.routeTriple(ntriple+k, name)
	}
	nhist := 10
	if tier == "thorough" {
		nhist = 200
	}
	g.summaryCanonical()
	g.repostSameName()
	g.manyLabels(70)
	for i := 0; i < nhist; i++ {
		g.summaryHistory(i, 3+g.p.intn(4), 0.2)
	}
	// the same kinds of streams on scenarios over generated catchments whose action count sits on and around the 64-bit
	// word boundaries of the action encoding (c14sized.go); the data sets live until the end of the run
	defer g.sizedCatchments(tier)()
	g.largeBodies(tier, false)
	// uploads that break off in the middle (since /repo 09859a0 the engine refuses them: fix C14-8)
	g.abortedUploads()
	w.finish()
}
