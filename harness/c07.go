//go:build verif

package main

// C07: annealing loop contract.  Drives the REAL annealers.SimpleAnnealer / ElapsedTimeTrackingAnnealer with
//  (a) a bare explorer built on each of the three REAL coolants (kirkpatrick, suppapitnarm, averaged) whose CoolDown has
//      the shape of the real explorers' (coolant.CoolDown(); "Cooling" note to the explorer's observers), and
//  (b) the REAL explorers (kirkpatrick; suppapitnarm with the suppapitnarm and the averaged coolant) on the modumb model,
// both behind a recording wrapper that logs every call the annealer makes on its explorer and can panic at a scripted
// point.  0..3 recording observers append to the same log, so the log is the global order of everything the property
// talks about (the four annealing-state events per observer; Initialise / TryRandomChange / CoolDown / TearDown calls).
// Log lines and relayed explorer / model notes are NOT recorded: the property does not constrain them.
// Temperatures are exported as binary64 bit patterns.

import (
	"errors"
	"fmt"
	"math"
	"sort"

	"github.com/LindsayBradford/crem/internal/pkg/annealing"
	"github.com/LindsayBradford/crem/internal/pkg/annealing/annealers"
	"github.com/LindsayBradford/crem/internal/pkg/annealing/cooling"
	"github.com/LindsayBradford/crem/internal/pkg/annealing/cooling/coolants/averaged"
	kirkcool "github.com/LindsayBradford/crem/internal/pkg/annealing/cooling/coolants/kirkpatrick"
	suppcool "github.com/LindsayBradford/crem/internal/pkg/annealing/cooling/coolants/suppapitnarm"
	"github.com/LindsayBradford/crem/internal/pkg/annealing/explorer"
	"github.com/LindsayBradford/crem/internal/pkg/annealing/explorer/kirkpatrick"
	"github.com/LindsayBradford/crem/internal/pkg/annealing/explorer/suppapitnarm"
	"github.com/LindsayBradford/crem/internal/pkg/model"
	"github.com/LindsayBradford/crem/internal/pkg/model/models/modumb"
	"github.com/LindsayBradford/crem/internal/pkg/observer"
	"github.com/LindsayBradford/crem/internal/pkg/parameters"
	"github.com/LindsayBradford/crem/pkg/attributes"
	"github.com/LindsayBradford/crem/pkg/logging/loggers"
	"github.com/LindsayBradford/crem/pkg/name"
	pkgerrors "github.com/pkg/errors"
)

func init() { register("C07", runC07) }

// event codes = constructor order of AnnealLoop.event
const (
	c07Init = iota
	c07Try
	c07Cool
	c07TearDown
	c07LogError
	c07LogInfo
	c07Start
	c07StartIter
	c07Cooling
	c07FinishIter
	c07Finish
)

type c07Entry struct {
	who  int // observer index, -1 = pseudo-event (call on the explorer / logger)
	code int
	k    uint64
	bits uint64
}

type c07Log struct {
	entries   []c07Entry
	temp      func() float64
	anomalies []string
}

func (l *c07Log) add(who, code int, k uint64, t float64) {
	l.entries = append(l.entries, c07Entry{who, code, k, math.Float64bits(t)})
}
func (l *c07Log) pseudo(code int, k uint64) { l.add(-1, code, k, l.temp()) }
func (l *c07Log) anomaly(s string) {
	if len(l.anomalies) < 8 {
		l.anomalies = append(l.anomalies, s)
	}
}

// ---- recording observer ----

type c07Obs struct {
	idx int
	log *c07Log
	st  *c07Script
}

func (o *c07Obs) ObserveEvent(e observer.Event) {
	if o.st.inNested {
		// events of the OTHER run of an overlapping pair: clones share the event notifier by design, so this run's
		// observers are handed them too; they are not this run's events
		return
	}
	var code int
	switch e.EventType {
	case observer.StartedAnnealing:
		code = c07Start
	case observer.StartedIteration:
		code = c07StartIter
	case observer.FinishedIteration:
		code = c07FinishIter
	case observer.FinishedAnnealing:
		code = c07Finish
	default:
		return // relayed explorer / model events are outside the property
	}
	k := uint64(0)
	if v := e.Attribute("CurrentIteration"); v != nil {
		kk, ok := v.(uint64)
		if !ok {
			o.log.anomaly("CurrentIteration is not a uint64")
		}
		k = kk
	} else if code != c07Start {
		o.log.anomaly(fmt.Sprintf("event %d without CurrentIteration", code))
	}
	t, ok := e.Attribute("Temperature").(float64)
	if !ok {
		o.log.anomaly(fmt.Sprintf("event %d without float64 Temperature", code))
	}
	o.log.add(o.idx, code, k, t)
	// scripted fault: THIS observer panics on being handed this event
	if o.st != nil && o.st.who == o.idx {
		switch {
		case o.st.where == c07WhereStartIterObserver && code == c07StartIter && k == o.st.k,
			o.st.where == c07WhereFinishIterObserver && code == c07FinishIter && k == o.st.k,
			o.st.where == c07WhereStartObserver && code == c07Start,
			o.st.where == c07WhereFinishObserver && code == c07Finish:
			o.st.raise(o.st.pay)
		}
	}
}

// ---- script + recording wrapper around an explorer ----

const (
	c07PayNone = iota
	c07PayError
	c07PayOther
	c07PayNil
)
const (
	c07WhereNone = iota
	c07WhereTry
	c07WhereCoolBefore
	c07WhereCoolAfter
	c07WhereStartIterObserver  // observer `who` panics on StartedIteration k
	c07WhereFinishIterObserver // observer `who` panics on FinishedIteration k
	c07WhereStartObserver      // observer `who` panics on StartedAnnealing
	c07WhereFinishObserver     // observer `who` panics on FinishedAnnealing
)

var c07WhereNames = []string{"none", "try", "coolBefore", "coolAfter", "startIterObserver", "finishIterObserver", "startObserver", "finishObserver"}

type c07Script struct {
	initPanic    int
	k            uint64
	where, pay   int
	who          int // the observer that panics (where >= c07WhereStartIterObserver)
	td           int // payload kind of a panic raised by TearDown (0: TearDown returns)
	tries, cools uint64
	inNested     bool
	nestedRun    func() // (clone cases) a SECOND clone of the same configured annealer anneals to completion inside this run's first iteration
	origErr      error
	origOther    string
	tdErr        error
	tdOther      string
}

func (s *c07Script) raiseTearDown() {
	switch s.td {
	case c07PayError:
		panic(s.tdErr)
	case c07PayOther:
		panic(s.tdOther)
	case c07PayNil:
		var nothing interface{}
		panic(nothing)
	}
}

func (s *c07Script) raise(p int) {
	switch p {
	case c07PayError:
		panic(s.origErr)
	case c07PayOther:
		panic(s.origOther)
	case c07PayNil:
		var nothing interface{}
		panic(nothing)
	}
}

type c07Explorer struct {
	explorer.Explorer // the wrapped explorer; everything not overridden is delegated
	log               *c07Log
	st                *c07Script
}

func (x *c07Explorer) Initialise() {
	x.log.pseudo(c07Init, 0)
	x.st.raise(x.st.initPanic)
	x.Explorer.Initialise()
}
func (x *c07Explorer) TearDown() {
	x.log.pseudo(c07TearDown, 0)
	x.Explorer.TearDown()
	x.st.raiseTearDown()
}
func (x *c07Explorer) TryRandomChange() {
	x.st.tries++
	x.log.pseudo(c07Try, x.st.tries)
	if x.st.tries == 1 && x.st.nestedRun != nil {
		f := x.st.nestedRun
		x.st.nestedRun = nil
		f()
	}
	if x.st.where == c07WhereTry && x.st.tries == x.st.k {
		x.st.raise(x.st.pay)
	}
	x.Explorer.TryRandomChange()
}
func (x *c07Explorer) CoolDown() {
	x.st.cools++
	x.log.pseudo(c07Cool, x.st.cools)
	if x.st.where == c07WhereCoolBefore && x.st.cools == x.st.k {
		x.st.raise(x.st.pay)
	}
	x.Explorer.CoolDown()
	if x.st.where == c07WhereCoolAfter && x.st.cools == x.st.k {
		x.st.raise(x.st.pay)
	}
}
func (x *c07Explorer) DeepClone() explorer.Explorer {
	return &c07Explorer{Explorer: x.Explorer.DeepClone(), log: x.log, st: x.st}
}

// ---- bare explorer on a real coolant ----

type c07Coolant interface {
	CoolDown()
	Temp() float64
	Factor() float64
	Clone() c07Coolant
}

type c07KirkCool struct{ c *kirkcool.Coolant }

func (k c07KirkCool) CoolDown()       { k.c.CoolDown() }
func (k c07KirkCool) Temp() float64   { return k.c.Temperature }
func (k c07KirkCool) Factor() float64 { return k.c.CoolingFactor }
func (k c07KirkCool) Clone() c07Coolant {
	cp := *k.c
	return c07KirkCool{&cp}
}

type c07IfaceCool struct{ c cooling.TemperatureCoolant }

func (k c07IfaceCool) CoolDown()         { k.c.CoolDown() }
func (k c07IfaceCool) Temp() float64     { return k.c.Temperature() }
func (k c07IfaceCool) Factor() float64   { return k.c.CoolingFactor() }
func (k c07IfaceCool) Clone() c07Coolant { return c07IfaceCool{k.c.DeepClone()} }

type c07Bare struct {
	name.NameContainer
	name.IdentifiableContainer
	model.ContainedModel
	loggers.ContainedLogger
	observer.SynchronousAnnealingEventNotifier
	cool c07Coolant
}

func (b *c07Bare) DeepClone() explorer.Explorer {
	cp := *b
	cp.cool = b.cool.Clone()
	return &cp
}
func (b *c07Bare) Initialise()                               {}
func (b *c07Bare) TearDown()                                 {}
func (b *c07Bare) TryRandomChange()                          {}
func (b *c07Bare) SetParameters(params parameters.Map) error { return nil }
func (b *c07Bare) ParameterErrors() error                    { return nil }
func (b *c07Bare) CoolDown() { // same shape as kirkpatrick/suppapitnarm Explorer.CoolDown
	b.cool.CoolDown()
	event := observer.NewEvent(observer.Explorer).WithNote("Cooling").WithAttribute(explorer.Temperature, b.cool.Temp())
	b.NotifyObserversOfEvent(*event)
}
func (b *c07Bare) EventAttributes(eventType observer.EventType) attributes.Attributes {
	as := new(attributes.Attributes).Add(explorer.Temperature, b.cool.Temp())
	if eventType == observer.StartedAnnealing {
		as = as.Add(explorer.CoolingFactor, b.cool.Factor())
	}
	return as
}

var c07ExplorerKinds = []string{"bareK", "bareS", "bareA", "realK", "realS", "realA"}

// a key whose wanted value is the documented default (StartingTemperature 0, CoolingFactor 1) is LEFT OUT of every
// second such map: an omitted key means its default, for all three coolants
var c07OmitCounter int

func c07CoolParams(t0, a float64) parameters.Map {
	m := parameters.Map{"StartingTemperature": t0, "CoolingFactor": a}
	c07OmitCounter++
	if c07OmitCounter%2 == 0 {
		if a == 1 {
			delete(m, "CoolingFactor")
			c07Stats["cooling_factor_left_to_its_default"]++
		}
		if t0 == 0 && 1/t0 > 0 {
			delete(m, "StartingTemperature")
			c07Stats["starting_temperature_left_to_its_default"]++
		}
	}
	return m
}

func c07BuildExplorer(kind string, t0, a float64) explorer.Explorer {
	switch kind {
	case "bareK":
		c := new(kirkcool.Coolant).Initialise().WithParameters(c07CoolParams(t0, a))
		b := &c07Bare{cool: c07KirkCool{c}}
		b.SetModel(model.NewNullModel())
		return b
	case "bareS":
		b := &c07Bare{cool: c07IfaceCool{suppcool.NewCoolant().WithParameters(c07CoolParams(t0, a))}}
		b.SetModel(model.NewNullModel())
		return b
	case "bareA":
		b := &c07Bare{cool: c07IfaceCool{averaged.NewCoolant().WithParameters(c07CoolParams(t0, a))}}
		b.SetModel(model.NewNullModel())
		return b
	case "realK":
		ex := kirkpatrick.New()
		ex.SetLogHandler(new(loggers.NullLogger))
		ps := c07CoolParams(t0, a)
		ps["DecisionVariable"] = "Objective_0"
		ex.SetParameters(ps) // while the model is still the null model, as the config interpreter does
		return ex
	case "realS", "realA":
		var c cooling.TemperatureCoolant = suppcool.NewCoolant()
		if kind == "realA" {
			c = averaged.NewCoolant()
		}
		ex := suppapitnarm.New().WithCoolant(c).WithModel(modumb.NewModel())
		ex.SetLogHandler(new(loggers.NullLogger))
		ex.SetParameters(c07CoolParams(t0, a))
		return ex
	}
	panic("c07: unknown explorer kind " + kind)
}

// forces values the parameter validation would refuse (kirkpatrick's fields are exported)
func c07ForceRaw(inner explorer.Explorer, t0, a float64) {
	switch ex := inner.(type) {
	case *c07Bare:
		kc := ex.cool.(c07KirkCool)
		kc.c.Temperature, kc.c.CoolingFactor = t0, a
	case *kirkpatrick.Explorer:
		ex.Temperature, ex.CoolingFactor = t0, a
	default:
		panic("c07: raw values only for kirkpatrick coolants")
	}
}

func c07TempReader(inner explorer.Explorer) func() float64 {
	switch ex := inner.(type) {
	case *c07Bare:
		return ex.cool.Temp
	case *kirkpatrick.Explorer:
		return func() float64 { return ex.Temperature }
	case *suppapitnarm.Explorer:
		return func() float64 {
			as := ex.EventAttributes(observer.StartedIteration)
			return as.Value(explorer.Temperature).(float64)
		}
	}
	panic("c07: no temperature reader")
}

// ---- one run ----

type c07Case struct {
	ann    int // 0 SimpleAnnealer, 1 ElapsedTimeTrackingAnnealer
	expl   string
	n      uint64
	m      int
	init   int
	k      uint64 // absolute iteration number at which the explorer panics (0 = never)
	where  int
	pay    int
	who    int // panicking observer (where >= c07WhereStartIterObserver)
	td     int // TearDown panics with this payload kind (0 = no)
	clone  bool // anneal a DeepClone() of the built annealer (what scenario.Runner does)
	nested bool // (with clone) ANOTHER clone of the same built annealer runs to completion while this run is inside its first iteration (overlapping runs)
	prior  bool // (with clone) an EARLIER clone of the same built annealer has already run to completion (Runner: run 1 before run 2)
	second bool // observe a SECOND Anneal() of the same instance (currentIteration starts at c0 = what the first left)
	raw    bool
	t0, a  float64
}

type c07Result struct {
	c0       uint64
	t0bits   uint64
	log      *c07Log
	// 0 returned; re-panicked with: 1 the expected injected error or an error wrapping it, 2 the expected injected string,
	// 4 an error that is none of the injected ones (what a nil payload becomes), 3 anything else (incl. the value of the WRONG panic).
	// "expected" = TearDown's value if TearDown was scripted to panic (it replaces the panic in flight), else the primary fault's
	outcome  int
	finalIt  uint64
	finalT   uint64
	setupBad string
	firstBad string
}

func c07Catch(f func()) (panicked bool, val interface{}) {
	done := false
	defer func() {
		r := recover()
		if !done {
			panicked, val = true, r
		}
	}()
	f()
	done = true
	return
}

func c07Execute(c c07Case) c07Result {
	log := &c07Log{}
	st := &c07Script{origErr: errors.New("c07 scripted failure"), origOther: "c07 scripted failure (string)",
		tdErr: errors.New("c07 scripted TearDown failure"), tdOther: "c07 scripted TearDown failure (string)"}
	inner := c07BuildExplorer(c.expl, c.t0, c.a)
	wrapper := &c07Explorer{Explorer: inner, log: log, st: st}

	var ann annealing.Annealer
	if c.ann == 0 {
		ann = new(annealers.SimpleAnnealer)
	} else {
		ann = new(annealers.ElapsedTimeTrackingAnnealer)
	}
	ann.Initialise()
	ann.SetSolutionExplorer(wrapper)
	ann.SetParameters(parameters.Map{annealers.MaximumIterations: int64(c.n)})
	if ke, ok := inner.(*kirkpatrick.Explorer); ok {
		ke.SetModel(modumb.NewModel()) // after SetParameters (an un-initialised modumb model offers no variables yet)
	}
	if c.raw {
		c07ForceRaw(inner, c.t0, c.a)
	}
	if c.clone {
		if c.prior {
			first := ann.DeepClone()
			log.temp = func() float64 { return 0 }
			if p, v := c07Catch(first.Anneal); p {
				return c07Result{log: log, firstBad: fmt.Sprint("a fault-free Anneal() of a clone panicked: ", v)}
			}
			log.entries = nil
			st.tries, st.cools = 0, 0
			c07Stats["clone_after_prior_run"]++
		}
		built := ann
		ann = ann.DeepClone()
		wrapper = ann.SolutionExplorer().(*c07Explorer)
		inner = wrapper.Explorer
		if c.nested {
			other := built.DeepClone()
			ow := other.SolutionExplorer().(*c07Explorer)
			ow.log = &c07Log{temp: func() float64 { return 0 }} // the other run's events are not this run's business
			ow.st = &c07Script{}
			other.SetLogHandler(new(loggers.NullLogger))
			st.nestedRun = func() {
				st.inNested = true
				defer func() { st.inNested = false }()
				if p, v := c07Catch(other.Anneal); p {
					log.anomaly(fmt.Sprint("a fault-free Anneal() of another clone panicked: ", v))
				}
			}
			c07Stats["clone_with_overlapping_run"]++
		}
	}
	log.temp = c07TempReader(inner)
	ann.SetLogHandler(new(loggers.NullLogger))
	inner.SetLogHandler(new(loggers.NullLogger))
	// registration routes: every observer appended (AddObserver), or -- as scenario.BaseScenario.SetAnnealer does with the
	// scenario's own observer -- the one that is to be notified FIRST registered LAST through AddObserverAsFirst, after the
	// others are already there.  Either way the notification order is observer 0, 1, ..., m-1.
	c07RegRoute++
	asFirst := c.m >= 1 && c07RegRoute%2 == 0
	for i := 0; i < c.m; i++ {
		if asFirst && i == 0 {
			continue
		}
		ann.AddObserver(&c07Obs{idx: i, log: log, st: st})
	}
	if asFirst {
		ann.AddObserverAsFirst(&c07Obs{idx: 0, log: log, st: st})
		c07Stats[fmt.Sprintf("observer_added_as_first_after_%d_others", c.m-1)]++
	}
	// scenario.Runner.wireObservers: the annealer observes its explorer and its model
	if en, ok := inner.(observer.EventNotifier); ok {
		en.AddObserver(ann.(observer.Observer))
	}
	if en, ok := ann.Model().(observer.EventNotifier); ok {
		en.AddObserver(ann.(observer.Observer))
	}

	res := c07Result{log: log}
	if c.prior && math.Float64bits(log.temp()) != math.Float64bits(c.t0) {
		res.firstBad = fmt.Sprintf("a run cloned from the configured annealer after an earlier cloned run has finished starts at temperature %v, not at the configured starting temperature %v (the temperature after k iterations is then not T0*a^k)", log.temp(), c.t0)
		return res
	}
	if math.Float64bits(log.temp()) != math.Float64bits(c.t0) {
		res.setupBad = fmt.Sprintf("temperature after set-up is %v, wanted %v", log.temp(), c.t0)
		return res
	}
	counter := ann.(interface{ VerifCurrentIteration() uint64 })
	if c.second {
		if p, v := c07Catch(ann.Anneal); p {
			res.firstBad = fmt.Sprint("a fault-free Anneal() panicked: ", v)
			return res
		}
		log.entries = nil
	}
	res.c0 = counter.VerifCurrentIteration()
	res.t0bits = math.Float64bits(log.temp())
	st.initPanic, st.k, st.where, st.pay, st.who, st.td = c.init, c.k, c.where, c.pay, c.who, c.td

	panicked, val := c07Catch(ann.Anneal)
	wantErr, wantOther := st.origErr, st.origOther
	if c.td != c07PayNone && c.init == c07PayNone {
		wantErr, wantOther = st.tdErr, st.tdOther
	}
	switch {
	case !panicked:
		res.outcome = 0
	default:
		res.outcome = 3
		if s, ok := val.(string); ok && s == wantOther {
			res.outcome = 2
		}
		if e, ok := val.(error); ok && e != nil {
			cause := pkgerrors.Cause(e)
			switch {
			case e == wantErr || cause == wantErr:
				res.outcome = 1 // whether it is wrapped is not part of the property
			case e != st.origErr && cause != st.origErr && e != st.tdErr && cause != st.tdErr:
				res.outcome = 4
			}
		}
	}
	res.finalIt = counter.VerifCurrentIteration()
	res.finalT = math.Float64bits(log.temp())
	return res
}

// ---- implementation-side oracle: the property, evaluated on what the real code did (c0 = 0 only) ----

// c07Fault: does the scripted primary fault actually fire, and how many iterations are started
func c07Fault(c c07Case) (fires bool, iters uint64) {
	if c.init != c07PayNone {
		return true, 0
	}
	inBudget := c.k >= 1 && c.k <= c.n
	observerThere := c.who < c.m
	switch c.where {
	case c07WhereTry, c07WhereCoolBefore, c07WhereCoolAfter:
		if inBudget {
			return true, c.k
		}
	case c07WhereStartIterObserver, c07WhereFinishIterObserver:
		if inBudget && observerThere {
			return true, c.k
		}
	case c07WhereStartObserver:
		if observerThere {
			return true, 0
		}
	case c07WhereFinishObserver:
		if observerThere {
			return true, c.n
		}
	}
	return false, c.n
}

func c07Oracle(c c07Case, r c07Result) []string {
	var bad []string
	fail := func(format string, args ...interface{}) {
		if len(bad) < 6 {
			bad = append(bad, fmt.Sprintf(format, args...))
		}
	}
	fires, iters := c07Fault(c)
	where := c.where
	if !fires || c.init != c07PayNone {
		where = c07WhereNone
	}
	obsFault := where >= c07WhereStartIterObserver
	// temperature recurrence by repeated multiplication
	temps := []float64{c.t0}
	for i := uint64(0); i < iters; i++ {
		temps = append(temps, temps[i]*c.a)
	}
	type ek struct {
		code int
		k    uint64
	}
	// the events sent, in order; if an observer panicked, the last one reached observers 0..who only
	var sent []ek
	if c.init == c07PayNone {
		sent = append(sent, ek{c07Start, 0})
		for j := uint64(1); j <= iters; j++ {
			sent = append(sent, ek{c07StartIter, j})
			cutShort := j == c.k && (where == c07WhereTry || where == c07WhereCoolBefore || where == c07WhereCoolAfter || where == c07WhereStartIterObserver)
			if !cutShort {
				sent = append(sent, ek{c07FinishIter, j})
			}
		}
		if where == c07WhereNone || where == c07WhereFinishObserver {
			sent = append(sent, ek{c07Finish, c.n})
		}
	}
	// every observer: exactly the skeleton, in order, with the right temperatures
	for i := 0; i < c.m; i++ {
		want := sent
		if obsFault && i > c.who {
			want = sent[:len(sent)-1]
		}
		var got []ek
		for _, e := range r.log.entries {
			if e.who != i {
				continue
			}
			var exp float64
			switch e.code {
			case c07Start:
				exp = temps[0]
			case c07StartIter:
				if e.k >= 1 && e.k <= iters {
					exp = temps[e.k-1]
				}
			case c07FinishIter, c07Cooling, c07Finish:
				if e.k <= iters {
					exp = temps[e.k]
				}
			}
			if math.Float64bits(exp) != e.bits && !(math.IsNaN(exp) && math.IsNaN(math.Float64frombits(e.bits))) {
				fail("observer %d: event %d of iteration %d carries temperature %v, expected T0*a^k = %v", i, e.code, e.k, math.Float64frombits(e.bits), exp)
			}
			if e.code != c07Cooling {
				got = append(got, ek{e.code, e.k})
			}
		}
		if fmt.Sprint(got) != fmt.Sprint(want) {
			fail("observer %d saw skeleton %v, expected %v", i, got, want)
		}
	}
	// lock-step delivery: each event goes to observers 0..m-1 in registration order before the next one is sent
	// (the event on which an observer panicked stops at that observer)
	pos := 0
	for _, e := range r.log.entries {
		if e.who < 0 {
			if pos != 0 && !(obsFault && e.code == c07TearDown && pos == (c.who+1)%c.m) {
				fail("a call on the explorer happened while an event was still being delivered (next observer %d of %d)", pos, c.m)
			}
			pos = 0
			continue
		}
		if e.who != pos {
			fail("observers are not notified one after the other in registration order: observer %d got an event when observer %d was due", e.who, pos)
			break
		}
		pos = (pos + 1) % c.m
	}
	// explorer calls
	var nInit, nTry, nCool, nTear, firstStart, initAt, tearAt, lastObs = 0, uint64(0), uint64(0), 0, -1, -1, -1, -1
	for idx, e := range r.log.entries {
		switch {
		case e.who >= 0:
			lastObs = idx
			if e.code == c07Start && firstStart < 0 {
				firstStart = idx
			}
		case e.code == c07Init:
			nInit++
			initAt = idx
		case e.code == c07Try:
			nTry++
		case e.code == c07Cool:
			nCool++
		case e.code == c07TearDown:
			nTear++
			tearAt = idx
		}
	}
	if nInit != 1 || initAt != 0 || (firstStart >= 0 && firstStart < initAt) {
		fail("explorer initialised %d times, at log position %d (first start event at %d)", nInit, initAt, firstStart)
	}
	wantTry, wantCool := iters, iters
	if where == c07WhereStartIterObserver {
		wantTry, wantCool = iters-1, iters-1
	}
	if where == c07WhereTry {
		wantCool = iters - 1
	}
	if nTry != wantTry || nCool != wantCool {
		fail("TryRandomChange called %d times, CoolDown %d times; expected %d and %d", nTry, nCool, wantTry, wantCool)
	}
	if c.init == c07PayNone && (nTear != 1 || tearAt < lastObs) {
		fail("TearDown ran %d times (log position %d, last observer event at %d)", nTear, tearAt, lastObs)
	}
	if c.init != c07PayNone && nTear != 0 {
		fail("TearDown ran although Initialise panicked")
	}
	if r.finalIt != iters {
		fail("currentIteration is %d afterwards, expected %d", r.finalIt, iters)
	}
	// outcome: whatever panicked during the run comes out of Anneal() (TearDown's panic, if any, replaces it)
	pay := c.pay
	if c.init != c07PayNone {
		pay = c.init
	} else if c.td != c07PayNone {
		pay = c.td
	}
	wantOutcome := map[int]int{c07PayError: 1, c07PayOther: 2, c07PayNil: 4}[pay]
	switch {
	case !fires && c.td == c07PayNone:
		if r.outcome != 0 {
			fail("Anneal() panicked without an injected fault")
		}
	case !fires && c.td == c07PayNil:
		// panic(nil) inside TearDown after a COMPLETED run: outside the property (noted; the model says it is swallowed)
	case pay == c07PayNil && r.outcome == 0:
		// reported by c07Emit as its own line
	case r.outcome != wantOutcome:
		fail("injected panic (payload kind %d) was not re-raised as expected: outcome %d, expected %d", pay, r.outcome, wantOutcome)
	}
	// cooling never heats
	if c.t0 >= 0 && !math.IsInf(c.t0, 0) && c.a >= 0 && c.a <= 1 {
		for i := 1; i < len(temps); i++ {
			if !(temps[i] <= temps[i-1]) || temps[i] < 0 {
				fail("temperature increased: %v -> %v", temps[i-1], temps[i])
			}
		}
		prev := math.Inf(1)
		for _, e := range r.log.entries {
			t := math.Float64frombits(e.bits)
			if !(t <= prev) {
				fail("temperature stamps increase: %v after %v", t, prev)
			}
			prev = t
		}
	}
	for _, s := range r.log.anomalies {
		fail("%s", s)
	}
	return bad
}

// ---- generation ----

var c07Stats = map[string]int{}
var c07RegRoute int

func c07Emit(c c07Case) {
	r := c07Execute(c)
	if r.setupBad != "" {
		panic("c07: harness set-up failed (" + c.expl + "): " + r.setupBad)
	}
	if r.firstBad != "" { // no injected fault, and yet Anneal() panicked: that is a violation, not a harness problem
		emit(J{"kind": "oracle", "what": r.firstBad, "annealer": c.ann, "explorer": c.expl, "N": c.n, "observers": c.m,
			"T0": fmt.Sprint(c.t0), "a": fmt.Sprint(c.a), "clone": c.clone})
		return
	}
	entries := make([][4]uint64, len(r.log.entries))
	for i, e := range r.log.entries {
		entries[i] = [4]uint64{uint64(e.who + 1), uint64(e.code), e.k, e.bits} // who: 0 = pseudo, i+1 = observer i
	}
	c07Stats["cases"]++
	c07Stats["ann_"+[]string{"simple", "elapsed"}[c.ann]]++
	c07Stats["expl_"+c.expl]++
	c07Stats[fmt.Sprintf("N_%d", c.n)]++
	c07Stats[fmt.Sprintf("observers_%d", c.m)]++
	c07Stats["where_"+c07WhereNames[c.where]]++
	if c.td != c07PayNone {
		c07Stats["teardown_panics_"+[]string{"", "error", "other", "nil"}[c.td]]++
	}
	c07Stats["init_"+[]string{"ok", "panicError", "panicOther", "panicNil"}[c.init]]++
	if c.where != c07WhereNone {
		c07Stats["payload_"+[]string{"", "error", "other", "nil"}[c.pay]]++
	}
	c07Stats["outcome_"+[]string{"returned", "reraisedError", "reraisedValue", "else", "reraisedNewError"}[r.outcome]]++
	if c.clone {
		c07Stats["deepclone"]++
	}
	if c.second {
		c07Stats["second_anneal"]++
	}
	if c.raw {
		c07Stats["raw_out_of_range_values"]++
	}
	c07Stats["log_entries"] += len(entries)
	emit(J{"kind": "case", "ann": c.ann, "expl": c.expl, "N": c.n, "m": c.m, "init": c.init, "k": c.k, "where": c.where,
		"pay": c.pay, "who": c.who, "td": c.td, "clone": c.clone, "second": c.second, "raw": c.raw, "c0": r.c0, "T0": r.t0bits, "a": math.Float64bits(c.a),
		"log": entries, "out": r.outcome, "fin": r.finalIt, "ft": r.finalT, "anom": len(r.log.anomalies)})
	if c.second {
		return
	}
	for _, what := range c07Oracle(c, r) {
		emit(J{"kind": "oracle", "what": what, "annealer": c.ann, "explorer": c.expl, "N": c.n, "observers": c.m,
			"init_panic": c.init, "panic_iteration": c.k, "panic_where": c.where, "payload": c.pay,
			"panic_observer": c.who, "teardown_payload": c.td,
			"T0": fmt.Sprint(c.t0), "a": fmt.Sprint(c.a), "clone": c.clone})
	}
	pay := c.pay
	if c.init != c07PayNone {
		pay = c.init
	} else if c.td != c07PayNone {
		pay = c.td
	}
	injected, _ := c07Fault(c)
	if injected && pay == c07PayNil && r.outcome == 0 {
		c07Stats["panic_nil_swallowed"]++
		emit(J{"kind": "oracle", "what": "panic(nil) is not re-raised: Anneal() returns normally (no finish event)",
			"payload_nil": true, "annealer": c.ann, "explorer": c.expl, "N": c.n, "observers": c.m,
			"init_panic": c.init, "panic_iteration": c.k, "panic_where": c.where, "payload": c.pay, "teardown_payload": c.td})
	}
	if injected && pay == c07PayNil && r.outcome == 4 {
		c07Stats["panic_nil_reraised"]++
	}
}

// faults raised by an observer while it is handed an event, and by TearDown itself
func c07MoreFaults(base c07Case, tier string, rng *prng, run, runObs func(c07Case), pays func(bool) []int) {
	n := base.n
	small := n <= 7 || (tier == "thorough" && n <= 20)
	all := n <= 2 || tier == "thorough"
	if n >= 1000 {
		return
	}
	// observer panics on the start / finish event
	for _, where := range []int{c07WhereStartObserver, c07WhereFinishObserver} {
		for _, pay := range pays(all && small) {
			c := base
			c.where, c.pay = where, pay
			runObs(c)
		}
	}
	// observer panics on StartedIteration k / FinishedIteration k
	var ks []uint64
	if small {
		for k := uint64(1); k <= n; k++ {
			ks = append(ks, k)
		}
	} else {
		ks = []uint64{1, n, uint64(2 + rng.intn(int(n)-2))}
	}
	for _, k := range ks {
		for _, where := range []int{c07WhereStartIterObserver, c07WhereFinishIterObserver} {
			for _, pay := range pays(all && small) {
				c := base
				c.k, c.where, c.pay = k, where, pay
				runObs(c)
			}
		}
	}
	// TearDown panics: after a fault-free run ...
	for td := c07PayError; td <= c07PayNil; td++ {
		c := base
		c.td = td
		run(c)
	}
	// ... after Initialise panicked (TearDown is not deferred yet: nothing changes) ...
	{
		c := base
		c.init, c.td = c07PayError+rng.intn(3), c07PayError+rng.intn(3)
		run(c)
	}
	// ... and on top of another fault, whose panic it replaces (all payload pairs for tiny budgets / thorough)
	reps := 3
	if !small {
		reps = 1
	}
	for rep := 0; rep < reps; rep++ {
		for _, pay := range pays(all && n <= 3) {
			for _, td := range pays(all && n <= 3) {
				c := base
				c.where = c07WhereTry + rng.intn(7)
				c.pay, c.td = pay, td
				if n >= 1 {
					c.k = uint64(1 + rng.intn(int(n)))
				} else if c.where <= c07WhereFinishIterObserver {
					c.where = c07WhereStartObserver + rng.intn(2)
				}
				if c.where >= c07WhereStartIterObserver {
					runObs(c)
				} else {
					run(c)
				}
			}
		}
	}
}

func runC07(args []string) {
	tier := "quick"
	if len(args) > 0 {
		tier = args[0]
	}
	rng := newPrng(7)
	c07OneInterpreter()
	t0s := []float64{0, 1, 1000, 37.5, 1e300, 5e-324, 2.2250738585072014e-308, 0.1}
	as := []float64{0, 0.5, 0.95, 0.99, 1, 1e-200, 0.1, 0.9999999999999999}
	pick := func(c *c07Case) {
		if rng.intn(3) == 0 {
			c.t0 = math.Ldexp(rng.float(), rng.intn(40)-10)
			c.a = rng.float()
		} else {
			c.t0 = t0s[rng.intn(len(t0s))]
			c.a = as[rng.intn(len(as))]
		}
		c.m = rng.intn(4)
		c.clone = rng.intn(3) == 0
		c.prior = c.clone && rng.intn(2) == 0
		c.nested = c.clone && rng.intn(2) == 0
	}
	ns := []uint64{0, 1, 2, 7, 100}
	allM := false
	if tier == "thorough" {
		ns = []uint64{0, 1, 2, 3, 7, 20, 50, 100, 1000}
		allM = true
	}
	run := func(c c07Case) {
		if allM && c.n <= 20 {
			for m := 0; m < 4; m++ {
				cc := c
				pick(&cc)
				cc.m = m
				c07Emit(cc)
			}
			return
		}
		pick(&c)
		c07Emit(c)
	}
	// a fault raised by an observer needs that observer: m >= 1, who < m
	runObs := func(c c07Case) {
		if allM && c.n <= 20 {
			for m := 1; m < 4; m++ {
				for who := 0; who < m; who++ {
					cc := c
					pick(&cc)
					cc.m, cc.who = m, who
					c07Emit(cc)
				}
			}
			return
		}
		pick(&c)
		c.m = 1 + rng.intn(3)
		c.who = rng.intn(c.m)
		c07Emit(c)
	}
	pays := func(all bool) []int {
		if all {
			return []int{c07PayError, c07PayOther, c07PayNil}
		}
		return []int{c07PayError + rng.intn(3)}
	}
	for ann := 0; ann < 2; ann++ {
		for _, expl := range c07ExplorerKinds {
			for _, n := range ns {
				base := c07Case{ann: ann, expl: expl, n: n}
				run(base)
				c07MoreFaults(base, tier, rng, run, runObs, pays)
				small := n <= 7 || (tier == "thorough" && n <= 20)
				if small { // an Initialise fault does not depend on the budget
					for init := c07PayError; init <= c07PayNil; init++ {
						c := base
						c.init = init
						run(c)
					}
				}
				// panic at iteration k, three places, three payloads
				if small {
					for k := uint64(1); k <= n; k++ {
						for where := c07WhereTry; where <= c07WhereCoolAfter; where++ {
							if n <= 2 || tier == "thorough" {
								for pay := c07PayError; pay <= c07PayNil; pay++ {
									c := base
									c.k, c.where, c.pay = k, where, pay
									run(c)
								}
							} else {
								c := base
								c.k, c.where, c.pay = k, where, c07PayError+rng.intn(3)
								run(c)
							}
						}
					}
				} else { // long runs: first, last and one random iteration, place and payload drawn
					ks := []uint64{1, n, uint64(2 + rng.intn(int(n)-2))}
					if n >= 1000 {
						ks = ks[2:]
					}
					for _, k := range ks {
						c := base
						c.k, c.where, c.pay = k, c07WhereTry+rng.intn(3), c07PayError+rng.intn(3)
						run(c)
					}
				}
				if n >= 1000 {
					continue
				}
				// a panic scripted beyond the budget never happens
				if n >= 1 {
					c := base
					c.k, c.where, c.pay = n+1, c07WhereTry, c07PayOther
					run(c)
				}
				// re-annealing the same instance (outside the property's quantifier; model: c0 <> 0)
				c := base
				c.second = true
				run(c)
				if n >= 1 {
					c.k, c.where, c.pay = n+1, c07WhereCoolAfter, c07PayError
					run(c)
				}
			}
		}
		// values the parameter validation refuses, forced into the kirkpatrick coolant's exported fields
		for _, expl := range []string{"bareK", "realK"} {
			for _, ta := range [][2]float64{{100, 1.5}, {100, -0.5}, {math.Inf(1), 0.5}, {1e308, 10}, {-3, 0.5}, {5, math.Inf(1)}, {0, math.Inf(1)}, {1, math.NaN()}} {
				c := c07Case{ann: ann, expl: expl, n: 7, m: 1 + rng.intn(2), raw: true, t0: ta[0], a: ta[1]}
				c07Emit(c)
			}
		}
	}
	keys := make([]string, 0, len(c07Stats))
	for k := range c07Stats {
		keys = append(keys, k)
	}
	sort.Strings(keys)
	stats := J{}
	for _, k := range keys {
		stats[k] = c07Stats[k]
	}
	emit(J{"kind": "stat", "stats": stats})
}
