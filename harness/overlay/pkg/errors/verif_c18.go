//go:build verif

package errors

// VerifC18Errors exposes the individual errors of a composite error to the /verif harness (read-only).
func (ce *CompositeError) VerifC18Errors() []error { return ce.individualErrors }
