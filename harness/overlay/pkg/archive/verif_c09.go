//go:build verif

package archive

// Read-only accessors for the C09 correspondence (overlaid at build time by /verif; not part of crem).

// VerifWords returns a copy of the word array.
func (a *BooleanArchive) VerifWords() []uint64 { return append([]uint64{}, a.archiveArray...) }

// VerifMemo returns the memoised encoding field without computing it.
func (a *BooleanArchive) VerifMemo() string { return a.encoding }
