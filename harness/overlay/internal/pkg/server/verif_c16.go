//go:build verif

package server

import "github.com/LindsayBradford/crem/internal/pkg/server/admin"

// VerifC16AdminMux exposes the admin multiplexer of a RestServer to the verification harness (read-only accessor,
// overlaid at build time by /verif/tools/check.py; not part of the repository).
func (s *RestServer) VerifC16AdminMux() *admin.Mux { return s.adminMux }
