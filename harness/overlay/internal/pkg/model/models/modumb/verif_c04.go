//go:build verif

package modumb

import "github.com/LindsayBradford/crem/internal/pkg/rand"

// VerifC04SetActionRng replaces the (time-seeded) generator that picks the management action
// toggled by TryRandomChange, so that C04's runs on this model are reproducible from VERIF_SEED.
// Overlaid at build time by tools/check.py; never written into the repository.
func (m *Model) VerifC04SetActionRng(generator *rand.Rand) {
	m.managementActions.SetRandomNumberGenerator(generator)
}
