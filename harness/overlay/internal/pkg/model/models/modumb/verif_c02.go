//go:build verif

package modumb

import "github.com/LindsayBradford/crem/internal/pkg/rand"

// VerifC02SetActionRng replaces the (time-seeded) generator that picks the management action toggled by
// TryRandomChange / DoRandomChange, so that the /verif harness (C02, toy models) chooses the action.
// Overlaid at build time by tools/check.py; never written into the repository.
func (m *Model) VerifC02SetActionRng(generator *rand.Rand) {
	m.managementActions.SetRandomNumberGenerator(generator)
}
