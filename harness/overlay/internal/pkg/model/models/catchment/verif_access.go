//go:build verif

package catchment

import "github.com/LindsayBradford/crem/internal/pkg/model/action"

// VerifManagementActions exposes the action container so that the /verif harness can install a scripted
// random source (the randomisation loops are then driven by chosen indices).
func (m *CoreModel) VerifManagementActions() *action.ModelManagementActions {
	return &m.managementActions
}
