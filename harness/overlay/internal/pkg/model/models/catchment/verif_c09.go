//go:build verif

package catchment

import "github.com/LindsayBradford/crem/internal/pkg/model/action"

// VerifGatherActions (overlaid by /verif for the C09 correspondence; not part of crem) runs the same
// gathering step as buildAndObserveManagementActions -- the four action groups, each ranging over a Go
// map -- and returns the actions in the order gathered, BEFORE any sorting.  It builds fresh group
// objects and does not touch the model.
func (m *CoreModel) VerifGatherActions() []action.ManagementAction {
	return m.buildModelActions()
}
