//go:build verif

package catchment

import "github.com/LindsayBradford/crem/internal/pkg/rand"

// C05 check of /verif (overlaid at build time, never part of /repo).

// VerifC05SeedActions replaces the time-seeded generator that picks the management actions to toggle.
func (m *CoreModel) VerifC05SeedActions(r *rand.Rand) { m.managementActions.SetRandomNumberGenerator(r) }

// VerifC05Rerandomise repeats the model's own initial randomisation (what Initialise(Random)+Randomize() did
// with a time-seeded generator) from the all-inactive state with the generator installed by
// VerifC05SeedActions, so that a run is a function of the seed.
func (m *Model) VerifC05Rerandomise() {
	m.initialising = true
	m.InitialiseAllActionsToInactive()
	m.initialising = false
	m.RandomlyInitialiseActions()
}
