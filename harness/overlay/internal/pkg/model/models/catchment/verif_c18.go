//go:build verif

package catchment

import verifC18Base "github.com/LindsayBradford/crem/internal/pkg/parameters"

// VerifC18Params exposes the component's own parameters.Parameters to the /verif harness (read-only use).
func (m *CoreModel) VerifC18Params() *verifC18Base.Parameters { return &m.parameters.Parameters }
