//go:build verif

package dissolvednitrogen

import (
	"github.com/LindsayBradford/crem/internal/pkg/model/planningunit"
	"github.com/LindsayBradford/crem/pkg/attributes"
)

// VerifSubCatchmentAttributes is a read-only accessor used by the /verif correspondence harness (hook H2).
func (dn *DissolvedNitrogenProduction) VerifSubCatchmentAttributes() map[planningunit.Id]attributes.Attributes {
	return dn.subCatchmentAttributes
}
