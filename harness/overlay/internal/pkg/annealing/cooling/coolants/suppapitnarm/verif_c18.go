//go:build verif

package suppapitnarm

import verifC18Base "github.com/LindsayBradford/crem/internal/pkg/parameters"

// VerifC18Params exposes the component's own parameters.Parameters to the /verif harness (read-only use).
func (c *Coolant) VerifC18Params() *verifC18Base.Parameters { return &c.parameters.Parameters }
