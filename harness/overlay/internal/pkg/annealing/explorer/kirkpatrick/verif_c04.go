//go:build verif

package kirkpatrick

// Read-only accessor for the C04 correspondence harness (/verif/harness/c04.go).
// Overlaid at build time by tools/check.py; never written into the repository.

// VerifC04Flags returns the unexported per-proposal decision state of the explorer:
// optimisation direction (0 Invalid, 1 Minimising, 2 Maximising), changeIsDesirable,
// changeAccepted, changeInvalid and the objective change last read from the model.
func (ke *Explorer) VerifC04Flags() (direction int, desirable bool, accepted bool, invalid bool, change float64) {
	return int(ke.optimisationDirection), ke.changeIsDesirable, ke.changeAccepted, ke.changeInvalid, ke.objectiveValueChange
}
