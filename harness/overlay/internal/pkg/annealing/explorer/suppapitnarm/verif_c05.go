//go:build verif

package suppapitnarm

// Read-only accessors for the C05 check of /verif (overlaid at build time, never part of /repo).

import (
	"github.com/LindsayBradford/crem/internal/pkg/model"
	"github.com/LindsayBradford/crem/internal/pkg/model/archive"
	"github.com/LindsayBradford/crem/internal/pkg/rand"
)

// VerifC05Archive exposes the explorer's live archive.
func (ke *Explorer) VerifC05Archive() *archive.NonDominanceModelArchive { return &ke.modelArchive }

// VerifC05LastResult is the storage result of the last TryRandomChange (attempt, or the forced store).
func (ke *Explorer) VerifC05LastResult() archive.StorageResult { return ke.archiveStorageResult }

// VerifC05Models exposes the current and the potential (candidate) model.
func (ke *Explorer) VerifC05Models() (model.Model, model.Model) {
	return ke.currentModel, ke.potentialModel
}

// VerifC05SeedCoolant replaces the coolant's time-seeded generator (Initialise installs one).
func (ke *Explorer) VerifC05SeedCoolant(r *rand.Rand) { ke.coolant.SetRandomNumberGenerator(r) }
