//go:build verif

// Read-only accessors for the C06 correspondence harness of /verif (overlaid at build time; not part
// of the crem repository).
package suppapitnarm

import (
	"github.com/LindsayBradford/crem/internal/pkg/annealing/cooling"
	"github.com/LindsayBradford/crem/internal/pkg/model/archive"
)

func (ke *Explorer) VerifC06Archive() *archive.NonDominanceModelArchive { return &ke.modelArchive }

func (ke *Explorer) VerifC06Countdown() (uint64, float64) {
	return ke.iterationsUntilReturnToBase, ke.returnToBaseStep
}

func (ke *Explorer) VerifC06Flags() (desirable bool, accepted bool, storage archive.StorageResult) {
	return ke.changeIsDesirable, ke.changeAccepted, ke.archiveStorageResult
}

func (ke *Explorer) VerifC06Coolant() cooling.TemperatureCoolant { return ke.coolant }

func (ke *Explorer) VerifC06Iteration() (current uint64, lastReturned uint64) {
	return ke.currentIteration, ke.lastReturnedToBase
}
