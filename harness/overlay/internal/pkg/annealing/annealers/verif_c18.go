//go:build verif

package annealers

import verifC18Base "github.com/LindsayBradford/crem/internal/pkg/parameters"

// VerifC18Params exposes the component's own parameters.Parameters to the /verif harness (read-only use).
func (sa *SimpleAnnealer) VerifC18Params() *verifC18Base.Parameters { return &sa.parameters.Parameters }
