//go:build verif

package annealers

// VerifCurrentIteration exposes the loop counter to the C07 harness of /verif (read-only accessor,
// overlaid at build time; not part of the crem repository).
func (sa *SimpleAnnealer) VerifCurrentIteration() uint64 { return sa.currentIteration }
