//go:build verif

package scenario

import (
	"github.com/LindsayBradford/crem/internal/pkg/annealing"
	"github.com/LindsayBradford/crem/internal/pkg/model"
)

// VerifPrepareRun performs exactly the set-up part of Runner.run for run number runNumber
// (DeepClone of the prototype annealer, run id assignment, observer wiring) and returns the
// clone WITHOUT annealing it.  Add-only accessor for the C08 alias translator of /verif;
// overlaid at build time, never written into the repository.
func (runner *Runner) VerifPrepareRun(runNumber uint64) annealing.Annealer {
	annealerCopy := runner.annealer.DeepClone()
	runner.assignNewRunId(runNumber, annealerCopy)
	runner.wireObservers(annealerCopy)
	return annealerCopy
}

// VerifPrototype returns the annealer every run is cloned from.
func (runner *Runner) VerifPrototype() annealing.Annealer { return runner.annealer }

// VerifC08WrapDecompressionModel replaces the saver's shared decompression model by wrap(model): the C08 probe wraps
// it in a forwarding model that records every access together with the state of the mutex.
func (s *Saver) VerifC08WrapDecompressionModel(wrap func(model.Model) model.Model) {
	s.decompressionModel = wrap(s.decompressionModel)
}

// VerifC08DecompressionLockHeld tells whether decompressionMutex is held at this moment (by anybody).
func (s *Saver) VerifC08DecompressionLockHeld() bool {
	if s.decompressionMutex.TryLock() {
		s.decompressionMutex.Unlock()
		return false
	}
	return true
}
