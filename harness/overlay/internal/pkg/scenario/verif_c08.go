//go:build verif

package scenario

import "github.com/LindsayBradford/crem/internal/pkg/annealing"

// VerifPrepareRun performs exactly the set-up part of Runner.run for run number runNumber
// (DeepClone of the prototype annealer, run id assignment, observer wiring) and returns the
// clone WITHOUT annealing it.  Add-only accessor for the C08 alias translator of /verif;
// overlaid at build time, never written into the repository.
func (runner *Runner) VerifPrepareRun(runNumber uint64) annealing.Annealer {
	annealerCopy := runner.annealer.DeepClone()
	runner.assignNewRunId(runNumber, annealerCopy)
	runner.wireObservers(annealerCopy)
	return annealerCopy
}

// VerifPrototype returns the annealer every run is cloned from.
func (runner *Runner) VerifPrototype() annealing.Annealer { return runner.annealer }
