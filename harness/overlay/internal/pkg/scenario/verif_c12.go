//go:build verif

package scenario

import (
	"github.com/LindsayBradford/crem/internal/pkg/annealing/solution"
	"github.com/LindsayBradford/crem/internal/pkg/model/archive"
)

// Read-only accessors for the C12 correspondence harness of /verif (overlaid at build time; never part of /repo).

// VerifC12CloneId = Runner.generateCloneId on a runner configured the way Scenario configures it.
func VerifC12CloneId(name string, runNumber uint64, run uint64) string {
	return NewRunner().WithName(name).WithRunNumber(runNumber).generateCloneId(run)
}

// VerifC12RowLabel = deriveSummaryIdFromSolution on a solution carrying only the id.
func VerifC12RowLabel(solutionId string) string {
	return deriveSummaryIdFromSolution(&solution.Solution{Id: solutionId})
}

// VerifC12SetIds = the ids the saver gives to the as-is entry and to the k-th member (k = 1..Len) of a solution set.
func VerifC12SetIds(solutionSet archive.NonDominanceModelArchive) (asIs string, members []string) {
	s := new(Saver)
	asIs = s.deriveAsIsSolutionId(solutionSet)
	for k := 1; k <= solutionSet.Len(); k++ {
		members = append(members, s.deriveSolutionId(solutionSet, k))
	}
	return
}

// VerifC12OptimisedAsIsId = the id the saver gives to the as-is entry of a single-objective result.
func VerifC12OptimisedAsIsId(id string) string {
	return new(Saver).deriveAsIsOptimisedSolutionId(id)
}
