//go:build verif

package api

import "github.com/LindsayBradford/crem/internal/pkg/model/models/catchment"

// VerifC13Model exposes the engine's current model to the verification harness (read-only use:
// the harness clones it to build explorer-side solutions for the same scenario).
func (m *Mux) VerifC13Model() *catchment.Model { return m.model }
