//go:build verif

package main

// C09: action-set encodings are canonical, lossless and portable across model instances.
//
// Drives the REAL pkg/archive.BooleanArchive, action.ManagementActions (Less / sort.Sort) and
// archive.ModelCompressor on catchment model instances, and prints
//   {"kind":"case","t":"arch", n, ops}      an operation sequence on one archive with everything it answered
//   {"kind":"case","t":"order", ...}        Less matrix and sort result of a generated action list
//   {"kind":"case","t":"inst", ...}         (pu,type) sequences of independently constructed model instances
//   {"kind":"case","t":"port", ...}         Compress -> Encoding -> Decode -> Decompress into another instance
//   {"kind":"oracle", ...}                  the property itself evaluated on the implementation's outputs
//   {"kind":"stat", ...}

import (
	"fmt"
	"github.com/LindsayBradford/crem/internal/pkg/parameters"
	"math"
	"math/big"
	"os"
	"strings"

	"github.com/LindsayBradford/crem/internal/pkg/dataset/csv"
	"github.com/LindsayBradford/crem/internal/pkg/model"
	"github.com/LindsayBradford/crem/internal/pkg/model/action"
	modelArchive "github.com/LindsayBradford/crem/internal/pkg/model/archive"
	"github.com/LindsayBradford/crem/internal/pkg/model/models/catchment"
	"github.com/LindsayBradford/crem/internal/pkg/model/planningunit"
	"github.com/LindsayBradford/crem/pkg/archive"
)

var c09stats = map[string]int{}

// c09str exports a Go string byte-exactly: printable ASCII as a JSON string, anything else as a byte list.
func c09str(s string) interface{} {
	for i := 0; i < len(s); i++ {
		if s[i] < 32 || s[i] > 126 {
			bs := make([]int, len(s))
			for k := 0; k < len(s); k++ {
				bs[k] = int(s[k])
			}
			return bs
		}
	}
	return s
}

func c09tf(b bool) string {
	if b {
		return "T"
	}
	return "F"
}

func c09obs(f func() bool) string {
	var r bool
	p, _ := protect(func() { r = f() })
	if p {
		return "P"
	}
	if r {
		return "T"
	}
	return "F"
}

// ---- one archive under test: records every call and what it answered ----

type c09rec struct {
	n      int
	a      *archive.BooleanArchive
	ops    []interface{}
	shadow []bool // what the archive must hold according to the calls made (property-level expectation)
	synced bool   // false while the harness has no independent expectation of the content
	// memoTrusted: false only after a rejected Decode was SEEN to change the archive (already reported as a
	// violation; before fix C09-1 a text rejected at its k-th entry had overwritten k-1 words and kept the memo),
	// until the next call that resets the memo, so that the one defect is not reported again on every later call.
	memoTrusted bool
	lastEnc     string
	hasLast     bool
	class       string
}

func c09new(n int, class string) *c09rec {
	return &c09rec{n: n, a: archive.New(n), shadow: make([]bool, n), synced: true, memoTrusted: true, class: class}
}

func (r *c09rec) set(i int, b bool) {
	p, _ := protect(func() { r.a.SetValue(i, b) })
	r.ops = append(r.ops, []interface{}{"S", i, b, p})
	c09stats["op_set"]++
	if p {
		c09stats["op_set_panicked"]++
	} else {
		r.memoTrusted = true
	}
	inRange := i >= 0 && i < r.n
	if inRange {
		r.shadow[i] = b
	}
	if inRange && p {
		emit(J{"kind": "oracle", "what": "SetValue panics on an index inside the archive", "n": r.n, "index": i, "class": r.class})
	}
}

func (r *c09rec) val(i int) {
	o := c09obs(func() bool { return r.a.Value(i) })
	r.ops = append(r.ops, []interface{}{"V", i, o})
	c09stats["op_value"]++
	if i >= 0 && i < r.n && r.synced {
		if o != c09tf(r.shadow[i]) {
			emit(J{"kind": "oracle", "what": "Value differs from the last value stored at that index (storage not lossless)",
				"n": r.n, "index": i, "got": o, "want": r.shadow[i], "class": r.class})
		}
	}
}

// vals: Value(i) for every index in order; exported as ONE op carrying the answers as a number (bit i = answer i)
func (r *c09rec) vals() {
	start := len(r.ops)
	got := make([]bool, r.n)
	clean := true
	for i := 0; i < r.n; i++ {
		r.val(i)
		o := r.ops[len(r.ops)-1].([]interface{})[2].(string)
		if o == "P" {
			clean = false
		}
		got[i] = o == "T"
	}
	if clean {
		r.ops = append(r.ops[:start], []interface{}{"W", c09num(got)})
	}
}

// c09num: the bit list as a decimal number (bit i = element i)
func c09num(bs []bool) string {
	v := new(big.Int)
	for i, b := range bs {
		if b {
			v.SetBit(v, i, 1)
		}
	}
	return v.String()
}

// raw: the word array and the memo field.  The memo is exported as "" (empty), "=" (equal to the text the
// last Encoding() call on this archive returned -- checked here, replayed in Coq) or the text itself.
func (r *c09rec) raw() {
	memo := r.a.VerifMemo()
	var m interface{} = []interface{}{"text", c09str(memo)}
	if memo == "" {
		m = "empty"
	} else if r.hasLast && memo == r.lastEnc {
		m = "last"
	}
	r.ops = append(r.ops, []interface{}{"R", r.a.VerifWords(), m})
}

// freshEncoding: the encoding computed by a brand-new archive holding the same bits (no memo involved)
func c09freshEncoding(bits []bool) string {
	f := archive.New(len(bits))
	for i, b := range bits {
		f.SetValue(i, b)
	}
	return f.Encoding()
}

func (r *c09rec) enc() string {
	s := r.a.Encoding()
	r.lastEnc, r.hasLast = s, true
	r.ops = append(r.ops, []interface{}{"E", c09str(s)})
	c09stats["op_encoding"]++
	if r.synced && !r.memoTrusted {
		if s != c09freshEncoding(r.shadow) {
			c09stats["stale_memo_after_rejected_decode(reported once)"]++
		}
	}
	if r.synced && r.memoTrusted {
		// memo soundness + losslessness, format-independent: what Encoding() answers is what a fresh archive
		// with the same bits computes, and decoding it into a fresh archive gives the same bits back
		if want := c09freshEncoding(r.shadow); s != want {
			emit(J{"kind": "oracle", "what": "Encoding() differs from the encoding of a fresh archive holding the same bits (stale memo or non-canonical)",
				"n": r.n, "bits": c09bits(r.shadow), "got": s, "want": want, "class": r.class})
		}
		c09roundtrip(r.n, r.shadow, s, r.class)
	}
	return s
}

func c09roundtrip(n int, bits []bool, enc string, class string) {
	f := archive.New(n)
	var err error
	p, what := protect(func() { err = f.Decode(enc) })
	bad := p || err != nil
	if !bad {
		for i := 0; i < n; i++ {
			if f.Value(i) != bits[i] {
				bad = true
			}
		}
	}
	c09stats["oracle_roundtrips"]++
	if bad {
		emit(J{"kind": "oracle", "what": "decoding an archive's own encoding into a fresh archive of the same size does not reproduce its bits",
			"n": n, "bits": c09bits(bits), "encoding": enc, "panicked": p, "panic": what, "error": fmt.Sprint(err), "class": class})
	}
}

func (r *c09rec) dec(s string) bool {
	var err error
	wordsBefore, memoBefore := r.a.VerifWords(), r.a.VerifMemo()
	p, _ := protect(func() { err = r.a.Decode(s) })
	ok := !p && err == nil
	o := c09tf(ok)
	if p {
		o = "P"
	}
	r.ops = append(r.ops, []interface{}{"D", c09str(s), o})
	c09stats["op_decode"]++
	if ok {
		c09stats["op_decode_ok"]++
		// the archive now holds whatever the string denotes: resynchronise the expectation from an
		// independent reading of the string
		bits, good := c09refDecode(s, r.n)
		if good {
			copy(r.shadow, bits)
			r.synced = true
		} else {
			r.synced = false
		}
		r.memoTrusted = true
	} else {
		c09stats["op_decode_rejected"]++
		// a rejected text must leave the archive exactly as it was (fix C09-1): the expectation stays in force
		if fmt.Sprint(wordsBefore) != fmt.Sprint(r.a.VerifWords()) || memoBefore != r.a.VerifMemo() {
			emit(J{"kind": "oracle", "what": "a Decode that returned an error changed the archive (words stored before the bad entry / memo not matching the content)",
				"n": r.n, "text": s, "words_before": wordsBefore, "words_after": r.a.VerifWords(),
				"memo_before": memoBefore, "memo_after": r.a.VerifMemo(), "class": r.class})
			r.synced = false
			r.memoTrusted = false
		}
	}
	return ok
}

func (r *c09rec) eqv(bits []bool) {
	other := archive.New(len(bits))
	for i, b := range bits {
		other.SetValue(i, b)
	}
	o := c09obs(func() bool { return r.a.IsEquivalentTo(other) })
	r.ops = append(r.ops, []interface{}{"Q", len(bits), c09num(bits), o})
	c09stats["op_equivalent"]++
	if r.synced && len(bits) == r.n {
		same := true
		for i := range bits {
			if bits[i] != r.shadow[i] {
				same = false
			}
		}
		if o != c09tf(same) {
			emit(J{"kind": "oracle", "what": "IsEquivalentTo differs from equality of the stored bits", "n": r.n,
				"bits": c09bits(r.shadow), "other": c09bits(bits), "got": o, "class": r.class})
		}
	}
}

func (r *c09rec) resync() {
	// after a rejected Decode the property says nothing about the content; read it back
	for i := 0; i < r.n; i++ {
		r.shadow[i] = r.a.Value(i)
	}
	r.synced = true
}

func (r *c09rec) done() {
	emit(J{"kind": "case", "t": "arch", "n": r.n, "ops": r.ops, "class": r.class})
	c09stats["arch_cases"]++
	c09stats["arch_cases_"+r.class]++
	c09sizes[r.n]++
}

var c09sizes = map[int]int{}

func c09bits(bs []bool) []int {
	res := make([]int, len(bs))
	for i, b := range bs {
		if b {
			res[i] = 1
		}
	}
	return res
}

// independent reading of an encoding (harness-side; only used to keep the expectation in step after an
// accepted Decode of a string the harness made up): ':'-separated hexadecimal words, bit i of word i/64.
func c09refDecode(s string, n int) ([]bool, bool) {
	parts := strings.Split(s, ":")
	if len(parts) != (n+63)/64 {
		return nil, false
	}
	bits := make([]bool, n)
	for w, p := range parts {
		if len(p) == 0 {
			return nil, false
		}
		var v uint64
		for k := 0; k < len(p); k++ {
			c := p[k]
			var d uint64
			switch {
			case c >= '0' && c <= '9':
				d = uint64(c - '0')
			case c >= 'a' && c <= 'f':
				d = uint64(c-'a') + 10
			case c >= 'A' && c <= 'F':
				d = uint64(c-'A') + 10
			default:
				return nil, false
			}
			if v>>60 != 0 {
				return nil, false
			}
			v = v<<4 | d
		}
		for b := 0; b < 64; b++ {
			if i := w*64 + b; i < n {
				bits[i] = v>>uint(b)&1 == 1
			}
		}
	}
	return bits, true
}

// ---- generators ----

func c09pattern(n int, kind string, k int, rng *prng) []bool {
	bs := make([]bool, n)
	switch kind {
	case "single":
		if k >= 0 && k < n {
			bs[k] = true
		}
	case "ones":
		for i := range bs {
			bs[i] = true
		}
	case "alt0":
		for i := range bs {
			bs[i] = i%2 == 0
		}
	case "alt1":
		for i := range bs {
			bs[i] = i%2 == 1
		}
	case "random":
		q := []float64{0.5, 0.1, 0.9}[rng.intn(3)]
		for i := range bs {
			bs[i] = rng.chance(q)
		}
	}
	return bs
}

// c09variant rewrites a canonical encoding into another spelling of the same words / a broken one
func c09variant(enc string, n int, kind int, rng *prng) string {
	words := strings.Split(enc, ":")
	switch kind {
	case 0: // lower case
		return strings.ToLower(enc)
	case 1: // leading zeros
		for i := range words {
			words[i] = strings.Repeat("0", 1+rng.intn(3)) + words[i]
		}
	case 2: // 16 digits, zero padded, mixed case
		for i := range words {
			w := c09zeros(16-len(words[i])) + words[i]
			bs := []byte(w)
			for k := range bs {
				if rng.chance(0.5) {
					bs[k] = strings.ToLower(string(bs[k]))[0]
				}
			}
			words[i] = string(bs)
		}
	case 3: // garbage in the unused high bits of the last word
		used := n - 64*(len(words)-1)
		var v uint64
		fmt.Sscanf(words[len(words)-1], "%X", &v)
		if used < 64 {
			g := rng.next() << uint(used)
			if g == 0 {
				g = 1 << 63
			}
			v |= g
		}
		words[len(words)-1] = fmt.Sprintf("%X", v)
	case 4: // one word too many
		words = append(words, "0")
	case 5: // one word too few
		words = words[:len(words)-1]
	case 6: // too-large word (17 digits)
		i := rng.intn(len(words))
		words[i] = "1" + c09zeros(16-len(words[i])) + words[i]
	case 7: // a non-hex byte somewhere
		i := rng.intn(len(words))
		junk := []string{"G", "g", "z", " ", "-", "+", "_", "x", ".", "\x00", "\xff", "\xc3\xa9", "/", "@", "`", "\t"}
		j := junk[rng.intn(len(junk))]
		pos := rng.intn(len(words[i]) + 1)
		words[i] = words[i][:pos] + j + words[i][pos:]
	case 8: // an empty entry
		words[rng.intn(len(words))] = ""
	case 9: // prefixes / signs that base-16 ParseUint must not accept
		i := rng.intn(len(words))
		words[i] = []string{"0x", "0X", "+", "-", " ", "0_"}[rng.intn(6)] + words[i]
	case 10: // exactly 2^64-1 and 2^64
		i := rng.intn(len(words))
		if rng.chance(0.5) {
			words[i] = "FFFFFFFFFFFFFFFF"
		} else {
			words[i] = "10000000000000000"
		}
	case 11: // other delimiters
		return strings.Replace(enc, ":", []string{";", ",", " ", "::"}[rng.intn(4)], -1)
	case 12: // trailing / leading delimiter
		if rng.chance(0.5) {
			return enc + ":"
		}
		return ":" + enc
	}
	return strings.Join(words, ":")
}

const c09variants = 13

func c09zeros(k int) string {
	if k < 0 {
		k = 0
	}
	return strings.Repeat("0", k)
}

// SetValue(i, bits[i]) for every index in order; exported as ONE op when none of the calls panicked
func c09build(r *c09rec, bits []bool) {
	start := len(r.ops)
	clean := true
	for i, b := range bits {
		r.set(i, b)
		if r.ops[len(r.ops)-1].([]interface{})[3].(bool) {
			clean = false
		}
	}
	if clean && len(bits) == r.n {
		r.ops = append(r.ops[:start], []interface{}{"B", c09num(bits)})
	}
}

// exhaustive: every bit pattern of size n
func c09exhaustive(n int) {
	seen := map[string]uint{}
	for p := uint(0); p < 1<<uint(n); p++ {
		bits := make([]bool, n)
		for i := range bits {
			bits[i] = p>>uint(i)&1 == 1
		}
		r := c09new(n, "exhaustive")
		c09build(r, bits)
		r.raw()
		s := r.enc()
		r.raw()
		r.vals()
		r.eqv(bits)
		// decode into a fresh archive and into this one after overwriting it
		q := c09new(n, "exhaustive")
		q.dec(s)
		q.raw()
		q.vals()
		q.enc()
		q.done()
		inv := make([]bool, n)
		for i := range bits {
			inv[i] = !bits[i]
		}
		c09build(r, inv)
		r.enc()
		r.dec(s)
		r.raw()
		r.enc()
		r.done()
		if prev, dup := seen[s]; dup {
			emit(J{"kind": "oracle", "what": "two different bit patterns of the same size have the same encoding", "n": n,
				"pattern1": prev, "pattern2": p, "encoding": s, "class": "exhaustive"})
		}
		seen[s] = p
		c09stats["patterns_exhaustive"]++
	}
}

func c09structured(n int, rng *prng, canon map[int]map[string]string) {
	type pat struct {
		kind string
		k    int
	}
	pats := []pat{{"ones", 0}, {"alt0", 0}, {"alt1", 0}, {"random", 0}}
	for _, k := range []int{0, 62, 63, 64, 65, 127, 128, n - 1} {
		if k < n {
			pats = append(pats, pat{"single", k})
		}
	}
	for _, pt := range pats {
		bits := c09pattern(n, pt.kind, pt.k, rng)
		r := c09new(n, "structured_"+pt.kind)
		c09build(r, bits)
		s := r.enc()
		r.raw()
		r.vals()
		c09canon(canon, n, bits, s)
		// the memo after a mutation
		i := rng.intn(n)
		r.set(i, !bits[i])
		s2 := r.enc()
		r.raw()
		bits2 := append([]bool{}, bits...)
		bits2[i] = !bits[i]
		c09canon(canon, n, bits2, s2)
		r.set(i, bits[i]) // and back: the same encoding again
		r.enc()
		// decode of the first encoding in several spellings
		r.dec(s2)
		r.enc()
		v := rng.intn(4)
		r.dec(c09variant(s, n, v, rng))
		r.raw()
		r.enc()
		r.eqv(bits)
		r.done()
		c09stats["patterns_structured"]++
	}
}

// canonicity across everything generated for one size: equal encodings <-> equal bits
func c09canon(canon map[int]map[string]string, n int, bits []bool, enc string) {
	key := fmt.Sprint(c09bits(bits))
	if canon[n] == nil {
		canon[n] = map[string]string{}
	}
	if prev, ok := canon[n][enc]; ok && prev != key {
		emit(J{"kind": "oracle", "what": "two different bit patterns of the same size have the same encoding", "n": n,
			"bits1": prev, "bits2": key, "encoding": enc, "class": "canon"})
	}
	canon[n][enc] = key
	c09stats["canon_entries"]++
}

func c09randomWalk(n int, steps int, rng *prng, canon map[int]map[string]string) {
	r := c09new(n, "random_walk")
	nw := (n + 63) / 64
	for s := 0; s < steps; s++ {
		switch k := rng.intn(20); {
		case k < 8:
			i := rng.intn(n)
			if rng.chance(0.3) {
				i = []int{0, n - 1, 62, 63, 64, 65, 127, 128}[rng.intn(8)] % n
			}
			r.set(i, rng.chance(0.5))
		case k == 8: // indices the code does not accept / does not check
			i := []int{n, n + 1, nw*64 - 1, nw * 64, nw*64 + 7, -1, -63, -64, -65, -128, math.MaxInt32, -n}[rng.intn(12)]
			r.set(i, rng.chance(0.5))
			r.raw()
			if rng.chance(0.5) {
				r.val(i)
			}
		case k < 12:
			s := r.enc()
			if r.synced && r.memoTrusted {
				c09canon(canon, n, r.shadow, s)
			}
			if rng.chance(0.3) {
				r.raw()
			}
		case k < 14:
			i := rng.intn(n)
			r.val(i)
		case k < 18:
			bits := c09pattern(n, "random", 0, rng)
			enc := c09freshEncoding(bits)
			v := rng.intn(c09variants + 4)
			var ok bool
			if v >= c09variants {
				ok = r.dec(enc) // the canonical text itself
			} else {
				ok = r.dec(c09variant(enc, n, v, rng))
				c09stats[fmt.Sprintf("decode_variant_%02d", v)]++
			}
			r.raw()
			if !ok {
				r.enc() // after a rejected text: still the encoding of the unchanged content
				r.raw()
				if !r.synced {
					r.resync()
				}
			}
		case k == 18:
			bits := append([]bool{}, r.shadow...)
			if rng.chance(0.5) {
				bits[rng.intn(n)] = rng.chance(0.5)
			}
			if rng.chance(0.1) {
				bits = bits[:rng.intn(n+1)]
			}
			r.eqv(bits)
		default:
			r.raw()
		}
	}
	r.enc()
	r.raw()
	r.vals()
	r.done()
}

// decode strings that need no archive content: small sizes, hand-made texts
func c09decodeTexts(tier string, rng *prng) {
	texts := []string{"", "0", "1", "f", "F", "00", "0F", "fF", "10", "ff", "FF", "100", ":", "0:0", "1:1", "0:", ":0", "::", "0:0:0",
		"FFFFFFFFFFFFFFFF", "ffffffffffffffff", "10000000000000000", "0000000000000000000001", "FFFFFFFFFFFFFFFFF",
		"g", "G", "0x1", "+1", "-1", " 1", "1 ", "1_0", "1.0", "\xc3\xa9", "\x00", "１",
		"FFFFFFFFFFFFFFFF:1", "FFFFFFFFFFFFFFFF:FFFFFFFFFFFFFFFF", "1:zz", "zz:1", "1:2:zz", "1:zz:3", "A:b:C",
		"8000000000000000", "7FFFFFFFFFFFFFFF", "8000000000000000:8000000000000000"}
	sizes := []int{1, 3, 8, 63, 64, 65, 128, 129, 130}
	if tier == "thorough" {
		sizes = []int{1, 2, 3, 4, 7, 8, 63, 64, 65, 66, 127, 128, 129, 130, 191, 192, 193}
	}
	for _, n := range sizes {
		for _, t := range texts {
			r := c09new(n, "decode_text")
			// non-trivial starting content and a filled memo, so that partial writes and a stale memo are visible
			start := make([]bool, n)
			for i := 0; i < n; i += 3 {
				start[i] = true
			}
			c09build(r, start)
			r.enc()
			r.dec(t)
			r.raw()
			r.enc()
			r.raw()
			if !r.synced {
				r.resync()
			}
			r.vals()
			r.done()
			c09stats["decode_texts"]++
		}
	}
}

// ---- ordering of management actions ----

func c09key(a action.ManagementAction) []interface{} {
	return []interface{}{uint64(a.PlanningUnit()), c09str(string(a.Type()))}
}

func c09orderCase(pus []uint64, types []string, class string) {
	n := len(pus)
	acts := make(action.ManagementActions, n)
	keys := make([]interface{}, n)
	for i := range pus {
		acts[i] = new(action.SimpleManagementAction).WithPlanningUnit(planningunit.Id(pus[i])).WithType(action.ManagementActionType(types[i]))
		keys[i] = c09key(acts[i])
	}
	less := make([]int, 0, n*n)
	lt := make([][]bool, n)
	for i := 0; i < n; i++ {
		lt[i] = make([]bool, n)
		for j := 0; j < n; j++ {
			lt[i][j] = acts.Less(i, j)
			if lt[i][j] {
				less = append(less, 1)
			} else {
				less = append(less, 0)
			}
		}
	}
	// oracle (independent of WHICH order it is): Less is a strict total order on (planning unit, type) keys --
	// irreflexive, exactly one direction between different keys, neither between equal keys, transitive.
	// That is what makes the sorted sequence a function of the key set.
	sameKey := func(i, j int) bool { return pus[i] == pus[j] && types[i] == types[j] }
	bad := ""
	for i := 0; i < n && bad == ""; i++ {
		for j := 0; j < n && bad == ""; j++ {
			switch {
			case sameKey(i, j) && (lt[i][j] || lt[j][i]):
				bad = "Less holds between two actions with the same (planning unit, type)"
			case !sameKey(i, j) && lt[i][j] == lt[j][i]:
				bad = "Less does not order two actions with different (planning unit, type) keys (not a total order)"
			}
			if bad != "" {
				emit(J{"kind": "oracle", "what": bad, "a": keys[i], "b": keys[j], "less_ab": lt[i][j], "less_ba": lt[j][i], "class": class})
			}
		}
	}
	for i := 0; i < n && bad == ""; i++ {
		for j := 0; j < n && bad == ""; j++ {
			if !lt[i][j] {
				continue
			}
			for k := 0; k < n; k++ {
				if lt[j][k] && !lt[i][k] {
					bad = "Less is not transitive"
					emit(J{"kind": "oracle", "what": bad, "a": keys[i], "b": keys[j], "c": keys[k], "class": class})
					break
				}
			}
		}
	}
	distinct := true
	seen := map[string]bool{}
	for i := range pus {
		k := fmt.Sprintf("%d/%s", pus[i], types[i])
		if seen[k] {
			distinct = false
		}
		seen[k] = true
	}
	sortedOf := func(order []int) []interface{} {
		m := new(action.ModelManagementActions)
		m.Initialise()
		for _, i := range order {
			m.Add(acts[i])
		}
		m.Sort()
		res := make([]interface{}, 0, n)
		for _, a := range m.Actions() {
			res = append(res, c09key(a))
		}
		return res
	}
	id := make([]int, n)
	for i := range id {
		id[i] = i
	}
	sorted := sortedOf(id)
	emit(J{"kind": "case", "t": "order", "keys": keys, "less": less, "distinct": distinct, "sorted": sorted, "class": class})
	c09stats["order_cases"]++
	c09stats["order_cases_"+class]++
	c09stats["order_less_pairs"] += n * n
	// oracle: with distinct keys every insertion order sorts to the same sequence
	if distinct {
		rng := newPrng(uint64(909 + n))
		for t := 0; t < 4; t++ {
			perm := append([]int{}, id...)
			for i := n - 1; i > 0; i-- {
				j := rng.intn(i + 1)
				perm[i], perm[j] = perm[j], perm[i]
			}
			if t == 0 { // reversed
				for i := range perm {
					perm[i] = n - 1 - i
				}
			}
			if other := sortedOf(perm); fmt.Sprint(other) != fmt.Sprint(sorted) {
				emit(J{"kind": "oracle", "what": "sorting two insertion orders of the same distinct actions gives different sequences",
					"keys": keys, "perm": perm, "sorted1": sorted, "sorted2": other, "class": class})
			}
			c09stats["order_permutations_sorted"]++
		}
	}
}

func c09orderCases(tier string, rng *prng) {
	typeNames := []string{"GullyRestoration", "HillSlopeRestoration", "RiverBankRestoration", "WetlandsEstablishment",
		"", "A", "a", "B", "Gully", "GullyRestoration2", "Z", "_", "\xc3\xa9", "\x7f", "\x80", "HillSlope"}
	// all pairs over a small key grid (Less matrix = exhaustive pairs)
	var pus []uint64
	var tys []string
	for _, pu := range []uint64{0, 1, 2, 10, math.MaxUint32, math.MaxUint64} {
		for _, ty := range typeNames {
			pus = append(pus, pu)
			tys = append(tys, ty)
		}
	}
	c09orderCase(pus, tys, "grid_all_pairs")
	nRandom := 60
	if tier == "thorough" {
		nRandom = 600
	}
	for c := 0; c < nRandom; c++ {
		n := 1 + rng.intn(30)
		if c%10 == 0 {
			n = 40 + rng.intn(40) // sort.Sort switches algorithm above 12 elements; go well beyond
		}
		npu := 1 + rng.intn(10)
		ntype := 1 + rng.intn(len(typeNames))
		dup := rng.chance(0.3)
		pus, tys := []uint64{}, []string{}
		seen := map[string]bool{}
		for len(pus) < n {
			pu := uint64(rng.intn(npu))
			ty := typeNames[rng.intn(ntype)]
			k := fmt.Sprintf("%d/%s", pu, ty)
			if seen[k] && !dup {
				if len(seen) >= npu*ntype {
					break
				}
				continue
			}
			seen[k] = true
			pus = append(pus, pu)
			tys = append(tys, ty)
		}
		cl := "random_distinct"
		if dup {
			cl = "random_with_duplicates"
		}
		c09orderCase(pus, tys, cl)
	}
}

// ---- portability across model instances (catchment) ----

func c09buildModel(csvPath string) *catchment.CoreModel {
	ds := csv.NewDataSet("CatchmentModel")
	if err := ds.Load(csvPath); err != nil {
		panic(err)
	}
	m := catchment.NewCoreModel().WithSourceDataSet(ds)
	m.Initialise(model.AsIs)
	return m
}

func c09keysOf(m model.Model) []interface{} {
	res := []interface{}{}
	for _, a := range m.ManagementActions() {
		res = append(res, c09key(a))
	}
	return res
}

func c09active(m model.Model) []int {
	res := []int{}
	for _, a := range m.ManagementActions() {
		if a.IsActive() {
			res = append(res, 1)
		} else {
			res = append(res, 0)
		}
	}
	return res
}

func c09activeKeys(m model.Model) string {
	var sb strings.Builder
	for _, a := range m.ManagementActions() {
		if a.IsActive() {
			fmt.Fprintf(&sb, "%d/%s;", a.PlanningUnit(), a.Type())
		}
	}
	return sb.String()
}

func c09values(m model.Model) []float64 {
	keys := m.NameMappedVariables().SortedKeys()
	res := make([]float64, len(keys))
	for i, k := range keys {
		res[i] = m.DecisionVariable(k).Value()
	}
	return res
}

func c09portability(tier string, rng *prng) {
	wd, _ := os.Getwd()
	defer os.Chdir(wd)
	if err := os.Chdir("internal/pkg/model/models/catchment"); err != nil {
		panic(err)
	}
	compressor := new(modelArchive.ModelCompressor)
	for _, dataset := range []string{"testdata/ValidModel.csv", "testdata/TestingModel.csv"} {
		name := strings.TrimSuffix(strings.TrimPrefix(dataset, "testdata/"), ".csv")
		nInst := 12
		if tier == "thorough" {
			nInst = 50
		}
		src := c09buildModel(dataset)
		n := len(src.ManagementActions())
		insts := []model.Model{}
		instKeys := []interface{}{c09keysOf(src)}
		for k := 0; k < nInst; k++ {
			var m model.Model
			if k%3 == 2 { // the saver's way: DeepClone + Initialise(AsIs)
				m = src.DeepClone()
				m.Initialise(model.AsIs)
			} else { // independent construction from the files (Go randomises map iteration per construction)
				cm := c09buildModel(dataset)
				if k%4 == 1 {
					// an instance of a scenario that configures a variable limit (the saver's decompression model and the
					// engine's clones inherit it): decoding is not subject to the limit -- whatever order the flags are
					// applied in, the decoded model holds the encoded set
					cm.SetParameters(parameters.Map{"MaximumImplementationCost": 1000000.0})
					cm.Initialise(model.AsIs)
					c09stats["port_instances_with_a_limit"]++
				}
				m = cm
			}
			insts = append(insts, m)
			ks := c09keysOf(m)
			instKeys = append(instKeys, ks)
			if fmt.Sprint(ks) != fmt.Sprint(instKeys[0]) {
				emit(J{"kind": "oracle", "what": "two instances of the same scenario list their management actions in different orders",
					"dataset": name, "keys1": instKeys[0], "keys2": ks})
			}
		}
		// duplicate (planning unit, type) keys would make the order depend on sort.Sort's instability
		seen := map[string]bool{}
		for _, a := range src.ManagementActions() {
			k := fmt.Sprintf("%d/%s", a.PlanningUnit(), a.Type())
			if seen[k] {
				emit(J{"kind": "oracle", "what": "two management actions of one model share (planning unit, type)", "dataset": name, "key": k})
			}
			seen[k] = true
		}
		// the order in which the actions come out of the Go maps before Sort(): exported so that the model's sort
		// runs on the REAL gathering orders, and counted to show that they do differ between constructions
		gatheredOrders := map[string]bool{}
		for k := 0; k < nInst; k++ {
			g := []interface{}{}
			for _, a := range src.VerifGatherActions() {
				g = append(g, c09key(a))
			}
			gatheredOrders[fmt.Sprint(g)] = true
			instKeys = append(instKeys, g)
		}
		c09stats["distinct_gathering_orders_"+name] = len(gatheredOrders)
		emit(J{"kind": "case", "t": "inst", "dataset": name, "n": n, "instances": instKeys})
		c09stats["instances_"+name] = nInst + 1
		c09stats["actions_"+name] = n

		total := uint64(1) << uint(n)
		var sets []uint64
		budget := uint64(400)
		if tier == "thorough" {
			budget = 1 << 15 // all 2^13 sets of ValidModel.csv and all 2^15 of TestingModel.csv
		}
		if total <= budget {
			for s := uint64(0); s < total; s++ {
				sets = append(sets, s)
			}
		} else {
			sets = append(sets, 0, total-1)
			for i := 0; i < n; i++ {
				sets = append(sets, 1<<uint(i), (total-1)^(1<<uint(i)))
			}
			for uint64(len(sets)) < budget {
				sets = append(sets, rng.next()%total)
			}
		}
		seenEnc := map[string]uint64{}
		for si, s := range sets {
			for i := 0; i < n; i++ {
				src.SetManagementAction(i, s>>uint(i)&1 == 1)
			}
			compressed := compressor.Compress(src)
			enc := compressed.Encoding()
			// target: a pooled instance, or (every 16th set) one built for this very decode
			var dst model.Model
			if si%16 == 0 {
				dst = c09buildModel(dataset)
				c09stats["port_fresh_instances"]++
			} else {
				dst = insts[si%len(insts)]
			}
			before := c09active(dst)
			shell := compressor.Compress(dst)
			var err error
			p, what := protect(func() {
				err = shell.Decode(enc)
				if err == nil {
					compressor.Decompress(shell, dst)
				}
			})
			ok := !p && err == nil
			emit(J{"kind": "case", "t": "port", "dataset": name, "n": n, "bits": c09active(src), "enc": c09str(enc),
				"ok": ok, "before2": before, "active2": c09active(dst)})
			c09stats["port_cases_"+name]++
			bad := !ok || c09activeKeys(dst) != c09activeKeys(src) || fmt.Sprint(c09active(dst)) != fmt.Sprint(c09active(src))
			v1, v2 := c09values(src), c09values(dst)
			valuesDiffer := len(v1) != len(v2)
			for i := range v1 {
				if !valuesDiffer && math.Abs(v1[i]-v2[i]) > 1e-6 {
					valuesDiffer = true
				}
			}
			if bad || valuesDiffer {
				emit(J{"kind": "oracle", "what": "decoding a model's encoding into another instance of the same scenario does not reproduce its active set / values",
					"dataset": name, "set": s, "encoding": enc, "panicked": p, "panic": what, "error": fmt.Sprint(err),
					"active1": c09activeKeys(src), "active2": c09activeKeys(dst), "values1": v1, "values2": v2, "active_differs": bad})
			}
			if prev, dup := seenEnc[enc]; dup && prev != s {
				emit(J{"kind": "oracle", "what": "two different action sets of one scenario have the same encoding",
					"dataset": name, "set1": prev, "set2": s, "encoding": enc})
			}
			seenEnc[enc] = s
			// MatchesStateOf / IsEquivalentTo agree with it
			if !shell.IsEquivalentTo(compressed) {
				emit(J{"kind": "oracle", "what": "decoded state is not IsEquivalentTo the compressed source state", "dataset": name, "set": s})
			}
		}
	}
}

// independent writing of an action set as an encoding (harness-side): one upper-case hexadecimal numeral without
// leading zeros per 64 flags, least significant word first, ':' between words
func c09refEncode(bits []bool) string {
	words := []string{}
	for w := 0; 64*w < len(bits); w++ {
		v := new(big.Int)
		for k := 0; k < 64 && 64*w+k < len(bits); k++ {
			if bits[64*w+k] {
				v.SetBit(v, k, 1)
			}
		}
		words = append(words, strings.ToUpper(v.Text(16)))
	}
	return strings.Join(words, ":")
}

// portability on GENERATED catchments whose number of management actions sits on and around the 64-bit word
// boundaries of the encoding (the shipped data sets have 13 and 15 actions): Compress -> Encoding -> Decode ->
// Decompress between independently constructed instances, for the action sets that fill / straddle the words.
func c09portabilitySized(tier string, rng *prng) {
	sizes := []int{63, 64, 65, 128}
	nRandom := 10
	if tier == "thorough" {
		sizes = []int{1, 2, 62, 63, 64, 65, 66, 127, 128, 129, 191, 192, 193, 256}
		nRandom = 60
	}
	compressor := new(modelArchive.ModelCompressor)
	for _, n := range sizes {
		meta, cleanup, _ := catchSizedDataset(rng, n)
		name := fmt.Sprintf("generated_%03d_actions", n)
		src := c09buildModel(meta)
		if len(src.ManagementActions()) != n {
			panic("generated catchment does not offer the requested number of actions")
		}
		insts := []model.Model{c09buildModel(meta), c09buildModel(meta)}
		clone := src.DeepClone()
		clone.Initialise(model.AsIs)
		insts = append(insts, clone)
		instKeys := []interface{}{c09keysOf(src)}
		for _, m := range insts {
			ks := c09keysOf(m)
			instKeys = append(instKeys, ks)
			if fmt.Sprint(ks) != fmt.Sprint(instKeys[0]) {
				emit(J{"kind": "oracle", "what": "two instances of the same scenario list their management actions in different orders",
					"dataset": name, "keys1": instKeys[0], "keys2": ks})
			}
		}
		for k := 0; k < 3; k++ {
			g := []interface{}{}
			for _, a := range src.VerifGatherActions() {
				g = append(g, c09key(a))
			}
			instKeys = append(instKeys, g)
		}
		emit(J{"kind": "case", "t": "inst", "dataset": name, "n": n, "instances": instKeys})
		c09stats["instances_"+name] = len(insts) + 1
		c09stats["actions_"+name] = n

		sets := [][]bool{}
		for _, pt := range []string{"ones", "alt0", "alt1"} {
			sets = append(sets, c09pattern(n, pt, 0, rng))
		}
		sets = append(sets, make([]bool, n))
		for _, k := range []int{0, 62, 63, 64, 65, 126, 127, 128, 129, 190, 191, 192, n - 2, n - 1} {
			if k >= 0 && k < n {
				sets = append(sets, c09pattern(n, "single", k, rng))
				all := c09pattern(n, "ones", 0, rng)
				all[k] = false
				sets = append(sets, all)
			}
		}
		for w := 0; 64*w < n; w++ { // exactly one word's worth of actions
			set := make([]bool, n)
			for i := range set {
				set[i] = i/64 == w
			}
			sets = append(sets, set)
		}
		for i := 0; i < nRandom; i++ {
			sets = append(sets, c09pattern(n, "random", 0, rng))
		}
		seenEnc := map[string]string{}
		for si, bits := range sets {
			for i, b := range bits {
				src.SetManagementAction(i, b)
			}
			compressed := compressor.Compress(src)
			enc := compressed.Encoding()
			if want := c09refEncode(bits); enc != want {
				emit(J{"kind": "oracle", "what": "the encoding of a model's action set is not the canonical text of that set",
					"dataset": name, "n": n, "bits": c09bits(bits), "encoding": enc, "want": want})
			}
			dst := insts[si%len(insts)]
			before := c09active(dst)
			shell := compressor.Compress(dst)
			var err error
			p, what := protect(func() {
				err = shell.Decode(enc)
				if err == nil {
					compressor.Decompress(shell, dst)
				}
			})
			ok := !p && err == nil
			emit(J{"kind": "case", "t": "port", "dataset": name, "n": n, "bits": c09active(src), "enc": c09str(enc),
				"ok": ok, "before2": before, "active2": c09active(dst)})
			c09stats["port_cases_"+name]++
			c09stats["port_cases_generated"]++
			bad := !ok || c09activeKeys(dst) != c09activeKeys(src) || fmt.Sprint(c09active(dst)) != fmt.Sprint(c09bits(bits))
			v1, v2 := c09values(src), c09values(dst)
			valuesDiffer := len(v1) != len(v2)
			for i := range v1 {
				if !valuesDiffer && math.Abs(v1[i]-v2[i]) > 1e-6 {
					valuesDiffer = true
				}
			}
			if bad || valuesDiffer {
				emit(J{"kind": "oracle", "what": "decoding a model's encoding into another instance of the same scenario does not reproduce its active set / values",
					"dataset": name, "n": n, "bits": c09bits(bits), "encoding": enc, "panicked": p, "panic": what, "error": fmt.Sprint(err),
					"active1": c09activeKeys(src), "active2": c09activeKeys(dst), "values1": v1, "values2": v2, "active_differs": bad})
			}
			key := fmt.Sprint(c09bits(bits))
			if prev, dup := seenEnc[enc]; dup && prev != key {
				emit(J{"kind": "oracle", "what": "two different action sets of one scenario have the same encoding",
					"dataset": name, "n": n, "bits1": prev, "bits2": key, "encoding": enc})
			}
			seenEnc[enc] = key
			if !shell.IsEquivalentTo(compressed) {
				emit(J{"kind": "oracle", "what": "decoded state is not IsEquivalentTo the compressed source state", "dataset": name, "n": n, "bits": c09bits(bits)})
			}
		}
		cleanup()
	}
}

func runC09(args []string) {
	tier := "quick"
	if len(args) > 0 {
		tier = args[0]
	}
	rng := newPrng(9)
	canon := map[int]map[string]string{}

	maxExh := 10
	if tier == "thorough" {
		maxExh = 12
	}
	for n := 1; n <= maxExh; n++ {
		c09exhaustive(n)
	}
	sizes := []int{1, 2, 9, 10, 11, 31, 32, 33, 62, 63, 64, 65, 66, 100, 126, 127, 128, 129, 130, 190, 191, 192, 193, 199, 200}
	walks, steps := 120, 25
	if tier == "thorough" {
		sizes = sizes[:0]
		for n := 1; n <= 200; n++ {
			sizes = append(sizes, n)
		}
		walks, steps = 3000, 40
	}
	for _, n := range sizes {
		c09structured(n, rng, canon)
	}
	for w := 0; w < walks; w++ {
		n := 1 + rng.intn(200)
		if w%4 == 0 {
			n = []int{1, 63, 64, 65, 127, 128, 129, 192, 193, 200}[rng.intn(10)]
		}
		c09randomWalk(n, steps, rng, canon)
	}
	c09decodeTexts(tier, rng)
	// regression of the defect repaired by fix C09-1 (Example C09_rejected_decode_regression), on the real code and,
	// as a case, in Coq: Encoding(); Decode("1:zz") -> error; Encoding() still "0:0", words still [0 0]
	{
		w := c09new(65, "regression_rejected_decode")
		first := w.enc()
		w.dec("1:zz")
		w.raw()
		second := w.enc()
		words := w.a.VerifWords()
		if first == "0:0" && second == "0:0" && len(words) == 2 && words[0] == 0 && words[1] == 0 {
			c09stats["regression_rejected_decode_holds_on_implementation"] = 1
		} else {
			c09stats["regression_rejected_decode_holds_on_implementation"] = 0
		}
		w.vals()
		w.done()
	}
	c09orderCases(tier, rng)
	c09portability(tier, rng)
	c09portabilitySized(tier, rng)

	st := J{}
	for k, v := range c09stats {
		st[k] = v
	}
	small, mid, large := 0, 0, 0
	multiples := 0
	for n, c := range c09sizes {
		switch {
		case n <= 64:
			small += c
		case n <= 128:
			mid += c
		default:
			large += c
		}
		if n%64 == 0 {
			multiples += c
		}
	}
	st["arch_cases_size_1_64"] = small
	st["arch_cases_size_65_128"] = mid
	st["arch_cases_size_129_200"] = large
	st["arch_cases_size_multiple_of_64"] = multiples
	st["arch_distinct_sizes"] = len(c09sizes)
	emit(J{"kind": "stat", "stats": st})
}

func init() { register("C09", runC09) }
