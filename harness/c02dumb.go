//go:build verif

// C02, second stream: the two toy implementations of model.Model the shipped Dumb*Annealer configurations
// run on -- internal/pkg/model/models/dumb and internal/pkg/model/models/modumb.
//
// The REAL models are driven through random operation histories (SetParameters, Initialise,
// TryRandomChange, ChangeIsValid, AcceptChange, RevertChange, DoRandomChange, UndoChange,
// SetManagementAction, SetManagementActionUnobserved, DeepClone) with SCRIPTED random sources (the pick of
// every TryRandomChange / DoRandomChange is chosen by the harness and exported), on several handles at
// once (clones are further handles).  After every operation what every handle reports is recorded as grid
// integers:  {"kind":"dumbcase"|"modumbcase", "init":..., "steps":[{h, op, obs of every handle}]}  for the
// vm_compute correspondence with DumbModels.v, and the property itself is evaluated on the
// implementation's outputs alone (independent oracle): values unchanged while proposed / revert restores
// every observable / accept = reported change / locality / other handles do not move.
// Invoked as:  verifharness C02 <tier> dumb
package main

import (
	"math"

	"github.com/LindsayBradford/crem/internal/pkg/model"
	"github.com/LindsayBradford/crem/internal/pkg/model/archive"
	"github.com/LindsayBradford/crem/internal/pkg/model/models/dumb"
	"github.com/LindsayBradford/crem/internal/pkg/model/models/modumb"
	"github.com/LindsayBradford/crem/internal/pkg/model/planningunit"
	"github.com/LindsayBradford/crem/internal/pkg/model/variable"
	"github.com/LindsayBradford/crem/internal/pkg/parameters"
	crand "github.com/LindsayBradford/crem/internal/pkg/rand"
)

// c02dumbWanted: the toy-model stream is selected by a second argument "dumb"
func c02dumbWanted(args []string) bool { return len(args) > 1 && args[1] == "dumb" }

type c02dumbRun struct {
	p       *prng
	stats   map[string]int
	fails   int
	offGrid int
}

func (r *c02dumbRun) grid(v float64, scale float64) int64 {
	x := v * scale
	g := math.Round(x)
	if math.Abs(x-g) > 1e-6 {
		r.offGrid++
	}
	return int64(g)
}

func (r *c02dumbRun) oracle(modelName, what string, ops []J, extra J) {
	r.fails++
	if r.fails > 6 {
		return
	}
	line := J{"kind": "oracle", "model": modelName, "what": what, "history": append([]J{}, ops...), "failing_step": len(ops)}
	for k, v := range extra {
		line[k] = v
	}
	emit(line)
}

func c02dumbScript(pick int) *crand.Rand {
	return crand.New(&catchScript{q: []int64{int64(pick) << 32}})
}

func c02dumbEqI(a, b []int64) bool {
	if len(a) != len(b) {
		return false
	}
	for i := range a {
		if a[i] != b[i] {
			return false
		}
	}
	return true
}

// =====================================================================================================
// dumb.Model
// =====================================================================================================

const c02dumbVar = "ObjectiveValue"

func (r *c02dumbRun) dumbObs(ms []*dumb.Model) [][]int64 {
	res := make([][]int64, len(ms))
	for i, m := range ms {
		v := m.DecisionVariable(c02dumbVar)
		u := v.(variable.UndoableDecisionVariable)
		res[i] = []int64{r.grid(v.Value(), 1000), r.grid(m.DecisionVariableChange(c02dumbVar), 1000), r.grid(u.UndoableValue(), 1000)}
	}
	return res
}

// parameter palette (thousandths): the initial value on, next to and outside [Minimum, Maximum]; narrow, wide,
// degenerate and inverted ranges
func (r *c02dumbRun) dumbPalette() (init, mn, mx int64) {
	p := r.p
	mn = []int64{0, -5000, 1500000, 500, -2250, 999000, 0}[p.intn(7)]
	width := []int64{0, 1000, 2000, 3000, 500, 1000000, -1000, 2000000}[p.intn(8)]
	mx = mn + width
	switch p.intn(13) {
	case 0:
		init = mn - 2000
	case 1:
		init = mn - 1000
	case 2:
		init = mn - 1
	case 3:
		init = mn
	case 4:
		init = mn + 1
	case 5:
		init = mn + 1000
	case 6:
		init = (mn + mx) / 2
	case 7:
		init = mx - 1000
	case 8:
		init = mx - 1
	case 9:
		init = mx
	case 10:
		init = mx + 1
	case 11:
		init = mx + 1000
	default:
		init = mx + 2000
	}
	return
}

func (r *c02dumbRun) dumbHistory(length int, script []J) {
	p := r.p
	ms := []*dumb.Model{dumb.NewModel()}
	var ops []J
	var steps []J
	initObs := r.dumbObs(ms)
	// oracle memory per handle: value before a proposal that is still undecided / that was just accepted
	tryFrom := []*int64{nil}
	undoFrom := []*int64{nil}
	planned := []string{}
	if script == nil && p.chance(0.85) {
		planned = append(planned, "SETP")
	}
	if script == nil && p.chance(0.9) {
		planned = append(planned, "INIT")
	}
	if script != nil {
		length = len(script)
	}
	for step := 0; step < length; step++ {
		h := p.intn(len(ms))
		var kind string
		var preset J
		if script != nil {
			preset = script[step]
			kind, h = preset["op"].(string), preset["h"].(int)
		} else if len(planned) > 0 {
			kind, planned = planned[0], planned[1:]
			h = 0
		} else if tryFrom[h] != nil && p.chance(0.7) {
			kind = []string{"ACCEPT", "REVERT", "ACCEPT", "REVERT", "VALID"}[p.intn(5)]
		} else {
			x := p.intn(100)
			switch {
			case x < 30:
				kind = "TRY"
			case x < 45:
				kind = "ACCEPT"
			case x < 58:
				kind = "REVERT"
			case x < 68:
				kind = "DO"
			case x < 76:
				kind = "UNDO"
			case x < 80:
				kind = "VALID"
			case x < 88:
				kind = "CLONE"
			case x < 91:
				kind = "SETACT"
			case x < 94:
				kind = "SETACTU"
			case x < 97:
				kind = "INIT"
			default:
				kind = "SETP"
			}
		}
		if kind == "CLONE" && len(ms) >= 4 {
			kind = "TRY"
		}
		m := ms[h]
		var asModel model.Model = m
		op := J{"op": kind, "h": h}
		before := r.dumbObs(ms)
		valid := true
		switch kind {
		case "SETP":
			init, mn, mx := r.dumbPalette()
			prm := parameters.Map{}
			full := p.chance(0.75)
			if preset != nil {
				full, init, mn, mx = true, int64(preset["init"].(int)), int64(preset["min"].(int)), int64(preset["max"].(int))
			}
			if full || p.chance(0.5) {
				prm[dumb.InitialObjectiveValue] = float64(init) / 1000
				op["init"] = init
			}
			if full || p.chance(0.5) {
				prm[dumb.MinimumObjectiveValue] = float64(mn) / 1000
				op["min"] = mn
			}
			if full || p.chance(0.5) {
				prm[dumb.MaximumObjectiveValue] = float64(mx) / 1000
				op["max"] = mx
			}
			if err := m.SetParameters(prm); err != nil {
				r.oracle("dumb", "SetParameters rejected a decimal parameter map: "+err.Error(), append(ops, op), nil)
			}
		case "INIT":
			asModel.Initialise(model.InitialisationType(p.intn(3)))
		case "TRY", "DO":
			up := p.chance(0.5)
			if preset != nil {
				up = preset["up"].(bool)
			}
			op["up"] = up
			pick := 0
			if up {
				pick = 1
			}
			m.SetRandomNumberGenerator(c02dumbScript(pick)) // Initialise and DeepClone install time-seeded generators
			if kind == "TRY" {
				asModel.TryRandomChange()
			} else {
				asModel.DoRandomChange()
			}
		case "VALID":
			v, _ := asModel.ChangeIsValid()
			valid = v
		case "ACCEPT":
			asModel.AcceptChange()
		case "REVERT":
			asModel.RevertChange()
		case "UNDO":
			asModel.UndoChange()
		case "SETACT", "SETACTU":
			i, b := p.intn(3), p.chance(0.5)
			op["i"], op["b"] = i, b
			if kind == "SETACT" {
				asModel.SetManagementAction(i, b)
			} else {
				asModel.SetManagementActionUnobserved(i, b)
			}
		case "CLONE":
			ms = append(ms, asModel.DeepClone().(*dumb.Model))
			tryFrom = append(tryFrom, nil)
			undoFrom = append(undoFrom, nil)
		}
		ops = append(ops, op)
		after := r.dumbObs(ms)
		steps = append(steps, J{"h": h, "op": op, "valid": valid, "obs": after})
		r.stats["dumb_op:"+kind]++

		// ---------------- implementation-side oracle ----------------
		bad := ""
		for j := range before {
			if j != h && !c02dumbEqI(before[j], after[j]) {
				bad = "an operation on one dumb model moved what another model (its clone / its original) reports"
			}
		}
		bv, av := before[h][0], after[h][0]
		switch kind {
		case "TRY":
			if av != bv {
				bad = "the reported value changed while the change was only proposed"
			}
			want := int64(-1000)
			if op["up"].(bool) {
				want = 1000
			}
			if after[h][1] != want {
				bad = "the change reported for the proposal is not the proposed +/-1"
			}
			if after[h][2] != bv+want {
				bad = "the undoable value reported for the proposal is not value + proposed change"
			}
			x := bv
			tryFrom[h], undoFrom[h] = &x, nil
		case "ACCEPT":
			if tryFrom[h] != nil {
				if av != bv+before[h][1] {
					bad = "accept did not move ObjectiveValue by the change reported for the proposal"
				}
				if after[h][1] != before[h][1] {
					bad = "the reported change was rewritten by accepting it"
				}
				undoFrom[h], tryFrom[h] = tryFrom[h], nil
				r.stats["dumb_accept_of_pending"]++
			}
		case "REVERT", "UNDO":
			if tryFrom[h] != nil {
				if av != *tryFrom[h] {
					bad = "revert did not restore ObjectiveValue to its value before the proposal"
				}
				r.stats["dumb_revert_of_pending"]++
			} else if undoFrom[h] != nil {
				if av != *undoFrom[h] {
					bad = "undoing the accepted change did not restore ObjectiveValue"
				}
				r.stats["dumb_undo_of_accepted"]++
			}
			tryFrom[h], undoFrom[h] = nil, nil
		case "DO":
			if av != bv+after[h][1] || (after[h][1] != 1000 && after[h][1] != -1000) {
				bad = "DoRandomChange did not move ObjectiveValue by the change it reports (+/-1)"
			}
			x := bv
			tryFrom[h], undoFrom[h] = nil, &x
		case "VALID":
			if !valid {
				bad = "ChangeIsValid of the dumb model returned false"
			}
			if !c02dumbEqI(before[h], after[h]) {
				bad = "ChangeIsValid changed what the model reports"
			}
		case "INIT", "SETACT", "SETACTU", "CLONE":
			if !c02dumbEqI(before[h], after[h]) {
				bad = kind + " changed what the dumb model reports"
			}
			if kind == "CLONE" {
				c := after[len(after)-1]
				if c[0] != av {
					bad = "a DeepClone does not report its original's value"
				}
			}
		case "SETP":
			if iv, ok := op["init"]; ok && av != iv.(int64) {
				bad = "SetParameters did not install InitialObjectiveValue as the value"
			}
			tryFrom[h], undoFrom[h] = nil, nil
		}
		if bad != "" {
			r.oracle("dumb", bad, ops, J{"before": before, "after": after})
			break
		}
	}
	emit(J{"kind": "dumbcase", "init": initObs, "steps": steps})
	r.stats["dumb_cases"]++
	r.stats["dumb_steps"] += len(steps)
}

// =====================================================================================================
// modumb.Model
// =====================================================================================================

type c02dumbMObs struct {
	Init     bool      `json:"init"`
	Active   []int     `json:"active"`
	Totals   []int64   `json:"totals"`
	Changes  []int64   `json:"changes"`
	Undoable []int64   `json:"undoable"`
	Vals     [][]int64 `json:"vals"`
	Enc      string    `json:"enc"`
	BadKey   bool      `json:"-"`
}

func (a *c02dumbMObs) sameValues(b *c02dumbMObs) bool {
	if a.Init != b.Init || len(a.Vals) != len(b.Vals) {
		return false
	}
	if !c02dumbEqI(a.Totals, b.Totals) {
		return false
	}
	for k := range a.Vals {
		if !c02dumbEqI(a.Vals[k], b.Vals[k]) {
			return false
		}
	}
	return true
}

// what the property calls "every observable": action states, totals, per-unit values, solution encoding
func (a *c02dumbMObs) sameObservables(b *c02dumbMObs) bool {
	if !a.sameValues(b) || a.Enc != b.Enc || len(a.Active) != len(b.Active) {
		return false
	}
	for i := range a.Active {
		if a.Active[i] != b.Active[i] {
			return false
		}
	}
	return true
}

func (a *c02dumbMObs) same(b *c02dumbMObs) bool {
	return a.sameObservables(b) && c02dumbEqI(a.Changes, b.Changes) && c02dumbEqI(a.Undoable, b.Undoable)
}

func (a *c02dumbMObs) settled() bool {
	for k := range a.Changes {
		if a.Changes[k] != 0 || a.Undoable[k] != 0 {
			return false
		}
	}
	return true
}

func (r *c02dumbRun) modumbObsOne(m *modumb.Model) *c02dumbMObs {
	o := &c02dumbMObs{}
	acts := m.ManagementActions()
	o.Active = make([]int, len(acts))
	for i, a := range acts {
		if a.IsActive() {
			o.Active[i] = 1
		}
	}
	o.Enc = new(archive.ModelCompressor).Compress(m).Encoding()
	if len(m.DecisionVariableNames()) == 0 {
		return o
	}
	o.Init = true
	units := len(acts) / 3
	if units < 1 {
		units = 1
	}
	for _, name := range modumb.Objectives {
		v := m.DecisionVariable(name)
		o.Totals = append(o.Totals, r.grid(v.Value(), 100))
		o.Changes = append(o.Changes, r.grid(m.DecisionVariableChange(name), 100))
		o.Undoable = append(o.Undoable, r.grid(v.(variable.UndoableDecisionVariable).UndoableValue(), 100))
		pv := v.(variable.PlanningUnitDecisionVariable)
		row := make([]int64, units)
		for pu := 0; pu < units; pu++ {
			row[pu] = r.grid(pv.PlanningUnitValue(planningunit.Id(pu)), 100)
		}
		o.Vals = append(o.Vals, row)
		for key := range pv.ValuesPerPlanningUnit() {
			if int(key) >= units {
				o.BadKey = true
			}
		}
	}
	return o
}

func (r *c02dumbRun) modumbObs(ms []*modumb.Model) []*c02dumbMObs {
	res := make([]*c02dumbMObs, len(ms))
	for i, m := range ms {
		res[i] = r.modumbObsOne(m)
	}
	return res
}

func c02dumbMObsJSON(os []*c02dumbMObs) []interface{} {
	res := make([]interface{}, len(os))
	for i, o := range os {
		if o.Init {
			res[i] = o
		} else {
			res[i] = nil
		}
	}
	return res
}

// initial objective values: on and off the hundredths grid, exact binary ties (x.xx5 with an exact float),
// negative, zero, large
var c02dumbMInits = []float64{0, 1000, 2000, 3000, 0.125, -0.125, 12.344, -7.5, 0.004, -0.006, 1000000.37, 5.5, 0.375, -1234.5625, 99.996, 3.14159}

func (r *c02dumbRun) modumbHistory(length int, npus []int, script []J) {
	p := r.p
	ms := []*modumb.Model{modumb.NewModel()}
	var ops []J
	var steps []J
	initObs := r.modumbObs(ms)
	// harness-side bookkeeping for the oracle (NOT used to produce expected outputs): which handles were built by the
	// same Initialise (clones share everything until they are initialised themselves), and where each handle's
	// last-applied action lives
	nextGroup := 1
	group := []int{0}
	lastGroup := []int{-1} // -1: nil or the null action
	lastNil := []bool{true}
	type pending struct {
		all     []*c02dumbMObs // every handle before the proposal
		settled bool
		act     int
	}
	var tryFrom *pending  // the previous operation of the history was a proposal on handle tryH
	var undoFrom *pending // the previous operations were proposal + accept (or DoRandomChange) on handle tryH
	tryH := -1
	planned := []string{}
	if script == nil && p.chance(0.9) {
		planned = append(planned, "SETP")
	}
	if script == nil && p.chance(0.93) {
		planned = append(planned, "INIT")
	}
	if script != nil {
		length = len(script)
	}
	for step := 0; step < length; step++ {
		h := p.intn(len(ms))
		var kind string
		var preset J
		if script != nil {
			preset = script[step]
			kind, h = preset["op"].(string), preset["h"].(int)
		} else if len(planned) > 0 {
			kind, planned = planned[0], planned[1:]
			if kind != "INIT!" {
				h = 0
			}
		} else if tryFrom != nil && p.chance(0.75) {
			kind = []string{"ACCEPT", "REVERT", "ACCEPT", "REVERT", "VALID"}[p.intn(5)]
			h = tryH
		} else if undoFrom != nil && p.chance(0.3) {
			kind = "UNDO"
			h = tryH
		} else {
			x := p.intn(100)
			switch {
			case x < 34:
				kind = "TRY"
			case x < 44:
				kind = "ACCEPT"
			case x < 53:
				kind = "REVERT"
			case x < 63:
				kind = "DO"
			case x < 68:
				kind = "UNDO"
			case x < 71:
				kind = "VALID"
			case x < 78:
				kind = "CLONE"
			case x < 85:
				kind = "SETACT"
			case x < 92:
				kind = "SETACTU"
			case x < 96:
				kind = "INIT"
			default:
				kind = "SETP"
			}
		}
		if kind == "INIT!" {
			kind = "INIT"
			h = len(ms) - 1
		}
		if kind == "CLONE" && len(ms) >= 3 {
			kind = "TRY"
		}
		m := ms[h]
		var asModel model.Model = m
		before := r.modumbObs(ms)
		nact := len(before[h].Active)
		// calls that are known to panic end the history: keep most histories going, but still make some of them
		if script == nil && p.chance(0.85) &&
			(((kind == "REVERT" || kind == "UNDO") && lastNil[h]) || ((kind == "SETACT" || kind == "SETACTU") && nact == 0)) {
			kind = "TRY"
		}
		op := J{"op": kind, "h": h}
		valid := true
		expectPanic := false
		var call func()
		switch kind {
		case "SETP":
			prm := parameters.Map{}
			full := p.chance(0.7)
			for k, key := range []string{"InitialObjectiveOneValue", "InitialObjectiveTwoValue", "InitialObjectiveThreeValue"} {
				if full || p.chance(0.5) {
					f := c02dumbMInits[p.intn(len(c02dumbMInits))]
					prm[key] = f
					op["i"+string(rune('0'+k))] = flOf(f)
				}
			}
			if preset != nil {
				prm = parameters.Map{"NumberOfPlanningUnits": int64(preset["npu"].(int))}
				op = J{"op": kind, "h": h, "npu": preset["npu"]}
			} else if full || p.chance(0.5) {
				n := npus[p.intn(len(npus))]
				prm["NumberOfPlanningUnits"] = int64(n)
				op["npu"] = n
			}
			call = func() {
				if err := m.SetParameters(prm); err != nil {
					r.oracle("modumb", "SetParameters rejected a valid parameter map: "+err.Error(), append(ops, op), nil)
				}
			}
		case "INIT":
			call = func() { asModel.Initialise(model.InitialisationType(p.intn(3))) }
		case "TRY", "DO":
			pick := 0
			if nact > 0 {
				pick = p.intn(nact)
			}
			if preset != nil {
				pick = preset["pick"].(int)
			}
			op["pick"] = pick
			call = func() {
				m.VerifC02SetActionRng(c02dumbScript(pick)) // Initialise installs a time-seeded generator
				if kind == "TRY" {
					asModel.TryRandomChange()
				} else {
					asModel.DoRandomChange()
				}
			}
		case "VALID":
			call = func() { valid, _ = asModel.ChangeIsValid() }
		case "ACCEPT":
			call = asModel.AcceptChange
		case "REVERT":
			call = asModel.RevertChange
			expectPanic = lastNil[h]
		case "UNDO":
			call = asModel.UndoChange
			expectPanic = lastNil[h]
		case "SETACT", "SETACTU":
			i := 0
			if nact > 0 {
				i = p.intn(nact)
			}
			if p.chance(0.04) {
				i = nact + p.intn(2) // out of range: the real code indexes the action slice unchecked
			}
			b := p.chance(0.5)
			op["i"], op["b"] = i, b
			expectPanic = i >= nact
			if kind == "SETACT" {
				call = func() { asModel.SetManagementAction(i, b) }
			} else {
				call = func() { asModel.SetManagementActionUnobserved(i, b) }
			}
		case "CLONE":
			call = func() {
				ms = append(ms, asModel.DeepClone().(*modumb.Model))
				group = append(group, group[h])
				lastGroup = append(lastGroup, lastGroup[h])
				lastNil = append(lastNil, lastNil[h])
			}
			if script == nil && p.chance(0.7) {
				planned = append(planned, "INIT!") // what every user of DeepClone in crem does next
			}
		}
		panicked, what := protect(call)
		ops = append(ops, op)
		r.stats["modumb_op:"+kind]++
		if panicked {
			steps = append(steps, J{"h": h, "op": op, "panic": true, "obs": []interface{}{}})
			r.stats["modumb_panics:"+kind]++
			if !expectPanic {
				r.oracle("modumb", "unexpected panic in "+kind+": "+what, ops, J{"before": before})
			}
			break
		}
		after := r.modumbObs(ms)
		steps = append(steps, J{"h": h, "op": op, "panic": false, "obs": c02dumbMObsJSON(after)})

		// ---------------- implementation-side oracle ----------------
		bad := ""
		b, a := before[h], after[h]
		for j := range before {
			if after[j].BadKey {
				bad = "a per-unit value exists for a planning unit the model does not have"
			}
			if group[j] == group[h] {
				continue
			}
			if (kind == "REVERT" || kind == "UNDO") && lastGroup[h] == group[j] {
				r.stats["modumb_stale_last_applied_toggled_an_action_of_another_model"]++
				continue
			}
			if !before[j].same(after[j]) {
				bad = "an operation on one modumb model moved what an independently initialised model reports"
			}
		}
		flippedOnly := func(i int) bool {
			if len(a.Active) != len(b.Active) {
				return false
			}
			for j := range a.Active {
				if (a.Active[j] != b.Active[j]) != (j == i) {
					return false
				}
			}
			return true
		}
		// the one change an action i going to state `nowActive` makes: objective k = i%3 moves by -/+(k+1) in unit i/3
		movedOnly := func(from, to *c02dumbMObs, i int, nowActive bool) string {
			k, pu := i%3, i/3
			d := int64(-100 * (k + 1))
			if !nowActive {
				d = -d
			}
			for kk := range to.Totals {
				wantT := from.Totals[kk]
				if kk == k {
					wantT += d
				}
				if to.Totals[kk] != wantT {
					return "the total of " + modumb.Objectives[kk] + " did not move by exactly the action's change"
				}
				for u := range to.Vals[kk] {
					wantV := from.Vals[kk][u]
					if kk == k && u == pu {
						wantV += d
					}
					if to.Vals[kk][u] != wantV {
						if u != pu {
							return "a single action change altered a per-unit value outside the action's own planning unit"
						}
						return "a per-unit value did not move by exactly the action's change"
					}
				}
			}
			return ""
		}
		switch kind {
		case "TRY":
			for j := range before {
				if !before[j].sameValues(after[j]) {
					bad = "a reported value (total or per-unit) changed while the change was only proposed"
				}
			}
			if nact > 0 {
				i := op["pick"].(int)
				if !flippedOnly(i) {
					bad = "the proposal did not toggle exactly the picked action"
				}
				k := i % 3
				want := int64(-100 * (k + 1))
				if a.Active[i] == 0 {
					want = -want
				}
				if a.Changes[k] != want {
					bad = "the change reported for the proposal is not the action's -/+(k+1)"
				}
				lastGroup[h] = group[h]
			} else {
				if !b.same(a) {
					bad = "a proposal on a model without actions changed what it reports"
				}
				lastGroup[h] = -1
			}
			lastNil[h] = false
			tryFrom, undoFrom, tryH = &pending{all: before, settled: b.settled(), act: op["pick"].(int)}, nil, h
		case "ACCEPT":
			if a.Init {
				for k := range a.Totals {
					if a.Totals[k] != b.Totals[k]+b.Changes[k] {
						bad = "accept did not move " + modumb.Objectives[k] + " by the change reported for the proposal"
					}
				}
				if !a.settled() {
					bad = "a change is still reported after it was accepted"
				}
			}
			if !flippedOnly(-1) {
				bad = "accept changed an action state"
			}
			if tryFrom != nil && tryH == h && nact > 0 {
				r.stats["modumb_accept_of_pending"]++
				if tryFrom.settled {
					if w := movedOnly(tryFrom.all[h], a, tryFrom.act, a.Active[tryFrom.act] == 1); w != "" {
						bad = w
					}
					undoFrom = tryFrom
				}
			} else {
				undoFrom = nil
			}
			tryFrom = nil
		case "REVERT":
			if tryFrom != nil && tryH == h {
				r.stats["modumb_revert_of_pending"]++
				for j := range tryFrom.all {
					if !tryFrom.all[j].sameObservables(after[j]) {
						bad = "revert did not restore every observable (action states, totals, per-unit values, encoding)"
					}
				}
				if !a.settled() {
					bad = "a change is still reported after it was reverted"
				}
			} else if !b.sameValues(a) {
				bad = "RevertChange without a pending proposal changed reported values"
			}
			tryFrom, undoFrom = nil, nil
		case "UNDO":
			if undoFrom != nil && tryH == h {
				r.stats["modumb_undo_of_accepted"]++
				for j := range undoFrom.all {
					if !undoFrom.all[j].sameObservables(after[j]) {
						bad = "undoing the accepted change did not restore every observable"
					}
				}
			}
			tryFrom, undoFrom = nil, nil
		case "DO":
			if nact > 0 {
				i := op["pick"].(int)
				if !flippedOnly(i) {
					bad = "DoRandomChange did not toggle exactly the picked action"
				}
				if b.settled() {
					if w := movedOnly(b, a, i, a.Active[i] == 1); w != "" {
						bad = w
					}
					tryFrom, undoFrom, tryH = nil, &pending{all: before, settled: true, act: i}, h
				} else {
					tryFrom, undoFrom = nil, nil
				}
				lastGroup[h] = group[h]
			} else {
				lastGroup[h] = -1
				tryFrom, undoFrom = nil, nil
			}
			lastNil[h] = false
		case "VALID":
			if !valid {
				bad = "ChangeIsValid of the modumb model returned false"
			}
			if !b.same(a) {
				bad = "ChangeIsValid changed what the model reports"
			}
		case "SETACTU":
			i := op["i"].(int)
			for j := range before {
				if !before[j].sameValues(after[j]) || !c02dumbEqI(before[j].Changes, after[j].Changes) {
					bad = "SetManagementActionUnobserved changed a reported value"
				}
			}
			want := 0
			if op["b"].(bool) {
				want = 1
			}
			if a.Active[i] != want || !(flippedOnly(i) || flippedOnly(-1)) {
				bad = "SetManagementActionUnobserved did not set exactly the addressed action"
			}
			lastGroup[h], lastNil[h] = group[h], false
			tryFrom, undoFrom = nil, nil
		case "SETACT":
			i := op["i"].(int)
			want := 0
			if op["b"].(bool) {
				want = 1
			}
			if b.Active[i] == want {
				if !b.same(a) {
					bad = "SetManagementAction to the state the action already has changed what the model reports"
				}
			} else {
				if !flippedOnly(i) {
					bad = "SetManagementAction did not set exactly the addressed action"
				}
				if b.settled() {
					if w := movedOnly(b, a, i, want == 1); w != "" {
						bad = w
					}
				}
				lastGroup[h], lastNil[h] = group[h], false
				tryFrom, undoFrom = nil, nil
			}
		case "INIT":
			group[h] = nextGroup
			nextGroup++
			if !a.Init || !a.settled() {
				bad = "Initialise left the model without variables or with a pending change"
			}
			for _, f := range a.Active {
				if f != 0 {
					bad = "Initialise left an action active"
				}
			}
			for j := range before {
				if j != h && !before[j].same(after[j]) {
					bad = "initialising one modumb model moved what another one reports"
				}
			}
			tryFrom, undoFrom = nil, nil
		case "CLONE":
			for j := range before {
				if !before[j].same(after[j]) {
					bad = "DeepClone changed what a model reports"
				}
			}
			if !after[len(after)-1].same(a) {
				bad = "a DeepClone does not report what its original reports"
			}
		case "SETP":
			for j := range before {
				if !before[j].same(after[j]) {
					bad = "SetParameters changed what an initialised model reports"
				}
			}
		}
		if bad != "" {
			r.oracle("modumb", bad, ops, J{"before": c02dumbMObsJSON(before), "after": c02dumbMObsJSON(after)})
			break
		}
	}
	emit(J{"kind": "modumbcase", "init": c02dumbMObsJSON(initObs), "steps": steps})
	r.stats["modumb_cases"]++
	r.stats["modumb_steps"] += len(steps)
}

// c02dumbMain: the toy-model stream of C02
func c02dumbMain(args []string) {
	tier := "quick"
	if len(args) > 0 {
		tier = args[0]
	}
	r := &c02dumbRun{p: newPrng(20202), stats: map[string]int{}}
	nDumb, nModumb := 240, 260
	npus := []int{0, 1, 2, 3, 5}
	if tier == "thorough" {
		nDumb, nModumb = 3000, 3000
		npus = []int{0, 1, 2, 3, 4, 5, 7}
	}
	// the witness histories of Properties/C02.v (what does NOT hold for the code as it is), on the real code:
	// they are cases like any other, so the correspondence ties the real behaviour to the Examples' figures
	o := func(kind string, h int, kv ...interface{}) J {
		j := J{"op": kind, "h": h}
		for i := 0; i+1 < len(kv); i += 2 {
			j[kv[i].(string)] = kv[i+1]
		}
		return j
	}
	r.dumbHistory(0, []J{o("ACCEPT", 0)})                // accept without a proposal: value := 0
	r.dumbHistory(0, []J{o("CLONE", 0), o("ACCEPT", 1)}) // the same on a fresh clone
	r.dumbHistory(0, []J{o("SETP", 0, "init", 0, "min", 0, "max", 2000000), o("INIT", 0), o("TRY", 0, "up", false), o("ACCEPT", 0)})
	one := o("SETP", 0, "npu", 1)
	r.modumbHistory(0, npus, []J{one, o("INIT", 0), o("CLONE", 0), o("DO", 1, "pick", 0)})                               // clone shares state
	r.modumbHistory(0, npus, []J{one, o("INIT", 0), o("DO", 0, "pick", 0), o("CLONE", 0), o("INIT", 1), o("REVERT", 1)}) // stale lastApplied
	r.modumbHistory(0, npus, []J{one, o("INIT", 0), o("TRY", 0, "pick", 0), o("ACCEPT", 0), o("REVERT", 0)})             // revert after accept
	r.modumbHistory(0, npus, []J{o("INIT", 0), o("REVERT", 0)})                                                          // nil lastApplied: panic
	r.modumbHistory(0, npus, []J{o("INIT", 0), o("UNDO", 0)})
	r.modumbHistory(0, npus, []J{o("SETP", 0, "npu", 2), o("INIT", 0), o("TRY", 0, "pick", 3)}) // UndoableValue is per unit
	for c := 0; c < nDumb; c++ {
		r.dumbHistory(6+r.p.intn(26), nil)
	}
	for c := 0; c < nModumb; c++ {
		r.modumbHistory(6+r.p.intn(30), npus, nil)
	}
	r.stats["offgrid"] = r.offGrid
	r.stats["oracle_failures"] = r.fails
	emit(J{"kind": "stat", "stats": r.stats})
}
