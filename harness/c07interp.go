//go:build verif

package main

// C07, construction route: annealers built by ONE configuration interpreter (a parameter sweep, a comparison of two
// configurations) are separate annealers -- each runs its own loop from its own starting temperature with its own
// cooling factor, whatever was built or run before or after it.

import (
	"fmt"
	"math"

	"github.com/LindsayBradford/crem/internal/pkg/annealing"
	"github.com/LindsayBradford/crem/internal/pkg/annealing/explorer"
	"github.com/LindsayBradford/crem/internal/pkg/config/data"
	"github.com/LindsayBradford/crem/internal/pkg/config/interpreter"
	"github.com/LindsayBradford/crem/internal/pkg/model/models/dumb"
	"github.com/LindsayBradford/crem/internal/pkg/model/models/modumb"
	"github.com/LindsayBradford/crem/internal/pkg/observer"
	"github.com/LindsayBradford/crem/internal/pkg/parameters"
	"github.com/LindsayBradford/crem/pkg/logging/loggers"
)

type c07TempObs struct{ temps []float64 }

func (o *c07TempObs) ObserveEvent(e observer.Event) {
	if e.EventType != observer.StartedAnnealing && e.EventType != observer.FinishedIteration {
		return
	}
	if t, ok := e.Attribute(explorer.Temperature).(float64); ok {
		o.temps = append(o.temps, t)
	}
}

func c07OneInterpreter() {
	type cfg struct {
		t0, a float64
		n     int64
	}
	cfgs := []cfg{{100, 0.5, 4}, {8, 0.25, 3}, {40, 1, 2}}
	for _, at := range []data.AnnealerType{data.Kirkpatrick, data.Suppapitnarm, data.AveragedSuppapitnarm} {
		interp := interpreter.NewAnnealerConfigInterpreter()
		var built []annealing.Annealer
		usable := true
		for _, c := range cfgs {
			prm := parameters.Map{"MaximumIterations": c.n, "StartingTemperature": c.t0, "CoolingFactor": c.a}
			if at == data.Kirkpatrick {
				prm["DecisionVariable"] = "ObjectiveValue"
			}
			a := interp.Interpret(&data.AnnealerConfig{Type: at, Parameters: prm}).Annealer()
			if interp.Errors() != nil {
				usable = false
				break
			}
			if at == data.Kirkpatrick {
				a.SetModel(dumb.NewModel())
			} else {
				a.SetModel(modumb.NewModel())
			}
			a.SetLogHandler(new(loggers.NullLogger))
			built = append(built, a)
		}
		if !usable {
			continue
		}
		// run them in build order AFTER all have been built, each as the scenario runner would: on a clone
		for i, c := range cfgs {
			obs := &c07TempObs{}
			run := built[i].DeepClone()
			run.AddObserver(obs)
			if p, v := c07Catch(run.Anneal); p {
				emit(J{"kind": "oracle", "what": fmt.Sprint("an annealer built by a shared configuration interpreter panicked: ", v), "annealer_type": fmt.Sprint(at), "configuration": i})
				continue
			}
			want := []float64{c.t0}
			for k := int64(0); k < c.n; k++ {
				want = append(want, want[len(want)-1]*c.a)
			}
			ok := len(obs.temps) == len(want)
			for k := 0; ok && k < len(want); k++ {
				ok = math.Float64bits(obs.temps[k]) == math.Float64bits(want[k])
			}
			if !ok {
				emit(J{"kind": "oracle", "what": "annealers built one after another by ONE configuration interpreter are not independent: the temperatures of a run are not T0*a^k for that annealer's own T0 and a",
					"annealer_type": fmt.Sprint(at), "configuration": i, "T0": c.t0, "a": c.a, "N": c.n, "temperatures_observed": obs.temps, "temperatures_expected": want})
			}
			c07Stats["one_interpreter_runs"]++
		}
	}
}
