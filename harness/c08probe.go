//go:build verif

package main

// C08, part (4): the one mutable object the runs of a scenario share by design — the result saver's decompression
// model.  The probe wraps that model in a forwarding model which records every access of a real save together with
// the state of Saver.decompressionMutex, and turns the recording into the instruction sequence (Lock / load k /
// read filed under k / Unlock) of SharedSection.v; the Coq side checks that the sequence keeps the lock discipline
// (theorem C08_shared_saver_reads_are_own then covers every interleaving of every number of runs).
// Search: when an access happens outside the lock, the probe lets a second run save its (different) result at
// exactly that point and checks the first run's written rows against a fresh evaluation of each row's encoding.

import (
	"fmt"
	"os"
	"path/filepath"
	"sort"

	solenc "github.com/LindsayBradford/crem/internal/pkg/annealing/solution/encoding"
	"github.com/LindsayBradford/crem/internal/pkg/model"
	"github.com/LindsayBradford/crem/internal/pkg/model/action"
	modelarchive "github.com/LindsayBradford/crem/internal/pkg/model/archive"
	"github.com/LindsayBradford/crem/internal/pkg/model/planningunit"
	"github.com/LindsayBradford/crem/internal/pkg/model/variable"
	"github.com/LindsayBradford/crem/internal/pkg/observer"
	"github.com/LindsayBradford/crem/internal/pkg/scenario"
	"github.com/LindsayBradford/crem/pkg/attributes"
	"github.com/LindsayBradford/crem/pkg/logging/loggers"
)

type c08ProbeModel struct {
	model.Model
	access func(method string, write bool)
}

func (p *c08ProbeModel) Initialise(t model.InitialisationType) {
	p.access("Initialise", true)
	p.Model.Initialise(t)
}
func (p *c08ProbeModel) SetManagementAction(i int, v bool) {
	p.access("SetManagementAction", true)
	p.Model.SetManagementAction(i, v)
}
func (p *c08ProbeModel) SetManagementActionUnobserved(i int, v bool) {
	p.access("SetManagementActionUnobserved", true)
	p.Model.SetManagementActionUnobserved(i, v)
}
func (p *c08ProbeModel) SynchroniseTo(m model.Model) {
	p.access("SynchroniseTo", true)
	p.Model.SynchroniseTo(m)
}
func (p *c08ProbeModel) Randomize() { p.access("Randomize", true); p.Model.Randomize() }
func (p *c08ProbeModel) NameMappedVariables() *variable.DecisionVariableMap {
	p.access("NameMappedVariables", false)
	return p.Model.NameMappedVariables()
}
func (p *c08ProbeModel) DecisionVariable(name string) variable.DecisionVariable {
	p.access("DecisionVariable", false)
	return p.Model.DecisionVariable(name)
}
func (p *c08ProbeModel) PlanningUnits() planningunit.Ids {
	p.access("PlanningUnits", false)
	return p.Model.PlanningUnits()
}
func (p *c08ProbeModel) ManagementActions() []action.ManagementAction {
	p.access("ManagementActions", false)
	return p.Model.ManagementActions()
}
func (p *c08ProbeModel) ActiveManagementActions() []action.ManagementAction {
	p.access("ActiveManagementActions", false)
	return p.Model.ActiveManagementActions()
}

// a private copy is nobody else's business: it is returned unwrapped
func (p *c08ProbeModel) DeepClone() model.Model {
	p.access("DeepClone", false)
	return p.Model.DeepClone()
}

// attributes.Interface, forwarded (SolutionBuilder.transferAttributes asserts for it)
func (p *c08ProbeModel) attrs() attributes.Interface { return p.Model.(attributes.Interface) }
func (p *c08ProbeModel) HasAttribute(n string) bool {
	p.access("HasAttribute", false)
	return p.attrs().HasAttribute(n)
}
func (p *c08ProbeModel) Attribute(n string) interface{} {
	p.access("Attribute", false)
	return p.attrs().Attribute(n)
}
func (p *c08ProbeModel) AllAttributes() attributes.Attributes {
	p.access("AllAttributes", false)
	return p.attrs().AllAttributes()
}
func (p *c08ProbeModel) AddAttribute(n string, v interface{}) {
	p.access("AddAttribute", true)
	p.attrs().AddAttribute(n, v)
}
func (p *c08ProbeModel) RenameAttribute(a, b string) {
	p.access("RenameAttribute", true)
	p.attrs().RenameAttribute(a, b)
}
func (p *c08ProbeModel) ReplaceAttribute(n string, v interface{}) {
	p.access("ReplaceAttribute", true)
	p.attrs().ReplaceAttribute(n, v)
}
func (p *c08ProbeModel) RemoveAttribute(n string) {
	p.access("RemoveAttribute", true)
	p.attrs().RemoveAttribute(n)
}
func (p *c08ProbeModel) JoiningAttributes(a attributes.Attributes) {
	p.access("JoiningAttributes", true)
	p.attrs().JoiningAttributes(a)
}

type c08Access struct {
	method string
	write  bool
	held   bool
}

func c08ProbeEvent(fam string, fx *c12fixture, memberBits [][]bool, run string) *observer.Event {
	event := observer.NewEvent(observer.FinishedAnnealing)
	work := fx.base.DeepClone()
	work.Initialise(model.AsIs)
	if fam == "multi" {
		a := modelarchive.New()
		a.SetId(run)
		for _, bits := range memberBits {
			c12apply(work, bits)
			a.ForceIntoArchive(work)
		}
		if a.Len() != len(memberBits) {
			panic("c08probe: archive did not keep the generated members")
		}
		event.WithAttribute(scenario.ModelArchive, *a)
	} else {
		c12apply(work, memberBits[0])
		st := new(modelarchive.ModelCompressor).Compress(work)
		st.SetId(run)
		event.WithAttribute(scenario.CompressedModel, *st)
	}
	return event
}

// one save of run A's result through a fresh saver; when hookAt > 0, run B saves its own result at the hookAt-th
// access that happens outside the lock.  Returns the access recording and A's parsed summary.
func c08ProbeSave(fam string, fx *c12fixture, membersA, membersB [][]bool, hookAt int, tmp string) ([]c08Access, c12saveObs) {
	dirA := filepath.Join(tmp, fmt.Sprintf("A-%s-%d", fam, hookAt))
	dirB := filepath.Join(tmp, fmt.Sprintf("B-%s-%d", fam, hookAt))
	saver := scenario.NewSaver().WithOutputType(solenc.OutputType("CSV")).WithOutputLevel(scenario.OutputLevel("Summary")).
		WithLogHandler(new(loggers.NullLogger)).WithOutputPath(dirA)
	saver.SetDecompressionModel(fx.base)
	var rec []c08Access
	unheld := 0
	inHook := false
	eventB := c08ProbeEvent(fam, fx, membersB, "probe (2/2)")
	saver.VerifC08WrapDecompressionModel(func(m model.Model) model.Model {
		return &c08ProbeModel{Model: m, access: func(method string, write bool) {
			if inHook {
				return
			}
			held := saver.VerifC08DecompressionLockHeld()
			rec = append(rec, c08Access{method, write, held})
			if !held {
				unheld++
				if hookAt > 0 && unheld == hookAt {
					inHook = true
					saver.WithOutputPath(dirB)
					saver.ObserveEvent(*eventB)
					saver.WithOutputPath(dirA)
					inHook = false
				}
			}
		}}
	})
	obs := c12saveObs{Listing: []string{}, Rows: []c12row{}, Header: []string{}}
	p, what := protect(func() { saver.ObserveEvent(*c08ProbeEvent(fam, fx, membersA, "probe (1/2)")) })
	if p {
		obs.Panicked = what
	}
	entries, _ := os.ReadDir(dirA)
	for _, e := range entries {
		obs.Listing = append(obs.Listing, e.Name())
	}
	sort.Strings(obs.Listing)
	if !p {
		c12parseSummary(&obs, dirA, "CSV")
	}
	os.RemoveAll(dirA)
	os.RemoveAll(dirB)
	return rec, obs
}

// a logger that calls back on every Info/Debug line: the saver and its encoders log between the critical sections of a
// save, which is where another run's save can slip in without any lock being violated
type c08HookLogger struct {
	loggers.NullLogger
	hook func()
}

func (l *c08HookLogger) Info(message interface{}) {
	if l.hook != nil {
		l.hook()
	}
}
func (l *c08HookLogger) Debug(message interface{}) {
	if l.hook != nil {
		l.hook()
	}
}

// one Detail-level save of run A's result; run B saves its whole result at the hookAt-th log line that is written
// while the mutex is free (i.e. BETWEEN two critical sections of A's save).  Returns how many such lines there were.
func c08ProbeSaveBetween(fam string, fx *c12fixture, membersA, membersB [][]bool, hookAt int, tmp string) (int, c12saveObs) {
	dirA := filepath.Join(tmp, fmt.Sprintf("bA-%s-%d", fam, hookAt))
	dirB := filepath.Join(tmp, fmt.Sprintf("bB-%s-%d", fam, hookAt))
	logger := &c08HookLogger{}
	saver := scenario.NewSaver().WithOutputType(solenc.OutputType("CSV")).WithOutputLevel(scenario.OutputLevel("Detail")).
		WithLogHandler(logger).WithOutputPath(dirA)
	saver.SetDecompressionModel(fx.base)
	eventB := c08ProbeEvent(fam, fx, membersB, "probe (2/2)")
	free, inHook := 0, false
	logger.hook = func() {
		if inHook || saver.VerifC08DecompressionLockHeld() {
			return
		}
		free++
		if hookAt > 0 && free == hookAt {
			inHook = true
			saver.WithOutputPath(dirB)
			saver.ObserveEvent(*eventB)
			saver.WithOutputPath(dirA)
			inHook = false
		}
	}
	obs := c12saveObs{Listing: []string{}, Rows: []c12row{}, Header: []string{}}
	p, what := protect(func() { saver.ObserveEvent(*c08ProbeEvent(fam, fx, membersA, "probe (1/2)")) })
	if p {
		obs.Panicked = what
	}
	entries, _ := os.ReadDir(dirA)
	for _, e := range entries {
		obs.Listing = append(obs.Listing, e.Name())
	}
	sort.Strings(obs.Listing)
	if !p {
		c12parseSummary(&obs, dirA, "CSV")
	}
	os.RemoveAll(dirA)
	os.RemoveAll(dirB)
	return free, obs
}

// instruction sequence of SharedSection.v from an access recording: maximal runs of accesses with the lock held
// are wrapped in acq/rel; a maximal run of writes is one load (numbered), a read is filed under the latest load
func c08ProbeProgram(rec []c08Access) (prog []interface{}, unlocked []string) {
	prog = []interface{}{}
	unlocked = []string{}
	seen := map[string]bool{}
	held, phase, lastWrite := false, 0, false
	for _, a := range rec {
		if a.held != held {
			if a.held {
				prog = append(prog, "acq")
			} else {
				prog = append(prog, "rel")
			}
			held = a.held
			lastWrite = false
		}
		if !a.held && !seen[a.method] {
			seen[a.method] = true
			unlocked = append(unlocked, a.method)
		}
		if a.write {
			if !lastWrite {
				phase++
				prog = append(prog, []interface{}{"ld", phase})
			}
			lastWrite = true
		} else {
			prog = append(prog, []interface{}{"rd", phase})
			lastWrite = false
		}
	}
	if held {
		prog = append(prog, "rel")
	}
	sort.Strings(unlocked)
	return
}

// rows of a summary that are not the fresh evaluation of their own encoding, or not the members handed in
func c08ProbeWrongRows(obs c12saveObs, members [][]bool, nActions int, fam string) []J {
	bad := []J{}
	if obs.Panicked != "" || obs.Problem != "" {
		return append(bad, J{"panicked": obs.Panicked, "problem": obs.Problem})
	}
	want := 1 + len(members)
	if fam != "multi" {
		want = 2
	}
	if len(obs.Rows) != want {
		return append(bad, J{"rows": len(obs.Rows), "expected_rows": want})
	}
	for i, row := range obs.Rows {
		bits := make([]bool, nActions)
		if i > 0 {
			bits = members[i-1]
		}
		if row.Enc != c12encodingOf(bits) {
			bad = append(bad, J{"row": i, "label": row.Label, "enc": row.Enc, "expected_enc": c12encodingOf(bits)})
			continue
		}
		fresh := c12freshEval(row.Enc, nActions)
		same := len(fresh) == len(row.Vars)
		for k := 0; same && k < len(fresh); k++ {
			same = fresh[k] == row.Vars[k]
		}
		if !same {
			bad = append(bad, J{"row": i, "label": row.Label, "enc": row.Enc, "written": row.Vars, "fresh": fresh})
		}
	}
	return bad
}

func c08SaverProbe() {
	tmp, _ := os.MkdirTemp("", "c08probe")
	defer os.RemoveAll(tmp)
	// the shipped data set names its companion files relative to the catchment package directory (as C12 does)
	wd, _ := os.Getwd()
	if err := os.Chdir(filepath.Join(wd, "internal/pkg/model/models/catchment")); err != nil {
		panic(err)
	}
	defer os.Chdir(wd)
	rng := newPrng(0xC08B)
	fx := &c12fixture{base: c12newModel()}
	nActions := len(fx.base.ManagementActions())
	for _, fam := range []string{"multi", "single"} {
		n := 3 + rng.intn(3)
		if fam == "single" {
			n = 1
		}
		all := c12members(rng, fx, 2*n, nActions)
		membersA, membersB := all[:n], all[n:]
		rec, obs := c08ProbeSave(fam, fx, membersA, membersB, 0, tmp)
		prog, unlocked := c08ProbeProgram(rec)
		solo := c08ProbeWrongRows(obs, membersA, nActions, fam)
		tried, wrong := 0, 0
		if len(unlocked) > 0 {
			nUnheld := 0
			for _, a := range rec {
				if !a.held {
					nUnheld++
				}
			}
			// search: let the other run save at the k-th unprotected access
			step := 1
			if nUnheld > 12 {
				step = nUnheld / 12
			}
			for k := 1; k <= nUnheld; k += step {
				_, obsK := c08ProbeSave(fam, fx, membersA, membersB, k, tmp)
				tried++
				if bad := c08ProbeWrongRows(obsK, membersA, nActions, fam); len(bad) > 0 {
					wrong++
					if wrong <= 2 {
						emit(J{"kind": "oracle", "what": "two runs saving through the scenario's one saver: run 2 saved its result while run 1 was between two accesses of the shared decompression model made outside decompressionMutex; run 1's summary then holds rows that are not the model's values for the row's own action encoding (one run's result leaked into another's)",
							"family": fam, "other_run_saves_at_unprotected_access": k, "unprotected_methods": unlocked, "wrong_rows_of_run_1": bad})
						c08stats["oracle_lines"]++
					}
				}
			}
		}
		// interleavings that violate no lock: the other run's whole save between two critical sections of this one
		nFree, _ := c08ProbeSaveBetween(fam, fx, membersA, membersB, 0, tmp)
		between, betweenWrong := 0, 0
		for k := 1; k <= nFree && k <= 16; k++ {
			_, obsK := c08ProbeSaveBetween(fam, fx, membersA, membersB, k, tmp)
			between++
			if bad := c08ProbeWrongRows(obsK, membersA, nActions, fam); len(bad) > 0 {
				betweenWrong++
				if betweenWrong <= 2 {
					emit(J{"kind": "oracle", "what": "two runs saving through the scenario's one saver: run 2 saved its whole result between two critical sections of run 1's save (the mutex was free, no lock discipline violated); run 1's summary then holds rows that are not the model's values for the row's own action encoding, or not run 1's solutions",
						"family": fam, "other_run_saves_at_free_log_line": k, "wrong_rows_of_run_1": bad})
					c08stats["oracle_lines"]++
				}
			}
		}
		c08stats["saver_probe_between_section_interleavings"] += between
		if len(solo) > 0 {
			emit(J{"kind": "oracle", "what": "a single save through the probe-wrapped saver wrote rows that are not the fresh evaluation of their encoding", "family": fam, "wrong_rows": solo})
			c08stats["oracle_lines"]++
		}
		emit(J{"kind": "saverprobe", "fam": fam, "members": n, "accesses": len(rec), "prog": prog, "unlocked": unlocked,
			"interleavings_tried": tried, "interleavings_with_wrong_rows": wrong})
		c08stats["saver_probe_accesses"] += len(rec)
	}
}
