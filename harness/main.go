//go:build verif

// Package main is the correspondence harness of /verif.  It is NOT part of the
// crem repository: tools/check.py compiles it INTO the /repo module with
// `go build -tags verif -overlay`, mapping /repo/internal/verifharness/*.go
// onto the files of /verif/harness, so that it is always built against
// /repo's current working tree and may import crem's internal packages.
//
// One sub-command per property; each prints JSON lines on stdout:
//
//	{"kind":"case", ...}     an input together with the implementation's projected outputs
//	{"kind":"oracle", ...}   an input on which the implementation itself violates the property
//	{"kind":"stat", ...}     distribution of generated inputs
package main

import (
	"bufio"
	"encoding/json"
	"fmt"
	"math"
	"math/big"
	"os"
	"sort"
	"strconv"
	"time"
)

type subcommand func(args []string)

var registry = map[string]subcommand{}

func register(name string, f subcommand) { registry[name] = f }

var out *bufio.Writer

func emit(v interface{}) {
	b, err := json.Marshal(v)
	if err != nil {
		panic(err)
	}
	out.Write(b)
	out.WriteByte('\n')
}

type J map[string]interface{}

// ---- deterministic PRNG (splitmix64) seeded from VERIF_SEED ----

type prng struct{ s uint64 }

func newPrng(salt uint64) *prng {
	seed := uint64(1)
	if v := os.Getenv("VERIF_SEED"); v != "" {
		if n, err := strconv.ParseInt(v, 10, 64); err == nil {
			seed = uint64(n)
		}
	}
	return &prng{s: seed*0x9E3779B97F4A7C15 + salt}
}
func (p *prng) next() uint64 {
	p.s += 0x9E3779B97F4A7C15
	z := p.s
	z = (z ^ (z >> 30)) * 0xBF58476D1CE4E5B9
	z = (z ^ (z >> 27)) * 0x94D049BB133111EB
	return z ^ (z >> 31)
}
func (p *prng) intn(n int) int        { return int(p.next() % uint64(n)) }
func (p *prng) float() float64        { return float64(p.next()>>11) / float64(1<<53) }
func (p *prng) chance(q float64) bool { return p.float() < q }

// ---- exact export of finite floats as "num/den" ----

func ratOf(f float64) string {
	if math.IsNaN(f) || math.IsInf(f, 0) {
		panic("ratOf: non-finite float")
	}
	r := new(big.Rat)
	r.SetFloat64(f)
	return r.Num().String() + "/" + r.Denom().String()
}

// flOf exports a finite float exactly as [m, e] with f = m * 2^e, |m| < 2^53.
func flOf(f float64) [2]int64 {
	if math.IsNaN(f) || math.IsInf(f, 0) {
		panic("flOf: non-finite float")
	}
	if f == 0 {
		return [2]int64{0, 0}
	}
	mant, exp := math.Frexp(f)
	m := int64(mant * (1 << 53))
	e := int64(exp - 53)
	for m%2 == 0 {
		m /= 2
		e++
	}
	if math.Ldexp(float64(m), int(e)) != f {
		panic("flOf: inexact")
	}
	return [2]int64{m, e}
}

func flsOf(fs []float64) [][2]int64 {
	res := make([][2]int64, len(fs))
	for i, f := range fs {
		res[i] = flOf(f)
	}
	return res
}

func ratsOf(fs []float64) []string {
	res := make([]string, len(fs))
	for i, f := range fs {
		res[i] = ratOf(f)
	}
	return res
}

// protect runs f and reports whether it panicked (and with what).
func protect(f func()) (panicked bool, what string) {
	defer func() {
		if r := recover(); r != nil {
			panicked = true
			what = fmt.Sprint(r)
		}
	}()
	f()
	return false, ""
}

// withWatchdog runs f (implementation code that may spin forever); if it has not returned after the given
// number of seconds an oracle line is emitted (non-termination is an observation, and the input is the
// replay) and the process exits with status 3 -- a spinning goroutine cannot be stopped from outside.
func withWatchdog(seconds int, what string, input J, f func()) {
	done := make(chan struct{})
	go func() {
		select {
		case <-done:
		case <-time.After(time.Duration(seconds) * time.Second):
			line := J{"kind": "oracle", "what": what + ": did not terminate within " + strconv.Itoa(seconds) + " s"}
			for k, v := range input {
				line[k] = v
			}
			out.Flush()
			b, _ := json.Marshal(line)
			os.Stdout.Write(append(b, '\n'))
			os.Exit(3)
		}
	}()
	f()
	close(done)
}

func main() {
	out = bufio.NewWriterSize(os.Stdout, 1<<20)
	defer out.Flush()
	if len(os.Args) < 2 {
		names := make([]string, 0)
		for k := range registry {
			names = append(names, k)
		}
		sort.Strings(names)
		fmt.Fprintln(os.Stderr, "usage: verifharness <sub-command> [args]; known:", names)
		os.Exit(2)
	}
	f, ok := registry[os.Args[1]]
	if !ok {
		fmt.Fprintln(os.Stderr, "unknown sub-command", os.Args[1])
		os.Exit(2)
	}
	f(os.Args[2:])
}
