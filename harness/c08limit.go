//go:build verif

package main

// C08, search support for state shared between runs through package-level variables (which the alias translator, walking
// the object graph of the annealer clones, cannot see; the census of harness/astfacts08 is the obligation): real
// scenarios with several CONCURRENT runs under a variable limit, saved at Detail level as JSON.  Every run's result
// must respect the limit (a validity verdict disturbed by another run lets a run keep an over-limit state) and every
// number in every result file must be printed in the format of its own unit of measure (a formatter re-configured by
// another run prints Dollars with three decimals or tonnes with two).

import (
	"bytes"
	"encoding/json"
	"fmt"
	"os"
	"os/exec"
	"path/filepath"
	"regexp"
	"strconv"
	"strings"
	"time"

	solenc "github.com/LindsayBradford/crem/internal/pkg/annealing/solution/encoding"
	"github.com/LindsayBradford/crem/internal/pkg/config/data"
	"github.com/LindsayBradford/crem/internal/pkg/config/interpreter"
	"github.com/LindsayBradford/crem/internal/pkg/parameters"
	"github.com/LindsayBradford/crem/internal/pkg/scenario"
	"github.com/LindsayBradford/crem/pkg/logging/loggers"
)

const c08LimitValue = 1500000.0

var c08TwoDecimals = regexp.MustCompile(`^-?[0-9,]+\.[0-9]{2}$`)
var c08ThreeDecimals = regexp.MustCompile(`^-?[0-9,]+\.[0-9]{3}$`)

// C08limitchild <family> <R> <c> <N> <outdir>
func runC08limitchild(args []string) {
	family := args[0]
	r, _ := strconv.Atoi(args[1])
	c, _ := strconv.Atoi(args[2])
	n, _ := strconv.Atoi(args[3])
	outDir := args[4]
	mi := interpreter.NewModelConfigInterpreter().Interpret(&data.ModelConfig{Type: "CatchmentModel",
		Parameters: parameters.Map{"DataSourcePath": c08DataSource, "MaximumImplementationCost": c08LimitValue}})
	if mi.Errors() != nil {
		fmt.Fprintln(os.Stderr, "C08limitchild: configuration rejected:", mi.Errors())
		out.Flush()
		os.Exit(4)
	}
	params := parameters.Map{"MaximumIterations": int64(n), "StartingTemperature": 50.0, "CoolingFactor": 0.99}
	at := data.Suppapitnarm
	if family == "kirkpatrick" {
		at = data.Kirkpatrick
		params["DecisionVariable"] = "SedimentProduction"
		params["OptimisationDirection"] = "Minimising"
	}
	ai := interpreter.NewAnnealerConfigInterpreter().Interpret(&data.AnnealerConfig{Type: at, Parameters: params})
	if ai.Errors() != nil {
		fmt.Fprintln(os.Stderr, "C08limitchild: configuration rejected:", ai.Errors())
		out.Flush()
		os.Exit(4)
	}
	a := ai.Annealer()
	a.SetModel(mi.Model())
	saver := scenario.NewSaver().WithOutputPath(outDir).WithOutputType(solenc.OutputType("JSON")).WithOutputLevel(scenario.OutputLevel("Detail"))
	runner := scenario.NewRunner().WithName(c08Name).WithRunNumber(uint64(r)).WithMaximumConcurrentRuns(uint64(c)).
		WithLogHandler(new(loggers.NullLogger)).WithSaver(saver)
	runner.SetAnnealer(a)
	if e := runner.Run(); e != nil {
		fmt.Fprintln(os.Stderr, "C08limitchild: Run returned error:", e)
		out.Flush()
		os.Exit(5)
	}
	files, _ := os.ReadDir(outDir)
	checked, overLimit, badFormat := 0, []J{}, []J{}
	for _, f := range files {
		if !strings.HasSuffix(f.Name(), ".json") || strings.HasSuffix(f.Name(), "-Summary.json") {
			continue
		}
		content, err := os.ReadFile(filepath.Join(outDir, f.Name()))
		if err != nil {
			continue
		}
		var sol struct {
			Id                string
			DecisionVariables []struct {
				Name                 string
				Measure              string
				Value                string
				ValuePerPlanningUnit []struct {
					PlanningUnit string
					Value        string
				}
			}
		}
		if err := json.Unmarshal(content, &sol); err != nil {
			badFormat = append(badFormat, J{"file": f.Name(), "problem": "not JSON: " + err.Error()})
			continue
		}
		checked++
		asIs := strings.Contains(sol.Id, "As-Is")
		for _, v := range sol.DecisionVariables {
			want := c08ThreeDecimals
			if strings.Contains(v.Measure, "Dollars") || strings.Contains(v.Measure, "$") {
				want = c08TwoDecimals
			}
			vals := []string{v.Value}
			for _, pu := range v.ValuePerPlanningUnit {
				vals = append(vals, pu.Value)
			}
			for _, s := range vals {
				if !want.MatchString(s) && len(badFormat) < 5 {
					badFormat = append(badFormat, J{"file": f.Name(), "variable": v.Name, "measure": v.Measure, "printed": s})
				}
			}
			if v.Name == "ImplementationCost" && !asIs {
				x, err := strconv.ParseFloat(strings.ReplaceAll(v.Value, ",", ""), 64)
				if err == nil && x > c08LimitValue && len(overLimit) < 5 {
					overLimit = append(overLimit, J{"file": f.Name(), "solution": sol.Id, "ImplementationCost": v.Value, "limit": c08LimitValue})
				}
			}
		}
	}
	emit(J{"kind": "limitchild", "files_checked": checked, "over_limit": overLimit, "bad_format": badFormat})
}

func c08LimitSearch(tier string) {
	reps := 1
	if tier == "thorough" {
		reps = 6
	}
	for rep := 0; rep < reps; rep++ {
		for _, fam := range []string{"kirkpatrick", "suppapitnarm"} {
			c08LimitOnce(fam, 8, 8, 150)
		}
	}
}

func c08LimitOnce(fam string, r, c, n int) {
	for attempt := 0; attempt < 6; attempt++ {
		dir, err := os.MkdirTemp("", "c08lim")
		if err != nil {
			panic(err)
		}
		exe, _ := os.Executable()
		cmd := exec.Command(exe, "C08limitchild", fam, strconv.Itoa(r), strconv.Itoa(c), strconv.Itoa(n), dir)
		var so, se bytes.Buffer
		cmd.Stdout, cmd.Stderr = &so, &se
		done := make(chan error, 1)
		if err := cmd.Start(); err != nil {
			panic(err)
		}
		go func() { done <- cmd.Wait() }()
		var werr error
		timedOut := false
		select {
		case werr = <-done:
		case <-time.After(180 * time.Second):
			cmd.Process.Kill()
			<-done
			timedOut = true
		}
		os.RemoveAll(dir)
		tail := se.String()
		if len(tail) > 1200 {
			tail = tail[:1200]
		}
		cfg := J{"family": fam, "runs": r, "concurrent": c, "iterations": n, "MaximumImplementationCost": c08LimitValue, "output": "JSON/Detail"}
		if timedOut || werr != nil {
			if strings.Contains(tail, "attempt limit reached") || strings.Contains(tail, "Attempt limit reached") {
				c08stats["limit_search_retries_attempt_limit"]++
				continue
			}
			emit(J{"kind": "oracle", "what": "a scenario of concurrent runs under a variable limit did not run to completion (crash, timeout or error)", "scenario": cfg, "stderr": tail})
			c08stats["oracle_lines"]++
			return
		}
		for _, ln := range strings.Split(so.String(), "\n") {
			ln = strings.TrimSpace(ln)
			if !strings.HasPrefix(ln, "{") {
				continue
			}
			var o struct {
				Kind      string `json:"kind"`
				Checked   int    `json:"files_checked"`
				OverLimit []J    `json:"over_limit"`
				BadFormat []J    `json:"bad_format"`
			}
			if json.Unmarshal([]byte(ln), &o) != nil || o.Kind != "limitchild" {
				continue
			}
			c08stats["limit_search_scenarios"]++
			c08stats["limit_search_result_files_checked"] += o.Checked
			if len(o.OverLimit) > 0 {
				emit(J{"kind": "oracle", "what": "concurrent runs under a variable limit: a run delivered a result that exceeds the limit (one run's validity check disturbed by another's)", "scenario": cfg, "results": o.OverLimit})
				c08stats["oracle_lines"]++
			}
			if len(o.BadFormat) > 0 {
				emit(J{"kind": "oracle", "what": "concurrent runs saving Detail/JSON results: a value is not printed in the format of its own unit of measure (a formatter shared between runs was re-configured in between)", "scenario": cfg, "values": o.BadFormat})
				c08stats["oracle_lines"]++
			}
		}
		return
	}
}

func init() { register("C08limitchild", runC08limitchild) }
