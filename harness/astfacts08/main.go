// astfacts08 -- stand-alone translator for property C08 (go/ast + go/parser only, no crem imports).
//
//	astfacts08 <repo root> <output PkgVars.v>
//
// Reads the CURRENT source of the repository (non-test files under internal/, pkg/, cmd/) and regenerates
// coq/gen/PkgVars.v: every package-level variable together with the KINDS OF USE made of it inside function bodies
// (code that runs after initialisation, i.e. possibly on several run goroutines at once):
//
//	call:<Method>   v.Method(...)            field:<name>   v.name read          assign        v = ..., v.f = ..., v[i] = ..., v++
//	addr            &v                       index          v[i] read            range         for ... := range v
//	read            any other mention (argument, operand, returned)
//
// Uses inside the variable declarations' own initialisers and inside func init() run once, before any run, and are
// not reported.  gen/obl_C08_pkgvars.v checks, by computation, that every (variable, use) pair is in the census
// PkgVarsCensus.accounted, where each pair carries the reason why it cannot make one run's progress visible to another.
// A new package-level variable that run code touches, or a new kind of use of an old one (a setter called at run time on
// a shared converter, a shared scratch collection that is reset and refilled), breaks the obligation.
//
// What it extracted is also printed as one JSON object on stdout (copied into the evidence).
package main

import (
	"encoding/json"
	"fmt"
	"go/ast"
	"go/parser"
	"go/token"
	"os"
	"path/filepath"
	"sort"
	"strconv"
	"strings"
)

func fatal(format string, a ...interface{}) {
	fmt.Fprintf(os.Stderr, "astfacts08: "+format+"\n", a...)
	os.Exit(3)
}

type pkgInfo struct {
	dir   string // relative to the repo root, slash separated
	name  string
	files []*ast.File
	vars  map[string]bool
}

func main() {
	if len(os.Args) != 3 {
		fatal("usage: astfacts08 <repo root> <output .v>")
	}
	root := os.Args[1]
	fset := token.NewFileSet()
	pkgs := map[string]*pkgInfo{} // by dir
	nfiles := 0
	for _, top := range []string{"internal", "pkg", "cmd"} {
		err := filepath.Walk(filepath.Join(root, top), func(path string, info os.FileInfo, err error) error {
			if err != nil {
				return err
			}
			if info.IsDir() {
				if info.Name() == "testdata" || info.Name() == "verifharness" {
					return filepath.SkipDir
				}
				return nil
			}
			if !strings.HasSuffix(path, ".go") || strings.HasSuffix(path, "_test.go") {
				return nil
			}
			f, perr := parser.ParseFile(fset, path, nil, parser.ParseComments)
			if perr != nil {
				fatal("cannot parse %s: %v", path, perr)
			}
			// files excluded from ordinary builds by a build tag other than an OS tag are not part of the program
			for _, cg := range f.Comments {
				if cg.Pos() < f.Package {
					for _, c := range cg.List {
						if strings.HasPrefix(c.Text, "//go:build") && (strings.Contains(c.Text, "verif") || strings.Contains(c.Text, "ignore")) {
							return nil
						}
					}
				}
			}
			rel, _ := filepath.Rel(root, filepath.Dir(path))
			rel = filepath.ToSlash(rel)
			p := pkgs[rel]
			if p == nil {
				p = &pkgInfo{dir: rel, name: f.Name.Name, vars: map[string]bool{}}
				pkgs[rel] = p
			}
			p.files = append(p.files, f)
			nfiles++
			return nil
		})
		if err != nil {
			fatal("walking %s: %v", top, err)
		}
	}
	// package-level variables
	for _, p := range pkgs {
		for _, f := range p.files {
			for _, d := range f.Decls {
				gd, ok := d.(*ast.GenDecl)
				if !ok || gd.Tok != token.VAR {
					continue
				}
				for _, sp := range gd.Specs {
					for _, n := range sp.(*ast.ValueSpec).Names {
						if n.Name != "_" {
							p.vars[n.Name] = true
						}
					}
				}
			}
		}
	}
	const module = "github.com/LindsayBradford/crem/"
	uses := map[string]map[string]bool{} // "dir.Var" -> set of uses
	note := func(key, use string) {
		if uses[key] == nil {
			uses[key] = map[string]bool{}
		}
		uses[key][use] = true
	}
	for _, p := range pkgs {
		for v := range p.vars {
			if uses[p.dir+"."+v] == nil {
				uses[p.dir+"."+v] = map[string]bool{}
			}
		}
	}
	for _, p := range pkgs {
		for _, f := range p.files {
			imports := map[string]string{} // local name -> dir
			for _, im := range f.Imports {
				path, _ := strconv.Unquote(im.Path.Value)
				if !strings.HasPrefix(path, module) {
					continue
				}
				dir := strings.TrimPrefix(path, module)
				local := ""
				if im.Name != nil {
					local = im.Name.Name
				} else if q := pkgs[dir]; q != nil {
					local = q.name
				} else {
					local = dir[strings.LastIndex(dir, "/")+1:]
				}
				imports[local] = dir
			}
			for _, d := range f.Decls {
				fd, ok := d.(*ast.FuncDecl)
				if !ok || fd.Body == nil {
					continue
				}
				if fd.Recv == nil && fd.Name.Name == "init" {
					continue
				}
				scan(fd.Body, p, pkgs, imports, note)
			}
		}
	}
	keys := make([]string, 0, len(uses))
	for k := range uses {
		keys = append(keys, k)
	}
	sort.Strings(keys)
	type fact struct {
		Var  string   `json:"var"`
		Uses []string `json:"uses"`
	}
	var facts []fact
	var sb strings.Builder
	sb.WriteString("(* GENERATED by harness/astfacts08 from the repository's current source -- do not edit *)\n")
	sb.WriteString("From Coq Require Import List String.\nImport ListNotations.\nOpen Scope string_scope.\n")
	sb.WriteString("(* package-level variable, kinds of use inside function bodies (run code) *)\n")
	sb.WriteString("Definition pkg_var_uses : list (string * list string) := [\n")
	first := true
	for _, k := range keys {
		us := make([]string, 0)
		for u := range uses[k] {
			us = append(us, u)
		}
		sort.Strings(us)
		facts = append(facts, fact{k, us})
		if len(us) == 0 {
			continue // never mentioned by run code
		}
		if !first {
			sb.WriteString(";\n")
		}
		first = false
		q := make([]string, len(us))
		for i, u := range us {
			q[i] = `"` + u + `"`
		}
		sb.WriteString(fmt.Sprintf("  (\"%s\", [%s])", k, strings.Join(q, "; ")))
	}
	sb.WriteString("\n].\n")
	sb.WriteString(fmt.Sprintf("Definition files_scanned : nat := %d.\n", nfiles))
	if err := os.WriteFile(os.Args[2], []byte(sb.String()), 0o666); err != nil {
		fatal("%v", err)
	}
	out, _ := json.Marshal(map[string]interface{}{"files_scanned": nfiles, "package_level_variables": len(keys), "facts": facts})
	fmt.Println(string(out))
}

// does id denote a package-level variable of package p (not a local of the same name)?
func isPkgVar(id *ast.Ident, p *pkgInfo) bool {
	if !p.vars[id.Name] {
		return false
	}
	if id.Obj == nil {
		return true // declared in another file of the package
	}
	if id.Obj.Kind != ast.Var {
		return false
	}
	vs, ok := id.Obj.Decl.(*ast.ValueSpec)
	if !ok {
		return false // parameter, := local, range variable ...
	}
	// a ValueSpec: package-level iff one of p's files declares it at top level
	for _, f := range p.files {
		for _, d := range f.Decls {
			if gd, ok := d.(*ast.GenDecl); ok && gd.Tok == token.VAR {
				for _, sp := range gd.Specs {
					if sp == ast.Spec(vs) {
						return true
					}
				}
			}
		}
	}
	return false
}

func scan(body ast.Node, p *pkgInfo, pkgs map[string]*pkgInfo, imports map[string]string, note func(key, use string)) {
	// resolve an expression to the package-level variable at its root, if it IS such a variable (not a deeper path)
	varOf := func(e ast.Expr) (string, bool) {
		switch x := e.(type) {
		case *ast.Ident:
			if isPkgVar(x, p) {
				return p.dir + "." + x.Name, true
			}
		case *ast.SelectorExpr:
			if id, ok := x.X.(*ast.Ident); ok && id.Obj == nil {
				if dir, imported := imports[id.Name]; imported {
					if q := pkgs[dir]; q != nil && q.vars[x.Sel.Name] {
						return dir + "." + x.Sel.Name, true
					}
				}
			}
		}
		return "", false
	}
	// root variable of an lvalue path v, v.f, v[i], *v, (v)
	var rootOf func(e ast.Expr) (string, bool)
	rootOf = func(e ast.Expr) (string, bool) {
		if k, ok := varOf(e); ok {
			return k, true
		}
		switch x := e.(type) {
		case *ast.SelectorExpr:
			return rootOf(x.X)
		case *ast.IndexExpr:
			return rootOf(x.X)
		case *ast.StarExpr:
			return rootOf(x.X)
		case *ast.ParenExpr:
			return rootOf(x.X)
		}
		return "", false
	}
	handled := map[ast.Node]bool{}
	ast.Inspect(body, func(n ast.Node) bool {
		switch x := n.(type) {
		case *ast.AssignStmt:
			for _, l := range x.Lhs {
				if k, ok := rootOf(l); ok {
					note(k, "assign")
					markAll(l, handled)
				}
			}
		case *ast.IncDecStmt:
			if k, ok := rootOf(x.X); ok {
				note(k, "assign")
				markAll(x.X, handled)
			}
		case *ast.UnaryExpr:
			if x.Op == token.AND {
				if k, ok := rootOf(x.X); ok {
					note(k, "addr")
					markAll(x.X, handled)
				}
			}
		case *ast.RangeStmt:
			if k, ok := varOf(x.X); ok {
				note(k, "range")
				markAll(x.X, handled)
			}
		case *ast.CallExpr:
			if sel, ok := x.Fun.(*ast.SelectorExpr); ok {
				if k, ok := varOf(sel.X); ok {
					note(k, "call:"+sel.Sel.Name)
					handled[sel] = true
					markAll(sel.X, handled)
				}
			}
		case *ast.SelectorExpr:
			if handled[x] {
				return true
			}
			if k, ok := varOf(x); ok { // pkg.Var
				note(k, "read")
				handled[x] = true
				markAll(x, handled)
				return true
			}
			if k, ok := varOf(x.X); ok {
				note(k, "field:"+x.Sel.Name)
				markAll(x.X, handled)
			}
		case *ast.IndexExpr:
			if k, ok := varOf(x.X); ok && !handled[x.X] {
				note(k, "index")
				markAll(x.X, handled)
			}
		case *ast.Ident:
			if handled[x] {
				return true
			}
			if isPkgVar(x, p) {
				note(p.dir+"."+x.Name, "read")
			}
		}
		return true
	})
}

func markAll(e ast.Node, handled map[ast.Node]bool) {
	ast.Inspect(e, func(n ast.Node) bool {
		if n != nil {
			handled[n] = true
		}
		return true
	})
}
