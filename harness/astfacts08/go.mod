module astfacts08

go 1.21
