//go:build verif

package main

import (
	"fmt"
	"math"
	mathrand "math/rand"
	"sort"
	"strconv"

	"github.com/LindsayBradford/crem/internal/pkg/annealing/cooling/coolants/kirkpatrick"
	"github.com/LindsayBradford/crem/internal/pkg/annealing/explorer"
	kexplorer "github.com/LindsayBradford/crem/internal/pkg/annealing/explorer/kirkpatrick"
	"github.com/LindsayBradford/crem/internal/pkg/model"
	"github.com/LindsayBradford/crem/internal/pkg/model/action"
	"github.com/LindsayBradford/crem/internal/pkg/model/models/dumb"
	"github.com/LindsayBradford/crem/internal/pkg/model/models/modumb"
	"github.com/LindsayBradford/crem/internal/pkg/model/planningunit"
	"github.com/LindsayBradford/crem/internal/pkg/model/variable"
	"github.com/LindsayBradford/crem/internal/pkg/observer"
	"github.com/LindsayBradford/crem/internal/pkg/parameters"
	"github.com/LindsayBradford/crem/internal/pkg/rand"
	"github.com/LindsayBradford/crem/pkg/errors"
	"github.com/LindsayBradford/crem/pkg/logging/loggers"
	"github.com/LindsayBradford/crem/pkg/name"
)

// C04: the REAL kirkpatrick.Explorer (with its embedded coolant and crem's rand.Rand) is driven
// proposal by proposal.  The explored model is either scripted (validity and change chosen by the
// generator) or the real dumb model behind a recording proxy; the rand.Source is scripted so that
// Float64Unitary returns a chosen draw.  Floats leave this program as IEEE-754 bit patterns.

func init() { register("C04", runC04) }

// ---- scripted rand.Source -------------------------------------------------------------------

type c04Source struct {
	k     int64
	calls int
}

func (s *c04Source) Int63() int64 { s.calls++; return s.k }
func (s *c04Source) Seed(int64)   {}

var _ mathrand.Source = new(c04Source)

// what the REAL Float64Unitary returns when the source answers k
func c04Unitary(k int64) float64 {
	return rand.New(&c04Source{k: k}).Float64Unitary()
}

const c04Mask = int64(1)<<53 - 1

// a source value whose draw is as close as possible to the target (exactly equal where the grid
// k/(2^53-1) allows); second result says whether equality was reached
func c04KFor(target float64) (int64, bool) {
	if !(target > 0) {
		return 0, c04Unitary(0) == target
	}
	if target >= 1 {
		return c04Mask, c04Unitary(c04Mask) == target
	}
	k0 := int64(math.Round(target * float64(c04Mask)))
	best, bestD := k0, math.Inf(1)
	for dk := int64(-3); dk <= 3; dk++ {
		k := k0 + dk
		if k < 0 || k > c04Mask {
			continue
		}
		u := c04Unitary(k)
		if u == target {
			return k, true
		}
		if d := math.Abs(u - target); d < bestD {
			best, bestD = k, d
		}
	}
	return best, false
}

// ---- recording of the calls the explorer makes on its model ---------------------------------

type c04Calls struct{ log []string }

func (c *c04Calls) add(s string) { c.log = append(c.log, s) }

// scripted model: implements model.Model
type c04Model struct {
	name.NameContainer
	name.IdentifiableContainer
	c04Calls
	obj           float64
	pendingValid  bool
	pendingChange float64
	nextValid     bool
	nextChange    float64
}

func (m *c04Model) Initialise(model.InitialisationType) {}
func (m *c04Model) Randomize()                          {}
func (m *c04Model) TearDown()                           {}
func (m *c04Model) DoRandomChange()                     {}
func (m *c04Model) UndoChange()                         {}
func (m *c04Model) TryRandomChange() {
	m.add("T")
	m.pendingValid, m.pendingChange = m.nextValid, m.nextChange
}
func (m *c04Model) ChangeIsValid() (bool, *errors.CompositeError) {
	m.add("V")
	if m.pendingValid {
		return true, nil
	}
	e := errors.New("scripted invalidity")
	e.AddMessage("scripted model says no")
	return false, e
}
func (m *c04Model) AcceptChange() {
	m.add("A")
	m.obj = m.obj + m.pendingChange
	m.pendingChange = 0
}
func (m *c04Model) RevertChange() {
	m.add("R")
	m.pendingChange = 0
}
func (m *c04Model) IsEquivalentTo(model.Model) bool                    { return false }
func (m *c04Model) SynchroniseTo(model.Model)                          {}
func (m *c04Model) DeepClone() model.Model                             { c := *m; return &c }
func (m *c04Model) ManagementActions() []action.ManagementAction       { return nil }
func (m *c04Model) ActiveManagementActions() []action.ManagementAction { return nil }
func (m *c04Model) SetManagementAction(int, bool)                      {}
func (m *c04Model) SetManagementActionUnobserved(int, bool)            {}
func (m *c04Model) PlanningUnits() planningunit.Ids                    { return nil }
func (m *c04Model) NameMappedVariables() *variable.DecisionVariableMap { return nil }
func (m *c04Model) DecisionVariable(n string) variable.DecisionVariable {
	v := variable.NewSimpleDecisionVariable(n)
	v.SetValue(m.obj)
	return v
}
func (m *c04Model) OffersDecisionVariable(string) bool { return true }
func (m *c04Model) DecisionVariableChange(string) float64 {
	m.add("C")
	return m.pendingChange
}

var _ model.Model = new(c04Model)

// recording proxy around a real model
type c04Proxy struct {
	model.Model
	c04Calls
	lastValid  bool
	lastChange float64
	objective  string
}

func (p *c04Proxy) TryRandomChange() { p.add("T"); p.Model.TryRandomChange() }
func (p *c04Proxy) ChangeIsValid() (bool, *errors.CompositeError) {
	p.add("V")
	ok, e := p.Model.ChangeIsValid()
	p.lastValid = ok
	return ok, e
}
func (p *c04Proxy) DecisionVariableChange(n string) float64 {
	p.add("C")
	c := p.Model.DecisionVariableChange(n)
	if n == p.objective {
		p.lastChange = c
	}
	return c
}
func (p *c04Proxy) AcceptChange() { p.add("A"); p.Model.AcceptChange() }
func (p *c04Proxy) RevertChange() { p.add("R"); p.Model.RevertChange() }

// ---- recording of explorer events -----------------------------------------------------------

type c04Events struct{ evs []observer.Event }

func (o *c04Events) ObserveEvent(e observer.Event) {
	if e.EventType == observer.Explorer {
		o.evs = append(o.evs, e)
	}
}

// ---- one driven explorer --------------------------------------------------------------------

type c04Rig struct {
	ke           *kexplorer.Explorer
	src          *c04Source
	events       *c04Events
	calls        *c04Calls
	setNext      func(valid bool, change float64) // scripted model only
	lastObs      func() (bool, float64)           // what the model answered during the step
	dir          int
	steps        []J
	class        string
	t0, cf       float64
	obj0         float64
	prevAccepted bool // the previous proposal ended with AcceptChange
	// change last read by the explorer (for the unset direction, which hands a stale value to the coolant)
	seen float64
}

var c04RouteCounter int

const (
	c04Unset = 0
	c04Min   = 1
	c04Max   = 2
)

func c04DirName(d int) string {
	switch d {
	case c04Min:
		return "Minimising"
	case c04Max:
		return "Maximising"
	}
	return ""
}

func c04NewRig(dir int, t0, cf float64, m model.Model, calls *c04Calls, objective string) *c04Rig {
	ke := kexplorer.New()
	ke.SetLogHandler(new(loggers.NullLogger))
	ke.SetModel(m)
	ev := new(c04Events)
	ke.AddObserver(ev)
	if dir == c04Unset {
		// what New() leaves behind when SetParameters never runs
		ke.Temperature = t0
		ke.CoolingFactor = cf
	} else {
		full := parameters.Map{
			kexplorer.OptimisationDirection: c04DirName(dir),
			kexplorer.DecisionVariableName:  objective,
			kirkpatrick.StartingTemperature: t0,
			kirkpatrick.CoolingFactor:       cf,
		}
		// configuration routes: the explorer's parameters arrive in one map, or in several SetParameters calls (the
		// annealer forwards ITS map to the explorer; a single key is re-tuned later) -- what was configured stays configured
		c04RouteCounter++
		route := c04RouteCounter % 4
		c04stats[fmt.Sprintf("config_route_%d", route)]++
		switch route {
		case 0:
			ke.SetParameters(full)
		case 1: // the explorer's own map, then a re-tuned temperature (same values) without the other keys
			ke.SetParameters(full)
			ke.SetParameters(parameters.Map{kirkpatrick.StartingTemperature: t0, kirkpatrick.CoolingFactor: cf})
		case 2: // the explorer's own map, then the owning annealer's map (annealer-only keys) forwarded to it
			ke.SetParameters(full)
			ke.SetParameters(parameters.Map{"MaximumIterations": int64(5)})
		case 3: // direction and objective first, cooling schedule in a second call
			ke.SetParameters(parameters.Map{kexplorer.OptimisationDirection: c04DirName(dir), kexplorer.DecisionVariableName: objective})
			ke.SetParameters(parameters.Map{kirkpatrick.StartingTemperature: t0, kirkpatrick.CoolingFactor: cf})
		}
	}
	ke.Initialise() // replaces the generator by a time-seeded one ...
	src := new(c04Source)
	ke.SetRandomNumberGenerator(rand.New(src)) // ... which the scripted one replaces again
	if ke.Temperature != t0 || ke.CoolingFactor != cf {
		panic("C04 harness: explorer not configured as requested")
	}
	if gotDir, _, _, _, _ := ke.VerifC04Flags(); gotDir != dir {
		// the steps decide (model and oracle follow the CONFIGURED direction); recorded for the replay
		c04stats["direction_flag_differs_from_configured"]++
	}
	return &c04Rig{ke: ke, src: src, events: ev, calls: calls, dir: dir, t0: t0, cf: cf}
}

func c04Bits(f float64) uint64 { return math.Float64bits(f) }

// readable text of a float for the replay file (JSON has no NaN/Inf); the exact value is in *_bits
func c04G(f float64) string { return strconv.FormatFloat(f, 'g', -1, 64) }

var c04stats = map[string]int{}
var c04oracles = 0
var c04emitted = map[string]int{}
var c04unitary [][2]uint64

// the property, restated on inputs only (configured direction, positive finite temperature)
func c04Expect(dir int, valid bool, change, T, u float64) (accept bool, p float64, hasP bool) {
	if !valid {
		return false, 0, false
	}
	improving := (dir == c04Min && change < 0) || (dir == c04Max && change > 0)
	if improving {
		return true, 1, true
	}
	p = math.Exp(-math.Abs(change) / T)
	return p > u, p, true
}

func (r *c04Rig) step(valid bool, change float64, k int64, cool bool, ukind string) {
	ke := r.ke
	if r.setNext != nil {
		r.setNext(valid, change)
	}
	r.src.k, r.src.calls = k, 0
	r.events.evs = nil
	r.calls.log = nil
	tBefore := ke.Temperature
	objBefore := ke.ObjectiveValue()

	ke.TryRandomChange()

	if r.lastObs != nil {
		valid, change = r.lastObs()
	}
	prob := ke.AcceptanceProbability
	objAfter := ke.ObjectiveValue()
	_, fDes, fAcc, fInv, fChange := ke.VerifC04Flags()
	if cool {
		ke.CoolDown()
	}
	tAfter := ke.Temperature

	// what the explorer saw as the change: refreshed by an invalid proposal and by a configured direction
	if !valid || r.dir != c04Unset {
		r.seen = change
	}
	arg := -math.Abs(r.seen) / tBefore
	e := math.Exp(arg)
	u := c04Unitary(k)
	c04unitary = append(c04unitary, [2]uint64{uint64(k), c04Bits(u)})

	dec, evProb, evDes := "", interface{}(nil), interface{}(nil)
	ndec := 0
	for _, ev := range r.events.evs {
		switch ev.Note() {
		case "Invalid Change":
			dec, ndec = "RI", ndec+1
		case "Accepting Desirable Change":
			dec, ndec = "AD", ndec+1
			evProb = ev.Attribute(explorer.AcceptanceProbability)
		case "Accepting Undesirable Change":
			dec, ndec = "AU", ndec+1
			evProb = ev.Attribute(explorer.AcceptanceProbability)
		case "Reverting Undesirable Change":
			dec, ndec = "RU", ndec+1
			evProb = ev.Attribute(explorer.AcceptanceProbability)
		}
		if ev.HasAttribute(explorer.ChangeIsDesirable) {
			evDes = ev.Attribute(explorer.ChangeIsDesirable)
		}
	}
	if ndec != 1 {
		dec = "?"
	}
	calls := ""
	for _, c := range r.calls.log {
		calls += c
	}
	st := J{"valid": valid, "change": c04Bits(change), "arg": c04Bits(arg), "e": c04Bits(e), "k": k, "u": c04Bits(u),
		"cool": cool, "dec": dec, "prob": c04Bits(prob), "calls": calls, "obj": c04Bits(objAfter), "T": c04Bits(tAfter),
		"desirable": fDes, "accepted": fAcc, "invalid": fInv, "seen": c04Bits(fChange), "draws": r.src.calls, "ukind": ukind}
	if p, ok := evProb.(float64); ok {
		st["evprob"] = c04Bits(p)
	}
	if d, ok := evDes.(bool); ok {
		st["evdes"] = d
	}
	r.steps = append(r.steps, st)

	c04stats["steps"]++
	c04stats["steps_"+r.class]++
	c04stats["dec_"+dec]++
	c04stats["u_"+ukind]++
	if valid && dec != "AD" && u == e {
		c04stats["draw_equals_probability"]++
	}
	switch {
	case change == 0:
		c04stats["change_zero"]++
	case change < 0:
		c04stats["change_neg"]++
	default:
		c04stats["change_pos"]++
	}

	prevAccepted := r.prevAccepted
	r.prevAccepted = dec == "AD" || dec == "AU"
	_ = prevAccepted
	// ---- Search: the property evaluated on what the real code did ----
	inQuantifier := r.dir != c04Unset && tBefore > 0 && !math.IsInf(tBefore, 0) && !math.IsNaN(change) && !math.IsInf(change, 0)
	if !inQuantifier {
		c04stats["steps_outside_quantifier"]++
		return
	}
	wantAccept, wantP, hasP := c04Expect(r.dir, valid, change, tBefore, u)
	nA, nR := 0, 0
	for _, c := range r.calls.log {
		if c == "A" {
			nA++
		}
		if c == "R" {
			nR++
		}
	}
	gotAccept := nA == 1 && nR == 0
	gotRevert := nA == 0 && nR == 1
	wantObj := objBefore
	if wantAccept {
		wantObj = objBefore + change
	}
	var why []string
	if wantAccept && !gotAccept || !wantAccept && !gotRevert {
		why = append(why, "accept/revert verdict differs from the Metropolis rule")
	}
	expDec := "RI"
	switch {
	case !valid:
	case c04Improving(r.dir, change):
		expDec = "AD"
	case wantAccept:
		expDec = "AU"
	default:
		expDec = "RU"
	}
	if dec != expDec {
		why = append(why, "explorer event does not name the decision the rule prescribes")
	}
	if objAfter != wantObj {
		why = append(why, "objective after the iteration is not previous (+ reported change if accepted)")
	}
	if hasP {
		if prob != wantP {
			why = append(why, "reported acceptance probability differs from 1 (improving) / exp(-|change|/T)")
		}
		if !(prob >= 0 && prob <= 1) {
			why = append(why, "reported acceptance probability outside [0,1]")
		}
		if p, ok := evProb.(float64); !ok || p != prob {
			why = append(why, "event attribute AcceptanceProbability differs from the coolant's field")
		}
	}
	if len(why) > 0 {
		c04oracles++
		c04stats["oracle_"+r.class]++
		// attribution: the explorer did what the rule prescribes (verdict, event, probability all as
		// expected) and only the explored model's value is off -> the explored model broke its law
		cause := "explorer"
		if len(why) == 1 && objAfter != wantObj && r.lastObs != nil {
			if wantAccept {
				cause = "explored model: AcceptChange did not realise the reported change"
			} else {
				cause = "explored model: RevertChange moved the objective"
			}
		}
		if c04emitted[r.class+cause] < 6 {
			c04emitted[r.class+cause]++
			emit(J{"kind": "oracle", "what": why[0], "all": why, "reasons": len(why), "cause": cause, "class": r.class,
				"previous_proposal_accepted": prevAccepted, "objective_moved_by": c04G(objAfter - objBefore),
				"moved_by_minus_reported_change": objAfter-objBefore == -change,
				"direction":                      c04DirName(r.dir), "valid": valid, "change": c04G(change), "change_bits": c04Bits(change),
				"temperature": c04G(tBefore), "temperature_bits": c04Bits(tBefore), "draw": c04G(u), "draw_bits": c04Bits(u), "source_int63": k,
				"expected_accept": wantAccept, "expected_probability": c04G(wantP), "expected_objective": c04G(wantObj),
				"got_calls": calls, "got_event": dec, "got_probability": c04G(prob), "got_probability_bits": c04Bits(prob),
				"objective_before": c04G(objBefore), "objective_after": c04G(objAfter), "step_index": len(r.steps) - 1})
		}
	}
}

func (r *c04Rig) flush() {
	emit(J{"kind": "case", "class": r.class, "scripted": r.setNext != nil, "dir": r.dir, "T0": c04Bits(r.t0), "cf": c04Bits(r.cf), "obj0": c04Bits(r.obj0), "steps": r.steps})
	c04stats["instances_"+r.class]++
}

func c04Scripted(dir int, t0, cf, obj0 float64, class string) *c04Rig {
	m := &c04Model{obj: obj0}
	r := c04NewRig(dir, t0, cf, m, &m.c04Calls, "ObjectiveValue")
	r.setNext = func(v bool, c float64) { m.nextValid, m.nextChange = v, c }
	r.class, r.obj0 = class, obj0
	return r
}

// ---- generators -----------------------------------------------------------------------------

func c04Mant(p *prng) float64 { return 1 + 9*p.float() }

type c04Proposal struct {
	valid  bool
	change float64
}

// the draws tried against one undesirable proposal with acceptance probability e
func (r *c04Rig) undesirable(p *prng, pr c04Proposal, seen float64, T float64, coolP float64) {
	e := math.Exp(-math.Abs(seen) / T)
	kp, exact := c04KFor(e)
	kind := "nearest_to_p"
	if exact {
		kind = "equals_p"
	}
	type ku struct {
		k    int64
		kind string
	}
	list := []ku{{0, "zero"}, {c04Mask, "one"}, {c04Mask - 1, "one_minus_ulp"}, {kp, kind}}
	if kp > 0 {
		list = append(list, ku{kp - 1, "just_below_p"})
	}
	if kp < c04Mask {
		list = append(list, ku{kp + 1, "just_above_p"})
	}
	// random draw; the source's high bits are garbage that Int63n must mask away
	list = append(list, ku{int64(p.next()>>11) | int64(p.next()>>54)<<53, "random"})
	for _, x := range list {
		r.step(pr.valid, pr.change, x.k, p.chance(coolP), x.kind)
	}
}

func c04Proposals(p *prng, T float64, full bool) []c04Proposal {
	var ps []c04Proposal
	// magnitudes over 12 decades, both signs
	for mk := -6; mk <= 5; mk++ {
		for _, sg := range []float64{-1, 1} {
			ps = append(ps, c04Proposal{true, sg * c04Mant(p) * math.Pow(10, float64(mk))})
		}
	}
	// zeros of both signs
	ps = append(ps, c04Proposal{true, 0}, c04Proposal{true, math.Copysign(0, -1)})
	// changes placed relative to the temperature, so that exp(-|d|/T) sweeps (0,1), including the
	// underflow edge of exp (-745.13..) and the region where p >= 1/2 (every binary64 there is a possible draw)
	ratios := []float64{1e-17, 1e-9, 1e-3, 0.05, 0.3, 0.6, math.Ln2, 1, 2.5, 7, 30, 200, 700, 744, 745.2, 750}
	for _, q := range ratios {
		if !full && p.chance(0.35) {
			continue
		}
		sg := float64(1)
		if p.chance(0.5) {
			sg = -1
		}
		ps = append(ps, c04Proposal{true, sg * q * (0.9 + 0.2*p.float()) * T})
	}
	// invalid proposals of every sign
	for i := 0; i < 6; i++ {
		c := (p.float()*2 - 1) * T * 3
		if i == 0 {
			c = 0
		}
		ps = append(ps, c04Proposal{false, c})
	}
	// shuffle: what one proposal leaves behind (probability, flags) is the next one's starting state
	for i := len(ps) - 1; i > 0; i-- {
		j := p.intn(i + 1)
		ps[i], ps[j] = ps[j], ps[i]
	}
	return ps
}

func c04Improving(dir int, c float64) bool {
	return (dir == c04Min && c < 0) || (dir == c04Max && c > 0)
}

// cloneAfterUse: the rest of the instance runs on a DeepClone() of the explorer taken AFTER it has already tried changes
// (a warm-up or trial run before the scenario's runner clones the annealer; a finished run cloned again).  The clone
// copies temperature and objective, so the step sequence simply continues -- on the clone's own model.
func (r *c04Rig) cloneAfterUse() {
	if r.setNext == nil {
		return
	}
	cl := r.ke.DeepClone().(*kexplorer.Explorer)
	cm := cl.Model().(*c04Model)
	cl.SetRandomNumberGenerator(rand.New(r.src)) // DeepClone installs a time-seeded generator
	r.ke, r.calls = cl, &cm.c04Calls
	r.setNext = func(v bool, c float64) { cm.nextValid, cm.nextChange = v, c }
	c04stats["clone_after_use"]++
}

func c04Instance(p *prng, dir int, T, cf float64, coolP float64, class string, full bool) {
	r := c04Scripted(dir, T, cf, math.Round(1e6*p.float())/1000, class)
	cloneAt := -1
	if p.chance(0.4) {
		cloneAt = 1 + p.intn(6)
	}
	for pi, pr := range c04Proposals(p, T, full) {
		if pi == cloneAt {
			r.cloneAfterUse()
		}
		Tnow := r.ke.Temperature
		if !pr.valid || c04Improving(dir, pr.change) {
			r.step(pr.valid, pr.change, int64(p.next()>>1), p.chance(coolP), "irrelevant")
		} else {
			seen := pr.change
			if dir == c04Unset {
				seen = r.seen // the unset direction hands the coolant a stale change
			}
			r.undesirable(p, pr, seen, Tnow, coolP)
		}
	}
	r.flush()
}

// The temperature is changed through the public Explorer.SetTemperature between proposals that repeat the
// same change magnitude (cooling factor 1, with and without CoolDown in between): the acceptance probability
// must follow the CURRENT temperature.  Each stretch at one temperature is emitted as its own case (the Coq
// model's step language has no SetTemperature; every stretch starts with a valid proposal, so no stale state
// of the previous stretch is observable).
func c04Retemp(p *prng, dir int) {
	T := c04Mant(p) * math.Pow(10, float64(p.intn(5)-2))
	r := c04Scripted(dir, T, 1, math.Round(1e6*p.float())/1000, "retemp")
	worse := 1.0
	if dir == c04Max {
		worse = -1.0
	}
	mag := c04Mant(p) * T
	for seg := 0; seg < 6; seg++ {
		Tnow := r.ke.Temperature
		pr := c04Proposal{true, worse * mag}
		r.undesirable(p, pr, pr.change, Tnow, []float64{0, 1}[seg%2])
		if p.chance(0.3) { // an improving or invalid proposal in between must not matter
			r.step(p.chance(0.5), -worse*mag, int64(p.next()>>1), false, "irrelevant")
			r.undesirable(p, pr, pr.change, r.ke.Temperature, 0)
		}
		r.flush()
		// next stretch: same explorer, new temperature, same magnitudes
		r.steps = nil
		factor := []float64{0.2, 5, 0.01, 100, 0.5, 2}[p.intn(6)]
		if err := r.ke.SetTemperature(Tnow * factor); err != nil {
			panic(err)
		}
		// a REFUSED SetTemperature (non-positive value: answered with an error) leaves the temperature in force
		if seg%2 == 1 {
			want := r.ke.Temperature
			bad := []float64{0, -2.5, -Tnow}[p.intn(3)]
			if err := r.ke.SetTemperature(bad); err == nil {
				emit(J{"kind": "oracle", "what": "SetTemperature accepted a non-positive temperature", "value": bad})
			}
			if r.ke.Temperature != want {
				emit(J{"kind": "oracle", "what": "a refused SetTemperature changed the temperature in force (the Metropolis rule is then applied at a non-positive temperature)",
					"refused_value": bad, "temperature_before": want, "temperature_after": r.ke.Temperature})
				r.ke.SetTemperature(want) // carry on at the temperature that should be in force
			}
			c04stats["refused_set_temperature_calls"]++
		}
		r.t0 = r.ke.Temperature
		r.obj0 = r.ke.ObjectiveValue()
		c04stats["set_temperature_calls"]++
	}
}

// extreme magnitudes of temperature and change (still inside the quantifier: finite, T > 0)
func c04Extremes(p *prng, dir int) {
	ext := []float64{5e-324, 2.2250738585072014e-308, 1e-300, 1e-150, 1, 1e150, 1e300, math.MaxFloat64}
	for _, T := range ext {
		r := c04Scripted(dir, T, 1, 0, "scripted")
		for _, d := range ext {
			for _, sg := range []float64{-1, 1} {
				pr := c04Proposal{true, sg * d}
				if c04Improving(dir, pr.change) {
					r.step(true, pr.change, int64(p.next()>>1), false, "irrelevant")
				} else {
					r.undesirable(p, pr, pr.change, T, 0)
				}
			}
		}
		r.flush()
	}
}

// a real crem model behind the proxy, explored for n iterations with CoolDown after each.
// which = "dumb" (models/dumb: the single-objective model the shipped Kirkpatrick scenarios use) or
// "modumb" (models/modumb: three objectives; the explorer optimises Objective_0)
func c04Live(p *prng, which string, dir int, T, cf float64, n int) {
	var real model.Model
	objective := "ObjectiveValue"
	seed := int64(p.next() >> 1)
	var reseed func()
	switch which {
	case "dumb":
		dm := dumb.NewModel()
		real = dm
		// Initialise() (inside c04NewRig) installs a time-seeded generator: replace it afterwards
		reseed = func() { dm.SetRandomNumberGenerator(rand.New(mathrand.NewSource(seed))) }
	default:
		mm := modumb.NewModel()
		mm.Initialise(model.Random) // the explorer's SetParameters looks the objective variable up
		real = mm
		objective = "Objective_0"
		reseed = func() { mm.VerifC04SetActionRng(rand.New(mathrand.NewSource(seed))) }
	}
	px := &c04Proxy{Model: real, objective: objective}
	r := c04NewRig(dir, T, cf, px, &px.c04Calls, objective)
	reseed()
	r.class = "live_" + which
	r.obj0 = r.ke.ObjectiveValue()
	r.lastObs = func() (bool, float64) { return px.lastValid, px.lastChange }
	for i := 0; i < n; i++ {
		var k int64
		kind := "random"
		switch p.intn(10) {
		case 0:
			k, kind = 0, "zero"
		case 1:
			k, kind = c04Mask, "one"
		case 2:
			// the probability of a unit worsening at the current temperature
			k, _ = c04KFor(math.Exp(-1 / r.ke.Temperature))
			kind = "near_p_of_unit_change"
		default:
			k = int64(p.next() >> 1)
		}
		r.step(true, 0, k, true, kind)
	}
	r.flush()
}

func runC04(args []string) {
	tier := "quick"
	if len(args) > 0 {
		tier = args[0]
	}
	p := newPrng(0xC04)
	reps := 1
	if tier == "thorough" {
		reps = 30
	}
	cfs := []float64{1, 0.95, 0.999, 0.5, 0.9}
	// ---- inside the quantifier: configured direction, positive temperature ----
	for rep := 0; rep < reps; rep++ {
		for _, dir := range []int{c04Min, c04Max} {
			for tk := -6; tk <= 5; tk++ {
				T := c04Mant(p) * math.Pow(10, float64(tk))
				cf := cfs[p.intn(len(cfs))]
				c04Instance(p, dir, T, cf, 0.1, "scripted", tier == "thorough")
			}
		}
	}
	for _, dir := range []int{c04Min, c04Max} {
		c04Extremes(p, dir)
		for k := 0; k < 4*reps; k++ {
			c04Retemp(p, dir)
		}
	}
	liveN := 150
	if tier == "thorough" {
		liveN = 4000
	}
	for _, dir := range []int{c04Min, c04Max} {
		for _, T := range []float64{0.4, 1.5, 8} {
			c04Live(p, "dumb", dir, T, 0.99, liveN)
			c04Live(p, "modumb", dir, T, 0.99, liveN)
		}
	}
	// ---- outside the quantifier (compared with the model, never an obligation) ----
	for rep := 0; rep < reps; rep++ {
		for tk := -6; tk <= 5; tk += 3 {
			T := c04Mant(p) * math.Pow(10, float64(tk))
			c04Instance(p, c04Unset, T, 0.9, 0.1, "outside", false)
		}
	}
	for _, dir := range []int{c04Min, c04Max} {
		// temperature 0 from the start, and reached by underflow (factor 1/2, CoolDown after every proposal)
		c04Instance(p, dir, 0, 1, 0, "outside", false)
		r := c04Scripted(dir, 1e-320, 0.5, 10, "outside")
		for i := 0; i < 40; i++ {
			c := float64(i%3 - 1)
			r.step(true, c, int64(p.next()>>1), true, "random")
		}
		r.flush()
	}

	// Float64Unitary against the documented formula (note only)
	agree := 0
	for _, ku := range c04unitary {
		k := int64(ku[0])
		if c04Bits(float64(k&c04Mask)/float64(c04Mask)) == ku[1] {
			agree++
		}
	}
	c04stats["draws_checked_against_formula"] = len(c04unitary)
	c04stats["draws_agreeing_with_formula"] = agree
	c04stats["oracle_failures"] = c04oracles
	// a sample of (source value, draw) pairs for the in-Coq comparison with float64_unitary
	sort.Slice(c04unitary, func(i, j int) bool { return c04unitary[i][0] < c04unitary[j][0] })
	stepn := len(c04unitary)/300 + 1
	var sample [][2]uint64
	for i := 0; i < len(c04unitary); i += stepn {
		sample = append(sample, c04unitary[i])
	}
	emit(J{"kind": "unitary", "pairs": sample})
	emit(J{"kind": "stat", "stats": c04stats})
}
