//go:build verif

package main

import (
	"math"

	"github.com/LindsayBradford/crem/pkg/dominance"
)

// C17: pkg/dominance.Float64Vector — four API methods on pairs (and order laws on triples).

func obsBool(f func() bool) string {
	var r bool
	p, _ := protect(func() { r = f() })
	if p {
		return "P"
	}
	if r {
		return "T"
	}
	return "F"
}

func vec(fs []float64) *dominance.Float64Vector {
	v := dominance.Float64Vector(append([]float64{}, fs...))
	return &v
}

// independent statement of the property on the implementation's own inputs
func paretoLt(x, y []float64) bool {
	allLe, someLt := true, false
	for i := range x {
		if !(x[i] <= y[i]) {
			allLe = false
		}
		if x[i] < y[i] {
			someLt = true
		}
	}
	return allLe && someLt
}

var c17stats = map[string]int{}

func c17pair(x, y []float64, class string) {
	a, b := vec(x), vec(y)
	dom := obsBool(func() bool { return a.Dominates(b) })
	by := obsBool(func() bool { return a.IsDominatedBy(b) })
	nod := obsBool(func() bool { return a.NoDominancePresent(b) })
	cmp := a.IsComparable(b)
	c17stats["pairs_"+class]++
	c17stats["dom_"+dom]++
	emit(J{"kind": "case", "x": flsOf(x), "y": flsOf(y), "dom": dom, "by": by, "nod": nod, "cmp": cmp})
	if len(x) == len(y) {
		want := paretoLt(x, y)
		wantBy := paretoLt(y, x)
		ok := dom == tf(want) && by == tf(wantBy) && nod == tf(!want && !wantBy) && cmp
		// converse, symmetry
		ok = ok && obsBool(func() bool { return b.Dominates(a) }) == by
		ok = ok && obsBool(func() bool { return b.NoDominancePresent(a) }) == nod
		if !ok {
			emit(J{"kind": "oracle", "what": "pair verdicts differ from the strict Pareto order",
				"x": x, "y": y, "dominates": dom, "isDominatedBy": by, "noDominance": nod,
				"expected_dominates": want, "expected_isDominatedBy": wantBy})
		}
	}
}

// the same pair, but the two vectors (and a bystander) are VIEWS into one flat table with spare capacity behind each view
// -- rows of a matrix, windows of a series -- as a caller that keeps its objective vectors in one allocation hands them
// over: the verdicts are those of the values, and a comparison changes nobody's values
func c17shared(x, y []float64) {
	n := len(x)
	if n == 0 || len(y) != n {
		return
	}
	tbl := make([]float64, 3*n)
	copy(tbl, x)
	copy(tbl[n:], y)
	copy(tbl[2*n:], x)
	a := dominance.Float64Vector(tbl[0:n])     // capacity 3n: the other rows lie behind it
	b := dominance.Float64Vector(tbl[n : 2*n]) // capacity 2n
	before := append([]float64{}, tbl...)
	c17stats["pairs_shared_storage"]++
	dom := obsBool(func() bool { return a.Dominates(&b) })
	by := obsBool(func() bool { return a.IsDominatedBy(&b) })
	nod := obsBool(func() bool { return a.NoDominancePresent(&b) })
	self := obsBool(func() bool { return a.Dominates(&a) })
	back := obsBool(func() bool { return b.Dominates(&a) })
	same := true
	for i := range tbl {
		if math.Float64bits(tbl[i]) != math.Float64bits(before[i]) {
			same = false
		}
	}
	want, wantBy := paretoLt(x, y), paretoLt(y, x)
	if !same || dom != tf(want) || by != tf(wantBy) || back != tf(wantBy) || nod != tf(!want && !wantBy) || self != "F" {
		emit(J{"kind": "oracle", "what": "vectors that are views into one table with spare capacity: verdicts differ from the strict Pareto order of their values, or a comparison changed the table",
			"x": x, "y": y, "dominates": dom, "isDominatedBy": by, "noDominance": nod, "x_dominates_x": self, "y_dominates_x": back,
			"expected_dominates": want, "expected_isDominatedBy": wantBy, "table_before": before, "table_after": tbl})
	}
}

func tf(b bool) string {
	if b {
		return "T"
	}
	return "F"
}

func c17triple(x, y, z []float64) {
	a, b, c := vec(x), vec(y), vec(z)
	c17stats["triples"]++
	if a.Dominates(b) && b.Dominates(c) && !a.Dominates(c) {
		emit(J{"kind": "oracle", "what": "transitivity fails", "x": x, "y": y, "z": z})
	}
	if a.Dominates(a) {
		emit(J{"kind": "oracle", "what": "irreflexivity fails", "x": x})
	}
	if a.Dominates(b) && b.Dominates(a) {
		emit(J{"kind": "oracle", "what": "asymmetry fails", "x": x, "y": y})
	}
}

func gridVectors(grid []float64, n int) [][]float64 {
	if n == 0 {
		return [][]float64{{}}
	}
	var res [][]float64
	for _, rest := range gridVectors(grid, n-1) {
		for _, g := range grid {
			res = append(res, append(append([]float64{}, rest...), g))
		}
	}
	return res
}

func runC17(args []string) {
	tier := "quick"
	if len(args) > 0 {
		tier = args[0]
	}
	negZero := math.Copysign(0, -1)
	grid := []float64{-1, negZero, 0, 1, 2}
	rng := newPrng(17)

	maxExh := 2
	if tier == "thorough" {
		maxExh = 3
	}
	for n := 1; n <= maxExh; n++ {
		vs := gridVectors(grid, n)
		for _, x := range vs {
			for _, y := range vs {
				c17pair(x, y, "grid_exhaustive")
				c17shared(x, y)
			}
		}
	}
	// all triples for length <= 2 (implementation-side order laws)
	for n := 1; n <= 2; n++ {
		vs := gridVectors(grid, n)
		for _, x := range vs {
			for _, y := range vs {
				for _, z := range vs {
					c17triple(x, y, z)
				}
			}
		}
	}
	nGrid3, nRandom := 1500, 1000
	if tier == "thorough" {
		nGrid3, nRandom = 0, 6000
	}
	vs3 := gridVectors(grid, 3)
	for i := 0; i < nGrid3; i++ {
		c17pair(vs3[rng.intn(len(vs3))], vs3[rng.intn(len(vs3))], "grid_len3_sampled")
	}
	// random pairs of length 1..8 over the float64 range with forced ties
	// mostly moderate magnitudes (exact-rational comparison of 1000-bit numbers is slow inside Coq);
	// one draw in ten is an extreme: any finite bit pattern, subnormals, +-MaxFloat64
	randFloat := func() float64 {
		if rng.intn(10) == 0 {
			switch rng.intn(3) {
			case 0:
				return math.Float64frombits(rng.next()&0x7FEFFFFFFFFFFFFF | (rng.next() & (1 << 63)))
			case 1:
				return math.SmallestNonzeroFloat64 * float64(rng.intn(4))
			default:
				return math.MaxFloat64 * (1 - 2*float64(rng.intn(2)))
			}
		}
		switch rng.intn(4) {
		case 0:
			return grid[rng.intn(len(grid))]
		case 1:
			return (rng.float() - 0.5) * 2000
		case 2:
			return math.Ldexp(rng.float()-0.5, rng.intn(80)-40)
		default:
			return float64(rng.intn(7) - 3)
		}
	}
	finite := func(f float64) float64 {
		if math.IsNaN(f) || math.IsInf(f, 0) {
			return 0
		}
		return f
	}
	for i := 0; i < nRandom; i++ {
		n := 1 + rng.intn(8)
		x := make([]float64, n)
		y := make([]float64, n)
		for k := range x {
			x[k] = finite(randFloat())
			switch rng.intn(4) {
			case 0:
				y[k] = x[k] // forced tie
			case 1:
				y[k] = math.Nextafter(x[k], math.Inf(1-2*rng.intn(2)))
				y[k] = finite(y[k])
			default:
				y[k] = finite(randFloat())
			}
		}
		c17pair(x, y, "random_len1to8")
		if i%3 == 0 {
			z := make([]float64, n)
			for k := range z {
				if rng.chance(0.5) {
					z[k] = y[k]
				} else {
					z[k] = finite(randFloat())
				}
			}
			c17triple(x, y, z)
		}
	}
	// unequal lengths: outside the property's quantifier; validates the model's Panic outcome only
	for i := 0; i < 40; i++ {
		x := vs3[rng.intn(len(vs3))][:1+rng.intn(3)]
		y := vs3[rng.intn(len(vs3))][:rng.intn(4)]
		if len(x) != len(y) {
			c17pair(x, y, "unequal_length")
		}
	}
	emit(J{"kind": "stat", "stats": c17stats})
}

func init() { register("C17", runC17) }
