module astfacts12

go 1.21
