// astfacts12 -- stand-alone translator for property C12 (go/ast + go/parser only, no crem imports).
//
//	astfacts12 <repo root> <output Facts12.v>
//
// Reads the CURRENT source of the repository and regenerates coq/gen/Facts12.v: the string literals, format strings and
// regular-expression sources that decide how crem names and labels what it saves, plus three shape facts
// (the comparison in generateCloneId, "last match" in deriveSummaryIdFromSolution, the sub-match index in deriveSetNameFor).
// gen/obl_C12.v compares them, by computation, with the literals coq/theories/Saver.v is written from (Saver.src_*),
// so a changed format string breaks an obligation even where the correspondence palette would not notice.
//
// A shape it does not recognise is a hard error (exit 3), never a silent skip.  What it extracted is also printed as one
// JSON object on stdout (copied into the evidence).
package main

import (
	"encoding/json"
	"fmt"
	"go/ast"
	"go/parser"
	"go/token"
	"os"
	"path/filepath"
	"sort"
	"strconv"
	"strings"
)

const (
	runnerFile    = "internal/pkg/scenario/Runner.go"
	saverFile     = "internal/pkg/scenario/Saver.go"
	summaryFile   = "internal/pkg/annealing/solution/set/Summary.go"
	jsonMarshaler = "internal/pkg/annealing/solution/set/encoding/json/Marshaler.go"
	jsonEncoder   = "internal/pkg/annealing/solution/set/encoding/json/Encoder.go"
	csvEncoder    = "internal/pkg/annealing/solution/set/encoding/csv/Encoder.go"
	solutionFile  = "internal/pkg/annealing/solution/Solution.go"
)

var fset = token.NewFileSet()

func fatal(format string, a ...interface{}) {
	fmt.Fprintf(os.Stderr, "astfacts12: "+format+"\n", a...)
	os.Exit(3)
}

func parse(root, rel string) *ast.File {
	f, err := parser.ParseFile(fset, filepath.Join(root, rel), nil, 0)
	if err != nil {
		fatal("cannot parse %s: %v", rel, err)
	}
	return f
}

// the function or method called name (receiver type recv, "" = plain function) of file f
func findFunc(f *ast.File, rel, recv, name string) *ast.FuncDecl {
	var found *ast.FuncDecl
	for _, d := range f.Decls {
		fd, ok := d.(*ast.FuncDecl)
		if !ok || fd.Name.Name != name || fd.Body == nil {
			continue
		}
		r := ""
		if fd.Recv != nil && len(fd.Recv.List) == 1 {
			t := fd.Recv.List[0].Type
			if s, ok := t.(*ast.StarExpr); ok {
				t = s.X
			}
			if id, ok := t.(*ast.Ident); ok {
				r = id.Name
			}
		}
		if r != recv {
			continue
		}
		if found != nil {
			fatal("%s: two declarations of %s.%s", rel, recv, name)
		}
		found = fd
	}
	if found == nil {
		fatal("%s: no declaration of %s.%s", rel, recv, name)
	}
	return found
}

func unquote(rel string, bl *ast.BasicLit) string {
	s, err := strconv.Unquote(bl.Value)
	if err != nil {
		fatal("%s: cannot unquote %s", rel, bl.Value)
	}
	for _, c := range []byte(s) {
		if c < 32 || c > 126 {
			fatal("%s: literal %s is not printable ASCII (the generator writes plain Coq string literals)", rel, bl.Value)
		}
	}
	return s
}

// every string literal in the body of fd, in source order
func stringLits(rel string, n ast.Node) []string {
	res := []string{}
	ast.Inspect(n, func(x ast.Node) bool {
		if bl, ok := x.(*ast.BasicLit); ok && bl.Kind == token.STRING {
			res = append(res, unquote(rel, bl))
		}
		return true
	})
	return res
}

// the literal argument of `var <name> = regexp.MustCompile(<lit>)` at package level
func packageRegexp(f *ast.File, rel, name string) string {
	for _, d := range f.Decls {
		gd, ok := d.(*ast.GenDecl)
		if !ok || gd.Tok != token.VAR {
			continue
		}
		for _, sp := range gd.Specs {
			vs := sp.(*ast.ValueSpec)
			for i, id := range vs.Names {
				if id.Name != name || i >= len(vs.Values) {
					continue
				}
				call, ok := vs.Values[i].(*ast.CallExpr)
				if !ok || len(call.Args) != 1 {
					fatal("%s: %s is not initialised by a one-argument call", rel, name)
				}
				sel, ok := call.Fun.(*ast.SelectorExpr)
				if !ok || sel.Sel.Name != "MustCompile" {
					fatal("%s: %s is not initialised by regexp.MustCompile", rel, name)
				}
				bl, ok := call.Args[0].(*ast.BasicLit)
				if !ok || bl.Kind != token.STRING {
					fatal("%s: %s: the pattern is not a string literal", rel, name)
				}
				return unquote(rel, bl)
			}
		}
	}
	fatal("%s: no package-level variable %s", rel, name)
	return ""
}

func packageConst(f *ast.File, rel, name string) string {
	for _, d := range f.Decls {
		gd, ok := d.(*ast.GenDecl)
		if !ok || gd.Tok != token.CONST {
			continue
		}
		for _, sp := range gd.Specs {
			vs := sp.(*ast.ValueSpec)
			for i, id := range vs.Names {
				if id.Name == name && i < len(vs.Values) {
					if bl, ok := vs.Values[i].(*ast.BasicLit); ok && bl.Kind == token.STRING {
						return unquote(rel, bl)
					}
					fatal("%s: constant %s is not a string literal", rel, name)
				}
			}
		}
	}
	fatal("%s: no constant %s", rel, name)
	return ""
}

func exprString(e ast.Expr) string {
	switch x := e.(type) {
	case *ast.Ident:
		return x.Name
	case *ast.SelectorExpr:
		return exprString(x.X) + "." + x.Sel.Name
	case *ast.BasicLit:
		return x.Value
	case *ast.CallExpr:
		args := []string{}
		for _, a := range x.Args {
			args = append(args, exprString(a))
		}
		return exprString(x.Fun) + "(" + strings.Join(args, ",") + ")"
	case *ast.BinaryExpr:
		return exprString(x.X) + x.Op.String() + exprString(x.Y)
	case *ast.IndexExpr:
		return exprString(x.X) + "[" + exprString(x.Index) + "]"
	case *ast.ParenExpr:
		return "(" + exprString(x.X) + ")"
	}
	return fmt.Sprintf("<%T>", e)
}

func coqString(s string) string { return `"` + strings.ReplaceAll(s, `"`, `""`) + `"` }
func coqList(ss []string) string {
	q := make([]string, len(ss))
	for i, s := range ss {
		q[i] = coqString(s)
	}
	return "[" + strings.Join(q, "; ") + "]"
}

func main() {
	if len(os.Args) != 3 {
		fmt.Fprintln(os.Stderr, "usage: astfacts12 <repo root> <output Facts12.v>")
		os.Exit(2)
	}
	root := os.Args[1]
	facts := map[string]interface{}{}
	lists := map[string][]string{}
	strs := map[string]string{}

	// ---- Runner.generateCloneId: if runner.runNumber > 1 { return fmt.Sprintf("%s (%d/%d)", ...) } else { return runner.name }
	runner := parse(root, runnerFile)
	gen := findFunc(runner, runnerFile, "Runner", "generateCloneId")
	lists["clone_id_lits"] = stringLits(runnerFile, gen)
	var cond *ast.BinaryExpr
	for _, st := range gen.Body.List {
		if is, ok := st.(*ast.IfStmt); ok {
			if be, ok := is.Cond.(*ast.BinaryExpr); ok && cond == nil {
				cond = be
			}
		}
	}
	if cond == nil {
		fatal("%s: generateCloneId: no `if <a> <op> <b>` statement", runnerFile)
	}
	bl, ok := cond.Y.(*ast.BasicLit)
	if !ok || bl.Kind != token.INT {
		fatal("%s: generateCloneId: the condition does not compare with an integer literal: %s", runnerFile, exprString(cond))
	}
	strs["clone_id_cond_lhs"] = exprString(cond.X)
	strs["clone_id_cond_op"] = cond.Op.String()
	strs["clone_id_cond_rhs"] = bl.Value

	// ---- Saver
	saver := parse(root, saverFile)
	lists["member_id_lits"] = stringLits(saverFile, findFunc(saver, saverFile, "Saver", "deriveSolutionId"))
	lists["as_is_id_lits"] = stringLits(saverFile, findFunc(saver, saverFile, "Saver", "deriveAsIsSolutionId"))
	lists["optimised_as_is_id_lits"] = stringLits(saverFile, findFunc(saver, saverFile, "Saver", "deriveAsIsOptimisedSolutionId"))
	// the optimised solution's id: <x>.Id() + <literal>
	opt := findFunc(saver, saverFile, "Saver", "encodeAndSummariseOptimisedSolution")
	suffixes := []string{}
	ast.Inspect(opt, func(x ast.Node) bool {
		if be, ok := x.(*ast.BinaryExpr); ok && be.Op == token.ADD {
			if call, ok := be.X.(*ast.CallExpr); ok {
				if sel, ok := call.Fun.(*ast.SelectorExpr); ok && sel.Sel.Name == "Id" {
					if bl, ok := be.Y.(*ast.BasicLit); ok && bl.Kind == token.STRING {
						suffixes = append(suffixes, unquote(saverFile, bl))
					}
				}
			}
		}
		return true
	})
	if len(suffixes) != 1 {
		fatal("%s: encodeAndSummariseOptimisedSolution: expected exactly one `<x>.Id() + \"literal\"`, found %d", saverFile, len(suffixes))
	}
	strs["optimised_suffix"] = suffixes[0]
	// the label: literals in order (pattern, label, pattern, label, initial value, separator) ...
	lab := findFunc(saver, saverFile, "", "deriveSummaryIdFromSolution")
	lists["label_lits"] = stringLits(saverFile, lab)
	// ... each special case is `if strings.Contains(solution.Id, <pattern>) { return <label> }`, in this order
	cases := []string{}
	for _, st := range lab.Body.List {
		is, ok := st.(*ast.IfStmt)
		if !ok || is.Init != nil {
			continue
		}
		call, ok := is.Cond.(*ast.CallExpr)
		if !ok {
			fatal("%s: deriveSummaryIdFromSolution: special case with a condition that is not a call: %s", saverFile, exprString(is.Cond))
		}
		if len(is.Body.List) != 1 {
			fatal("%s: deriveSummaryIdFromSolution: special case with more than one statement", saverFile)
		}
		ret, ok := is.Body.List[0].(*ast.ReturnStmt)
		if !ok || len(ret.Results) != 1 {
			fatal("%s: deriveSummaryIdFromSolution: special case that does not return one value", saverFile)
		}
		cases = append(cases, exprString(call.Fun)+"("+exprString(call.Args[0])+",_)")
		_ = ret
	}
	lists["label_case_tests"] = cases
	// ... and the general case takes matches[len(matches)-1]
	indexes := []string{}
	ast.Inspect(lab, func(x ast.Node) bool {
		if ie, ok := x.(*ast.IndexExpr); ok {
			indexes = append(indexes, exprString(ie))
		}
		return true
	})
	lists["label_index_exprs"] = indexes
	strs["iteration_regex"] = packageRegexp(saver, saverFile, "iterationMatcher")
	strs["prettified_regex"] = packageRegexp(saver, saverFile, "prettifiedMatcher")

	// ---- set.Summary
	summary := parse(root, summaryFile)
	lists["set_id_lits"] = stringLits(summaryFile, findFunc(summary, summaryFile, "Summary", "Id"))
	lists["file_stem_lits"] = stringLits(summaryFile, findFunc(summary, summaryFile, "Summary", "FileNameSafeId"))

	// ---- JSON set name
	jm := parse(root, jsonMarshaler)
	strs["json_name_regex"] = packageRegexp(jm, jsonMarshaler, "nameMatcher")
	dsn := findFunc(jm, jsonMarshaler, "", "deriveSetNameFor")
	jidx := []string{}
	ast.Inspect(dsn, func(x ast.Node) bool {
		if ie, ok := x.(*ast.IndexExpr); ok {
			if sel, ok := ie.X.(*ast.CallExpr); ok {
				jidx = append(jidx, exprString(sel.Fun)+"(_)["+exprString(ie.Index)+"]")
			}
		}
		return true
	})
	lists["json_name_index_exprs"] = jidx

	// ---- file names
	for _, e := range []struct{ key, rel string }{{"csv", csvEncoder}, {"json", jsonEncoder}} {
		f := parse(root, e.rel)
		strs[e.key+"_file_type"] = packageConst(f, e.rel, "fileType")
		lists[e.key+"_output_path_lits"] = stringLits(e.rel, findFunc(f, e.rel, "Encoder", "deriveOutputPath"))
		lists[e.key+"_summary_path_lits"] = stringLits(e.rel, findFunc(f, e.rel, "Encoder", "deriveSummaryOutputPath"))
	}
	sol := parse(root, solutionFile)
	lists["detail_stem_lits"] = stringLits(solutionFile, findFunc(sol, solutionFile, "Solution", "FileNameSafeId"))

	// ---- output
	var sb strings.Builder
	sb.WriteString("(* GENERATED by harness/astfacts12 from the repository's current source -- do not edit *)\n")
	sb.WriteString("From Coq Require Import String List.\nImport ListNotations.\nOpen Scope string_scope.\n\n")
	keys := []string{}
	for k := range strs {
		keys = append(keys, k)
	}
	sort.Strings(keys)
	for _, k := range keys {
		fmt.Fprintf(&sb, "Definition %s : string := %s.\n", k, coqString(strs[k]))
		facts[k] = strs[k]
	}
	keys = keys[:0]
	for k := range lists {
		keys = append(keys, k)
	}
	sort.Strings(keys)
	for _, k := range keys {
		fmt.Fprintf(&sb, "Definition %s : list string := %s.\n", k, coqList(lists[k]))
		facts[k] = lists[k]
	}
	if err := os.WriteFile(os.Args[2], []byte(sb.String()), 0o666); err != nil {
		fatal("cannot write %s: %v", os.Args[2], err)
	}
	facts["files_parsed"] = []string{runnerFile, saverFile, summaryFile, jsonMarshaler, jsonEncoder, csvEncoder, solutionFile}
	out, _ := json.Marshal(facts)
	fmt.Println(string(out))
}
