//go:build verif

package main

import (
	"fmt"
	mrand "math/rand"

	"github.com/LindsayBradford/crem/internal/pkg/annealing/annealers"
	"github.com/LindsayBradford/crem/internal/pkg/annealing/cooling/coolants/averaged"
	coolsupp "github.com/LindsayBradford/crem/internal/pkg/annealing/cooling/coolants/suppapitnarm"
	"github.com/LindsayBradford/crem/internal/pkg/annealing/explorer"
	"github.com/LindsayBradford/crem/internal/pkg/annealing/explorer/suppapitnarm"
	"github.com/LindsayBradford/crem/internal/pkg/model"
	marchive "github.com/LindsayBradford/crem/internal/pkg/model/archive"
	"github.com/LindsayBradford/crem/internal/pkg/model/models/catchment"
	"github.com/LindsayBradford/crem/internal/pkg/observer"
	"github.com/LindsayBradford/crem/internal/pkg/parameters"
	"github.com/LindsayBradford/crem/internal/pkg/rand"
	"github.com/LindsayBradford/crem/pkg/logging/loggers"
)

// C05, live part: real multi-objective runs (SimpleAnnealer + suppapitnarm.Explorer + catchment model on the
// shipped datasets).  The explorer is wrapped so that after EVERY TryRandomChange the live archive is read through
// the verif accessors (harness/overlay/.../suppapitnarm/verif_c05.go).  Each run is reconstructed as an operation
// stream (Offer / OfferForce with the candidate the explorer compressed) and exported as an ordinary sequence case,
// so the Coq model is compared on the streams the real system produces; the oracle judges every iteration, the
// finally reported archive (ModelArchive attribute of FinishedAnnealing), and that every reported member's values
// are those of a freshly built model set to the member's action set.

type c05spy struct {
	*suppapitnarm.Explorer
	seed    int64
	run     *c05run
	obs     []c05obs
	attempt int // verdict of the attempt announced in this iteration, -1 = none seen
}

func (s *c05spy) DeepClone() explorer.Explorer { return s }

// ObserveEvent: the explorer announces the verdict of AttemptToArchiveState (event carrying "ChangeDesirable") before
// it decides whether to force; this is how the attempt's own result is observed when a forced store follows.
func (s *c05spy) ObserveEvent(e observer.Event) {
	if e.Attribute("ChangeDesirable") == nil {
		return
	}
	text, _ := e.Attribute("ArchiveStorageResult").(string)
	for code := uint(0); code <= 5; code++ {
		if marchive.StorageResult(code).String() == text && code != 4 {
			s.attempt = int(code)
		}
	}
}

func (s *c05spy) Initialise() {
	s.Explorer.Initialise()
	// Initialise installs time-seeded generators; replace them so that the run is a function of VERIF_SEED
	s.Explorer.VerifC05SeedCoolant(rand.New(mrand.NewSource(s.seed)))
	s.Explorer.VerifC05Archive().SetRandomNumberGenerator(rand.New(mrand.NewSource(s.seed + 1)))
	cur, pot := s.Explorer.VerifC05Models()
	if m, ok := cur.(*catchment.Model); ok {
		m.VerifC05SeedActions(rand.New(mrand.NewSource(s.seed + 2)))
		m.VerifC05Rerandomise() // the starting state, again by the model's own randomisation, now seeded
	}
	if m, ok := pot.(*catchment.Model); ok {
		m.VerifC05SeedActions(rand.New(mrand.NewSource(s.seed + 3)))
	}
	s.run.arch = s.Explorer.VerifC05Archive()
	s.run.live = true
}

func c05candOfState(st *marchive.CompressedModelState) c05cand {
	n := st.Actions.Len()
	bits := make([]bool, n)
	for i := 0; i < n; i++ {
		bits[i] = st.Actions.Value(i)
	}
	return c05cand{vec: append([]float64{}, st.Variables...), bits: bits}
}

func (s *c05spy) TryRandomChange() {
	arch := s.Explorer.VerifC05Archive()
	before := append([]*marchive.CompressedModelState{}, arch.Archive()...)
	s.attempt = -1
	s.Explorer.TryRandomChange()
	after := append([]*marchive.CompressedModelState{}, arch.Archive()...)
	_, potential := s.Explorer.VerifC05Models()
	cand := c05candOfState(arch.Compress(potential)) // the candidate of this iteration (potentialModel is not touched after the offer)
	last := s.Explorer.VerifC05LastResult()
	o := c05op{kind: c05Offer, cand: cand}
	results := []uint{uint(last)}
	var mid []*marchive.CompressedModelState
	if last == marchive.StoredForcingDominatingStateRemoval {
		// AcceptUndesirableChange: the attempt was refused (archive unchanged), then the candidate was forced
		first := uint(marchive.RejectedWithStoredEntryDominanceDetected)
		if s.attempt >= 0 {
			first = uint(s.attempt)
		}
		if first == uint(marchive.RejectedWithStoredEntryDominanceDetected) {
			o.kind = c05OfferForce
			results = []uint{first, uint(last)}
			mid = before
		} else {
			// a forced store that does not follow a "rejected, dominated" verdict is outside the explorer's language
			// (recorded; what C05 demands -- the invariant of the live archive -- is judged on the result below)
			c05stats["live_forced_without_dominated_verdict"]++
			s.obs = append(s.obs, s.run.record(c05op{kind: c05Offer, cand: cand}, false, []uint{first}, before, nil, before))
			o.kind = c05ForceRaw
			results = []uint{uint(last)}
			before2 := before
			s.obs = append(s.obs, s.run.record(o, false, results, before2, nil, after))
			c05stats["live_iterations"]++
			return
		}
	} else if last == marchive.RejectedWithStoredEntryDominanceDetected {
		c05stats["live_dominated_not_forced"]++
	}
	s.obs = append(s.obs, s.run.record(o, false, results, before, mid, after))
	c05stats["live_iterations"]++
	c05stats[fmt.Sprintf("live_result_%d", last)]++
}

var c05revalued = map[string][]float64{}

type c05finish struct {
	reported *marchive.NonDominanceModelArchive
}

func (f *c05finish) ObserveEvent(e observer.Event) {
	if e.EventType == observer.FinishedAnnealing {
		if a, ok := e.Attribute(suppapitnarm.ModelArchive).(marchive.NonDominanceModelArchive); ok {
			f.reported = &a
		}
	}
}

func c05liveRun(name, dataPath string, averagedCoolant bool, iterations int, seed int64, extra, modelExtra parameters.Map) {
	modelParams := parameters.Map{"DataSourcePath": dataPath}
	for k, v := range modelExtra {
		modelParams[k] = v
	}
	newModel := func() *catchment.Model { return catchment.NewModel().WithParameters(modelParams) }

	var ex *suppapitnarm.Explorer
	if averagedCoolant {
		ex = suppapitnarm.New().WithCoolant(averaged.NewCoolant())
	} else {
		ex = suppapitnarm.New().WithCoolant(coolsupp.NewCoolant())
	}
	spy := &c05spy{Explorer: ex, seed: seed, run: c05newRun("live_" + name), attempt: -1}
	ex.AddObserver(spy)
	an := new(annealers.SimpleAnnealer)
	an.Initialise()
	an.SetSolutionExplorer(spy)
	an.SetLogHandler(new(loggers.NullLogger))
	params := parameters.Map{"MaximumIterations": int64(iterations), "StartingTemperature": float64(50),
		"CoolingFactor": float64(0.99), "CheckNonDominance": true,
		"InitialReturnToBaseStep": int64(25), "MinimumReturnToBaseRate": int64(5)}
	for k, v := range extra {
		params[k] = v
	}
	if err := an.SetParameters(params); err != nil {
		panic(fmt.Sprint("c05 live: annealer parameters rejected: ", err))
	}
	an.SetModel(newModel())
	fin := &c05finish{}
	an.AddObserver(fin)

	panicked, what := protect(func() { an.Anneal() })
	if panicked {
		// D14b (attempt limit reached in the initial randomisation) and friends: an outcome of the run, not of C05
		c05stats["live_runs_panicked"]++
		if len(what) > 90 {
			what = what[len(what)-90:]
		}
		c05stats["live_panic: ..."+what]++
	}
	r := spy.run
	if len(r.ops) == 0 {
		return
	}
	c05stats["live_runs"]++
	if !r.consistent {
		c05stats["live_streams_inconsistent"]++
	}
	if l := r.arch.Len(); l > c05stats["live_max_archive_len"] {
		c05stats["live_max_archive_len"] = l
	}
	c05stats[fmt.Sprintf("live_dim_%d", len(r.ops[0].cand.vec))]++
	c05stats[fmt.Sprintf("live_actions_%d", len(r.ops[0].cand.bits))]++

	// the finally reported set is the live archive
	live := r.arch.Archive()
	if !panicked {
		if fin.reported == nil {
			r.fail("FinishedAnnealing carried no ModelArchive attribute", func() J { return J{} })
		} else {
			rep := fin.reported.Archive()
			same := len(rep) == len(live)
			for i := 0; same && i < len(rep); i++ {
				same = rep[i] == live[i]
			}
			if !same {
				r.fail("the finally reported archive differs from the explorer's live archive", func() J { return J{"reported": c05plainEntries(rep), "live": c05plainEntries(live)} })
			}
		}
	}
	// every reported member's objective values are those of the model evaluated at the member's action set
	for _, member := range live {
		// one fresh model per distinct (dataset, limits, action set): building a model re-reads the dataset
		cacheKey := fmt.Sprint(dataPath, modelExtra, "|", c05entryOf(member).acts)
		var values []float64
		var p bool
		var pw string
		if cached, ok := c05revalued[cacheKey]; ok {
			values = cached
		} else {
			fresh := newModel()
			fresh.Initialise(model.AsIs)
			p, pw = protect(func() {
				r.arch.Decompress(member, fresh)
				keys := fresh.NameMappedVariables().SortedKeys()
				for _, key := range keys {
					values = append(values, fresh.DecisionVariable(key).Value())
				}
			})
			if !p {
				c05revalued[cacheKey] = values
			}
			c05stats["live_fresh_models_built"]++
		}
		c05stats["live_members_revalued"]++
		if p || !c05sameVec(values, member.Variables) {
			r.fail("a reported member's objective values are not those of the model evaluated at its action set",
				func() J {
					return J{"member": J{"vec": []float64(member.Variables), "acts": c05entryOf(member).acts}, "revalued": values, "panic": pw}
				})
		}
	}
	c05emitSeq(r, spy.obs)
}

func c05live(tier string, rng *prng) {
	valid := "internal/pkg/model/models/catchment/testdata/ValidModel.csv"
	testing := "internal/pkg/model/models/catchment/testdata/TestingModel.csv"
	runs, iters := 6, 100
	if tier == "thorough" {
		runs, iters = 24, 400
	}
	// return-to-base schedules (initial step, minimum rate): the explorer's moves only ever activate (or, under a
	// sediment/nitrogen limit, only deactivate) actions, so frequent returns to an archived base are what makes
	// the candidate stream varied
	rtb := [][2]int64{{25, 5}, {4, 2}, {2, 1}, {8, 3}}
	limits := []parameters.Map{nil, {"MaximumImplementationCost": float64(1.1e7)},
		{"MaximumSedimentProduction": float64(600)}, nil, nil}
	for i := 0; i < runs; i++ {
		path, name := valid, "ValidModel"
		if i%2 == 1 {
			path, name = testing, "TestingModel"
		}
		seed := int64(rng.next() >> 2)
		sched := rtb[(i/2)%len(rtb)]
		extra := parameters.Map{"InitialReturnToBaseStep": sched[0], "MinimumReturnToBaseRate": sched[1]}
		lim := limits[(i/2)%len(limits)]
		if lim != nil {
			name += "_limited"
		}
		c05liveRun(name, path, i%4 >= 2, iters, seed, extra, lim)
	}
}
