//go:build verif

package main

func c05live(tier string, rng *prng) {}
