//go:build verif

package main

// C09probe (not part of any check; a one-off confirmation handed to the owner of C13/C15):
// what does the REAL engine do with a summary row whose Actions text passes the engine's own pattern
// ^[0-9A-Fa-f:]*$ but is rejected by BooleanArchive.Decode?  SolutionPool.AddSolution ignores Decode's error.
// Prints one JSON line per request.  Uses the C13 helpers (real api.Mux through ServeHTTP).

import (
	"encoding/json"
	"fmt"
)

func runC09probe(args []string) {
	c13setup()
	mux := c13newMux()
	if mux == nil {
		return
	}
	ref := mux.VerifC13Model()
	n := len(ref.ManagementActions())
	asVars, asEnc := c13vars(ref, 0)
	realVars, realEnc := c13vars(ref, 0x5)
	emit(J{"kind": "probe", "step": "scenario", "actions": n, "as_is_encoding": asEnc, "encoding_of_set_0x5": realEnc})
	rows := []c13row{
		{label: "As-Is", enc: asEnc, note: "As-is state; zero active management actions", vars: asVars},
		{label: "1-of-4", enc: realEnc, note: "real row", vars: realVars},
		{label: "2-of-4", enc: "1:2", note: "wrong word count", vars: realVars},
		{label: "3-of-4", enc: "10000000000000000", note: "word above 2^64-1", vars: realVars},
		{label: "4-of-4", enc: ":", note: "empty entries", vars: realVars},
	}
	text := c13marshal(rows)
	emit(J{"kind": "probe", "step": "summary_csv", "text": text})
	post := c13send(mux, "POST", "solutions", text, "text/csv")
	emit(J{"kind": "probe", "step": "POST /api/v1/solutions", "status": post.status, "panicked": post.panicked, "body": post.body})
	for _, r := range rows {
		g := c13send(mux, "GET", "solutions/"+r.label, "", "")
		var jm map[string]interface{}
		json.Unmarshal([]byte(g.body), &jm)
		enc, _ := c13attr(jm, "Encoding")
		valid, _ := c13attr(jm, "ValidAgainstScenario")
		front, _ := c13attr(jm, "ParetoFrontMember")
		emit(J{"kind": "probe", "step": "GET /api/v1/solutions/" + r.label, "row_actions_text": r.enc, "status": g.status, "panicked": g.panicked,
			"panic": g.what, "served_Encoding_attribute": fmt.Sprint(enc), "served_active_actions": c13active(jm),
			"served_values": c13values(jm), "ValidAgainstScenario": fmt.Sprint(valid), "ParetoFrontMember": fmt.Sprint(front)})
	}
	// the same texts through PATCH /model, which does check Decode's error
	for _, e := range []string{"1:2", "10000000000000000"} {
		body, _ := json.Marshal([]J{{"Name": "Encoding", "Value": e}})
		p := c13send(mux, "PATCH", "model", string(body), "application/json")
		emit(J{"kind": "probe", "step": "PATCH /api/v1/model Encoding=" + e, "status": p.status, "panicked": p.panicked, "body": p.body})
	}
}

func init() { register("C09probe", runC09probe) }
