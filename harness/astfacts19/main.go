// astfacts19 -- stand-alone translator for property C19 (go/ast + go/parser only, no crem imports).
//
//	astfacts19 <repo root> <output Facts19.v>
//
// Reads the CURRENT source of the repository and regenerates the Coq record `Facts19.facts19 : Config.facts`:
//
//   - cmd/cremexplorer/config/data/Retrieval.go: the literal of defaultConfig() and the conditions of checkMandatoryFields();
//   - every UnmarshalText method of the two configuration data packages: the ValidValues of each enumerated key;
//   - internal/pkg/config/interpreter/ModelConfigInterpreter.go: RegisteringModel(name, constructor) calls;
//   - internal/pkg/config/interpreter/AnnealerConfigInterpreter.go: RegisteringAnnealer(type, constructor) calls;
//   - internal/pkg/config/interpreter/LoggingConfigInterpreter.go: the cases of deriveDestination.
//
// A shape it does not recognise is a hard error (exit 3), never a silent skip.  What it extracted is also printed as one
// JSON object on stdout (copied into the evidence).
package main

import (
	"encoding/json"
	"fmt"
	"go/ast"
	"go/parser"
	"go/token"
	"os"
	"path/filepath"
	"sort"
	"strconv"
	"strings"
)

var (
	fset    = token.NewFileSet()
	repoDir string
)

func fatal(format string, a ...interface{}) {
	fmt.Fprintf(os.Stderr, "astfacts19: "+format+"\n", a...)
	os.Exit(3)
}

type pkgFiles struct {
	dir   string
	files []*ast.File
}

func parseDir(rel string) *pkgFiles {
	dir := filepath.Join(repoDir, rel)
	ents, err := os.ReadDir(dir)
	if err != nil {
		fatal("cannot read %s: %v", rel, err)
	}
	p := &pkgFiles{dir: rel}
	for _, e := range ents {
		n := e.Name()
		if e.IsDir() || !strings.HasSuffix(n, ".go") || strings.HasSuffix(n, "_test.go") {
			continue
		}
		f, perr := parser.ParseFile(fset, filepath.Join(dir, n), nil, parser.ParseComments)
		if perr != nil {
			fatal("cannot parse %s/%s: %v", rel, n, perr)
		}
		p.files = append(p.files, f)
	}
	if len(p.files) == 0 {
		fatal("no Go files in %s", rel)
	}
	return p
}

func (p *pkgFiles) funcDecl(recv, name string) *ast.FuncDecl {
	var found *ast.FuncDecl
	for _, f := range p.files {
		for _, d := range f.Decls {
			fd, ok := d.(*ast.FuncDecl)
			if !ok || fd.Name.Name != name {
				continue
			}
			r := ""
			if fd.Recv != nil && len(fd.Recv.List) == 1 {
				t := fd.Recv.List[0].Type
				if st, ok := t.(*ast.StarExpr); ok {
					t = st.X
				}
				if id, ok := t.(*ast.Ident); ok {
					r = id.Name
				}
			}
			if r == recv {
				if found != nil {
					fatal("%s: two declarations of %s.%s", p.dir, recv, name)
				}
				found = fd
			}
		}
	}
	if found == nil {
		fatal("%s: func %s.%s not found", p.dir, recv, name)
	}
	return found
}

// package-level `Name = Type{"text"}` (var) and `Name = "text"` (const/var)
func (p *pkgFiles) stringValues() map[string]string {
	res := map[string]string{}
	for _, f := range p.files {
		for _, d := range f.Decls {
			gd, ok := d.(*ast.GenDecl)
			if !ok || (gd.Tok != token.VAR && gd.Tok != token.CONST) {
				continue
			}
			for _, s := range gd.Specs {
				vs := s.(*ast.ValueSpec)
				for i, n := range vs.Names {
					if i >= len(vs.Values) {
						continue
					}
					switch v := vs.Values[i].(type) {
					case *ast.BasicLit:
						if v.Kind == token.STRING {
							t, _ := strconv.Unquote(v.Value)
							res[n.Name] = t
						}
					case *ast.CompositeLit:
						if len(v.Elts) == 1 {
							if bl, ok := v.Elts[0].(*ast.BasicLit); ok && bl.Kind == token.STRING {
								t, _ := strconv.Unquote(bl.Value)
								res[n.Name] = t
							}
						}
					}
				}
			}
		}
	}
	return res
}

func imports(f *ast.File) map[string]string {
	m := map[string]string{}
	for _, im := range f.Imports {
		ip := strings.Trim(im.Path.Value, "\"`")
		local := ip[strings.LastIndex(ip, "/")+1:]
		if im.Name != nil {
			local = im.Name.Name
		}
		m[local] = ip
	}
	return m
}

func fileOf(p *pkgFiles, fd *ast.FuncDecl) *ast.File {
	for _, f := range p.files {
		if f.Pos() <= fd.Pos() && fd.End() <= f.End() {
			return f
		}
	}
	fatal("file of %s not found", fd.Name.Name)
	return nil
}

// ---- 1. defaults ----

type defaults struct {
	RunNumber, MaxConcurrent, ReportEvery int64
	OutputPath                            string
}

func flattenLit(prefix string, cl *ast.CompositeLit, out map[string]ast.Expr) {
	for _, e := range cl.Elts {
		kv, ok := e.(*ast.KeyValueExpr)
		if !ok {
			fatal("defaultConfig: positional element in a composite literal at %s", fset.Position(e.Pos()))
		}
		k, ok := kv.Key.(*ast.Ident)
		if !ok {
			fatal("defaultConfig: unrecognised key at %s", fset.Position(kv.Pos()))
		}
		path := k.Name
		if prefix != "" {
			path = prefix + "." + k.Name
		}
		if inner, ok := kv.Value.(*ast.CompositeLit); ok {
			flattenLit(path, inner, out)
		} else {
			out[path] = kv.Value
		}
	}
}

func intLit(e ast.Expr, what string) int64 {
	bl, ok := e.(*ast.BasicLit)
	if !ok || bl.Kind != token.INT {
		fatal("%s: expected an integer literal at %s", what, fset.Position(e.Pos()))
	}
	n, err := strconv.ParseInt(strings.ReplaceAll(bl.Value, "_", ""), 0, 64)
	if err != nil {
		fatal("%s: %v", what, err)
	}
	return n
}

// an integer literal or one of math.MaxInt64 / math.MaxInt32
func intOrMathConst(e ast.Expr) int64 {
	if sel, ok := e.(*ast.SelectorExpr); ok {
		if id, ok := sel.X.(*ast.Ident); ok && id.Name == "math" {
			switch sel.Sel.Name {
			case "MaxInt64":
				return 9223372036854775807
			case "MaxInt32":
				return 2147483647
			}
		}
		fatal("checkMandatoryFields: unrecognised constant at %s", fset.Position(e.Pos()))
	}
	return intLit(e, "checkMandatoryFields")
}

func strLit(e ast.Expr, what string) string {
	bl, ok := e.(*ast.BasicLit)
	if !ok || bl.Kind != token.STRING {
		fatal("%s: expected a string literal at %s", what, fset.Position(e.Pos()))
	}
	s, _ := strconv.Unquote(bl.Value)
	return s
}

func extractDefaults(p *pkgFiles) defaults {
	fd := p.funcDecl("", "defaultConfig")
	var lit *ast.CompositeLit
	ast.Inspect(fd.Body, func(n ast.Node) bool {
		if cl, ok := n.(*ast.CompositeLit); ok && lit == nil {
			if id, ok := cl.Type.(*ast.Ident); ok && id.Name == "Config" {
				lit = cl
				return false
			}
		}
		return true
	})
	if lit == nil {
		fatal("defaultConfig: no Config{...} literal")
	}
	flat := map[string]ast.Expr{}
	flattenLit("", lit, flat)
	// zero values of the struct: what the model assumes for every field the literal does not mention
	d := defaults{RunNumber: 0, MaxConcurrent: 0, ReportEvery: 0, OutputPath: ""}
	for path, e := range flat {
		switch path {
		case "Scenario.RunNumber":
			d.RunNumber = intLit(e, path)
		case "Scenario.MaximumConcurrentRunNumber":
			d.MaxConcurrent = intLit(e, path)
		case "Scenario.OutputPath":
			d.OutputPath = strLit(e, path)
		case "Scenario.Reporting.ReportEveryNumberOfIterations":
			d.ReportEvery = intLit(e, path)
		default:
			fatal("defaultConfig: a default for %s, which the model treats as zero-valued (Config.decoded)", path)
		}
	}
	return d
}

// ---- 2. mandatory conditions ----

type mcond struct {
	Kind string `json:"kind"` // empty | less | greater | unspecified
	Path string `json:"path"`
	K    int64  `json:"k,omitempty"`
}

func selPath(e ast.Expr, root string) string {
	var parts []string
	for {
		switch x := e.(type) {
		case *ast.SelectorExpr:
			parts = append([]string{x.Sel.Name}, parts...)
			e = x.X
			continue
		case *ast.Ident:
			if x.Name != root {
				fatal("checkMandatoryFields: condition reads %s, not %s, at %s", x.Name, root, fset.Position(x.Pos()))
			}
			return strings.Join(parts, ".")
		default:
			fatal("checkMandatoryFields: unrecognised operand at %s", fset.Position(e.Pos()))
		}
	}
}

func extractMandatory(p *pkgFiles) []mcond {
	fd := p.funcDecl("", "checkMandatoryFields")
	if len(fd.Type.Params.List) != 1 || len(fd.Type.Params.List[0].Names) != 1 {
		fatal("checkMandatoryFields: unexpected signature")
	}
	root := fd.Type.Params.List[0].Names[0].Name
	var conds []mcond
	for _, st := range fd.Body.List {
		switch s := st.(type) {
		case *ast.AssignStmt, *ast.ReturnStmt:
			continue
		case *ast.IfStmt:
			be, ok := s.Cond.(*ast.BinaryExpr)
			if !ok {
				fatal("checkMandatoryFields: condition is not a comparison at %s", fset.Position(s.Pos()))
			}
			// `if errors.Size() > 0 { return errors }`
			if call, ok := be.X.(*ast.CallExpr); ok {
				if sel, ok := call.Fun.(*ast.SelectorExpr); ok && sel.Sel.Name == "Size" {
					continue
				}
			}
			if s.Else != nil || s.Init != nil || len(s.Body.List) != 1 {
				fatal("checkMandatoryFields: unrecognised if shape at %s", fset.Position(s.Pos()))
			}
			es, ok := s.Body.List[0].(*ast.ExprStmt)
			if !ok {
				fatal("checkMandatoryFields: body is not a call at %s", fset.Position(s.Pos()))
			}
			call, ok := es.X.(*ast.CallExpr)
			if !ok {
				fatal("checkMandatoryFields: body is not a call at %s", fset.Position(s.Pos()))
			}
			if sel, ok := call.Fun.(*ast.SelectorExpr); !ok || (sel.Sel.Name != "AddMessage" && sel.Sel.Name != "Add") {
				fatal("checkMandatoryFields: body does not add an error at %s", fset.Position(s.Pos()))
			}
			path := selPath(be.X, root)
			switch be.Op {
			case token.EQL:
				switch y := be.Y.(type) {
				case *ast.BasicLit:
					if y.Kind != token.STRING || strLit(y, "checkMandatoryFields") != "" {
						fatal("checkMandatoryFields: comparison with a literal other than \"\" at %s", fset.Position(y.Pos()))
					}
					conds = append(conds, mcond{Kind: "empty", Path: path})
				case *ast.SelectorExpr:
					if !strings.HasPrefix(y.Sel.Name, "Unspecified") {
						fatal("checkMandatoryFields: comparison with %s at %s", y.Sel.Name, fset.Position(y.Pos()))
					}
					conds = append(conds, mcond{Kind: "unspecified", Path: path})
				default:
					fatal("checkMandatoryFields: unrecognised right operand at %s", fset.Position(be.Y.Pos()))
				}
			case token.LSS:
				conds = append(conds, mcond{Kind: "less", Path: path, K: intLit(be.Y, "checkMandatoryFields")})
			case token.LEQ:
				conds = append(conds, mcond{Kind: "less", Path: path, K: intLit(be.Y, "checkMandatoryFields") + 1})
			case token.GTR:
				conds = append(conds, mcond{Kind: "greater", Path: path, K: intOrMathConst(be.Y)})
			default:
				fatal("checkMandatoryFields: unrecognised operator %s at %s", be.Op, fset.Position(be.Pos()))
			}
		default:
			fatal("checkMandatoryFields: unrecognised statement at %s", fset.Position(st.Pos()))
		}
	}
	return conds
}

// ---- 3. enumerated keys ----

func extractEnums(ps ...*pkgFiles) map[string][]string {
	res := map[string][]string{}
	for _, p := range ps {
		vals := p.stringValues()
		for _, f := range p.files {
			for _, d := range f.Decls {
				fd, ok := d.(*ast.FuncDecl)
				if !ok || fd.Name.Name != "UnmarshalText" || fd.Recv == nil {
					continue
				}
				t := fd.Recv.List[0].Type
				if st, ok := t.(*ast.StarExpr); ok {
					t = st.X
				}
				recv := t.(*ast.Ident).Name
				var valid []string
				found := false
				ast.Inspect(fd.Body, func(n ast.Node) bool {
					kv, ok := n.(*ast.KeyValueExpr)
					if !ok {
						return true
					}
					if k, ok := kv.Key.(*ast.Ident); ok && k.Name == "ValidValues" {
						cl, ok := kv.Value.(*ast.CompositeLit)
						if !ok {
							fatal("%s.UnmarshalText: ValidValues is not a literal", recv)
						}
						found = true
						for _, e := range cl.Elts {
							switch x := e.(type) {
							case *ast.SelectorExpr:
								id, ok := x.X.(*ast.Ident)
								if !ok {
									fatal("%s.UnmarshalText: unrecognised valid value at %s", recv, fset.Position(e.Pos()))
								}
								text, ok := vals[id.Name]
								if !ok {
									fatal("%s.UnmarshalText: cannot resolve %s", recv, id.Name)
								}
								valid = append(valid, text)
							case *ast.BasicLit:
								valid = append(valid, strLit(x, recv))
							default:
								fatal("%s.UnmarshalText: unrecognised valid value at %s", recv, fset.Position(e.Pos()))
							}
						}
					}
					return true
				})
				if !found {
					fatal("%s.UnmarshalText: no ValidValues", recv)
				}
				// the method must go through ProcessUnmarshalContext (membership test, then assignment)
				uses := false
				ast.Inspect(fd.Body, func(n ast.Node) bool {
					if c, ok := n.(*ast.CallExpr); ok {
						switch fn := c.Fun.(type) {
						case *ast.Ident:
							uses = uses || fn.Name == "ProcessUnmarshalContext"
						case *ast.SelectorExpr:
							uses = uses || fn.Sel.Name == "ProcessUnmarshalContext"
						}
					}
					return true
				})
				if !uses {
					fatal("%s.UnmarshalText does not call ProcessUnmarshalContext", recv)
				}
				res[recv] = valid
			}
		}
	}
	return res
}

// ---- 4. registered models and annealers ----

type reg struct {
	Name string `json:"name"`
	Kind string `json:"kind"`
}

func calledSelectors(n ast.Node, imps map[string]string) []string {
	var res []string
	ast.Inspect(n, func(x ast.Node) bool {
		switch c := x.(type) {
		case *ast.CallExpr:
			if sel, ok := c.Fun.(*ast.SelectorExpr); ok {
				if id, ok := sel.X.(*ast.Ident); ok {
					if ip, ok := imps[id.Name]; ok {
						res = append(res, ip+"."+sel.Sel.Name)
					}
				}
			}
			// new(pkg.Type)
			if id, ok := c.Fun.(*ast.Ident); ok && id.Name == "new" && len(c.Args) == 1 {
				if sel, ok := c.Args[0].(*ast.SelectorExpr); ok {
					if pid, ok := sel.X.(*ast.Ident); ok {
						if ip, ok := imps[pid.Name]; ok {
							res = append(res, "new:"+ip+"."+sel.Sel.Name)
						}
					}
				}
			}
		}
		return true
	})
	return res
}

func hasSuffixAny(l []string, suffix string) bool {
	for _, s := range l {
		if strings.HasSuffix(s, suffix) {
			return true
		}
	}
	return false
}

func registrations(p *pkgFiles, ctor, method string) (calls []*ast.CallExpr, f *ast.File) {
	fd := p.funcDecl("", ctor)
	f = fileOf(p, fd)
	ast.Inspect(fd.Body, func(n ast.Node) bool {
		if c, ok := n.(*ast.CallExpr); ok {
			if sel, ok := c.Fun.(*ast.SelectorExpr); ok && sel.Sel.Name == method {
				calls = append(calls, c)
			}
		}
		return true
	})
	if len(calls) == 0 {
		fatal("%s: no %s call", ctor, method)
	}
	// the outermost call of a fluent chain is visited first: restore source order
	sort.Slice(calls, func(i, j int) bool { return calls[i].Args[0].Pos() < calls[j].Args[0].Pos() })
	return
}

func extractModels(p *pkgFiles) []reg {
	consts := p.stringValues()
	calls, f := registrations(p, "NewModelConfigInterpreter", "RegisteringModel")
	imps := imports(f)
	var res []reg
	for _, c := range calls {
		if len(c.Args) != 2 {
			fatal("RegisteringModel: unexpected arity at %s", fset.Position(c.Pos()))
		}
		var name string
		switch a := c.Args[0].(type) {
		case *ast.Ident:
			t, ok := consts[a.Name]
			if !ok {
				fatal("RegisteringModel: cannot resolve %s", a.Name)
			}
			name = t
		case *ast.BasicLit:
			name = strLit(a, "RegisteringModel")
		default:
			fatal("RegisteringModel: unrecognised name at %s", fset.Position(c.Pos()))
		}
		fl, ok := c.Args[1].(*ast.FuncLit)
		if !ok {
			fatal("RegisteringModel(%s): constructor is not a function literal", name)
		}
		sels := calledSelectors(fl.Body, imps)
		kind := ""
		switch {
		case hasSuffixAny(sels, "/models/catchment.NewModel"):
			kind = "MKCatchment"
		case hasSuffixAny(sels, "/models/modumb.NewModel"):
			kind = "MKMoDumb"
		case hasSuffixAny(sels, "/models/dumb.NewModel"):
			kind = "MKDumb"
		case hasSuffixAny(sels, "/pkg/model.NewNullModel"):
			kind = "MKNull"
		default:
			fatal("RegisteringModel(%s): unrecognised constructor %v", name, sels)
		}
		res = append(res, reg{name, kind})
	}
	return res
}

func extractAnnealers(p *pkgFiles, dataVals map[string]string) []reg {
	calls, f := registrations(p, "NewAnnealerConfigInterpreter", "RegisteringAnnealer")
	imps := imports(f)
	var res []reg
	for _, c := range calls {
		if len(c.Args) != 2 {
			fatal("RegisteringAnnealer: unexpected arity at %s", fset.Position(c.Pos()))
		}
		sel, ok := c.Args[0].(*ast.SelectorExpr)
		if !ok {
			fatal("RegisteringAnnealer: unrecognised type at %s", fset.Position(c.Pos()))
		}
		name, ok := dataVals[sel.Sel.Name]
		if !ok {
			fatal("RegisteringAnnealer: cannot resolve data.%s", sel.Sel.Name)
		}
		fl, ok := c.Args[1].(*ast.FuncLit)
		if !ok {
			fatal("RegisteringAnnealer(%s): constructor is not a function literal", name)
		}
		sels := calledSelectors(fl.Body, imps)
		kind := ""
		tracking := hasSuffixAny(sels, "new:"+"github.com/LindsayBradford/crem/internal/pkg/annealing/annealers.ElapsedTimeTrackingAnnealer") ||
			hasSuffixAny(sels, "/annealing/annealers.ElapsedTimeTrackingAnnealer")
		switch {
		case hasSuffixAny(sels, "/explorer/kirkpatrick.New") && tracking:
			kind = "(AKFam FKirkpatrick)"
		case hasSuffixAny(sels, "/explorer/suppapitnarm.New") && hasSuffixAny(sels, "/coolants/averaged.NewCoolant") && tracking:
			kind = "(AKFam FAveraged)"
		case hasSuffixAny(sels, "/explorer/suppapitnarm.New") && hasSuffixAny(sels, "/coolants/suppapitnarm.NewCoolant") && tracking:
			kind = "(AKFam FSuppapitnarm)"
		case hasSuffixAny(sels, "/annealing/annealers.NullAnnealer") && !tracking:
			kind = "AKNull"
		default:
			fatal("RegisteringAnnealer(%s): unrecognised constructor %v", name, sels)
		}
		res = append(res, reg{name, kind})
	}
	return res
}

// ---- 5. log destinations ----

func extractDestinations(p *pkgFiles) []string {
	fd := p.funcDecl("LoggingConfigInterpreter", "deriveDestination")
	var res []string
	n := 0
	ast.Inspect(fd.Body, func(x ast.Node) bool {
		sw, ok := x.(*ast.SwitchStmt)
		if !ok {
			return true
		}
		n++
		for _, st := range sw.Body.List {
			cc := st.(*ast.CaseClause)
			if cc.List == nil {
				// default: must add an error
				adds := false
				ast.Inspect(cc, func(y ast.Node) bool {
					if c, ok := y.(*ast.CallExpr); ok {
						if sel, ok := c.Fun.(*ast.SelectorExpr); ok && sel.Sel.Name == "Add" {
							adds = true
						}
					}
					return true
				})
				if !adds {
					fatal("deriveDestination: the default case does not add an error")
				}
				continue
			}
			for _, e := range cc.List {
				res = append(res, strLit(e, "deriveDestination"))
			}
		}
		return false
	})
	if n != 1 {
		fatal("deriveDestination: expected exactly one switch")
	}
	return res
}

// ---- output ----

func coqString(s string) string {
	for _, c := range []byte(s) {
		if c < 32 || c >= 127 || c == '"' {
			fatal("string %q cannot be written as a Coq literal", s)
		}
	}
	return "\"" + s + "\""
}

func coqList(items []string) string { return "[" + strings.Join(items, "; ") + "]" }

func coqStrings(l []string) string {
	r := make([]string, len(l))
	for i, s := range l {
		r[i] = coqString(s)
	}
	return coqList(r)
}

func main() {
	if len(os.Args) != 3 {
		fmt.Fprintln(os.Stderr, "usage: astfacts19 <repo root> <output Facts19.v>")
		os.Exit(2)
	}
	repoDir = os.Args[1]
	appData := parseDir("cmd/cremexplorer/config/data")
	pkgData := parseDir("internal/pkg/config/data")
	interp := parseDir("internal/pkg/config/interpreter")

	d := extractDefaults(appData)
	conds := extractMandatory(appData)
	enums := extractEnums(appData, pkgData)
	want := map[string]string{"ScenarioOutputType": "output_types", "ScenarioOutputLevel": "output_levels", "AnnealerType": "annealer_types",
		"EventNotifierType": "event_notifiers", "LoggerType": "logger_types", "FormatterType": "formatters"}
	for recv := range enums {
		if _, ok := want[recv]; !ok {
			fatal("an enumerated configuration type the model has no slot for: %s", recv)
		}
	}
	for recv := range want {
		if _, ok := enums[recv]; !ok {
			fatal("no UnmarshalText found for %s", recv)
		}
	}
	models := extractModels(interp)
	annealers := extractAnnealers(interp, pkgData.stringValues())
	dests := extractDestinations(interp)

	var b strings.Builder
	b.WriteString("(* GENERATED by harness/astfacts19 from the Go source of the repository on this run -- do not edit *)\n")
	b.WriteString("From Coq Require Import List ZArith String.\nFrom Crem Require Import ConfigLoops Config.\nImport ListNotations.\nOpen Scope string_scope.\n\n")
	var cs []string
	for _, c := range conds {
		switch c.Kind {
		case "empty":
			cs = append(cs, "MEmpty "+coqString(c.Path))
		case "unspecified":
			cs = append(cs, "MUnspecified "+coqString(c.Path))
		case "less":
			cs = append(cs, fmt.Sprintf("MLess %s (%d)%%Z", coqString(c.Path), c.K))
		case "greater":
			cs = append(cs, fmt.Sprintf("MGreater %s (%d)%%Z", coqString(c.Path), c.K))
		}
	}
	var ms, as []string
	for _, m := range models {
		ms = append(ms, "("+coqString(m.Name)+", "+m.Kind+")")
	}
	for _, a := range annealers {
		as = append(as, "("+coqString(a.Name)+", "+a.Kind+")")
	}
	fmt.Fprintf(&b, "Definition facts19 : facts := mkFacts\n  (%d)%%Z (%d)%%Z %s (%d)%%Z\n  %s\n  %s\n  %s\n  %s\n  %s\n  %s\n  %s\n  %s\n  %s\n  %s.\n",
		d.RunNumber, d.MaxConcurrent, coqString(d.OutputPath), d.ReportEvery,
		coqList(cs),
		coqStrings(enums["ScenarioOutputType"]), coqStrings(enums["ScenarioOutputLevel"]), coqStrings(enums["AnnealerType"]),
		coqStrings(enums["EventNotifierType"]), coqStrings(enums["LoggerType"]), coqStrings(enums["FormatterType"]),
		coqList(ms), coqList(as), coqStrings(dests))
	if err := os.WriteFile(os.Args[2], []byte(b.String()), 0o644); err != nil {
		fatal("cannot write %s: %v", os.Args[2], err)
	}
	j, _ := json.Marshal(map[string]interface{}{"defaults": d, "mandatory": conds, "enums": enums, "models": models,
		"annealers": annealers, "destinations": dests})
	fmt.Println(string(j))
}
