module astfacts19

go 1.17
