//go:build verif

package main

// C08 — runs of a scenario are independent and safe to execute concurrently.
//
// Three ties between coq/theories/CloneIndep.v and the code (DESIGN.md 8/C08):
//
//  (1) runtime ALIAS TRANSLATOR (c08Alias*): a reflection walker (reflect + unsafe, unexported
//      fields included) over the prototype annealer P and three clones A, B, C prepared exactly
//      as Runner.run prepares a run (DeepClone, run id, observer wiring — through the add-only
//      accessor Runner.VerifPrepareRun — followed by SolutionExplorer().Initialise(), the first
//      statement of Anneal()).  Every reachable mutable location (pointer target, slice backing
//      array, map, channel, func value) gets an id; locations reachable from two of P, A, B, C
//      are "shared".  A shared location is tolerated only if one of the allow rules below names
//      it; the walk does not descend below an allow-listed shared object.  The footprints
//      (ids of all locations that are NOT allow-listed) go to gen/Alias.v, where
//      `pairwise_disjointb [fpP; fpA; fpB; fpC] = true` is checked by computation and is the
//      side condition of the instantiated non-interference theorem.
//
//      ALLOW LIST (objects immutable after set-up, or shared by design):
//        func     func values (code pointers: parameter validators, the OLE wrapper);
//                 variables captured by closures are NOT inspected (named residue)
//        zero     zero-size allocations (all share runtime.zerobase) are skipped entirely
//        params   parameter / specification objects: parameters.Map, specification.Specifications,
//                 their entries and validation-error lists — written by SetParameters /
//                 Initialise at configuration time only; run code calls Get*/HasEntry
//        data     loaded data-set tables (packages internal/pkg/dataset/...): read-only after Load
//        logger   log handlers (packages pkg/logging/...): shared by design
//        notifier the annealer's event notifier (reached through ContainedEventNotifier) and
//                 everything behind it (observer list: saver, loggers, this harness's observer):
//                 shared by design; observers must be goroutine-safe (Saver: mutex) — residue
//        attrs    a shared attributes.Attributes backing array is tolerated iff len == cap
//                 (Add appends, so it reallocates) AND its names are disjoint from the names of
//                 the explorer's event attributes (Join would Replace in place otherwise);
//                 both conditions are checked here
//        tz       *time.Location (immutable)
//
//  (2) AST fact: call sites of process-global mutators (os.Chdir, os.Setenv, os.Unsetenv,
//      os.Clearenv) in non-test code -> gen/Alias.v `global_write_sites = []`; plus a dynamic
//      watcher that polls the working directory while run clones are prepared.
//
//  (3) correspondence / search: the REAL scenario.Runner, run in a child process (a panic in a
//      run goroutine kills the process), for R in {1,2,5}, c in {1,2,R}, all three annealer
//      configurations on the catchment fixture, with an observer recording per run (goroutine)
//      the StartedAnnealing temperature / archive size, the iteration numbers, the number of
//      FinishedAnnealing events and the run id.  Only schedule-independent observables are
//      compared with the model (rand.NewTimeSeeded is time-seeded).

import (
	"bytes"
	"encoding/json"
	"fmt"
	"go/ast"
	"go/parser"
	"go/printer"
	"go/token"
	"os"
	"os/exec"
	"path/filepath"
	"reflect"
	"regexp"
	"runtime"
	"sort"
	"strconv"
	"strings"
	"sync"
	"sync/atomic"
	"time"
	"unsafe"

	"github.com/LindsayBradford/crem/internal/pkg/annealing"
	"github.com/LindsayBradford/crem/internal/pkg/config/data"
	"github.com/LindsayBradford/crem/internal/pkg/config/interpreter"
	"github.com/LindsayBradford/crem/internal/pkg/model"
	"github.com/LindsayBradford/crem/internal/pkg/model/archive"
	"github.com/LindsayBradford/crem/internal/pkg/observer"
	"github.com/LindsayBradford/crem/internal/pkg/parameters"
	"github.com/LindsayBradford/crem/internal/pkg/scenario"
	"github.com/LindsayBradford/crem/pkg/logging/loggers"
)

func init() {
	register("C08", runC08)
	register("C08child", runC08child)
}

const c08DataSource = "internal/pkg/model/models/catchment/testdata/ValidModel.csv"
const c08Name = "S"

var c08Families = []string{"kirkpatrick", "suppapitnarm", "averaged"}

// the alias translator also walks the two test models the shipped Dumb*Annealer configurations use
// "+preinit": the configured model has been initialised before the run clones are taken, as the engine does when it
// remembers the model state (the command-line interpreter only initialises a trial clone)
var c08AliasOnlyFamilies = []string{"kirkpatrick+dumb", "suppapitnarm+modumb", "kirkpatrick+preinit", "suppapitnarm+preinit"}

func c08BuildAnnealer(family string, n int, t0, cf float64) (annealing.Annealer, error) {
	modelConfig := &data.ModelConfig{Type: "CatchmentModel", Parameters: parameters.Map{"DataSourcePath": c08DataSource}}
	objective := "SedimentProduction"
	preinit := strings.HasSuffix(family, "+preinit")
	family = strings.TrimSuffix(family, "+preinit")
	switch family {
	case "kirkpatrick+dumb":
		modelConfig, objective, family = &data.ModelConfig{Type: "DumbModel"}, "ObjectiveValue", "kirkpatrick"
	case "suppapitnarm+modumb":
		modelConfig, family = &data.ModelConfig{Type: "MultiObjectiveDumbModel"}, "suppapitnarm"
	}
	mi := interpreter.NewModelConfigInterpreter().Interpret(modelConfig)
	if mi.Errors() != nil {
		return nil, mi.Errors()
	}
	params := parameters.Map{
		"MaximumIterations": int64(n), "StartingTemperature": t0, "CoolingFactor": cf,
	}
	var at data.AnnealerType
	switch family {
	case "kirkpatrick":
		at = data.Kirkpatrick
		params["DecisionVariable"] = objective
		params["OptimisationDirection"] = "Minimising"
	case "suppapitnarm":
		at = data.Suppapitnarm
	case "averaged":
		at = data.AveragedSuppapitnarm
	default:
		return nil, fmt.Errorf("unknown family %s", family)
	}
	ai := interpreter.NewAnnealerConfigInterpreter().Interpret(&data.AnnealerConfig{Type: at, Parameters: params})
	if ai.Errors() != nil {
		return nil, ai.Errors()
	}
	a := ai.Annealer()
	if preinit {
		mi.Model().Initialise(model.AsIs)
	}
	a.SetModel(mi.Model())
	return a, nil
}

func c08BuildRunner(a annealing.Annealer, r, c int, outDir string) *scenario.Runner {
	saver := scenario.NewSaver().WithOutputPath(outDir)
	runner := scenario.NewRunner().WithName(c08Name).WithRunNumber(uint64(r)).WithMaximumConcurrentRuns(uint64(c)).
		WithLogHandler(new(loggers.NullLogger)).WithSaver(saver)
	runner.SetAnnealer(a)
	return runner
}

// ======================================================================================
// (3) child process: one real scenario
// ======================================================================================

type c08Ev struct {
	gid   int
	etype string
	id    string
	temp  float64
	hasT  bool
	arch  int
	iter  int
	finId string
}

type c08Observer struct {
	mu     sync.Mutex
	events []c08Ev
}

var c08gidRe = regexp.MustCompile(`^goroutine (\d+) `)

func c08gid() int {
	buf := make([]byte, 64)
	n := runtime.Stack(buf, false)
	m := c08gidRe.FindSubmatch(buf[:n])
	if m == nil {
		return -1
	}
	g, _ := strconv.Atoi(string(m[1]))
	return g
}

func c08int(v interface{}) int {
	switch x := v.(type) {
	case int:
		return x
	case int64:
		return int(x)
	case uint64:
		return int(x)
	case uint:
		return int(x)
	}
	return -1
}

func (o *c08Observer) ObserveEvent(e observer.Event) {
	ev := c08Ev{gid: c08gid(), etype: e.EventType.String(), arch: -1, iter: -1}
	for _, a := range e.AllAttributes() {
		switch a.Name {
		case "Id":
			if s, ok := a.Value.(string); ok {
				ev.id = s
			}
		case "Temperature":
			if f, ok := a.Value.(float64); ok {
				ev.temp, ev.hasT = f, true
			}
		case "ArchiveSize":
			ev.arch = c08int(a.Value)
		case "CurrentIteration":
			ev.iter = c08int(a.Value)
		case "ModelArchive":
			if v, ok := a.Value.(archive.NonDominanceModelArchive); ok {
				ev.finId = v.Id()
			}
		case "CompressedModel":
			if v, ok := a.Value.(archive.CompressedModelState); ok {
				ev.finId = v.Id()
			}
		}
	}
	o.mu.Lock()
	o.events = append(o.events, ev)
	o.mu.Unlock()
}

type c08RunObs struct {
	Gid      int     `json:"g"`
	IdText   string  `json:"id"`
	R        int     `json:"r"`      // parsed run number, 0 if the id has no (r/R) suffix
	Rtot     int     `json:"rtot"`   // parsed run count
	Suffix   bool    `json:"suffix"` // id carries a (r/R) suffix
	NStartA  int     `json:"nStartA"`
	StartT   float64 `json:"startT"`
	StartAr  int     `json:"startArch"`
	FirstIt  int     `json:"firstIter"`
	NStartIt int     `json:"nStartIt"`
	SeqIters bool    `json:"seqIters"`
	NFin     int     `json:"nFin"`
	FinIter  int     `json:"finIter"`
	FinT     float64 `json:"finT"`
	TempsOk  bool    `json:"tempsOk"` // T(k+1) == T(k) * cf exactly, within this run
	FinIdOk  bool    `json:"finIdOk"` // id on the result object == id of the run's wrapped events
}

type c08ChildOut struct {
	Kind        string      `json:"kind"`
	Runs        []c08RunObs `json:"runs"`
	Order       []int       `json:"order"` // goroutine ids, global order of Started*/FinishedAnnealing events
	Files       []string    `json:"files"`
	MaxInflight int         `json:"maxInflight"`
	Unattrib    int         `json:"unattributed"`
}

var c08idRe = regexp.MustCompile(`^` + c08Name + `(?: \((\d+)/(\d+)\))?$`)

// C08child <family> <R> <c> <N> <T0 bits> <cf bits> <outdir>
func runC08child(args []string) {
	family := args[0]
	r, _ := strconv.Atoi(args[1])
	c, _ := strconv.Atoi(args[2])
	n, _ := strconv.Atoi(args[3])
	t0, _ := strconv.ParseFloat(args[4], 64)
	cf, _ := strconv.ParseFloat(args[5], 64)
	outDir := args[6]
	a, err := c08BuildAnnealer(family, n, t0, cf)
	if err != nil {
		fmt.Fprintln(os.Stderr, "C08child: configuration rejected:", err)
		out.Flush()
		os.Exit(4)
	}
	runner := c08BuildRunner(a, r, c, outDir)
	obs := new(c08Observer)
	a.AddObserver(obs)
	if e := runner.Run(); e != nil {
		fmt.Fprintln(os.Stderr, "C08child: Run returned error:", e)
		out.Flush()
		os.Exit(5)
	}
	res := c08ChildOut{Kind: "child"}
	byG := map[int]*c08RunObs{}
	var gids []int
	get := func(g int) *c08RunObs {
		if x, ok := byG[g]; ok {
			return x
		}
		x := &c08RunObs{Gid: g, StartAr: -2, FirstIt: -1, FinIter: -1, SeqIters: true, TempsOk: true}
		byG[g] = x
		gids = append(gids, g)
		return x
	}
	lastT := map[int]float64{}
	inflight := map[int]bool{}
	for _, e := range obs.events {
		x := get(e.gid)
		if m := c08idRe.FindStringSubmatch(e.id); m != nil && x.IdText == "" && (e.etype == "Explorer" || e.etype == "Model" || e.etype == "ManagementAction" || e.etype == "DecisionVariable") {
			x.IdText = e.id
			if m[1] != "" {
				x.Suffix = true
				x.R, _ = strconv.Atoi(m[1])
				x.Rtot, _ = strconv.Atoi(m[2])
			}
		}
		switch e.etype {
		case "StartedAnnealing":
			x.NStartA++
			if x.NStartA == 1 {
				x.StartT, x.StartAr = e.temp, e.arch
			}
			lastT[e.gid] = e.temp
			inflight[e.gid] = true
			if len(inflight) > res.MaxInflight {
				res.MaxInflight = len(inflight)
			}
			res.Order = append(res.Order, e.gid)
		case "StartedIteration":
			x.NStartIt++
			if x.NStartIt == 1 {
				x.FirstIt = e.iter
			}
			if e.iter != x.NStartIt {
				x.SeqIters = false
			}
			if e.temp != lastT[e.gid] {
				x.TempsOk = false
			}
			res.Order = append(res.Order, e.gid)
		case "FinishedIteration":
			if e.temp != lastT[e.gid]*cf {
				x.TempsOk = false
			}
			lastT[e.gid] = e.temp
		case "FinishedAnnealing":
			x.NFin++
			x.FinIter, x.FinT = e.iter, e.temp
			if e.temp != lastT[e.gid] {
				x.TempsOk = false
			}
			x.FinIdOk = e.finId == x.IdText && e.finId != ""
			delete(inflight, e.gid)
			res.Order = append(res.Order, e.gid)
		}
	}
	for _, g := range gids {
		x := byG[g]
		if x.NStartA == 0 && x.NFin == 0 && x.NStartIt == 0 {
			continue // a goroutine that only delivered set-up events (none expected)
		}
		if x.IdText == "" {
			res.Unattrib++
		}
		res.Runs = append(res.Runs, *x)
	}
	fs, _ := os.ReadDir(outDir)
	for _, f := range fs {
		res.Files = append(res.Files, f.Name())
	}
	sort.Strings(res.Files)
	emit(res)
}

// ======================================================================================
// parent: configurations, child management, oracle
// ======================================================================================

type c08Config struct {
	Fam   string
	R, C  int
	N     int
	T0    float64
	Cf    float64
	Class string
}

func c08RunChild(cfg c08Config, attempt int) (outp *c08ChildOut, crashed bool, stderrTail string, rejected bool) {
	dir, err := os.MkdirTemp("", "c08run")
	if err != nil {
		panic(err)
	}
	defer os.RemoveAll(dir)
	exe, _ := os.Executable()
	cmd := exec.Command(exe, "C08child", cfg.Fam, strconv.Itoa(cfg.R), strconv.Itoa(cfg.C), strconv.Itoa(cfg.N),
		strconv.FormatFloat(cfg.T0, 'g', -1, 64), strconv.FormatFloat(cfg.Cf, 'g', -1, 64), dir)
	var so, se bytes.Buffer
	cmd.Stdout, cmd.Stderr = &so, &se
	done := make(chan error, 1)
	if err := cmd.Start(); err != nil {
		panic(err)
	}
	go func() { done <- cmd.Wait() }()
	var werr error
	select {
	case werr = <-done:
	case <-time.After(120 * time.Second):
		cmd.Process.Kill()
		<-done
		return nil, true, "timeout after 120 s (deadlock / livelock?)", false
	}
	tail := se.String()
	if len(tail) > 1500 {
		tail = tail[:1500]
	}
	if werr != nil {
		if ee, ok := werr.(*exec.ExitError); ok && ee.ExitCode() == 4 {
			return nil, false, tail, true
		}
		return nil, true, tail, false
	}
	for _, ln := range strings.Split(so.String(), "\n") {
		ln = strings.TrimSpace(ln)
		if strings.HasPrefix(ln, "{") {
			var o c08ChildOut
			if json.Unmarshal([]byte(ln), &o) == nil && o.Kind == "child" {
				return &o, false, tail, false
			}
		}
	}
	return nil, true, "child produced no result line: " + tail, false
}

var c08stats = map[string]int{}

func c08Oracle(cfg c08Config, what string, extra J) {
	j := J{"kind": "oracle", "what": what, "fam": cfg.Fam, "R": cfg.R, "c": cfg.C, "N": cfg.N, "T0": cfg.T0, "cf": cfg.Cf}
	for k, v := range extra {
		j[k] = v
	}
	emit(j)
	c08stats["oracle_lines"]++
}

func c08Case(cfg c08Config) {
	var o *c08ChildOut
	var crashed, rejected bool
	var tail string
	for attempt := 0; attempt < 6; attempt++ {
		o, crashed, tail, rejected = c08RunChild(cfg, attempt)
		if crashed && strings.Contains(tail, "attempt limit reached") {
			c08stats["retries_attempt_limit"]++
			continue // D14b: an outcome of the random start, retried with the next (time) seed
		}
		break
	}
	if rejected {
		c08stats["rejected_configs"]++
		return
	}
	c08stats["scenarios"]++
	c08stats["scenarios_"+cfg.Fam]++
	c08stats[fmt.Sprintf("scenarios_R%d_c%d", cfg.R, cfg.C)]++
	c08stats["runs"] += cfg.R
	cs := J{"kind": "case", "fam": cfg.Fam, "R": cfg.R, "c": cfg.C, "N": cfg.N, "T0": flOf(cfg.T0), "cf": flOf(cfg.Cf),
		"class": cfg.Class, "crashed": crashed}
	if crashed {
		cs["runs"] = []J{}
		cs["order"] = []int{}
		cs["maxInflight"] = 0
		cs["nfiles"] = 0
		cs["filesOk"] = false
		emit(cs)
		if strings.Contains(tail, "DATA RACE") {
			c08Oracle(cfg, "data race reported by the Go race detector (-race build of the same scenario)", J{"stderr": tail})
		} else {
			c08Oracle(cfg, "scenario process died (a run goroutine panicked or the runner hung)", J{"stderr": tail})
		}
		return
	}
	// per-run oracle: the property itself, evaluated on what the real code did
	gidToRun := map[int]int{}
	seen := map[int]int{}
	runs := []J{}
	sort.Slice(o.Runs, func(i, j int) bool {
		if o.Runs[i].R != o.Runs[j].R {
			return o.Runs[i].R < o.Runs[j].R
		}
		return o.Runs[i].Gid < o.Runs[j].Gid
	})
	for _, x := range o.Runs {
		rn := x.R
		if !x.Suffix {
			rn = 1
		}
		gidToRun[x.Gid] = rn - 1
		seen[rn]++
		runs = append(runs, J{"r": rn, "suffix": x.Suffix, "rtot": x.Rtot, "nStartA": x.NStartA, "startT": flOf(x.StartT),
			"startArch": x.StartAr, "firstIter": x.FirstIt, "nStartIt": x.NStartIt, "nFin": x.NFin, "finIter": x.FinIter})
		bad := []string{}
		if x.IdText == "" {
			bad = append(bad, "run id not observable")
		}
		if cfg.R > 1 && (!x.Suffix || x.Rtot != cfg.R || x.R < 1 || x.R > cfg.R) {
			bad = append(bad, "run id is not '<name> (r/R)'")
		}
		if cfg.R == 1 && x.Suffix {
			bad = append(bad, "single run carries a (r/R) suffix")
		}
		if x.NStartA != 1 {
			bad = append(bad, "StartedAnnealing count != 1")
		}
		if x.StartT != cfg.T0 {
			bad = append(bad, "run did not start at the configured starting temperature")
		}
		if cfg.Fam != "kirkpatrick" && x.StartAr != 0 {
			bad = append(bad, "run did not start with an empty solution archive")
		}
		if cfg.N > 0 && x.FirstIt != 1 {
			bad = append(bad, "first iteration is not iteration 1")
		}
		if x.NStartIt != cfg.N || !x.SeqIters {
			bad = append(bad, "iterations are not 1..N")
		}
		if x.NFin != 1 {
			bad = append(bad, "FinishedAnnealing count != 1")
		}
		if x.FinIter != cfg.N && !(cfg.N == 0) {
			bad = append(bad, "run finished at an iteration other than N")
		}
		if !x.TempsOk {
			bad = append(bad, "temperature sequence of the run is not T0, T0*cf, T0*cf*cf, ... (another run's cooling leaked in)")
		}
		if !x.FinIdOk {
			bad = append(bad, "result object carries another run's id")
		}
		if len(bad) > 0 {
			c08Oracle(cfg, "run is not an independent annealing of a private copy: "+strings.Join(bad, "; "),
				J{"run": x.IdText, "observed": x})
		}
	}
	idsOk := len(o.Runs) == cfg.R
	for r := 1; r <= cfg.R; r++ {
		if seen[r] != 1 {
			idsOk = false
		}
	}
	if !idsOk || o.Unattrib > 0 {
		c08Oracle(cfg, "runs started/finished are not exactly runs 1..R, once each", J{"seen": fmt.Sprint(seen), "runs_observed": len(o.Runs)})
	}
	if o.MaxInflight > cfg.C {
		c08Oracle(cfg, "more runs in flight than MaximumConcurrentRuns", J{"maxInflight": o.MaxInflight})
	}
	// per-run result files
	filesOk := len(o.Files) == cfg.R
	if cfg.R > 1 {
		for r := 1; r <= cfg.R; r++ {
			want := fmt.Sprintf("(%d_of_%d)", r, cfg.R)
			n := 0
			for _, f := range o.Files {
				if strings.Contains(f, want) {
					n++
				}
			}
			if n != 1 {
				filesOk = false
			}
		}
	}
	if !filesOk {
		c08Oracle(cfg, "not exactly one result file per run", J{"files": o.Files})
	}
	order := []int{}
	for _, g := range o.Order {
		if rn, ok := gidToRun[g]; ok && rn >= 0 && rn < cfg.R {
			order = append(order, rn)
		}
	}
	if len(order) > 400 { // keep the generated schedule small; the tail is drained round-robin by the model
		order = order[:400]
	}
	if o.MaxInflight > 1 {
		c08stats["scenarios_observed_interleaved"]++
	}
	cs["runs"] = runs
	cs["order"] = order
	cs["maxInflight"] = o.MaxInflight
	cs["nfiles"] = len(o.Files)
	cs["filesOk"] = filesOk
	emit(cs)
}

func runC08(args []string) {
	tier := "quick"
	if len(args) > 0 {
		tier = args[0]
	}
	if tier == "race" {
		// this binary was built with -race (thorough tier, search support only): the children are
		// re-executions of it, so a race report makes the child exit with status 66
		for _, fam := range c08Families {
			for _, g := range [][3]int{{4, 4, 40}, {5, 2, 15}, {8, 8, 10}, {6, 3, 25}} {
				c08Case(c08Config{Fam: fam, R: g[0], C: g[1], N: g[2], T0: 20, Cf: 0.99, Class: "race"})
			}
		}
		emit(J{"kind": "stat", "stats": c08stats})
		return
	}
	// (1) alias translator
	for _, fam := range append(append([]string{}, c08Families...), c08AliasOnlyFamilies...) {
		c08AliasFamily(fam)
	}
	// (2) AST fact + cwd watcher
	c08AstFacts()
	c08CwdWatcher()
	// (4) the saver's shared decompression model: access recording of a real save
	c08SaverProbe()
	// (5) search support for state shared through package-level variables: concurrent runs under a limit, Detail/JSON
	c08LimitSearch(tier)
	// (3) real scenarios in child processes
	p := newPrng(0xC08)
	t0s := []float64{1, 10, 50.5, 1000, 0.1, 123456.789}
	cfs := []float64{0.5, 0.9, 0.95, 0.999, 1}
	type rc struct{ r, c int }
	grid := []rc{{1, 1}, {1, 2}, {2, 1}, {2, 2}, {5, 1}, {5, 2}, {5, 5}}
	reps := 1
	ns := []int{1, 2, 3, 5, 8}
	if tier == "thorough" {
		grid = append(grid, rc{3, 3}, rc{8, 1}, rc{8, 3}, rc{8, 8}, rc{12, 4})
		reps = 6
		ns = []int{1, 2, 3, 5, 8, 13, 40, 150}
	}
	for rep := 0; rep < reps; rep++ {
		for _, fam := range c08Families {
			for _, g := range grid {
				cfg := c08Config{Fam: fam, R: g.r, C: g.c, N: ns[p.intn(len(ns))], T0: t0s[p.intn(len(t0s))], Cf: cfs[p.intn(len(cfs))], Class: "grid"}
				c08Case(cfg)
			}
		}
	}
	// longer runs so that goroutines really overlap
	long := 2
	if tier == "thorough" {
		long = 8
	}
	for i := 0; i < long; i++ {
		for _, fam := range c08Families {
			c08Case(c08Config{Fam: fam, R: 4, C: 4, N: 60 + 20*i, T0: 20, Cf: 0.99, Class: "long"})
		}
	}
	emit(J{"kind": "stat", "stats": c08stats})
}

// ======================================================================================
// (2) process-global state
// ======================================================================================

func c08AstFacts() {
	sites := []string{}
	files := 0
	fset := token.NewFileSet()
	for _, root := range []string{"internal", "pkg", "cmd/cremexplorer"} {
		filepath.Walk(root, func(path string, info os.FileInfo, err error) error {
			if err != nil || info.IsDir() || !strings.HasSuffix(path, ".go") || strings.HasSuffix(path, "_test.go") {
				return nil
			}
			if strings.Contains(path, "verifharness") {
				return nil
			}
			f, perr := parser.ParseFile(fset, path, nil, 0)
			if perr != nil {
				return nil
			}
			files++
			osName := ""
			for _, im := range f.Imports {
				if im.Path.Value == `"os"` {
					osName = "os"
					if im.Name != nil {
						osName = im.Name.Name
					}
				}
			}
			if osName == "" || osName == "_" {
				return nil
			}
			ast.Inspect(f, func(n ast.Node) bool {
				call, ok := n.(*ast.CallExpr)
				if !ok {
					return true
				}
				sel, ok := call.Fun.(*ast.SelectorExpr)
				if !ok {
					return true
				}
				x, ok := sel.X.(*ast.Ident)
				if !ok || x.Name != osName {
					return true
				}
				switch sel.Sel.Name {
				case "Chdir", "Setenv", "Unsetenv", "Clearenv":
					sites = append(sites, fmt.Sprintf("%s:%d os.%s", filepath.ToSlash(path), fset.Position(call.Pos()).Line, sel.Sel.Name))
				}
				return true
			})
			return nil
		})
	}
	sort.Strings(sites)
	c08stats["ast_files_scanned"] = files
	locked, unlocked, shapeOk := c08SaverLockFacts()
	emit(J{"kind": "astfact", "global_write_sites": sites, "files_scanned": files,
		"saver_locked": locked, "saver_unlocked": unlocked, "saver_shape_recognised": shapeOk,
		"runner_run_statements": c08RunnerRunShape()})
}

// The statements of scenario.Runner.run, printed: the alias translator takes its clones through the accessor
// Runner.VerifPrepareRun, which repeats the set-up statements of run -- this fact pins what it repeats (every run
// anneals a DeepClone() of the configured annealer, set up by assignNewRunId and wireObservers, nothing else).
func c08RunnerRunShape() []string {
	fset := token.NewFileSet()
	f, err := parser.ParseFile(fset, "internal/pkg/scenario/Runner.go", nil, 0)
	if err != nil {
		return []string{"<cannot parse Runner.go: " + err.Error() + ">"}
	}
	for _, d := range f.Decls {
		fd, ok := d.(*ast.FuncDecl)
		if !ok || fd.Recv == nil || fd.Name.Name != "run" || fd.Body == nil {
			continue
		}
		res := []string{}
		for _, st := range fd.Body.List {
			var sb strings.Builder
			printer.Fprint(&sb, fset, st)
			res = append(res, strings.Join(strings.Fields(sb.String()), " "))
		}
		return res
	}
	return []string{"<Runner.run not found>"}
}

// Lock discipline of the one object all runs share by design and that holds mutable state: every
// method of scenario.Saver that touches s.decompressionModel (except SetDecompressionModel, which
// runs at set-up) must begin with `s.decompressionMutex.Lock(); defer s.decompressionMutex.Unlock()`.
func c08SaverLockFacts() (locked, unlocked []string, shapeOk bool) {
	locked, unlocked = []string{}, []string{}
	fset := token.NewFileSet()
	f, err := parser.ParseFile(fset, "internal/pkg/scenario/Saver.go", nil, 0)
	if err != nil {
		return locked, unlocked, false
	}
	isMutexCall := func(e ast.Expr, method string) bool {
		call, ok := e.(*ast.CallExpr)
		if !ok {
			return false
		}
		sel, ok := call.Fun.(*ast.SelectorExpr)
		if !ok || sel.Sel.Name != method {
			return false
		}
		inner, ok := sel.X.(*ast.SelectorExpr)
		return ok && inner.Sel.Name == "decompressionMutex"
	}
	sawSetter := false
	for _, d := range f.Decls {
		fd, ok := d.(*ast.FuncDecl)
		if !ok || fd.Recv == nil || fd.Body == nil {
			continue
		}
		touches := false
		ast.Inspect(fd.Body, func(n ast.Node) bool {
			if sel, ok := n.(*ast.SelectorExpr); ok && sel.Sel.Name == "decompressionModel" {
				touches = true
			}
			return true
		})
		if !touches {
			continue
		}
		if fd.Name.Name == "SetDecompressionModel" {
			sawSetter = true
			continue
		}
		ok2 := len(fd.Body.List) >= 2
		if ok2 {
			es, isExpr := fd.Body.List[0].(*ast.ExprStmt)
			ds, isDefer := fd.Body.List[1].(*ast.DeferStmt)
			ok2 = isExpr && isDefer && isMutexCall(es.X, "Lock") && isMutexCall(ds.Call, "Unlock")
		}
		if ok2 {
			locked = append(locked, fd.Name.Name)
		} else {
			unlocked = append(unlocked, fd.Name.Name)
		}
	}
	sort.Strings(locked)
	sort.Strings(unlocked)
	return locked, unlocked, sawSetter && len(locked)+len(unlocked) > 0
}

// polls the process working directory while run clones are prepared (each catchment clone loads
// the data set itself).  Search support for the cwd race: fires only if the directory changes.
func c08CwdWatcher() {
	a, err := c08BuildAnnealer("suppapitnarm", 2, 10, 0.9)
	if err != nil {
		panic(err)
	}
	dir, _ := os.MkdirTemp("", "c08w")
	defer os.RemoveAll(dir)
	runner := c08BuildRunner(a, 2, 2, dir)
	start, _ := os.Getwd()
	var stop int32
	var changed atomic.Value
	var polls int64
	var wg sync.WaitGroup
	wg.Add(1)
	go func() {
		defer wg.Done()
		for atomic.LoadInt32(&stop) == 0 {
			d, _ := os.Getwd()
			atomic.AddInt64(&polls, 1)
			if d != start {
				changed.Store(d)
				return
			}
		}
	}()
	for i := 0; i < 12; i++ {
		runner.VerifPrepareRun(uint64(1 + i%2))
	}
	atomic.StoreInt32(&stop, 1)
	wg.Wait()
	c08stats["cwd_polls"] = int(atomic.LoadInt64(&polls))
	if d := changed.Load(); d != nil {
		emit(J{"kind": "oracle", "what": "process working directory changed while a run clone was being prepared (process-global state written during a run)",
			"site": "Runner.run -> DeepClone -> catchment.Model.Initialise -> csv.DataSet.Load", "from": start, "to": d})
		c08stats["oracle_lines"]++
	}
}

// ======================================================================================
// (1) alias translator
// ======================================================================================

type c08Key struct {
	addr uintptr
	kind string
	typ  string
}

type c08Loc struct {
	Id   int
	key  c08Key
	size uintptr
	Kind string
	Type string
	Path string
	Len  int
	Cap  int
}

type c08Registry struct {
	ids  map[c08Key]int
	locs []*c08Loc
}

func (r *c08Registry) get(k c08Key, size uintptr, path string, ln, cp int) *c08Loc {
	if id, ok := r.ids[k]; ok {
		return r.locs[id]
	}
	l := &c08Loc{Id: len(r.locs), key: k, size: size, Kind: k.kind, Type: k.typ, Path: path, Len: ln, Cap: cp}
	r.ids[k] = l.Id
	r.locs = append(r.locs, l)
	return l
}

type c08Walk struct {
	reg     *c08Registry
	reached map[int]string // loc id -> first path
	order   []int
	prune   func(l *c08Loc, path string) bool // true: do not descend
}

func c08HasPointers(t reflect.Type) bool {
	switch t.Kind() {
	case reflect.Ptr, reflect.Map, reflect.Slice, reflect.Chan, reflect.Func, reflect.Interface, reflect.UnsafePointer, reflect.String:
		return t.Kind() != reflect.String
	case reflect.Array:
		return c08HasPointers(t.Elem())
	case reflect.Struct:
		for i := 0; i < t.NumField(); i++ {
			if c08HasPointers(t.Field(i).Type) {
				return true
			}
		}
	}
	return false
}

func c08Addressable(v reflect.Value) reflect.Value {
	if v.CanAddr() {
		return v
	}
	tmp := reflect.New(v.Type()).Elem()
	tmp.Set(v)
	return tmp
}

func (w *c08Walk) visit(l *c08Loc, path string) (descend bool) {
	if _, ok := w.reached[l.Id]; ok {
		return false
	}
	w.reached[l.Id] = path
	w.order = append(w.order, l.Id)
	if w.prune != nil && w.prune(l, path) {
		return false
	}
	return true
}

func (w *c08Walk) walk(v reflect.Value, path string) {
	switch v.Kind() {
	case reflect.Ptr:
		if v.IsNil() || v.Type().Elem().Size() == 0 {
			return
		}
		l := w.reg.get(c08Key{v.Pointer(), "ptr", v.Type().Elem().String()}, v.Type().Elem().Size(), path, 0, 0)
		if w.visit(l, path) {
			w.walk(v.Elem(), path+"(*"+v.Type().Elem().String()+")")
		}
	case reflect.Interface:
		if v.IsNil() {
			return
		}
		e := v.Elem()
		if e.Kind() == reflect.Ptr {
			w.walk(e, path)
		} else {
			w.walk(c08Addressable(e), path+"("+e.Type().String()+")")
		}
	case reflect.Struct:
		v = c08Addressable(v)
		t := v.Type()
		for i := 0; i < t.NumField(); i++ {
			if !c08HasPointers(t.Field(i).Type) {
				continue
			}
			f := v.Field(i)
			f = reflect.NewAt(f.Type(), unsafe.Pointer(f.UnsafeAddr())).Elem()
			w.walk(f, path+"."+t.Field(i).Name)
		}
	case reflect.Slice:
		if v.IsNil() || v.Cap() == 0 || v.Type().Elem().Size() == 0 {
			return
		}
		l := w.reg.get(c08Key{v.Pointer(), "slice", v.Type().String()}, uintptr(v.Cap())*v.Type().Elem().Size(), path, v.Len(), v.Cap())
		if l.Cap < v.Cap() {
			l.Cap = v.Cap()
		}
		if l.Len < v.Len() && l.Len != l.Cap {
			l.Len = v.Len()
		}
		if w.visit(l, path) && c08HasPointers(v.Type().Elem()) {
			for i := 0; i < v.Len(); i++ {
				w.walk(v.Index(i), path+"[]")
			}
		}
	case reflect.Array:
		if !c08HasPointers(v.Type().Elem()) {
			return
		}
		v = c08Addressable(v)
		for i := 0; i < v.Len(); i++ {
			w.walk(v.Index(i), path+"[]")
		}
	case reflect.Map:
		if v.IsNil() {
			return
		}
		l := w.reg.get(c08Key{v.Pointer(), "map", v.Type().String()}, 1, path, v.Len(), 0)
		if !w.visit(l, path) {
			return
		}
		keys := v.MapKeys()
		sort.Slice(keys, func(i, j int) bool { return fmt.Sprint(keys[i]) < fmt.Sprint(keys[j]) })
		for _, k := range keys {
			if c08HasPointers(k.Type()) {
				w.walk(c08Addressable(k), path+"{key}")
			}
			if c08HasPointers(v.Type().Elem()) {
				w.walk(c08Addressable(v.MapIndex(k)), path+"{}")
			}
		}
	case reflect.Chan:
		if v.IsNil() {
			return
		}
		l := w.reg.get(c08Key{v.Pointer(), "chan", v.Type().String()}, 1, path, 0, 0)
		w.visit(l, path)
	case reflect.Func:
		if v.IsNil() {
			return
		}
		l := w.reg.get(c08Key{v.Pointer(), "func", v.Type().String()}, 1, path, 0, 0)
		w.visit(l, path)
	case reflect.UnsafePointer:
		if v.Pointer() == 0 {
			return
		}
		l := w.reg.get(c08Key{v.Pointer(), "unsafe", "unsafe.Pointer"}, 1, path, 0, 0)
		w.visit(l, path)
	}
}

var c08PkgRe = regexp.MustCompile(`([A-Za-z0-9_]+)\.[A-Za-z0-9_]+`)

// allow rule for a SHARED location; "" = not allowed
func c08AllowRule(l *c08Loc, path string, attrsOk func(l *c08Loc) bool) string {
	t := l.Type
	switch {
	case l.Kind == "func":
		return "func"
	case strings.Contains(t, "parameters.Map") || strings.Contains(t, "specification.") || strings.Contains(t, "parameters.Parameters") ||
		(strings.Contains(path, ".parameters") && (strings.Contains(t, "errors.CompositeError") || t == "[]error" || strings.HasPrefix(t, "map[string]"))):
		return "params"
	case strings.Contains(path, ".parameters") &&
		(strings.Contains(path, ".paramMap") || strings.Contains(path, ".specifications") || strings.Contains(path, ".validationErrors")):
		// only the fields of a component's parameters.Parameters: a field that merely has one of these names elsewhere
		// (e.g. an error collector kept on a model) is not covered
		return "params"
	case strings.Contains(t, "dataset.") || strings.Contains(t, "tables.") || strings.Contains(t, "csv.DataSet") || strings.Contains(t, "excel.DataSet"):
		return "data"
	case strings.Contains(t, "loggers.") || strings.Contains(t, "logging.") || strings.Contains(t, "formatters."):
		return "logger"
	case strings.Contains(t, "observer.SynchronousAnnealingEventNotifier") && strings.Contains(path, ".ContainedEventNotifier.notifier"):
		return "notifier"
	case t == "time.Location":
		return "tz"
	case l.Kind == "slice" && strings.Contains(t, "attributes.Attributes"):
		if l.Len == l.Cap && attrsOk(l) {
			return "attrs"
		}
		return ""
	}
	return ""
}

func c08AliasFamily(fam string) {
	a, err := c08BuildAnnealer(fam, 3, 10, 0.9)
	if err != nil {
		panic(err)
	}
	dir, _ := os.MkdirTemp("", "c08a")
	defer os.RemoveAll(dir)
	runner := c08BuildRunner(a, 3, 3, dir)
	names := []string{"P", "A", "B", "C"}
	roots := []annealing.Annealer{runner.VerifPrototype()}
	for i := 1; i <= 3; i++ {
		cl := runner.VerifPrepareRun(uint64(i))
		cl.SolutionExplorer().Initialise() // first statement of SimpleAnnealer.Anneal
		roots = append(roots, cl)
	}
	// every clone loads the input data itself: the as-is valuation must be the same in all of them
	asIs := []string{}
	for _, r := range roots[1:] {
		m := r.Model().DeepClone()
		m.Initialise(model.AsIs)
		vals := []string{fmt.Sprint(len(m.ManagementActions()))}
		names := []string{}
		for n := range *m.NameMappedVariables() {
			names = append(names, n)
		}
		sort.Strings(names)
		for _, n := range names {
			vals = append(vals, fmt.Sprintf("%s=%v", n, m.DecisionVariable(n).Value()))
		}
		asIs = append(asIs, strings.Join(vals, " "))
	}
	for _, v := range asIs[1:] {
		if v != asIs[0] {
			emit(J{"kind": "oracle", "what": "run clones did not load the same input data (as-is valuations differ)", "fam": fam, "asis": asIs})
			c08stats["oracle_lines"]++
			break
		}
	}
	// names of the attributes the explorers join into annealer events
	explorerNames := map[string]bool{}
	for _, r := range roots[1:] {
		for _, et := range []observer.EventType{observer.StartedAnnealing, observer.StartedIteration, observer.FinishedIteration, observer.FinishedAnnealing} {
			for _, nv := range r.SolutionExplorer().EventAttributes(et) {
				explorerNames[nv.Name] = true
			}
		}
	}
	reg := &c08Registry{ids: map[c08Key]int{}}
	// phase 1: full walks -> which locations are shared
	full := make([]*c08Walk, len(roots))
	for i, r := range roots {
		w := &c08Walk{reg: reg, reached: map[int]string{}}
		w.walk(reflect.ValueOf(r), names[i])
		full[i] = w
	}
	sharedBy := map[int][]string{}
	for i, w := range full {
		for id := range w.reached {
			sharedBy[id] = append(sharedBy[id], names[i])
		}
	}
	isShared := func(id int) bool { return len(sharedBy[id]) > 1 }
	// attribute slices: names must be disjoint from the explorer's event attribute names
	attrNames := map[int][]string{}
	var collect func(v reflect.Value)
	seenPtr := map[uintptr]bool{}
	collect = func(v reflect.Value) {
		switch v.Kind() {
		case reflect.Ptr:
			if v.IsNil() || seenPtr[v.Pointer()] {
				return
			}
			seenPtr[v.Pointer()] = true
			collect(v.Elem())
		case reflect.Interface:
			if !v.IsNil() {
				e := v.Elem()
				if e.Kind() == reflect.Ptr {
					collect(e)
				}
			}
		case reflect.Struct:
			v = c08Addressable(v)
			for i := 0; i < v.NumField(); i++ {
				f := v.Field(i)
				f = reflect.NewAt(f.Type(), unsafe.Pointer(f.UnsafeAddr())).Elem()
				collect(f)
			}
		case reflect.Slice:
			if v.Type().String() == "attributes.Attributes" && !v.IsNil() && v.Cap() > 0 {
				if id, ok := reg.ids[c08Key{v.Pointer(), "slice", "attributes.Attributes"}]; ok {
					ns := []string{}
					for i := 0; i < v.Len(); i++ {
						ns = append(ns, v.Index(i).Field(0).String())
					}
					attrNames[id] = ns
				}
			}
		}
	}
	for _, r := range roots {
		collect(reflect.ValueOf(r))
	}
	attrsOk := func(l *c08Loc) bool {
		ns, ok := attrNames[l.Id]
		if !ok {
			return false
		}
		for _, n := range ns {
			if explorerNames[n] {
				return false
			}
		}
		return true
	}
	// phase 2: walks pruned at allow-listed shared locations
	allowed := map[int]string{}
	pruned := make([]*c08Walk, len(roots))
	for i, r := range roots {
		w := &c08Walk{reg: reg, reached: map[int]string{}}
		w.prune = func(l *c08Loc, path string) bool {
			if !isShared(l.Id) {
				return false
			}
			if rule := c08AllowRule(l, path, attrsOk); rule != "" {
				allowed[l.Id] = rule
				return true
			}
			return false
		}
		w.walk(reflect.ValueOf(r), names[i])
		pruned[i] = w
	}
	by2 := map[int][]string{}
	for i, w := range pruned {
		for id := range w.reached {
			by2[id] = append(by2[id], names[i])
		}
	}
	fps := map[string][]int{}
	reach := map[string]int{}
	for i, w := range pruned {
		ids := []int{}
		for _, id := range w.order {
			if _, ok := allowed[id]; !ok {
				ids = append(ids, id)
			}
		}
		sort.Ints(ids)
		fps[names[i]] = ids
		reach[names[i]] = len(full[i].reached)
	}
	// interval overlap between different owners (sub-slices of one backing array, interior pointers)
	type iv struct {
		lo, hi uintptr
		id     int
		owner  string
	}
	var ivs []iv
	for i := range pruned {
		for _, id := range fps[names[i]] {
			l := reg.locs[id]
			if l.Kind == "ptr" || l.Kind == "slice" {
				ivs = append(ivs, iv{l.key.addr, l.key.addr + l.size, id, names[i]})
			}
		}
	}
	sort.Slice(ivs, func(i, j int) bool { return ivs[i].lo < ivs[j].lo })
	overlaps := []J{}
	for i := 0; i < len(ivs); i++ {
		for j := i + 1; j < len(ivs) && ivs[j].lo < ivs[i].hi; j++ {
			if ivs[i].owner != ivs[j].owner && ivs[i].id != ivs[j].id {
				overlaps = append(overlaps, J{"a": ivs[i].owner, "b": ivs[j].owner, "ida": ivs[i].id, "idb": ivs[j].id,
					"typea": reg.locs[ivs[i].id].Type, "typeb": reg.locs[ivs[j].id].Type})
				// make the overlap visible to the Coq side condition: b's footprint also contains a's id
				fps[ivs[j].owner] = append(fps[ivs[j].owner], ivs[i].id)
			}
		}
	}
	shared := []J{}
	unlisted := 0
	ids := []int{}
	for id, owners := range by2 {
		if len(owners) > 1 {
			ids = append(ids, id)
		}
	}
	sort.Ints(ids)
	for _, id := range ids {
		l := reg.locs[id]
		owners := by2[id]
		sort.Strings(owners)
		rule := allowed[id]
		e := J{"id": id, "between": strings.Join(owners, ","), "kind": l.Kind, "type": l.Type, "path": pruned0Path(pruned, id), "allow": rule}
		if l.Kind == "slice" {
			e["len"], e["cap"] = l.Len, l.Cap
		}
		if ns, ok := attrNames[id]; ok {
			e["attr_names"] = ns
		}
		shared = append(shared, e)
		if rule == "" {
			unlisted++
			emit(J{"kind": "oracle", "what": "mutable location shared between run clones (or between a clone and the prototype) that no allow rule covers",
				"fam": fam, "between": strings.Join(owners, ","), "loc_kind": l.Kind, "loc_type": l.Type, "path": pruned0Path(pruned, id),
				"len": l.Len, "cap": l.Cap})
			c08stats["oracle_lines"]++
		}
	}
	for _, o := range overlaps {
		emit(J{"kind": "oracle", "what": "overlapping memory reachable from two run clones", "fam": fam, "overlap": o})
		c08stats["oracle_lines"]++
	}
	nshared1 := 0
	for id := range sharedBy {
		if isShared(id) {
			nshared1++
		}
	}
	c08stats["alias_reachable_"+fam] = reach["A"]
	c08stats["alias_shared_all_"+fam] = nshared1
	c08stats["alias_shared_frontier_"+fam] = len(shared)
	c08stats["alias_unlisted_"+fam] = unlisted + len(overlaps)
	en := []string{}
	for n := range explorerNames {
		en = append(en, n)
	}
	sort.Strings(en)
	emit(J{"kind": "alias", "fam": fam, "reachable": reach, "shared_total": nshared1, "shared": shared, "fp": fps,
		"overlaps": overlaps, "explorer_attribute_names": en, "asis_valuation": asIs[0]})
}

func pruned0Path(ws []*c08Walk, id int) string {
	for _, w := range ws {
		if p, ok := w.reached[id]; ok {
			return p
		}
	}
	return ""
}
