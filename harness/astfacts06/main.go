// astfacts06 -- stand-alone translator for property C06 (go/ast + go/parser only, no crem imports).
//
//	astfacts06 <repo root> <output Facts06.v>
//
// Reads the CURRENT source of the repository and regenerates coq/gen/Facts06.v:
//
//   - storage_results: the constants of type archive.StorageResult, in iota order
//     (internal/pkg/model/archive/NonDominanceModelArchive.go);
//   - the switch of suppapitnarm.Explorer.changeTriedIsDesirable: its tag, which constants (iota codes) set
//     changeIsDesirable = true / = false, whether there is a default clause, and any clause of another shape;
//   - the order of the top-level statements of Explorer.TryRandomChange (compress current, generate the
//     potential model, compress it, differences, attempt, AcceptOrRevertChange, ReturnToBaseIfRequired,
//     checkNonDominanceIfRequired, currentIteration++), with the provenance of the arguments;
//   - the parameter specifications of suppapitnarm/Parameters.go (key string, validator, default) and the typed
//     getter call sites of Explorer.go.
//
// The obligations over these facts are evaluated in Coq (gen/obl_C06.v, written by tools/props/C06.py).
// A construct the translator cannot even classify is reported INSIDE the facts (an "other:..." marker or a
// clause in switch_other_clauses), so that the obligation fails; only a missing file / function / constant
// block is a hard error (exit 3).  What was extracted is also printed as one JSON object on stdout.
package main

import (
	"encoding/json"
	"fmt"
	"go/ast"
	"go/parser"
	"go/token"
	"math"
	"os"
	"path/filepath"
	"strconv"
	"strings"
)

const (
	archiveFile  = "internal/pkg/model/archive/NonDominanceModelArchive.go"
	explorerFile = "internal/pkg/annealing/explorer/suppapitnarm/Explorer.go"
	paramsFile   = "internal/pkg/annealing/explorer/suppapitnarm/Parameters.go"
)

var fset = token.NewFileSet()

func fatal(format string, a ...interface{}) {
	fmt.Fprintf(os.Stderr, "astfacts06: "+format+"\n", a...)
	os.Exit(3)
}

type paramSpec struct {
	Key       string  `json:"key"`
	KeyConst  string  `json:"key_const"`
	Validator string  `json:"validator"`
	Kind      string  `json:"kind"` // int | float | bool | other
	Int       int64   `json:"int,omitempty"`
	Float     float64 `json:"float,omitempty"`
	Bool      bool    `json:"bool,omitempty"`
	Text      string  `json:"text"`
}

type getterSite struct {
	Func   string `json:"func"`
	Getter string `json:"getter"`
	Key    string `json:"key"`
}

type result struct {
	StorageResults     []string     `json:"storage_results"`
	SwitchTag          string       `json:"switch_tag"`
	Desirable          []int        `json:"desirable_cases"`
	Undesirable        []int        `json:"undesirable_cases"`
	SwitchHasDefault   bool         `json:"switch_has_default"`
	SwitchOtherClauses []string     `json:"switch_other_clauses"`
	SwitchCount        int          `json:"switch_statements_in_function"`
	Order              []string     `json:"try_random_change_order"`
	Params             []paramSpec  `json:"param_specs"`
	Getters            []getterSite `json:"getter_sites"`
}

func parse(repo, rel string) *ast.File {
	f, err := parser.ParseFile(fset, filepath.Join(repo, rel), nil, 0)
	if err != nil {
		fatal("cannot parse %s: %v", rel, err)
	}
	return f
}

func findMethod(f *ast.File, recvType, name string) *ast.FuncDecl {
	for _, d := range f.Decls {
		fd, ok := d.(*ast.FuncDecl)
		if !ok || fd.Name.Name != name || fd.Body == nil {
			continue
		}
		if recvType == "" {
			if fd.Recv == nil {
				return fd
			}
			continue
		}
		if fd.Recv == nil || len(fd.Recv.List) != 1 {
			continue
		}
		t := fd.Recv.List[0].Type
		if st, ok := t.(*ast.StarExpr); ok {
			t = st.X
		}
		if id, ok := t.(*ast.Ident); ok && id.Name == recvType {
			return fd
		}
	}
	return nil
}

// storageResults: const ( A StorageResult = iota; B; C ... )
func storageResults(f *ast.File) []string {
	for _, d := range f.Decls {
		gd, ok := d.(*ast.GenDecl)
		if !ok || gd.Tok != token.CONST || len(gd.Specs) == 0 {
			continue
		}
		first, ok := gd.Specs[0].(*ast.ValueSpec)
		if !ok {
			continue
		}
		ty, ok := first.Type.(*ast.Ident)
		if !ok || ty.Name != "StorageResult" {
			continue
		}
		if len(first.Values) != 1 {
			fatal("StorageResult const block: first constant is not `= iota`")
		}
		if id, ok := first.Values[0].(*ast.Ident); !ok || id.Name != "iota" {
			fatal("StorageResult const block: first constant is not `= iota`")
		}
		names := []string{}
		for i, s := range gd.Specs {
			vs := s.(*ast.ValueSpec)
			if i > 0 && (vs.Type != nil || len(vs.Values) != 0) {
				fatal("StorageResult const block: constant %v is not an implicit repetition of iota", vs.Names)
			}
			for _, n := range vs.Names {
				names = append(names, n.Name)
			}
		}
		return names
	}
	fatal("no const block of type StorageResult in %s", archiveFile)
	return nil
}

func selName(e ast.Expr) string {
	switch x := e.(type) {
	case *ast.Ident:
		return x.Name
	case *ast.SelectorExpr:
		return selName(x.X) + "." + x.Sel.Name
	case *ast.CallExpr:
		return selName(x.Fun) + "()"
	case *ast.StarExpr:
		return "*" + selName(x.X)
	case *ast.UnaryExpr:
		return x.Op.String() + selName(x.X)
	}
	return fmt.Sprintf("<%T>", e)
}

func analyseSwitch(fd *ast.FuncDecl, consts []string, res *result) {
	code := map[string]int{}
	for i, n := range consts {
		code[n] = i
	}
	res.Desirable, res.Undesirable, res.SwitchOtherClauses = []int{}, []int{}, []string{}
	ast.Inspect(fd.Body, func(n ast.Node) bool {
		sw, ok := n.(*ast.SwitchStmt)
		if !ok {
			return true
		}
		res.SwitchCount++
		if res.SwitchCount > 1 {
			return false
		}
		res.SwitchTag = selName(sw.Tag)
		if sw.Init != nil {
			res.SwitchOtherClauses = append(res.SwitchOtherClauses, "switch has an init statement")
		}
		for _, st := range sw.Body.List {
			cc := st.(*ast.CaseClause)
			if cc.List == nil {
				res.SwitchHasDefault = true
				continue
			}
			// body: exactly `ke.changeIsDesirable = true|false`
			val := ""
			if len(cc.Body) == 1 {
				if as, ok := cc.Body[0].(*ast.AssignStmt); ok && as.Tok == token.ASSIGN && len(as.Lhs) == 1 && len(as.Rhs) == 1 &&
					selName(as.Lhs[0]) == "ke.changeIsDesirable" {
					if id, ok := as.Rhs[0].(*ast.Ident); ok && (id.Name == "true" || id.Name == "false") {
						val = id.Name
					}
				}
			}
			for _, e := range cc.List {
				nm := selName(e)
				c, known := code[strings.TrimPrefix(nm, "archive.")]
				if !known || !strings.HasPrefix(nm, "archive.") || val == "" {
					res.SwitchOtherClauses = append(res.SwitchOtherClauses, "case "+nm+" with body of another shape or unknown constant")
					continue
				}
				if val == "true" {
					res.Desirable = append(res.Desirable, c)
				} else {
					res.Undesirable = append(res.Undesirable, c)
				}
			}
		}
		return false
	})
	if res.SwitchCount == 0 {
		fatal("no switch statement in changeTriedIsDesirable")
	}
}

// TryRandomChange: classify every top-level statement; local variables carry the provenance of their value.
func analyseOrder(fd *ast.FuncDecl, res *result) {
	origin := map[string]string{} // local variable -> provenance label
	arg := func(e ast.Expr) string {
		n := selName(e)
		if o, ok := origin[n]; ok {
			return o
		}
		return strings.TrimPrefix(n, "ke.")
	}
	args := func(c *ast.CallExpr) string {
		parts := []string{}
		for _, a := range c.Args {
			parts = append(parts, arg(a))
		}
		return strings.Join(parts, ",")
	}
	res.Order = []string{}
	for _, st := range fd.Body.List {
		switch s := st.(type) {
		case *ast.ExprStmt:
			c, ok := s.X.(*ast.CallExpr)
			if !ok {
				res.Order = append(res.Order, "other:expression")
				continue
			}
			fn := selName(c.Fun)
			switch {
			case fn == "ke.note" || fn == "ke.NotifyObserversOfEvent":
				// observers only
			case strings.HasPrefix(fn, "ke.") && strings.Count(fn, ".") == 1:
				res.Order = append(res.Order, "call:"+strings.TrimPrefix(fn, "ke.")+"("+args(c)+")")
			default:
				res.Order = append(res.Order, "other:call "+fn)
			}
		case *ast.AssignStmt:
			if len(s.Lhs) != 1 || len(s.Rhs) != 1 {
				res.Order = append(res.Order, "other:multi-assignment")
				continue
			}
			lhs := selName(s.Lhs[0])
			c, isCall := s.Rhs[0].(*ast.CallExpr)
			fn := ""
			if isCall {
				fn = selName(c.Fun)
			}
			switch {
			case s.Tok == token.DEFINE && fn == "ke.modelArchive.Compress" && len(c.Args) == 1:
				origin[lhs] = "compressed(" + arg(c.Args[0]) + ")"
				res.Order = append(res.Order, "compress:"+arg(c.Args[0]))
			case s.Tok == token.DEFINE && isCall && strings.HasSuffix(fn, ".VariableDifferences") && len(c.Args) == 1:
				recv := arg(c.Fun.(*ast.SelectorExpr).X)
				origin[lhs] = "differences(" + recv + "-" + arg(c.Args[0]) + ")"
				res.Order = append(res.Order, "differences:"+recv+"-"+arg(c.Args[0]))
			case s.Tok == token.DEFINE && lhs == "event":
				// observer event under construction
			case s.Tok == token.ASSIGN && lhs == "ke.archiveStorageResult" && fn == "ke.modelArchive.AttemptToArchiveState":
				res.Order = append(res.Order, "attempt:"+args(c))
			default:
				res.Order = append(res.Order, "other:assignment to "+lhs)
			}
		case *ast.IncDecStmt:
			res.Order = append(res.Order, s.Tok.String()+":"+strings.TrimPrefix(selName(s.X), "ke."))
		default:
			res.Order = append(res.Order, fmt.Sprintf("other:%T", st))
		}
	}
}

func stringConsts(f *ast.File) map[string]string {
	m := map[string]string{}
	for _, d := range f.Decls {
		gd, ok := d.(*ast.GenDecl)
		if !ok || gd.Tok != token.CONST {
			continue
		}
		for _, s := range gd.Specs {
			vs := s.(*ast.ValueSpec)
			for i, n := range vs.Names {
				if i < len(vs.Values) {
					if bl, ok := vs.Values[i].(*ast.BasicLit); ok && bl.Kind == token.STRING {
						if v, err := strconv.Unquote(bl.Value); err == nil {
							m[n.Name] = v
						}
					}
				}
			}
		}
	}
	return m
}

func analyseParams(f *ast.File, res *result) {
	consts := stringConsts(f)
	fd := findMethod(f, "", "ParameterSpecifications")
	if fd == nil {
		fatal("no function ParameterSpecifications in %s", paramsFile)
	}
	res.Params = []paramSpec{}
	ast.Inspect(fd.Body, func(n ast.Node) bool {
		cl, ok := n.(*ast.CompositeLit)
		if !ok {
			return true
		}
		if id, ok := cl.Type.(*ast.Ident); !ok || id.Name != "Specification" {
			return true
		}
		ps := paramSpec{Kind: "other"}
		for _, el := range cl.Elts {
			kv, ok := el.(*ast.KeyValueExpr)
			if !ok {
				ps.Text += "positional;"
				continue
			}
			switch selName(kv.Key) {
			case "Key":
				ps.KeyConst = selName(kv.Value)
				if v, ok := consts[ps.KeyConst]; ok {
					ps.Key = v
				} else if bl, ok := kv.Value.(*ast.BasicLit); ok && bl.Kind == token.STRING {
					ps.Key, _ = strconv.Unquote(bl.Value)
				}
			case "Validator":
				ps.Validator = selName(kv.Value)
			case "DefaultValue":
				ps.Text = selName(kv.Value)
				switch v := kv.Value.(type) {
				case *ast.Ident:
					if v.Name == "true" || v.Name == "false" {
						ps.Kind, ps.Bool = "bool", v.Name == "true"
					}
				case *ast.CallExpr:
					if len(v.Args) == 1 {
						if bl, ok := v.Args[0].(*ast.BasicLit); ok {
							lit := strings.ReplaceAll(bl.Value, "_", "")
							ps.Text = selName(v.Fun) + "(" + bl.Value + ")"
							switch selName(v.Fun) {
							case "int64":
								if z, err := strconv.ParseInt(lit, 0, 64); err == nil {
									ps.Kind, ps.Int = "int", z
								}
							case "float64":
								if x, err := strconv.ParseFloat(lit, 64); err == nil {
									ps.Kind, ps.Float = "float", x
								}
							}
						}
					}
				}
			}
		}
		res.Params = append(res.Params, ps)
		return false
	})
}

func analyseGetters(f *ast.File, consts map[string]string, res *result) {
	res.Getters = []getterSite{}
	for _, d := range f.Decls {
		fd, ok := d.(*ast.FuncDecl)
		if !ok || fd.Body == nil {
			continue
		}
		ast.Inspect(fd.Body, func(n ast.Node) bool {
			c, ok := n.(*ast.CallExpr)
			if !ok {
				return true
			}
			fn := selName(c.Fun)
			if strings.HasPrefix(fn, "ke.parameters.Get") && len(c.Args) == 1 {
				k := selName(c.Args[0])
				if v, ok := consts[k]; ok {
					k = v
				}
				res.Getters = append(res.Getters, getterSite{fd.Name.Name, strings.TrimPrefix(fn, "ke.parameters."), k})
			}
			return true
		})
	}
}

func coqString(s string) string { return "\"" + strings.ReplaceAll(s, "\"", "\"\"") + "\"" }

func coqStrings(xs []string) string {
	q := make([]string, len(xs))
	for i, x := range xs {
		q[i] = coqString(x)
	}
	return "[" + strings.Join(q, "; ") + "]"
}

func coqNats(xs []int) string {
	q := make([]string, len(xs))
	for i, x := range xs {
		q[i] = strconv.Itoa(x)
	}
	return "[" + strings.Join(q, "; ") + "]%nat"
}

// exact m * 2^e of a finite float64
func mkf(f float64) string {
	if f == 0 {
		return "(mkf 0 0)"
	}
	mant, exp := math.Frexp(f)
	m := int64(mant * (1 << 53))
	e := int64(exp - 53)
	for m%2 == 0 {
		m /= 2
		e++
	}
	return fmt.Sprintf("(mkf (%d) (%d))", m, e)
}

func writeCoq(res *result, path string) {
	var b strings.Builder
	b.WriteString("(* GENERATED by harness/astfacts06 from the CURRENT Go source -- do not edit *)\n")
	b.WriteString("From Coq Require Import List String ZArith Floats Bool.\nFrom Crem Require Import SuppRtbFloat Suppapitnarm.\nImport ListNotations.\nOpen Scope string_scope.\n\n")
	fmt.Fprintf(&b, "Definition storage_results : list string := %s.\n", coqStrings(res.StorageResults))
	fmt.Fprintf(&b, "Definition switch_tag : string := %s.\n", coqString(res.SwitchTag))
	fmt.Fprintf(&b, "Definition desirable_cases : list nat := %s.\n", coqNats(res.Desirable))
	fmt.Fprintf(&b, "Definition undesirable_cases : list nat := %s.\n", coqNats(res.Undesirable))
	fmt.Fprintf(&b, "Definition switch_has_default : bool := %v.\n", res.SwitchHasDefault)
	fmt.Fprintf(&b, "Definition switch_other_clauses : list string := %s.\n", coqStrings(res.SwitchOtherClauses))
	fmt.Fprintf(&b, "Definition switch_statements_in_function : nat := %d%%nat.\n", res.SwitchCount)
	fmt.Fprintf(&b, "Definition try_random_change_order : list string := %s.\n", coqStrings(res.Order))
	ps := []string{}
	for _, p := range res.Params {
		d := "(DOther " + coqString(p.Text) + ")"
		switch p.Kind {
		case "int":
			d = fmt.Sprintf("(DInt (%d)%%Z)", p.Int)
		case "float":
			d = "(DFloat " + mkf(p.Float) + ")"
		case "bool":
			d = fmt.Sprintf("(DBool %v)", p.Bool)
		}
		ps = append(ps, fmt.Sprintf("(%s, %s, %s)", coqString(p.Key), coqString(p.Validator), d))
	}
	fmt.Fprintf(&b, "Definition param_specs : list (string * string * pdefault) := [%s].\n", strings.Join(ps, ";\n  "))
	gs := []string{}
	for _, g := range res.Getters {
		gs = append(gs, fmt.Sprintf("(%s, %s, %s)", coqString(g.Func), coqString(g.Getter), coqString(g.Key)))
	}
	fmt.Fprintf(&b, "Definition getter_sites : list (string * string * string) := [%s].\n", strings.Join(gs, ";\n  "))
	if err := os.WriteFile(path, []byte(b.String()), 0o644); err != nil {
		fatal("cannot write %s: %v", path, err)
	}
}

func main() {
	if len(os.Args) != 3 {
		fmt.Fprintln(os.Stderr, "usage: astfacts06 <repo root> <output Facts06.v>")
		os.Exit(2)
	}
	repo, err := filepath.Abs(os.Args[1])
	if err != nil {
		fatal("%v", err)
	}
	res := &result{}
	res.StorageResults = storageResults(parse(repo, archiveFile))
	ef := parse(repo, explorerFile)
	sw := findMethod(ef, "Explorer", "changeTriedIsDesirable")
	if sw == nil {
		fatal("no method Explorer.changeTriedIsDesirable in %s", explorerFile)
	}
	analyseSwitch(sw, res.StorageResults, res)
	trc := findMethod(ef, "Explorer", "TryRandomChange")
	if trc == nil {
		fatal("no method Explorer.TryRandomChange in %s", explorerFile)
	}
	analyseOrder(trc, res)
	pf := parse(repo, paramsFile)
	analyseParams(pf, res)
	analyseGetters(ef, stringConsts(pf), res)
	writeCoq(res, os.Args[2])
	out, _ := json.Marshal(res)
	fmt.Println(string(out))
}
