module astfacts06

go 1.21
