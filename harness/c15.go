//go:build verif

package main

// C15 -- the malformed-input stream for the REST engine, on the differential runner of c14.go: every request through
// the real Mux.ServeHTTP under recover; a panic, an undocumented status, a non-2xx answer that is not the JSON error
// document, an error document with 2xx or invalid JSON where JSON is declared is an oracle line (the Search).

import (
	"fmt"
	"strings"
)

func init() { register("C15", runC15) }

// c15Shapes: the request shapes of every finding of DESIGN.md section 7 / D11, D12 a-j, D15 and of this slice's probe,
// each tried in three engine states: nothing loaded, scenario loaded, scenario + solution set loaded.
func c15Shapes(g *c14Gen) []c14Req {
	v, sum := g.valid, g.summary
	noAsIs := strings.Split(sum, "\n")[0] + "\n1-of-8, 18.377, 101198.000, 4982.000, 2.347, 1122.881, 0, 40, Pareto front member 1 of 8\n"
	return []c14Req{
		{"PUT", c14Api + "/model/actions/active", c14Csv, ""},
		{"PUT", c14Api + "/model/actions/active", c14Csv, "SubCatchment, GullyRestoration\n"},
		{"POST", c14Api + "/solutions", c14Csv, ""},
		{"POST", c14Api + "/solutions", c14Csv, strings.Split(sum, "\n")[0] + "\n"},
		{"PATCH", c14Api + "/model", c14Json, `[{"Name":"Encoding","Value":5}]`},
		{"PATCH", c14Api + "/model", c14Json, `[{"Name":"Encoding","Value":null}]`},
		{"PATCH", c14Api + "/model", c14Json, `[{"Name":"Foo","Value":"bar"},{"Name":"Encoding","Value":"zz"}]`},
		{"PATCH", c14Api + "/model", c14Json, `[{"Name":"Encoding","Value":"40"},{"Name":"Encoding","Value":"zz"}]`},
		{"PUT", c14Api + "/model/subcatchment/18", c14Json, `[{"Name":"RiverBankRestoration","Value":5}]`},
		{"PUT", c14Api + "/model/subcatchment/18", c14Json, `[{"Name":"RiverBankRestoration","Value":["Active"]}]`},
		{"GET", c14Api + "/model/subcatchment/99999999999999999999", "", ""},
		{"PUT", c14Api + "/model/subcatchment/99999999999999999999", c14Json, `[]`},
		{"GET", c14Api + "/model/subcatchment/9223372036854775808", "", ""},
		{"PUT", c14Api + "/model/actions/active", c14Csv, "SubCatchment, GullyRestoration\nabc, 1\n"},
		{"PUT", c14Api + "/model/actions/active", c14Csv, "SubCatchment, GullyRestoration\ntrue, 1\n"},
		{"PUT", c14Api + "/model/actions/active", c14Csv, "SubCatchment, GullyRestoration\n1e999, 1\n-1e30, 1\nNaN, 1\n17.9, 1\n"},
		{"POST", c14Api + "/solutions", c14Csv, strings.Replace(sum, "As-Is, 13.682", "As-Is, abc", 1)},
		{"POST", c14Api + "/solutions", c14Csv, strings.Replace(sum, "DissolvedNitrogen", "Dissolved", 1)},
		{"POST", c14Api + "/solutions", c14Csv, "Solution\nAs-Is\n"},
		{"POST", c14Api + "/solutions", c14Csv, "Solution, Actions\nAs-Is, 0\n"},
		{"POST", c14Api + "/solutions", c14Csv, "Solution, SedimentProduction, Actions, Summary\nAs-Is, 1059.911, 0, x\n"},
		{"POST", c14Api + "/solutions", c14Csv, noAsIs},
		{"GET", c14Api + "/solutions/1-of-8", "", ""},
		{"GET", c14Api + "/solutions/As-Is", "", ""},
		// Actions cells that pass the hex pattern but do not decode for the scenario (wrong word count, word beyond 64 bits,
		// empty words): POST must refuse them, and a GET of the label must never serve the as-is state under it
		{"POST", c14Api + "/solutions", c14Csv, strings.Replace(sum, "1122.881, 0, 40,", "1122.881, 0, 1:2,", 1)},
		{"GET", c14Api + "/solutions/1-of-8", "", ""},
		{"POST", c14Api + "/solutions", c14Csv, strings.Replace(sum, "1122.881, 0, 40,", "1122.881, 0, 10000000000000000,", 1)},
		{"GET", c14Api + "/solutions/1-of-8", "", ""},
		{"POST", c14Api + "/solutions", c14Csv, strings.Replace(sum, "1122.881, 0, 40,", "1122.881, 0, :,", 1)},
		{"POST", c14Api + "/solutions", c14Csv, strings.Replace(sum, "1122.881, 0, 40,", "1122.881, 0, ,", 1)},
		{"GET", c14Api + "/solutions/1-of-8", "", ""},
		{"POST", c14Api + "/scenario", c14Toml, c15ReadFile("testdata/InvalidModelTestScenario.toml")},
		{"POST", c14Api + "/scenario", c14Toml, strings.Replace(v, `Type = "CatchmentModel"`, `Type = "NullModel"`, 1)},
		{"POST", c14Api + "/scenario", c14Toml, strings.Replace(v, "testdata/ValidModel.csv", "testdata/ValidGullies.csv", 1)},
		{"POST", c14Api + "/scenario", c14Toml, strings.Replace(v, "testdata/ValidModel.csv", "testdata/ValidTestScenario.toml", 1)},
		{"POST", c14Api + "/scenario", c14Toml, strings.Replace(v, "testdata/ValidModel.csv", "testdata", 1)},
		{"POST", c14Api + "/scenario", c14Toml, strings.Replace(v, "testdata/ValidModel.csv", "testdata/ValidActions.csv", 1)},
		{"POST", c14Api + "/solutions", c14Csv, sum},
		{"GET", c14Api + "/model", "", ""},
	}
}

func runC15(args []string) {
	c15Chdir()
	tier := "quick"
	if len(args) > 0 {
		tier = args[0]
	}
	w := c14NewWorld()
	g := c14NewGen(w, 15)
	// 1. the catalogue of known shapes in three engine states
	shapes := c15Shapes(g)
	for state := 0; state < 3; state++ {
		for i := 0; i < len(shapes); i += 8 {
			e := w.newEngine(fmt.Sprintf("shapes-%d-%d", state, i))
			if state >= 1 {
				e.send(c14Req{"POST", c14Api + "/scenario", c14Toml, g.valid})
			}
			if state >= 2 {
				e.send(c14Req{"POST", c14Api + "/solutions", c14Csv, g.summary})
			}
			hi := i + 8
			if hi > len(shapes) {
				hi = len(shapes)
			}
			for _, q := range shapes[i:hi] {
				if e.dead {
					break
				}
				e.send(q)
			}
			e.finish("shapes")
		}
	}
	// 2. D14c replayed (YearsOfErosion = 0 used to panic inside the model interpretation; repaired in /repo by 2d5fa4a):
	//    if it panics again the sequence ends there and the oracle reports it
	for state := 0; state < 2; state++ {
		e := w.newEngine(fmt.Sprintf("years-of-erosion-%d", state))
		if state == 1 {
			e.send(c14Req{"POST", c14Api + "/scenario", c14Toml, g.valid})
		}
		e.send(c14Req{"POST", c14Api + "/scenario", c14Toml, g.valid + "YearsOfErosion = 0\n"})
		e.finish("known-finding")
	}
	// 3. mostly-malformed random walks
	nseq, maxLen := 90, 20
	if tier == "thorough" {
		nseq, maxLen = 700, 40
	}
	for i := 0; i < nseq; i++ {
		e := w.newEngine(fmt.Sprintf("malformed-%d", i))
		if g.p.chance(0.7) {
			e.send(c14Req{"POST", c14Api + "/scenario", c14Toml, g.pick(g.scen)})
		}
		if g.p.chance(0.35) {
			e.send(c14Req{"POST", c14Api + "/solutions", c14Csv, g.summaryTable(e.currentDesc(), true)})
		}
		n := 3 + g.p.intn(maxLen-2)
		for len(e.steps) < n && !e.dead {
			e.send(g.step(e, 0.65))
		}
		e.finish("malformed-walk")
	}
	w.finish()
}
