//go:build verif

package main

// C15 -- the malformed-input stream for the REST engine, on the differential runner of c14.go: every request through
// the real Mux.ServeHTTP under recover; a panic, an undocumented status, a non-2xx answer that is not the JSON error
// document, an error document with 2xx or invalid JSON where JSON is declared is an oracle line (the Search).

import (
	"encoding/json"
	"fmt"
	"net/http/httptest"
	"strings"
	"time"

	"github.com/LindsayBradford/crem/internal/pkg/server"
	"github.com/LindsayBradford/crem/internal/pkg/server/admin"
	"github.com/LindsayBradford/crem/pkg/logging/loggers"
)

func init() { register("C15", runC15) }

// c15Shapes: the request shapes of every finding of DESIGN.md section 7 / D11, D12 a-j, D15 and of this slice's probe,
// each tried in three engine states: nothing loaded, scenario loaded, scenario + solution set loaded.
func c15Shapes(g *c14Gen) []c14Req {
	v, sum := g.valid, g.summary
	noAsIs := strings.Split(sum, "\n")[0] + "\n1-of-8, 18.377, 101198.000, 4982.000, 2.347, 1122.881, 0, 40, Pareto front member 1 of 8\n"
	fixed := []c14Req{
		{"PUT", c14Api + "/model/actions/active", c14Csv, ""},
		{"PUT", c14Api + "/model/actions/active", c14Csv, "SubCatchment, GullyRestoration\n"},
		{"POST", c14Api + "/solutions", c14Csv, ""},
		{"POST", c14Api + "/solutions", c14Csv, strings.Split(sum, "\n")[0] + "\n"},
		{"PATCH", c14Api + "/model", c14Json, `[{"Name":"Encoding","Value":5}]`},
		{"PATCH", c14Api + "/model", c14Json, `[{"Name":"Encoding","Value":null}]`},
		{"PATCH", c14Api + "/model", c14Json, `[{"Name":"Foo","Value":"bar"},{"Name":"Encoding","Value":"zz"}]`},
		{"PATCH", c14Api + "/model", c14Json, `[{"Name":"Encoding","Value":"40"},{"Name":"Encoding","Value":"zz"}]`},
		{"PUT", c14Api + "/model/subcatchment/18", c14Json, `[{"Name":"RiverBankRestoration","Value":5}]`},
		{"PUT", c14Api + "/model/subcatchment/18", c14Json, `[{"Name":"RiverBankRestoration","Value":["Active"]}]`},
		{"GET", c14Api + "/model/subcatchment/99999999999999999999", "", ""},
		{"PUT", c14Api + "/model/subcatchment/99999999999999999999", c14Json, `[]`},
		{"GET", c14Api + "/model/subcatchment/9223372036854775808", "", ""},
		{"PUT", c14Api + "/model/actions/active", c14Csv, "SubCatchment, GullyRestoration\nabc, 1\n"},
		{"PUT", c14Api + "/model/actions/active", c14Csv, "SubCatchment, GullyRestoration\ntrue, 1\n"},
		{"PUT", c14Api + "/model/actions/active", c14Csv, "SubCatchment, GullyRestoration\n1e999, 1\n-1e30, 1\nNaN, 1\n17.9, 1\n"},
		{"POST", c14Api + "/solutions", c14Csv, strings.Replace(sum, "As-Is, 13.682", "As-Is, abc", 1)},
		{"POST", c14Api + "/solutions", c14Csv, strings.Replace(sum, "DissolvedNitrogen", "Dissolved", 1)},
		{"POST", c14Api + "/solutions", c14Csv, "Solution\nAs-Is\n"},
		{"POST", c14Api + "/solutions", c14Csv, "Solution, Actions\nAs-Is, 0\n"},
		{"POST", c14Api + "/solutions", c14Csv, "Solution, SedimentProduction, Actions, Summary\nAs-Is, 1059.911, 0, x\n"},
		{"POST", c14Api + "/solutions", c14Csv, noAsIs},
		{"GET", c14Api + "/solutions/1-of-8", "", ""},
		{"GET", c14Api + "/solutions/As-Is", "", ""},
		// Actions cells that pass the hex pattern but do not decode for the scenario (wrong word count, word beyond 64 bits,
		// empty words): POST must refuse them, and a GET of the label must never serve the as-is state under it
		{"POST", c14Api + "/solutions", c14Csv, strings.Replace(sum, "1122.881, 0, 40,", "1122.881, 0, 1:2,", 1)},
		{"GET", c14Api + "/solutions/1-of-8", "", ""},
		{"POST", c14Api + "/solutions", c14Csv, strings.Replace(sum, "1122.881, 0, 40,", "1122.881, 0, 10000000000000000,", 1)},
		{"GET", c14Api + "/solutions/1-of-8", "", ""},
		{"POST", c14Api + "/solutions", c14Csv, strings.Replace(sum, "1122.881, 0, 40,", "1122.881, 0, :,", 1)},
		{"POST", c14Api + "/solutions", c14Csv, strings.Replace(sum, "1122.881, 0, 40,", "1122.881, 0, ,", 1)},
		{"GET", c14Api + "/solutions/1-of-8", "", ""},
		{"POST", c14Api + "/scenario", c14Toml, c15ReadFile("testdata/InvalidModelTestScenario.toml")},
		{"POST", c14Api + "/scenario", c14Toml, strings.Replace(v, `Type = "CatchmentModel"`, `Type = "NullModel"`, 1)},
		{"POST", c14Api + "/scenario", c14Toml, strings.Replace(v, "testdata/ValidModel.csv", "testdata/ValidGullies.csv", 1)},
		{"POST", c14Api + "/scenario", c14Toml, strings.Replace(v, "testdata/ValidModel.csv", "testdata/ValidTestScenario.toml", 1)},
		{"POST", c14Api + "/scenario", c14Toml, strings.Replace(v, "testdata/ValidModel.csv", "testdata", 1)},
		{"POST", c14Api + "/scenario", c14Toml, strings.Replace(v, "testdata/ValidModel.csv", "testdata/ValidActions.csv", 1)},
		{"POST", c14Api + "/solutions", c14Csv, sum},
		{"GET", c14Api + "/model", "", ""},
	}
	// attribute values of every JSON kind, each patched TWICE under the same name (the second patch replaces an entry that
	// already holds a value of that kind) and then replaced by a value of another kind
	for _, val := range []string{`["draft","2026"]`, `{"a":1,"b":[true,null]}`, `[]`, `{}`, `[["x"],{"y":2}]`, `3.5`, `"text"`, `true`, `null`} {
		body := `[{"Name":"Tags","Value":` + val + `}]`
		fixed = append(fixed, c14Req{"PATCH", c14Api + "/model", c14Json, body}, c14Req{"PATCH", c14Api + "/model", c14Json, body},
			c14Req{"GET", c14Api + "/model", "", ""})
	}
	fixed = append(fixed, c14Req{"PATCH", c14Api + "/model", c14Json, `[{"Name":"Tags","Value":["a"]},{"Name":"Tags","Value":["b"]}]`},
		c14Req{"PATCH", c14Api + "/model", c14Json, `[{"Name":"Tags","Value":{"k":"v"}},{"Name":"Other","Value":["z"]}]`},
		c14Req{"PATCH", c14Api + "/model", c14Json, `[{"Name":"Other","Value":["z"]}]`}, c14Req{"GET", c14Api + "/model", "", ""})
	// model parameters written with another TOML type or at a boundary (a whole number for a decimal, a string, a bool,
	// an array, a negative or huge value): whatever the engine thinks of them, it answers -- it never panics -- and a
	// scenario answered 200 is served by GET /model afterwards
	for _, kv := range []string{
		"WaterDensity = 1", "SedimentDensity = 2", "GullyCompensationFactor = 0", "GullyCompensationFactor = 1", "SuspendedSedimentProportion = 1",
		"HillSlopeDeliveryRatio = 1", "HillSlopeDeliveryRatio = 0", "RiparianBufferVegetationProportionTarget = 1", "GullySedimentReductionTarget = 0",
		"MaximumImplementationCost = 10_000_000", "MaximumImplementationCost = 0", "MaximumSedimentProduction = 100", "MaximumOpportunityCost = 5",
		"MaximumTotalNitrogenProduction = 12", "MaximumImplementationCost = \"1000000\"", "MaximumImplementationCost = true",
		"MaximumImplementationCost = [1.0]", "MaximumImplementationCost = -1.0", "MaximumImplementationCost = 1e308", "YearsOfErosion = 100.0",
		"YearsOfErosion = 0", "YearsOfErosion = -3", "BankErosionFudgeFactor = 1", "WaterDensity = \"1.0\"", "LocalAcceleration = false",
		"DataSourcePath = 17", "NoSuchParameter = 1", "MaximumImplementationCost = 9223372036854775807",
	} {
		key := kv[:strings.Index(kv, " ")]
		text := v
		if i := strings.Index(text, "\n"+key+" "); i >= 0 { // replace the line that sets the key
			j := i + 1 + strings.Index(text[i+1:], "\n")
			text = text[:i+1] + kv + text[j:]
		} else {
			text = strings.TrimRight(text, "\n") + "\n" + kv + "\n"
		}
		fixed = append(fixed, c14Req{"POST", c14Api + "/scenario", c14Toml, text}, c14Req{"GET", c14Api + "/model", "", ""})
	}
	return fixed
}

// ---------------------------------------------------------------------------------------------------
// the whole server: the engine's API multiplexer wired by server.RestServer.WithApiMux (status handler under "^/$") and
// the admin multiplexer (GET /status, POST /shutdown).  Nothing listens on a port; requests go through ServeHTTP.

type c15Server struct {
	w       *c14World
	eng     *c14Engine
	admin   *admin.Mux
	signals chan bool // one value per value received from the admin multiplexer's done channel
	steps   []J
	name    string
}

const (
	c15SvcName    = "verif engine"
	c15SvcVersion = "0.0-verif"
	c15SvcStatus  = "RUNNING"
)

func (w *c14World) newServer(name string) *c15Server {
	e := w.newEngine(name)
	srv := new(server.RestServer).Initialise().WithApiMux(e.mux).WithLogger(loggers.NewNullLogger()).
		WithStatus(admin.ServiceStatus{ServiceName: c15SvcName, Version: c15SvcVersion, Status: c15SvcStatus})
	s := &c15Server{w: w, eng: e, admin: srv.VerifC16AdminMux(), name: name, signals: make(chan bool, 64)}
	// what RestServer.Start does on the main goroutine: wait on the done channel (here: again and again)
	go func() {
		for {
			s.admin.WaitForShutdownSignal()
			s.signals <- true
		}
	}()
	time.Sleep(2 * time.Millisecond)
	return s
}

func c15AdminRoute(path string) string {
	switch c14DecodedPath(path) {
	case "/status":
		return "status"
	case "/shutdown":
		return "shutdown"
	}
	return "none"
}

// send: target "api" (the engine multiplexer) or "admin".  A POST /shutdown is given a waiter on the done channel, as
// RestServer.Start provides one; whether the channel received a value is the observable of the shutdown request.
func (s *c15Server) send(target string, q c14Req) {
	w := s.w
	w.cur = s.eng
	var abs J
	var r c15Resp
	signalled := false
	if target == "api" && c14DecodedPath(q.Path) != "/" {
		before := len(s.eng.steps)
		s.eng.send(q)
		if len(s.eng.steps) > before {
			st := s.eng.steps[len(s.eng.steps)-1]
			s.steps = append(s.steps, J{"t": "api", "req": st["req"], "go": st["go"], "resp": st["resp"], "signalled": false})
		}
		return
	}
	do := func() {
		defer func() {
			if p := recover(); p != nil {
				r = c15Resp{Panicked: true, Panic: fmt.Sprint(p)}
			}
		}()
		rec := httptest.NewRecorder()
		req := httptest.NewRequest(q.Method, "http://dummyUrl"+q.Path, strings.NewReader(q.Body))
		if q.Ctype != "" {
			req.Header.Add("Content-Type", q.Ctype)
		}
		if target == "api" {
			s.eng.mux.ServeHTTP(rec, req)
		} else {
			s.admin.ServeHTTP(rec, req)
		}
		res := rec.Result()
		b := new(strings.Builder)
		buf := make([]byte, 4096)
		for {
			n, err := res.Body.Read(buf)
			b.Write(buf[:n])
			if err != nil {
				break
			}
		}
		r = c15Resp{Status: res.StatusCode, Ctype: res.Header.Get("Content-Type"), Body: b.String()}
	}
	if target == "admin" {
		finished := make(chan bool, 1)
		go func() { do(); finished <- true }()
		select {
		case <-finished:
		case <-time.After(3 * time.Second):
			r = c15Resp{Panicked: true, Panic: "the admin handler did not return within 3 s"}
		}
		// a shutdown request that was answered 200 has handed its value to the waiter (the send is synchronous); the
		// waiter's own report may be late on a loaded machine, so it is given a second - any other request only the
		// time a spurious signal would need
		patience := 15 * time.Millisecond
		if !r.Panicked && r.Status == 200 && c15AdminRoute(q.Path) == "shutdown" {
			patience = time.Second
		}
		select {
		case <-s.signals:
			signalled = true
			time.Sleep(2 * time.Millisecond) // let the waiter get back to the channel receive
		case <-time.After(patience):
		}
		abs = J{"t": "admin", "m": c14Meth(q.Method), "route": c15AdminRoute(q.Path)}
	} else {
		do()
		abs = J{"t": "root", "m": c14Meth(q.Method)}
	}
	w.stats["requests"]++
	w.stats["server:"+abs["t"].(string)+":"+c14Meth(q.Method)]++
	var resp J
	if r.Panicked {
		resp = J{"k": "panic", "what": r.Panic}
		w.oracleLine("panic", q, r, J{"route": J{"k": target}}, "the "+target+" handler panicked: "+r.Panic)
	} else {
		resp = w.project("status", r, nil)
		w.stats["status:"+fmt.Sprint(r.Status)]++
		switch r.Status {
		case 200, 400, 404, 405, 415, 500, 503:
		default:
			w.oracleLine("undocumented-status", q, r, J{"route": J{"k": target}}, fmt.Sprintf("status %d is not in the documented set", r.Status))
		}
		pb, _ := resp["b"].(J)
		if r.Status/100 != 2 && (r.Ctype != c14Json || pb["k"] != "err") {
			w.oracleLine("error-body-not-json-error-document", q, r, J{"route": J{"k": target}}, "non-2xx answer whose body is not the JSON error document")
		}
		if r.Ctype == c14Json && !json.Valid([]byte(r.Body)) {
			w.oracleLine("invalid-json", q, r, J{"route": J{"k": target}}, "JSON declared but the body is not valid JSON")
		}
	}
	abs["go"] = J{"target": target, "method": q.Method, "path": q.Path}
	abs["resp"] = resp
	abs["signalled"] = signalled
	s.steps = append(s.steps, abs)
}

func (s *c15Server) finish() {
	emit(J{"kind": "scase", "name": s.name, "svc": []string{c15SvcName, c15SvcVersion, c15SvcStatus}, "steps": s.steps})
	s.w.stats["server_sequences"]++
}

func (g *c14Gen) serverWalk(i int, n int) {
	p := g.p
	s := g.w.newServer(fmt.Sprintf("server-%d", i))
	adminPaths := []string{"/status", "/status", "/shutdown", "/", "/statusx", "/status/", "/Status", "/shutdown/now", c14Api + "/model", "/status%2F"}
	methods := []string{"GET", "GET", "POST", "POST", "PUT", "PATCH", "DELETE", "HEAD", "OPTIONS", "FOO"}
	for k := 0; k < n; k++ {
		switch x := p.intn(10); {
		case x < 5:
			s.send("admin", c14Req{g.pick(methods), g.pick(adminPaths), g.pick([]string{"", c14Json, "text/plain"}), g.pick([]string{"", "x", "{}"})})
		case x < 7:
			s.send("api", c14Req{g.pick(methods), "/", "", ""})
		case x == 7:
			s.send("api", c14Req{"POST", c14Api + "/scenario", c14Toml, g.pick(g.scen)})
		default:
			s.send("api", g.step(s.eng, 0.3))
		}
	}
	// the canonical ending: status, shutdown, status
	s.send("admin", c14Req{"GET", "/status", "", ""})
	s.send("admin", c14Req{"POST", "/shutdown", "", ""})
	s.send("admin", c14Req{"GET", "/status", "", ""})
	s.send("api", c14Req{"GET", "/", "", ""})
	s.finish()
}

func runC15(args []string) {
	c15Chdir()
	tier := "quick"
	if len(args) > 0 {
		tier = args[0]
	}
	w := c14NewWorld()
	g := c14NewGen(w, 15)
	// 1. the catalogue of known shapes in three engine states
	shapes := c15Shapes(g)
	for state := 0; state < 3; state++ {
		for i := 0; i < len(shapes); i += 8 {
			e := w.newEngine(fmt.Sprintf("shapes-%d-%d", state, i))
			if state >= 1 {
				e.send(c14Req{"POST", c14Api + "/scenario", c14Toml, g.valid})
			}
			if state >= 2 {
				e.send(c14Req{"POST", c14Api + "/solutions", c14Csv, g.summary})
			}
			hi := i + 8
			if hi > len(shapes) {
				hi = len(shapes)
			}
			for _, q := range shapes[i:hi] {
				if e.dead {
					break
				}
				e.send(q)
			}
			e.finish("shapes")
		}
	}
	// 2. D14c replayed (YearsOfErosion = 0 used to panic inside the model interpretation; repaired in /repo by 2d5fa4a):
	//    if it panics again the sequence ends there and the oracle reports it
	for state := 0; state < 2; state++ {
		e := w.newEngine(fmt.Sprintf("years-of-erosion-%d", state))
		if state == 1 {
			e.send(c14Req{"POST", c14Api + "/scenario", c14Toml, g.valid})
		}
		e.send(c14Req{"POST", c14Api + "/scenario", c14Toml, g.valid + "YearsOfErosion = 0\n"})
		e.finish("known-finding")
	}
	// 3. mostly-malformed random walks
	nseq, maxLen := 90, 20
	if tier == "thorough" {
		nseq, maxLen = 700, 40
	}
	for i := 0; i < nseq; i++ {
		e := w.newEngine(fmt.Sprintf("malformed-%d", i))
		if g.p.chance(0.7) {
			e.send(c14Req{"POST", c14Api + "/scenario", c14Toml, g.pick(g.scen)})
		}
		if g.p.chance(0.35) {
			e.send(c14Req{"POST", c14Api + "/solutions", c14Csv, g.summaryTable(e.currentDesc(), true)})
		}
		n := 3 + g.p.intn(maxLen-2)
		for len(e.steps) < n && !e.dead {
			e.send(g.step(e, 0.65))
		}
		e.finish("malformed-walk")
	}
	// 3b. histories of replaced solution summaries (labels of earlier summaries asked for again), with refused POSTs
	nhist := 10
	if tier == "thorough" {
		nhist = 150
	}
	g.summaryCanonical()
	for i := 0; i < nhist; i++ {
		g.summaryHistory(i, 3+g.p.intn(4), 0.4)
	}
	// 3c. huge bodies: malformed ones on every body-carrying write, and huge bodies where none is expected
	g.largeBodies(tier, true)
	g.bigElsewhere()
	// 4. the whole server: admin multiplexer and the status handler on the API's "/"
	nsrv := 12
	if tier == "thorough" {
		nsrv = 80
	}
	for i := 0; i < nsrv; i++ {
		g.serverWalk(i, 6+g.p.intn(10))
	}
	w.finish()
}
