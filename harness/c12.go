//go:build verif

package main

import (
	"bytes"
	encjson "encoding/json"
	"fmt"
	"math"
	"os"
	"path/filepath"
	"sort"
	"strconv"
	"strings"

	"github.com/LindsayBradford/crem/internal/pkg/annealing/solution"
	solenc "github.com/LindsayBradford/crem/internal/pkg/annealing/solution/encoding"
	solutionset "github.com/LindsayBradford/crem/internal/pkg/annealing/solution/set"
	setjson "github.com/LindsayBradford/crem/internal/pkg/annealing/solution/set/encoding/json"
	datasetcsv "github.com/LindsayBradford/crem/internal/pkg/dataset/csv"
	"github.com/LindsayBradford/crem/internal/pkg/model"
	modelarchive "github.com/LindsayBradford/crem/internal/pkg/model/archive"
	"github.com/LindsayBradford/crem/internal/pkg/model/models/catchment"
	"github.com/LindsayBradford/crem/internal/pkg/observer"
	"github.com/LindsayBradford/crem/internal/pkg/scenario"
	boolarchive "github.com/LindsayBradford/crem/pkg/archive"
	"github.com/LindsayBradford/crem/pkg/dominance"
	"github.com/LindsayBradford/crem/pkg/logging/loggers"
)

// C12: saved results are faithful, complete and deterministically named and labelled.
//
// Part 1 ("ids", "raw"): the string functions of the real code (Runner.generateCloneId, the saver's id formats,
//   set.Summary.FileNameSafeId / Id, the JSON marshaller's set name, the saver's row label) on a name palette.
//   Each function that reads "some key" of the summary map is called on a ONE-key map, once per key, so that
//   the function of the key is observed (the map-order dependence is then a statement about the model: the
//   theorem says the function takes the same value on every key).
// Part 2 ("save"): the real Saver, fed FinishedAnnealing events built from the catchment test fixture, writing
//   into a private temp dir; every configuration is repeated in this process (Go randomises map iteration per
//   range statement) and the directory listing, set name, labels and rows are compared between repetitions
//   (implementation-side oracle) and, through the case lines, with the model's prediction.

var c12stats = map[string]int{}

type c12keyObs struct {
	Id     string `json:"id"`
	Stem   string `json:"stem"`
	SetId  string `json:"setid"`
	JName  string `json:"jname"`
	JPanic bool   `json:"jpanic"`
	Label  string `json:"label"`
}

func c12observeKey(key string) c12keyObs {
	o := c12keyObs{Id: key}
	one := solutionset.Summary{key: solution.Summary{Id: "x"}}
	o.Stem = one.FileNameSafeId()
	o.SetId = one.Id()
	var marshalled []byte
	p, _ := protect(func() {
		var err error
		marshalled, err = new(setjson.Marshaler).Marshal(&one)
		if err != nil {
			panic(err)
		}
	})
	if p {
		o.JPanic = true
	} else {
		var parsed struct{ SolutionSet string }
		if err := encjson.Unmarshal(marshalled, &parsed); err != nil {
			panic(err)
		}
		o.JName = parsed.SolutionSet
	}
	o.Label = scenario.VerifC12RowLabel(key)
	return o
}

// a solution set with the given id and exactly n (mutually non-dominated, pairwise different) members
func c12dummyArchive(id string, n int) *modelarchive.NonDominanceModelArchive {
	a := modelarchive.New()
	a.SetId(id)
	for i := 0; i < n; i++ {
		st := &modelarchive.CompressedModelState{
			Variables: dominance.Float64Vector{float64(i), float64(-i)},
			Actions:   *boolarchive.New(8),
		}
		for b := 0; b < 8; b++ {
			st.Actions.SetValue(b, (i+1)>>uint(b)&1 == 1)
		}
		a.AttemptToArchiveState(st)
	}
	if a.Len() != n {
		panic("c12dummyArchive: could not build an archive of the requested size")
	}
	return a
}

func c12idsCase(name string, R, r uint64, n int) {
	run := scenario.VerifC12CloneId(name, R, r)
	// multi-objective family
	asIs, members := scenario.VerifC12SetIds(*c12dummyArchive(run, n))
	keys := []c12keyObs{c12observeKey(asIs)}
	for _, m := range members {
		keys = append(keys, c12observeKey(m))
	}
	emit(J{"kind": "case", "t": "ids", "fam": "multi", "name": name, "R": R, "r": r, "n": n, "run": run, "keys": keys})
	c12stats["ids_multi"]++
	c12stats["keys_observed"] += len(keys)
	c12idsOracle("multi", name, R, r, n, keys)
	if n == 1 {
		// single-objective family: the ids are built inline in Saver.encodeOptimisedModel (covered end-to-end in part 2);
		// here: the as-is id accessor and the literal format
		keys1 := []c12keyObs{c12observeKey(scenario.VerifC12OptimisedAsIsId(run)), c12observeKey(run + " Solution (1/1)")}
		emit(J{"kind": "case", "t": "ids", "fam": "single", "name": name, "R": R, "r": r, "n": 1, "run": run, "keys": keys1})
		c12stats["ids_single"]++
		c12stats["keys_observed"] += 2
		c12idsOracle("single", name, R, r, 1, keys1)
	}
}

// the predicates of the theorems (Saver.v: no_nl, label_safe): the implementation-side oracle asserts
// naming on every name (line breaks only change WHAT the JSON set name is, not that it is one value), label uniqueness on names containing neither "(1/1)" nor "As-Is",
// completeness and faithfulness of the rows on every name
func c12noNl(name string) bool { return !strings.Contains(name, "\n") }
func c12labelSafe(name string) bool {
	return !strings.Contains(name, "(1/1)") && !strings.Contains(name, "As-Is")
}
func c12plain(name string) bool { return c12noNl(name) && c12labelSafe(name) }

func c12idsOracle(fam, name string, R, r uint64, n int, keys []c12keyObs) {
	if c12plain(name) {
		c12stats["ids_inside_predicate"]++
	} else {
		c12stats["ids_outside_predicate"]++
	}
	bad := ""
	labels := map[string]bool{}
	for _, k := range keys {
		if true { // key independence and no panic are proved for EVERY name (C12_naming_deterministic_all_names_*)
			if k.JPanic {
				bad = "JSON set name panics on key " + strconv.Quote(k.Id)
			}
			if k.Stem != keys[0].Stem || k.SetId != keys[0].SetId || k.JName != keys[0].JName || k.JPanic != keys[0].JPanic {
				bad = "file stem / set id / JSON set name depend on the chosen key"
			}
		}
		if c12labelSafe(name) {
			if labels[k.Label] {
				bad = "duplicate row label " + strconv.Quote(k.Label)
			}
			labels[k.Label] = true
		}
	}
	if bad != "" {
		emit(J{"kind": "oracle", "what": bad, "part": "ids", "fam": fam, "name": name, "R": R, "r": r, "n": n, "keys": keys})
	}
}

func c12namePalette(rng *prng, extra int) []string {
	names := []string{
		// plain
		"P", "Default Scenario", "CatchmentTest", "Laidley Creek v2", "run-7_final", "Scenario 12", "a  b", " lead", "trail ", "x.y", "2020",
		"Solution", "My Solution", "Summary", "Optimised", "As-is", "as-Is", "AsIs", "1/1", "3/4", "12/3 x", "a/b", "(", ")", "()", "(x)", "(1/1", "1/1)",
		"( 1/1)", "(1/2)", "(11/1)", "a (2/3)", "P Solution", "P Solution (", "P Solution (x)", "Solution (x) y)", "Solution(q)", "A Solution(1/2) B",
		"x) Solution (y", "café", "tab\there", "7/", "/7", "1//2", "1/2/3", "10/20 30/40", "-of-",
		// outside the predicate
		"", "As-Is", "My As-Is plan", "(1/1)", "x(1/1)y", "Copy (1/1) of P", "As-Is (1/1)", "line\nbreak", "a Solution (1)\nb", "\n",
	}
	alphabet := []string{"a", "B", " ", " ", "1", "2", "0", "/", "(", ")", "-", "Solution", " Solution", "As-Is", "(1/1)", "(", ")", "1/1", "Summary", "of", "x", "\n"}
	for i := 0; i < extra; i++ {
		var sb strings.Builder
		for k, l := 0, 1+rng.intn(6); k < l; k++ {
			sb.WriteString(alphabet[rng.intn(len(alphabet))])
		}
		names = append(names, sb.String())
	}
	return names
}

// ---------------------------------------------------------------------------------------------------------------
// part 2: the real saver end to end

type c12fixture struct {
	base *catchment.CoreModel
}

func c12newModel() *catchment.CoreModel {
	ds := datasetcsv.NewDataSet("CatchmentModel")
	if err := ds.Load("testdata/ValidModel.csv"); err != nil {
		panic(err)
	}
	m := catchment.NewCoreModel().WithSourceDataSet(ds).WithName("CatchmentModel")
	m.Initialise(model.AsIs)
	return m
}

func c12apply(m model.Model, bits []bool) {
	for i, b := range bits {
		m.SetManagementAction(i, b)
	}
}

func c12grid(v float64) int64 {
	g := math.Round(v * 1000)
	if math.Abs(v*1000-g) > 1e-6 {
		panic(fmt.Sprintf("c12grid: %v is not on the 0.001 grid", v))
	}
	return int64(g)
}

type c12var struct {
	Name string `json:"name"`
	Grid int64  `json:"grid"`
}

// values of a FRESH model decompressed from an encoding (the right-hand side of "rows faithful")
func c12freshEval(encoding string, nActions int) []c12var {
	m := c12newModel()
	state := &modelarchive.CompressedModelState{Actions: *boolarchive.New(nActions)}
	if err := state.Decode(encoding); err != nil {
		panic(err)
	}
	new(modelarchive.ModelCompressor).Decompress(state, m)
	keys := m.NameMappedVariables().SortedKeys()
	res := make([]c12var, 0)
	for _, k := range keys {
		res = append(res, c12var{k, c12grid(m.DecisionVariable(k).Value())})
	}
	return res
}

type c12row struct {
	Label string   `json:"label"`
	Vars  []c12var `json:"vars"`
	Enc   string   `json:"enc"`
	Note  string   `json:"note"`
}

type c12saveObs struct {
	Panicked string   `json:"panicked"`
	Listing  []string `json:"listing"`
	SetName  string   `json:"setname"` // JSON only
	Header   []string `json:"header"`  // CSV only
	Rows     []c12row `json:"rows"`
	Problem  string   `json:"problem"` // unparsable summary etc.
}

func c12parseSummary(obs *c12saveObs, dir, otype string) {
	var summaries []string
	for _, f := range obs.Listing {
		if strings.HasSuffix(f, "-Summary.csv") || strings.HasSuffix(f, "-Summary.json") {
			summaries = append(summaries, f)
		}
	}
	if len(summaries) != 1 {
		obs.Problem = fmt.Sprintf("%d summary files", len(summaries))
		return
	}
	content, err := os.ReadFile(filepath.Join(dir, summaries[0]))
	if err != nil {
		obs.Problem = err.Error()
		return
	}
	if otype == "JSON" {
		var parsed struct {
			SolutionSet string
			Solutions   []struct {
				Id        string
				Variables []struct {
					Name  string
					Value float64
				}
				Actions string
				Note    string
			}
		}
		if err := encjson.Unmarshal(content, &parsed); err != nil {
			obs.Problem = "summary is not JSON: " + err.Error()
			return
		}
		obs.SetName = parsed.SolutionSet
		for _, s := range parsed.Solutions {
			row := c12row{Label: s.Id, Enc: s.Actions, Note: s.Note, Vars: []c12var{}}
			for _, v := range s.Variables {
				row.Vars = append(row.Vars, c12var{v.Name, c12grid(v.Value)})
			}
			obs.Rows = append(obs.Rows, row)
		}
		return
	}
	lines := strings.Split(string(content), "\n")
	if len(lines) < 1 || lines[len(lines)-1] != "" {
		obs.Problem = "summary does not end with a newline"
		return
	}
	lines = lines[:len(lines)-1]
	obs.Header = strings.Split(lines[0], ", ")
	nvars := len(obs.Header) - 3
	for _, ln := range lines[1:] {
		cells := strings.Split(ln, ", ")
		if len(cells) != len(obs.Header) || nvars < 0 {
			obs.Problem = "row width differs from header width: " + ln
			return
		}
		row := c12row{Label: cells[0], Enc: cells[nvars+1], Note: cells[nvars+2], Vars: []c12var{}}
		for i := 0; i < nvars; i++ {
			txt := cells[1+i]
			dot := strings.IndexByte(txt, '.')
			if dot < 0 || len(txt)-dot-1 != 3 {
				obs.Problem = "value not printed with three decimals: " + txt
				return
			}
			g, err := strconv.ParseInt(txt[:dot]+txt[dot+1:], 10, 64)
			if err != nil {
				obs.Problem = "value not numeric: " + txt
				return
			}
			row.Vars = append(row.Vars, c12var{obs.Header[1+i], g})
		}
		obs.Rows = append(obs.Rows, row)
	}
}

type c12config struct {
	fam    string // "multi" | "single"
	name   string
	R, r   uint64
	n      int
	otype  string // "CSV" | "JSON"
	level  string // "Summary" | "Detail"
	reps   int
	tmpDir string
}

// files written by the first execution of the current configuration: later executions find a LONGER left-over
// file under each of these names (a previous execution of the same run into the same output path), which a
// correct saver replaces completely
var c12prevFiles map[string][]byte
var c12saver *scenario.Saver

func c12saveOnce(cfg c12config, fx *c12fixture, memberBits [][]bool, run string, rep int) c12saveObs {
	dir := filepath.Join(cfg.tmpDir, fmt.Sprintf("out%d", rep))
	if rep%2 == 1 && len(c12prevFiles) > 0 {
		os.MkdirAll(dir, 0o777)
		blocked := ""
		if cfg.level == "Detail" && rep%4 == 3 {
			// one solution's detail file cannot be written (its name is taken by a non-empty directory): the saver logs
			// that and carries on -- the SUMMARY still lists every solution of the run
			names := []string{}
			for name := range c12prevFiles {
				if !strings.Contains(name, "-Summary.") && !strings.Contains(name, "As-Is") {
					names = append(names, name)
				}
			}
			sort.Strings(names)
			if len(names) > 0 {
				blocked = names[len(names)/2]
				os.MkdirAll(filepath.Join(dir, blocked), 0o777)
				os.WriteFile(filepath.Join(dir, blocked, "occupied"), []byte("x"), 0o666)
				c12stats["save_with_one_detail_file_name_taken"]++
			}
		}
		for name, content := range c12prevFiles {
			if name == blocked {
				continue
			}
			longer := append(append([]byte{}, content...), content...)
			os.WriteFile(filepath.Join(dir, name), longer, 0o666)
		}
		c12stats["save_over_longer_leftover"]++
	}
	obs := c12saveObs{Listing: []string{}, Rows: []c12row{}, Header: []string{}}
	// ONE saver serves every execution of a configuration, as the Runner's single saver serves every run of a
	// scenario (whatever it remembers from the previous save must not leak into the next one)
	if c12saver == nil {
		c12saver = scenario.NewSaver().
			WithOutputType(solenc.OutputType(cfg.otype)).
			WithOutputLevel(scenario.OutputLevel(cfg.level)).
			WithLogHandler(new(loggers.NullLogger))
		c12saver.SetDecompressionModel(fx.base)
	}
	saver := c12saver.WithOutputPath(dir)

	event := observer.NewEvent(observer.FinishedAnnealing)
	work := fx.base.DeepClone()
	work.Initialise(model.AsIs)
	if cfg.fam == "multi" {
		a := modelarchive.New()
		a.SetId(run)
		for _, bits := range memberBits {
			c12apply(work, bits)
			a.ForceIntoArchive(work) // keeps what it is given unless dominated; membership is checked below
		}
		if a.Len() != len(memberBits) {
			panic("c12: archive did not keep the generated members")
		}
		event.WithAttribute(scenario.ModelArchive, *a)
	} else {
		c12apply(work, memberBits[0])
		st := new(modelarchive.ModelCompressor).Compress(work)
		st.SetId(run)
		event.WithAttribute(scenario.CompressedModel, *st)
	}
	p, what := protect(func() { saver.ObserveEvent(*event) })
	if p {
		obs.Panicked = what
	}
	entries, _ := os.ReadDir(dir)
	for _, e := range entries {
		obs.Listing = append(obs.Listing, e.Name())
	}
	sort.Strings(obs.Listing)
	if !p {
		c12parseSummary(&obs, dir, cfg.otype)
	}
	if rep == 0 {
		c12prevFiles = map[string][]byte{}
		for _, e := range entries {
			if b, err := os.ReadFile(filepath.Join(dir, e.Name())); err == nil {
				c12prevFiles[e.Name()] = b
			}
		}
	}
	os.RemoveAll(dir)
	return obs
}

// mutually non-dominated, pairwise different action sets kept by ForceIntoArchive in the order given
func c12members(rng *prng, fx *c12fixture, n, nActions int) [][]bool {
	var res [][]bool
	work := fx.base.DeepClone()
	work.Initialise(model.AsIs)
	a := modelarchive.New()
	for tries := 0; len(res) < n && tries < 10000; tries++ {
		bits := make([]bool, nActions)
		for i := range bits {
			bits[i] = rng.chance(0.4)
		}
		c12apply(work, bits)
		before := a.Len()
		if a.AttemptToArchive(work) == modelarchive.StoredWithNoDominanceDetected && a.Len() == before+1 {
			res = append(res, bits)
		} else if a.Len() != before {
			// something was evicted: start over with what is left being unknown -> rebuild
			a = modelarchive.New()
			res = nil
		}
	}
	if len(res) != n {
		panic("c12members: could not generate the requested number of members")
	}
	return res
}

func c12encodingOf(bits []bool) string {
	b := boolarchive.New(len(bits))
	for i, v := range bits {
		b.SetValue(i, v)
	}
	return b.Encoding()
}

func c12saveCase(cfg c12config, fx *c12fixture, rng *prng) {
	nActions := len(fx.base.ManagementActions())
	run := scenario.VerifC12CloneId(cfg.name, cfg.R, cfg.r)
	nm := cfg.n
	if cfg.fam == "single" {
		nm = 1
	}
	memberBits := c12members(rng, fx, nm, nActions)
	memberEnc := []string{}
	for _, b := range memberBits {
		memberEnc = append(memberEnc, c12encodingOf(b))
	}
	distinct := map[string]c12saveObs{}
	var order []string
	c12prevFiles = nil
	c12saver = nil
	for rep := 0; rep < cfg.reps; rep++ {
		o := c12saveOnce(cfg, fx, memberBits, run, rep)
		key, _ := encjson.Marshal(o)
		if _, seen := distinct[string(key)]; !seen {
			distinct[string(key)] = o
			order = append(order, string(key))
		}
	}
	c12stats["save_configs"]++
	c12stats["save_executions"] += cfg.reps
	c12stats["save_"+cfg.fam+"_"+cfg.otype+"_"+cfg.level]++
	// fresh-model valuation of every encoding that occurs (members, as-is, and whatever the rows claim)
	evalOf := map[string][]c12var{}
	need := append([]string{c12encodingOf(make([]bool, nActions))}, memberEnc...)
	for _, k := range order {
		for _, row := range distinct[k].Rows {
			need = append(need, row.Enc)
		}
	}
	evals := []J{}
	for _, e := range need {
		if _, ok := evalOf[e]; ok {
			continue
		}
		var vals []c12var
		if p, _ := protect(func() { vals = c12freshEval(e, nActions) }); p {
			continue // a row with an undecodable encoding: reported by the oracle below
		}
		evalOf[e] = vals
		evals = append(evals, J{"enc": e, "vars": vals})
	}
	base := J{"fam": cfg.fam, "name": cfg.name, "R": cfg.R, "r": cfg.r, "n": nm, "otype": cfg.otype, "level": cfg.level,
		"reps": cfg.reps, "run": run, "asis": need[0], "members": memberEnc, "evals": evals}
	for _, k := range order {
		o := distinct[k]
		line := J{"kind": "case", "t": "save", "obs": o}
		for kk, v := range base {
			line[kk] = v
		}
		emit(line)
	}
	// ---- implementation-side oracle ----
	fail := func(what string, o c12saveObs) {
		line := J{"kind": "oracle", "what": what, "part": "save", "obs": o, "distinct_observations": len(order)}
		for kk, v := range base {
			line[kk] = v
		}
		emit(line)
	}
	if len(order) > 1 {
		a, b := distinct[order[0]], distinct[order[1]]
		what := "output differs between executions of the same run"
		if strings.Join(a.Listing, "|") != strings.Join(b.Listing, "|") {
			what = "file names differ between executions of the same run: " + strings.Join(a.Listing, ",") + " vs " + strings.Join(b.Listing, ",")
		} else if a.Panicked != b.Panicked {
			what = "writing panics in some executions of the same run and succeeds in others"
		}
		fail(what, b)
	}
	for _, k := range order {
		o := distinct[k]
		if o.Panicked != "" {
			fail("saver panicked: "+o.Panicked, o)
			continue
		}
		if o.Problem != "" {
			fail("summary file unusable: "+o.Problem, o)
			continue
		}
		seen := map[string]bool{}
		for _, row := range o.Rows {
			if c12labelSafe(cfg.name) && seen[row.Label] {
				fail("duplicate row label "+strconv.Quote(row.Label), o)
				break
			}
			seen[row.Label] = true
		}
		wantEnc := append([]string{need[0]}, memberEnc...)
		if len(o.Rows) != len(wantEnc) {
			fail(fmt.Sprintf("summary has %d rows for as-is + %d members", len(o.Rows), len(memberEnc)), o)
			continue
		}
		for i, row := range o.Rows {
			if row.Enc != wantEnc[i] {
				fail(fmt.Sprintf("row %d carries encoding %s, expected %s (as-is first, then the members in archive order)", i, row.Enc, wantEnc[i]), o)
				break
			}
			fresh, ok := evalOf[row.Enc]
			a, _ := encjson.Marshal(fresh)
			b, _ := encjson.Marshal(row.Vars)
			if !ok || !bytes.Equal(a, b) {
				fail(fmt.Sprintf("row %d (%s): values differ from a fresh model decompressed from the row's encoding %s", i, row.Label, row.Enc), o)
				break
			}
		}
	}
}

func runC12(args []string) {
	tier := "quick"
	if len(args) > 0 {
		tier = args[0]
	}
	rng := newPrng(12)

	// ---- part 1 ----
	extra := 15
	if tier == "thorough" {
		extra = 150
	}
	names := c12namePalette(rng, extra)
	type rr struct{ R, r uint64 }
	var combos []rr
	if tier == "thorough" {
		for _, R := range []uint64{1, 2, 3, 12} {
			for r := uint64(1); r <= R; r++ {
				combos = append(combos, rr{R, r})
			}
		}
	} else {
		combos = []rr{{1, 1}, {2, 1}, {2, 2}, {3, 2}, {12, 1}, {12, 11}, {12, 12}}
	}
	for _, name := range names {
		for _, c := range combos {
			for _, n := range []int{0, 1, 2, 11} {
				if n == 11 && !(c.r == 1 || c.r == c.R) && !(tier == "thorough" && c.R == 3) {
					continue
				}
				c12idsCase(name, c.R, c.r, n)
			}
		}
	}
	// runner corner cases: RunNumber 0 keeps the default (1)
	c12idsCase("P", 0, 1, 2)
	// raw keys (not of the saver's form): the functions themselves, including the JSON marshaller's panic
	raws := []string{"", "P", "P As-Is", "P (1/2) As-Is", "Solution", " Solution", "P Solution", "P Solution ", "P Solution (", "P Solution ()", "P Solution ())",
		"P Solution (a)", "PSolution(a)", "P Solution (a) Solution (b) c", "x\nP Solution (1/2)", "P Solution (1/2)\ny Solution (3/4)", "a)\nSolution (", "1/2 3/4", "12/34/56", "/", "1/", "1/1", "(1/1)", "As-Is (1/1)"}
	for _, nme := range names {
		raws = append(raws, nme, nme+" Solution", "Solution ("+nme+")", nme+" Solution (As-Is) "+nme)
	}
	for _, k := range raws {
		o := c12observeKey(k)
		emit(J{"kind": "case", "t": "raw", "key": k, "obs": o})
		c12stats["raw_keys"]++
	}

	// ---- part 2 ----
	wd, _ := os.Getwd()
	if err := os.Chdir(filepath.Join(wd, "internal/pkg/model/models/catchment")); err != nil {
		panic(err)
	}
	tmp, err := os.MkdirTemp("", "verif-c12-")
	if err != nil {
		panic(err)
	}
	defer os.RemoveAll(tmp)
	fx := &c12fixture{base: c12newModel()}
	reps := 20
	saveNames := []string{"P", "Laidley Creek v2"}
	Rs := []uint64{1, 3}
	ns := []int{0, 1, 2, 11}
	if tier == "thorough" {
		reps = 40
		saveNames = []string{"P", "Laidley Creek v2", "My Solution (draft)", "a/b 3/4", "Scenario 12"}
		Rs = []uint64{1, 2, 3, 12}
		ns = []int{0, 1, 2, 3, 11, 30}
	}
	for ni, name := range saveNames {
		for _, R := range Rs {
			for _, otype := range []string{"CSV", "JSON"} {
				for _, level := range []string{"Summary", "Detail"} {
					if tier != "thorough" && ni > 0 && level == "Detail" {
						continue
					}
					r := R // the last run (r > 1 when R > 1) ...
					if ni%2 == 1 && R > 1 {
						r = 1 + uint64(rng.intn(int(R)))
					}
					for _, n := range ns {
						c12saveCase(c12config{"multi", name, R, r, n, otype, level, reps, tmp}, fx, rng)
					}
					c12saveCase(c12config{"single", name, R, r, 1, otype, level, reps, tmp}, fx, rng)
				}
			}
		}
	}
	os.Chdir(wd)
	emit(J{"kind": "stat", "stats": c12stats})
}

func init() { register("C12", runC12) }
