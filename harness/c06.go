//go:build verif

package main

// C06: multi-objective step rule and return-to-base schedule.
//
// The REAL suppapitnarm.Explorer is driven iteration by iteration (TryRandomChange; CoolDown, as the
// annealers do) with
//   - a scripted model (implements model.Model; its Randomize produces the candidate of the script),
//   - the REAL coolant (suppapitnarm or averaged) behind a recording wrapper, fed by a scripted
//     rand.Source so that the uniform draw is known,
//   - the explorer's own archive, whose random source is scripted as well (return-to-base pick).
// Projected observables come from the explorer's events, its EventAttributes and the read-only
// accessors of harness/overlay/.../verif_c06.go.

import (
	"math"
	mrand "math/rand"
	"os"
	"strconv"
	"strings"

	"github.com/LindsayBradford/crem/internal/pkg/annealing/cooling"
	"github.com/LindsayBradford/crem/internal/pkg/annealing/cooling/coolants/averaged"
	suppcool "github.com/LindsayBradford/crem/internal/pkg/annealing/cooling/coolants/suppapitnarm"
	suppexp "github.com/LindsayBradford/crem/internal/pkg/annealing/explorer/suppapitnarm"
	"github.com/LindsayBradford/crem/internal/pkg/model"
	"github.com/LindsayBradford/crem/internal/pkg/model/action"
	"github.com/LindsayBradford/crem/internal/pkg/model/archive"
	"github.com/LindsayBradford/crem/internal/pkg/model/planningunit"
	"github.com/LindsayBradford/crem/internal/pkg/model/variable"
	"github.com/LindsayBradford/crem/internal/pkg/observer"
	"github.com/LindsayBradford/crem/internal/pkg/parameters"
	"github.com/LindsayBradford/crem/internal/pkg/rand"
	"github.com/LindsayBradford/crem/pkg/errors"
	"github.com/LindsayBradford/crem/pkg/logging/loggers"
	"github.com/LindsayBradford/crem/pkg/name"
)

func init() { register("C06", runC06) }

// ---------- scripted rand.Source ----------

type c06Source struct{ f func() int64 }

func (s *c06Source) Int63() int64 { return s.f() }
func (s *c06Source) Seed(int64)   {}

var _ mrand.Source = new(c06Source)

// ---------- scripted model ----------

type c06Script struct {
	rng      *prng
	candMask uint64
	candVec  []float64
	calls    int
}

type c06Model struct {
	name.NameContainer
	name.IdentifiableContainer
	w        [][]float64 // w[j][i]: contribution of action i to variable j when active
	base     []float64
	acts     []action.ManagementAction
	vars     variable.DecisionVariableMap
	varNames []string
	script   *c06Script
}

var _ model.Model = new(c06Model)

func c06NewModel(script *c06Script, nActs, nVars int, w [][]float64, base []float64) *c06Model {
	m := &c06Model{w: w, base: base, script: script}
	m.SetName("c06ScriptedModel")
	m.vars = make(variable.DecisionVariableMap)
	for j := 0; j < nVars; j++ {
		nm := "V" + strconv.Itoa(j)
		m.varNames = append(m.varNames, nm)
		m.vars[nm] = variable.NewSimpleDecisionVariable(nm)
	}
	for i := 0; i < nActs; i++ {
		a := new(action.SimpleManagementAction).WithPlanningUnit(planningunit.Id(i)).WithType("c06")
		m.acts = append(m.acts, a)
	}
	m.recompute()
	return m
}

func (m *c06Model) recompute() {
	for j, nm := range m.varNames {
		v := m.base[j]
		for i, a := range m.acts {
			if a.IsActive() {
				v += m.w[j][i]
			}
		}
		m.vars[nm].SetValue(v)
	}
}

func (m *c06Model) mask() uint64 {
	var k uint64
	for i, a := range m.acts {
		if a.IsActive() {
			k |= 1 << uint(i)
		}
	}
	return k
}

func (m *c06Model) vec() []float64 {
	r := make([]float64, len(m.varNames))
	for j, nm := range m.varNames { // V0 < V1 < ... : sorted-key order
		r[j] = m.vars[nm].Value()
	}
	return r
}

func (m *c06Model) NameMappedVariables() *variable.DecisionVariableMap  { return &m.vars }
func (m *c06Model) DecisionVariable(n string) variable.DecisionVariable { return m.vars[n] }
func (m *c06Model) OffersDecisionVariable(n string) bool                { _, ok := m.vars[n]; return ok }
func (m *c06Model) DecisionVariableChange(string) float64               { return 0 }
func (m *c06Model) Initialise(model.InitialisationType)                 {}
func (m *c06Model) TearDown()                                           {}
func (m *c06Model) DoRandomChange()                                     {}
func (m *c06Model) UndoChange()                                         {}
func (m *c06Model) TryRandomChange()                                    {}
func (m *c06Model) ChangeIsValid() (bool, *errors.CompositeError)       { return true, nil }
func (m *c06Model) AcceptChange()                                       {}
func (m *c06Model) RevertChange()                                       {}
func (m *c06Model) PlanningUnits() planningunit.Ids                     { return nil }
func (m *c06Model) ManagementActions() []action.ManagementAction        { return m.acts }

func (m *c06Model) ActiveManagementActions() []action.ManagementAction {
	r := make([]action.ManagementAction, 0)
	for _, a := range m.acts {
		if a.IsActive() {
			r = append(r, a)
		}
	}
	return r
}

func (m *c06Model) SetManagementAction(index int, value bool) {
	m.acts[index].SetActivationUnobserved(value)
	m.recompute()
}
func (m *c06Model) SetManagementActionUnobserved(index int, value bool) {
	m.SetManagementAction(index, value)
}

func (m *c06Model) IsEquivalentTo(o model.Model) bool {
	for i, a := range o.ManagementActions() {
		if a.IsActive() != m.acts[i].IsActive() {
			return false
		}
	}
	return true
}

func (m *c06Model) SynchroniseTo(o model.Model) {
	for i, a := range o.ManagementActions() {
		m.acts[i].SetActivationUnobserved(a.IsActive())
	}
	m.recompute()
}

func (m *c06Model) DeepClone() model.Model {
	c := c06NewModel(m.script, len(m.acts), len(m.varNames), m.w, m.base)
	c.SynchroniseTo(m)
	return c
}

// Randomize: the candidate of the script = the present state with 0..3 actions toggled.
func (m *c06Model) Randomize() {
	r := m.script.rng
	t := 1
	switch x := r.intn(100); {
	case x < 8:
		t = 0
	case x < 60:
		t = 1
	case x < 85:
		t = 2
	default:
		t = 3
	}
	for ; t > 0; t-- {
		m.acts[r.intn(len(m.acts))].ToggleActivationUnobserved()
	}
	m.recompute()
	m.script.candMask = m.mask()
	m.script.candVec = m.vec()
	m.script.calls++
}

// ---------- recording wrapper around the real coolant ----------

type c06Call struct {
	changes []float64
	temp    float64
	result  bool
	prob    float64
}

type c06Coolant struct {
	inner cooling.TemperatureCoolant
	calls []c06Call
}

var _ cooling.TemperatureCoolant = new(c06Coolant)

func (c *c06Coolant) RandomNumberGenerator() *rand.Rand     { return c.inner.RandomNumberGenerator() }
func (c *c06Coolant) SetRandomNumberGenerator(g *rand.Rand) { c.inner.SetRandomNumberGenerator(g) }
func (c *c06Coolant) SetParameters(p parameters.Map) error  { return c.inner.SetParameters(p) }
func (c *c06Coolant) ParameterErrors() error                { return c.inner.ParameterErrors() }
func (c *c06Coolant) SetTemperature(t float64)              { c.inner.SetTemperature(t) }
func (c *c06Coolant) Temperature() float64                  { return c.inner.Temperature() }
func (c *c06Coolant) CoolingFactor() float64                { return c.inner.CoolingFactor() }
func (c *c06Coolant) SetAcceptanceProbability(p float64)    { c.inner.SetAcceptanceProbability(p) }
func (c *c06Coolant) AcceptanceProbability() float64        { return c.inner.AcceptanceProbability() }
func (c *c06Coolant) CoolDown()                             { c.inner.CoolDown() }
func (c *c06Coolant) DeepClone() cooling.TemperatureCoolant {
	return &c06Coolant{inner: c.inner.DeepClone()}
}
func (c *c06Coolant) DecideIfAcceptable(changes []float64) bool {
	t := c.inner.Temperature()
	r := c.inner.DecideIfAcceptable(changes)
	c.calls = append(c.calls, c06Call{append([]float64{}, changes...), t, r, c.inner.AcceptanceProbability()})
	return r
}

// ---------- event recorder ----------

type c06Recorder struct {
	ex            *suppexp.Explorer
	verdict       string
	desirable     bool
	haveVerdict   bool
	decision      int // 0 desirable, 1 undesirable accepted, 2 reverted, -1 none
	forced        bool
	forcedResult  string
	returned      bool
	baseEncoding  string
	countdowns    []uint64
	curAfterMove  uint64 // current model's action mask when the acceptance event was sent
	archAfterMove []uint64
}

func (r *c06Recorder) reset() {
	*r = c06Recorder{ex: r.ex, decision: -1}
}

func (r *c06Recorder) ObserveEvent(e observer.Event) {
	if e.EventType != observer.Explorer {
		return
	}
	if e.HasAttribute("ArchiveStorageResult") && e.HasAttribute("ChangeDesirable") {
		r.verdict = e.Attribute("ArchiveStorageResult").(string)
		r.desirable = e.Attribute("ChangeDesirable").(bool)
		r.haveVerdict = true
	}
	if e.HasAttribute("IterationsUntilReturnToBase") {
		r.countdowns = append(r.countdowns, e.Attribute("IterationsUntilReturnToBase").(uint64))
	}
	switch e.Note() {
	case "Accepting Desirable Change":
		r.decision = 0
		r.snapshot()
	case "Accepting Undesirable Change":
		r.decision = 1 // sent before the force + synchronisation; snapshot at "Forcing Model into Archive"
	case "Reverting Undesirable Change":
		r.decision = 2
		r.snapshot()
	case "Forcing Model into Archive":
		r.forced = true
		r.forcedResult = e.Attribute("ArchiveStorageResult").(string)
		r.snapshot()
	case "Returning to Base":
		r.returned = true
		r.baseEncoding = e.Attribute("New Base Model Encoding").(string)
	}
}

func (r *c06Recorder) snapshot() {
	r.curAfterMove = r.ex.Model().(*c06Model).mask()
	r.archAfterMove = c06ArchiveMasks(r.ex.VerifC06Archive())
}

func c06ArchiveMasks(a *archive.NonDominanceModelArchive) []uint64 {
	r := make([]uint64, 0)
	for _, e := range a.Archive() {
		r = append(r, c06MaskOfEncoding(e.Encoding()))
	}
	return r
}

func c06MaskOfEncoding(enc string) uint64 {
	if strings.Contains(enc, ":") {
		panic("c06: more than 64 actions are not used by this harness")
	}
	if enc == "" {
		return 0
	}
	v, err := strconv.ParseUint(enc, 16, 64)
	if err != nil {
		panic(err)
	}
	return v
}

var c06VerdictIndex = map[string]int{
	archive.StoredReplacingDominatedEntries.String():          0,
	archive.StoredWithNoDominanceDetected.String():            1,
	archive.RejectedWithStoredEntryDominanceDetected.String(): 2,
	archive.RejectedWithDuplicateEntryDetected.String():       3,
	archive.StoredForcingDominatingStateRemoval.String():      5,
}

// exact export of a float64 including the non-finite values and the sign of zero
func c06fl(f float64) interface{} {
	switch {
	case math.IsNaN(f):
		return "nan"
	case math.IsInf(f, 1):
		return "inf"
	case math.IsInf(f, -1):
		return "-inf"
	case f == 0 && math.Signbit(f):
		return "-0"
	}
	return flOf(f)
}
func c06fls(fs []float64) []interface{} {
	r := make([]interface{}, len(fs))
	for i, f := range fs {
		r[i] = c06fl(f)
	}
	return r
}

// ---------- configuration of one run ----------

type c06Cfg struct {
	init, min     int64
	factor        float64
	kind          string // "Product" (suppapitnarm coolant) | "Mean" (averaged coolant)
	t0, cooling   float64
	checkND       bool
	nActs, nVars  int
	iterations    int
	full          bool // true: per-iteration observables (rcase); false: returns only (scase)
	boundaryDraws bool
	cold          bool // temperature so low that exp(-|d|/T) underflows to 0 for every non-zero change
	class         string
}

var c06stats = map[string]int{}

func c06paretoLt(x, y []float64) bool {
	allLe, someLt := true, false
	for i := range x {
		if !(x[i] <= y[i]) {
			allLe = false
		}
		if x[i] < y[i] {
			someLt = true
		}
	}
	return allLe && someLt
}

func c06contains(xs []uint64, x uint64) bool {
	for _, y := range xs {
		if y == x {
			return true
		}
	}
	return false
}

func c06Run(rng *prng, cfg c06Cfg) {
	script := &c06Script{rng: rng}
	w := make([][]float64, cfg.nVars)
	base := make([]float64, cfg.nVars)
	grid := []float64{-2, -1, -1, -0.5, 0, 0, 0.5, 1, 1, 2}
	for j := range w {
		w[j] = make([]float64, cfg.nActs)
		for i := range w[j] {
			w[j][i] = grid[rng.intn(len(grid))]
		}
		base[j] = float64(rng.intn(7)) + 10
	}
	m := c06NewModel(script, cfg.nActs, cfg.nVars, w, base)

	var inner cooling.TemperatureCoolant
	if cfg.kind == "Mean" {
		inner = averaged.NewCoolant()
	} else {
		inner = suppcool.NewCoolant()
	}
	cool := &c06Coolant{inner: inner}
	ex := suppexp.New()
	ex.SetLogHandler(new(loggers.NullLogger))
	ex.SetCoolant(cool)
	ex.WithModel(m)
	rec := &c06Recorder{ex: ex, decision: -1}
	ex.AddObserver(rec)
	perr := ex.SetParameters(parameters.Map{
		suppexp.InitialReturnToBaseStep:      cfg.init,
		suppexp.MinimumReturnToBaseRate:      cfg.min,
		suppexp.ReturnToBaseAdjustmentFactor: cfg.factor,
		suppexp.CheckNonDominance:            cfg.checkND,
		suppcool.StartingTemperature:         cfg.t0,
		suppcool.CoolingFactor:               cfg.cooling,
	})
	if perr != nil {
		panic("c06: parameters rejected: " + perr.Error())
	}
	ex.Initialise()

	// scripted random sources (Initialise installed time-seeded ones)
	var drawn, picked bool
	var draw int64
	var pick int
	cool.inner.SetRandomNumberGenerator(rand.New(&c06Source{func() int64 {
		k := int64(rng.next() >> 11) // 53 bits
		if cfg.cold && rng.chance(0.5) {
			k = 0 // p = 0 (exp underflows) against u = 0: the strictness of p > u decides
		} else if cfg.boundaryDraws {
			switch rng.intn(6) {
			case 0:
				k = 0
			case 1:
				k = (1 << 53) - 1
			}
		}
		drawn, draw = true, k
		return k
	}}))
	arch := ex.VerifC06Archive()
	arch.SetRandomNumberGenerator(rand.New(&c06Source{func() int64 {
		n := arch.Len()
		i := 0
		if n > 0 {
			i = rng.intn(n)
		}
		picked, pick = true, i
		return int64(i) << 32
	}}))

	until0, _ := ex.VerifC06Countdown()
	c0 := m.mask()
	c0vec := m.vec()
	c06stats["runs_"+cfg.class]++

	common := J{"kind": "case", "init": cfg.init, "min": cfg.min, "factor": c06fl(cfg.factor),
		"cooling": c06fl(cfg.cooling), "ck": cfg.kind, "nd": cfg.checkND, "n": cfg.nActs,
		"until0": until0, "class": cfg.class}

	inputs := make([]J, 0)
	obsl := make([]J, 0)
	returns := make([][]interface{}, 0)
	panicked := false
	panicWhat := ""

	// oracle state for the schedule clauses
	var prevCountdown = until0
	var prevStep = float64(cfg.init)
	var lastReturn uint64
	var returnsSeen int
	if until0 != uint64(cfg.init) && c06suppressInit {
		c06stats["observed_first_countdown_differs_from_large_init"]++
	}
	if until0 != uint64(cfg.init) && !c06suppressInit {
		c06oracle(cfg, 0, "the first countdown is not the configured initial number of iterations", J{"until0": until0})
	}

	for it := 1; it <= cfg.iterations; it++ {
		cur := ex.Model().(*c06Model)
		curBefore := cur.mask()
		vecBefore := cur.vec()
		archBefore := c06ArchiveMasks(arch)
		archVecsBefore := make([][]float64, 0)
		for _, e := range arch.Archive() {
			archVecsBefore = append(archVecsBefore, append([]float64{}, e.Variables...))
		}
		tempBefore := cool.Temperature()
		rec.reset()
		cool.calls = cool.calls[:0]
		drawn, picked, draw, pick = false, false, 0, 0
		callsBefore := script.calls

		p, what := protect(ex.TryRandomChange)
		if p {
			panicked, panicWhat = true, what
			// the inputs the failed iteration consumed
			in := J{"a": script.candMask, "v": c06fls(script.candVec), "es": []interface{}{}, "k": draw, "pick": pick}
			if len(cool.calls) == 1 {
				in["es"] = c06fls(c06es(cool.calls[0].changes, cool.calls[0].temp))
			}
			inputs = append(inputs, in)
			c06stats["panics"]++
			break
		}
		ex.CoolDown()
		if script.calls != callsBefore+1 {
			panic("c06: the explorer did not randomise the potential model exactly once")
		}
		cand, candVec := script.candMask, script.candVec

		es := []float64{}
		if len(cool.calls) == 1 {
			es = c06es(cool.calls[0].changes, cool.calls[0].temp)
		} else if len(cool.calls) > 1 {
			panic("c06: coolant asked more than once in one iteration")
		}
		untilNow, stepNow := ex.VerifC06Countdown()
		desirableFlag, _, storage := ex.VerifC06Flags()
		finishedAttrs := ex.EventAttributes(observer.FinishedIteration)
		lastAttr := finishedAttrs.Value(suppexp.LastReturnedToBase).(uint64)
		curAfter := ex.Model().(*c06Model).mask()
		archAfter := c06ArchiveMasks(arch)

		verdictIdx, known := c06VerdictIndex[rec.verdict]
		if !rec.haveVerdict || !known {
			verdictIdx = 4
		}
		c06stats["verdict_"+strconv.Itoa(verdictIdx)]++
		c06stats["decision_"+strconv.Itoa(rec.decision)]++
		if rec.returned {
			c06stats["returns"]++
		}

		if cfg.full {
			// the model's pick input is the position of the observed base in the archive: the property
			// says the base is a member, not how it is selected
			pickIn := 0
			if rec.returned {
				pickIn = len(archAfter) // not a member: the model will select something else
				for i, mk := range archAfter {
					if mk == c06MaskOfEncoding(rec.baseEncoding) {
						pickIn = i
						break
					}
				}
				if picked && pickIn != pick {
					c06stats["pick_differs_from_scripted_index"]++
				}
			}
			in := J{"a": cand, "v": c06fls(candVec), "es": c06fls(es), "k": draw, "pick": pickIn}
			inputs = append(inputs, in)
			o := J{"verdict": verdictIdx, "decision": rec.decision, "cur": curAfter, "arch": archAfter,
				"until": untilNow, "stepf": c06fl(stepNow), "last": lastAttr,
				"accprob": c06fl(cool.AcceptanceProbability()), "temp": c06fl(cool.Temperature()),
				"desirable": desirableFlag, "storage": int(storage)}
			if rec.returned {
				o["base"] = c06MaskOfEncoding(rec.baseEncoding)
			}
			obsl = append(obsl, o)
		}
		if rec.returned {
			returns = append(returns, []interface{}{lastAttr, untilNow, c06fl(stepNow)})
		}

		// ---- implementation-side oracle: the property evaluated on what the real code did ----
		dominatedBefore := false
		for _, v := range archVecsBefore {
			if c06paretoLt(v, candVec) {
				dominatedBefore = true
			}
		}
		// "already holds its action set" (a held action set that is also dominated cannot occur in a mutually
		// non-dominated solution set with values a function of the action set: C05/C01, not judged here)
		held := c06contains(archBefore, cand) && !dominatedBefore
		stored := strings.HasPrefix(rec.verdict, "Stored")
		moved := rec.decision == 0 || rec.decision == 1
		ctx := J{"cand": cand, "candVec": candVec, "cur": curBefore, "curVec": vecBefore, "archive": archBefore,
			"verdict": rec.verdict, "decision": rec.decision}
		if rec.decision < 0 || !rec.haveVerdict {
			c06oracle(cfg, it, "no acceptance decision was notified", ctx)
		} else if stored || held {
			if !(moved && rec.curAfterMove == cand) {
				c06oracle(cfg, it, "candidate stored or already held but the annealer did not move to it", ctx)
			}
			if rec.decision == 0 && cool.AcceptanceProbability() != 1 {
				c06oracle(cfg, it, "certain move reported with acceptance probability != 1", ctx)
			}
			if stored && !c06contains(rec.archAfterMove, cand) {
				c06oracle(cfg, it, "candidate reported stored but absent from the solution set", ctx)
			}
			if len(cool.calls) != 0 {
				c06oracle(cfg, it, "coolant consulted for a candidate that is stored or already held", ctx)
			}
		} else {
			if !dominatedBefore {
				c06oracle(cfg, it, "candidate neither stored, held nor dominated by the solution set", ctx)
			}
			// acceptance probability from the definition: product / mean of exp(-|change_i|/T)
			var pr float64
			if cfg.kind == "Mean" {
				for j := range candVec {
					pr += math.Exp(-math.Abs(candVec[j]-vecBefore[j]) / tempBefore)
				}
				pr /= float64(len(candVec))
			} else {
				pr = 1
				for j := range candVec {
					pr *= math.Exp(-math.Abs(candVec[j]-vecBefore[j]) / tempBefore)
				}
			}
			u := float64(draw) / float64((int64(1)<<53)-1)
			ctx["p"], ctx["u"], ctx["draw"] = pr, u, draw
			if !drawn {
				c06oracle(cfg, it, "no uniform draw for a candidate that is neither stored nor held", ctx)
			} else if moved != (pr > u) {
				c06oracle(cfg, it, "moved is not equivalent to acceptance probability > uniform draw", ctx)
			}
			if pr < 0 || pr > 1 || math.IsNaN(pr) {
				if tempBefore > 0 {
					c06oracle(cfg, it, "acceptance probability outside [0,1]", ctx)
				}
			}
			if moved {
				if rec.curAfterMove != cand || !rec.forced || !c06contains(rec.archAfterMove, cand) {
					c06oracle(cfg, it, "undesirable candidate accepted but not forced into the solution set / not moved to", ctx)
				}
				c06stats["undesirable_accepted"]++
			} else {
				if rec.curAfterMove != curBefore {
					c06oracle(cfg, it, "no move but the current solution changed", ctx)
				}
				c06stats["undesirable_reverted"]++
			}
			if pr == u {
				c06stats["p_equals_u_"+cfg.kind]++
			}
		}
		// schedule
		if rec.returned {
			returnsSeen++
			sctx := J{"iteration": it, "lastReturned": lastAttr, "countdown": untilNow, "previousCountdown": prevCountdown,
				"returnNumber": returnsSeen}
			if uint64(it) != lastReturn+prevCountdown || lastAttr != uint64(it) {
				c06oracle(cfg, it, "return-to-base not exactly one countdown after the previous one", sctx)
			}
			if len(archAfter) == 0 || !c06contains(archAfter, c06MaskOfEncoding(rec.baseEncoding)) {
				c06oracle(cfg, it, "return-to-base with an empty solution set or to a non-member", sctx)
			}
			if curAfter != c06MaskOfEncoding(rec.baseEncoding) {
				c06oracle(cfg, it, "after return-to-base the current solution is not the selected member", sctx)
			}
			want := math.Max(float64(cfg.min), prevStep*cfg.factor)
			if stepNow != want || untilNow != uint64(want) {
				c06oracle(cfg, it, "next interval is not floor(max(minimum, step*factor))", sctx)
			}
			if untilNow < uint64(cfg.min) {
				c06oracle(cfg, it, "interval below the configured minimum", sctx)
			}
			if (returnsSeen > 1 || cfg.init >= cfg.min) && untilNow > prevCountdown {
				c06oracle(cfg, it, "interval grew", sctx)
			}
			lastReturn, prevCountdown, prevStep = uint64(it), untilNow, stepNow
		} else {
			if uint64(it) == lastReturn+prevCountdown {
				c06oracle(cfg, it, "return-to-base due but did not happen", J{"iteration": it})
			}
			if curAfter != rec.curAfterMove {
				c06oracle(cfg, it, "current solution changed without a move or a return", ctx)
			}
		}
	}
	_ = c0vec
	if cfg.full {
		common["t"] = "r"
		common["c0"] = J{"a": c0, "v": c06fls(c0vec)}
		common["t0"] = c06fl(cfg.t0)
		common["inputs"] = inputs
		common["obs"] = obsl
		common["panicked"] = panicked
		common["panic"] = panicWhat
	} else {
		common["t"] = "s"
		common["iterations"] = cfg.iterations
		common["returns"] = returns
		if panicked {
			panic("c06: schedule-only run panicked: " + panicWhat)
		}
	}
	emit(common)
}

func c06es(changes []float64, temp float64) []float64 {
	es := make([]float64, len(changes))
	for i, d := range changes {
		es[i] = math.Exp(-math.Abs(d) / temp)
	}
	return es
}

func c06oracle(cfg c06Cfg, it int, what string, ctx J) {
	o := J{"kind": "oracle", "what": what, "iteration": it, "init": cfg.init, "min": cfg.min, "factor": cfg.factor,
		"coolant": cfg.kind, "t0": cfg.t0, "cooling": cfg.cooling, "class": cfg.class}
	for k, v := range ctx {
		o[k] = v
	}
	emit(o)
}

// the schedule an explorer starts with is the one its own validated parameters describe, whichever keys the user's map
// spelled out and whichever it left to their defaults: after SetParameters + Initialise the first return-to-base is due
// after InitialReturnToBaseStep iterations (the value the parameter container holds)
func c06DefaultSchedule() {
	for _, kind := range []string{"Product", "Mean"} {
		for variant, prm := range []parameters.Map{
			{suppcool.StartingTemperature: 10.0, suppcool.CoolingFactor: 0.9}, // every return-to-base key left out
			{suppcool.StartingTemperature: 10.0, suppexp.MinimumReturnToBaseRate: int64(5)},
			{suppexp.InitialReturnToBaseStep: int64(12), suppexp.ReturnToBaseAdjustmentFactor: 0.5},
			{},
		} {
			var inner cooling.TemperatureCoolant = suppcool.NewCoolant()
			if kind == "Mean" {
				inner = averaged.NewCoolant()
			}
			ex := suppexp.New()
			ex.SetLogHandler(new(loggers.NullLogger))
			ex.SetCoolant(inner)
			if err := ex.SetParameters(prm); err != nil {
				continue
			}
			// what a run works on: a clone of the configured explorer (Runner.run), initialised
			cl := ex.DeepClone().(*suppexp.Explorer)
			var countdown uint64
			var step float64
			if panicked, _ := protect(func() { cl.Initialise(); countdown, step = cl.VerifC06Countdown() }); panicked {
				continue
			}
			want := cl.VerifC18Params().GetInt64(suppexp.InitialReturnToBaseStep)
			if int64(countdown) != want || step != float64(want) {
				emit(J{"kind": "oracle", "what": "after SetParameters + Initialise the return-to-base schedule does not start from the explorer's own InitialReturnToBaseStep parameter (a key left to its default must mean the default)",
					"coolant": kind, "parameter_map_variant": variant, "InitialReturnToBaseStep_parameter": want, "iterations_until_first_return_to_base": countdown, "return_to_base_step": step})
			}
			c06stats["default_schedule_probes"]++
		}
	}
}

func runC06(args []string) {
	tier := "quick"
	if len(args) > 0 {
		tier = args[0]
	}
	if v := os.Getenv("VERIF_TIER"); v != "" && len(args) == 0 {
		tier = v
	}
	thorough := tier == "thorough"
	rng := newPrng(0xC06)
	c06DefaultSchedule()

	inits := []int64{1, 2, 3, 7, 20000}
	mins := []int64{1, 2, 10}
	factors := []float64{0, 0.5, 0.95, 1}
	kinds := []string{"Product", "Mean"}
	temps := []float64{0.5, 1, 3, 50}
	coolings := []float64{1, 0.99, 0.9}

	// (1) full step-rule runs over the small-init part of the grid, both coolants
	reps := 1
	iters := 25
	if thorough {
		reps, iters = 12, 120
	}
	for rep := 0; rep < reps; rep++ {
		for _, in := range inits[:4] {
			for _, mn := range mins {
				for _, f := range factors {
					for _, k := range kinds {
						cfg := c06Cfg{init: in, min: mn, factor: f, kind: k,
							t0: temps[rng.intn(len(temps))], cooling: coolings[rng.intn(len(coolings))],
							nActs: 3 + rng.intn(6), nVars: 1 + rng.intn(3), iterations: iters, full: true,
							boundaryDraws: rng.chance(0.5), checkND: rng.chance(0.15), class: "grid_full"}
						if rng.chance(0.25) {
							cfg.cold, cfg.t0, cfg.class = true, 5e-4, "grid_full_cold"
						}
						c06Run(rng, cfg)
					}
				}
			}
		}
	}
	// (2) random parameters off the grid
	nrand := 24
	if thorough {
		nrand = 600
	}
	for r := 0; r < nrand; r++ {
		f := rng.float()
		switch rng.intn(5) {
		case 0:
			f = math.Nextafter(1, 0)
		case 1:
			f = math.SmallestNonzeroFloat64
		}
		t0 := temps[rng.intn(len(temps))]
		cold := rng.chance(0.2)
		class := "random_full"
		if cold {
			t0, class = 5e-4, "random_full_cold"
		}
		c06Run(rng, c06Cfg{init: int64(1 + rng.intn(40)), min: int64(1 + rng.intn(15)), factor: f,
			kind: kinds[rng.intn(2)], t0: t0, cooling: coolings[rng.intn(len(coolings))],
			nActs: 2 + rng.intn(9), nVars: 1 + rng.intn(3), iterations: iters + rng.intn(iters), full: true,
			boundaryDraws: rng.chance(0.5), checkND: rng.chance(0.15), cold: cold, class: class})
	}
	// (3) schedule-only runs over the whole grid, both coolants
	for _, in := range inits {
		for _, mn := range mins {
			for _, f := range factors {
				for ki, k := range kinds {
					n := 800
					if thorough {
						n = 5000
					}
					if in == 20000 {
						n = 21000
						if (mn == 10 && f == 0.95 && ki == 0) || thorough {
							n = 60000 // default parameters: returns at 20000, 39000, 57050
						}
						if !thorough && ki == 1 && !(mn == 10 && f == 0.95) {
							continue
						}
					}
					c06Run(rng, c06Cfg{init: in, min: mn, factor: f, kind: k, t0: 1, cooling: 1,
						nActs: 4, nVars: 2, iterations: n, full: false, class: "grid_schedule"})
				}
			}
		}
	}
	// (4) large parameters: only the conversion float64(int64) -> uint64 at Initialise is observable
	for _, in := range []int64{1 << 53, (1 << 53) + 1, (1 << 62) + 12345, math.MaxInt64, 1 << 31, (1 << 53) - 1} {
		c06RunNoOracleOnInit(rng, in)
	}
	emit(J{"kind": "stat", "stats": c06stats})
}

// Large initial steps: float64(init) may differ from init (beyond 2^53); recorded for the model
// comparison and as a statistic, not as a violation (see C06_schedule_large_init_refuted).
func c06RunNoOracleOnInit(rng *prng, in int64) {
	cfg := c06Cfg{init: in, min: 10, factor: 0.95, kind: "Product", t0: 1, cooling: 1, nActs: 4, nVars: 2,
		iterations: 5, full: false, class: "large_init"}
	if uint64(float64(in)) != uint64(in) {
		c06stats["large_init_inexact"]++
		cfg.class = "large_init_inexact"
	}
	c06RunQuiet(rng, cfg)
}

func c06RunQuiet(rng *prng, cfg c06Cfg) {
	saved := c06suppressInit
	c06suppressInit = true
	c06Run(rng, cfg)
	c06suppressInit = saved
}

var c06suppressInit bool
