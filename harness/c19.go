//go:build verif

package main

// C19: accepted configurations run to completion; rejected ones give errors, not panics.
//
// A grammar-based generator builds TOML documents together with their ABSTRACT reading (for every known key
// absent / wrong type / value; unknown keys; both parameter maps) -- the input of the Coq model Config.v.  Every
// document goes through the REAL pipeline  RetrieveConfigFromString -> ConfigInterpreter.Interpret -> Scenario.Run()
// in a CHILD process (sub-command C19child; wired like cmd/cremexplorer/bootstrap), because a panic in a run
// goroutine kills the process: exit status + stderr are the observation, a 20 s time limit is the non-termination
// observation.  Limit-bearing documents are executed several times (the explorers seed themselves from the clock):
// the SET of outcomes is the observation.  Each child gets a private working directory under os.TempDir()
// (outside /repo and /verif) holding a symlink to the catchment test fixture; everything is removed afterwards.
//
// Beyond single keys the generator produces documents whose parts REFER to each other or to the file system:
//   - CSV data sources written into the child's working directory whose three tables disagree (a gully / an action row in a
//     subcatchment the Subcatchments table does not list, duplicate rows, missing and non-numeric cells, empty tables): their
//     SHAPE is exported (read back with encoding/csv, not with crem's loader) and the Coq model decides acceptance from it;
//   - paths that collide: CpuProfilePath = / above / inside OutputPath, = the data source's meta-file or one of its tables,
//     an existing directory; OutputPath "" (the saver's default), = the data source's directory;
//   - scenario names made of the texts the saver derives ids, labels and file names from ("Solution (", "(n/m)", "As-Is",
//     separators, %, line breaks, over-long), with several runs: the summary files must be one per run;
//   - floats at the edge of what the formatters and math.RoundFloat take (1e303, 1e306).
//
// Implementation-side oracle (the Search): a document must end as  load error | interpreter error | completed with
// exactly one summary file per run.  Everything else (a panic anywhere, Run() returning an error, no end, a missing
// result) is printed as {"kind":"oracle", "class": <the one hazard the generator put into the document, or "none">, ...}.

import (
	"bytes"
	"encoding/csv"
	"encoding/json"
	"fmt"
	"os"
	"os/exec"
	"path/filepath"
	"regexp"
	"sort"
	"strconv"
	"strings"
	"sync"
	"time"

	appData "github.com/LindsayBradford/crem/cmd/cremexplorer/config/data"
	appInterpreter "github.com/LindsayBradford/crem/cmd/cremexplorer/config/interpreter"
	"github.com/LindsayBradford/crem/internal/pkg/scenario"
)

func init() {
	register("C19", runC19)
	register("C19child", runC19child)
}

// ======================================================================================
// child process: ONE configuration through the real loader, interpreter and runner, wired the way
// cmd/cremexplorer/bootstrap.RunScenarioFromConfigFile wires them.  The observation is the exit status:
//
//	0   Scenario.Run() returned nil; a line  C19RESULT {"files":[...]}  lists the output directory
//	10  RetrieveConfigFromString returned an error          (stderr: C19LOADERR <text>)
//	11  ConfigInterpreter.Errors() != nil                    (stderr: C19INTERPRETERR <text>)
//	12  Scenario.Run() returned an error
//	20 / 21  the loader / the interpreter PANICKED (recovered here only to tell the phase)
//	2   Go's own exit status for a panic nobody recovered (a run goroutine) -- stderr carries the message
//
// ======================================================================================
func runC19child(args []string) {
	tomlPath, cwd, outDir := args[0], args[1], args[2]
	text, err := os.ReadFile(tomlPath)
	if err != nil {
		fmt.Fprintln(os.Stderr, "C19child: cannot read", tomlPath, err)
		os.Exit(30)
	}
	if err := os.Chdir(cwd); err != nil {
		fmt.Fprintln(os.Stderr, "C19child: cannot chdir", cwd, err)
		os.Exit(30)
	}
	var conf *appData.Config
	var loadErr error
	if p, what := protect(func() { conf, loadErr = appData.RetrieveConfigFromString(string(text)) }); p {
		fmt.Fprintln(os.Stderr, "C19LOADPANIC", what)
		os.Exit(20)
	}
	if loadErr != nil {
		fmt.Fprintln(os.Stderr, "C19LOADERR", loadErr)
		os.Exit(10)
	}
	var sc scenario.Scenario
	var interpErr error
	if p, what := protect(func() {
		i := appInterpreter.NewInterpreter()
		sc = i.Interpret(conf).Scenario()
		lh := sc.LogHandler()
		lh.Info("Running [verif] with scenario [" + conf.MetaData.FilePath + "]")
		interpErr = i.Errors()
	}); p {
		fmt.Fprintln(os.Stderr, "C19INTERPRETPANIC", what)
		os.Exit(21)
	}
	if interpErr != nil {
		fmt.Fprintln(os.Stderr, "C19INTERPRETERR", interpErr)
		os.Exit(11)
	}
	if runErr := sc.Run(); runErr != nil {
		fmt.Fprintln(os.Stderr, "C19RUNERR", runErr)
		os.Exit(12)
	}
	os.Stdout.Sync()
	files := []string{}
	if fs, err := os.ReadDir(outDir); err == nil {
		for _, f := range fs {
			files = append(files, f.Name())
		}
	}
	sort.Strings(files)
	b, _ := json.Marshal(J{"files": files})
	fmt.Printf("\nC19RESULT %s\n", b)
	os.Exit(0)
}

// ======================================================================================
// documents
// ======================================================================================

// a scalar key: absent / wrong type / value.  Raw is the TOML right-hand side that is written.
type c19Field struct {
	State string      `json:"state"` // absent | wrong | value
	V     interface{} `json:"v,omitempty"`
	Raw   string      `json:"-"`
}

func c19Absent() c19Field              { return c19Field{State: "absent"} }
func c19Wrong(raw string) c19Field     { return c19Field{State: "wrong", Raw: raw} }
func c19Str(s string) c19Field         { return c19Field{State: "value", V: s, Raw: strconv.Quote(s)} }
func c19Int(n int64) c19Field          { return c19Field{State: "value", V: n, Raw: strconv.FormatInt(n, 10)} }
func c19Bool(b bool) c19Field          { return c19Field{State: "value", V: b, Raw: strconv.FormatBool(b)} }
func (f c19Field) present() bool       { return f.State != "absent" }
func (f c19Field) str() (string, bool) { s, ok := f.V.(string); return s, ok && f.State == "value" }

type c19Param struct {
	K   string
	V   interface{} // int64, float64, string, bool, []interface{} (array), time marker "datetime"
	Raw string
}

func c19FloatRaw(f float64) string {
	s := strconv.FormatFloat(f, 'f', -1, 64)
	if !strings.Contains(s, ".") {
		s += ".0"
	}
	return s
}
func c19PF(k string, f float64) c19Param { return c19Param{k, f, c19FloatRaw(f)} }
func c19PI(k string, n int64) c19Param   { return c19Param{k, n, strconv.FormatInt(n, 10)} }
func c19PS(k, s string) c19Param         { return c19Param{k, s, strconv.Quote(s)} }
func c19PB(k string, b bool) c19Param    { return c19Param{k, b, strconv.FormatBool(b)} }

type c19Doc struct {
	Id         int
	Note       []string // the perturbations applied
	Hazard     string   // the one hazard class put into the document ("none" if none)
	SyntaxOk   bool
	Unknown    []string // unknown keys: "Scenario.Bogus", "[Bogus]" ...
	MetaBad    bool     // MetaData.FilePath = 5 (a type error at a key outside the abstract record)
	MetaOk     bool     // MetaData.FilePath = "x" (known key, overwritten by the loader)
	UserDetail string   // "", "table", "scalar"

	Name, RunNumber, MaxConcurrent, OutputPath, OutputType, OutputLevel, CpuProfile c19Field
	ReportEvery, CheckInvariant, LoggerType, Formatter                              c19Field
	LogDests                                                                        []c19Param // string values; a non-string value = wrong type
	LogDestsState                                                                   string     // absent | value | wrong | scalar
	AnnealerType, EventNotifier, ModelType                                          c19Field
	AnnealerParams, ModelParams                                                     []c19Param
	AnnealerParamsScalar, ModelParamsScalar                                         bool // `Parameters = 3`: ignored by the decoder
	Runs                                                                            int  // how many times the child is executed
}

func (d *c19Doc) render() string {
	if !d.SyntaxOk {
		return "[Scenario\nName = \n"
	}
	var b strings.Builder
	kv := func(k string, f c19Field) {
		if f.present() {
			fmt.Fprintf(&b, "%s = %s\n", k, f.Raw)
		}
	}
	if d.MetaBad {
		b.WriteString("[MetaData]\nFilePath = 5\n")
	} else if d.MetaOk {
		b.WriteString("[MetaData]\nFilePath = \"x\"\n")
	}
	b.WriteString("[Scenario]\n")
	kv("Name", d.Name)
	kv("RunNumber", d.RunNumber)
	kv("MaximumConcurrentRunNumber", d.MaxConcurrent)
	kv("OutputPath", d.OutputPath)
	kv("OutputType", d.OutputType)
	kv("OutputLevel", d.OutputLevel)
	kv("CpuProfilePath", d.CpuProfile)
	for _, u := range d.Unknown {
		if strings.HasPrefix(u, "Scenario.") && !strings.HasPrefix(u, "Scenario.Reporting.") {
			fmt.Fprintf(&b, "%s = 1\n", strings.TrimPrefix(u, "Scenario."))
		}
	}
	if d.UserDetail == "scalar" {
		b.WriteString("UserDetail = 3\n")
	}
	if d.LogDestsState == "scalar" {
		// (must precede the sub-tables)
	}
	b.WriteString("[Scenario.Reporting]\n")
	kv("ReportEveryNumberOfIterations", d.ReportEvery)
	kv("CheckingLoopInvariant", d.CheckInvariant)
	kv("Type", d.LoggerType)
	kv("Formatter", d.Formatter)
	for _, u := range d.Unknown {
		if strings.HasPrefix(u, "Scenario.Reporting.") {
			fmt.Fprintf(&b, "%s = 1\n", strings.TrimPrefix(u, "Scenario.Reporting."))
		}
	}
	switch d.LogDestsState {
	case "scalar":
		b.WriteString("LogLevelDestinations = \"x\"\n")
	case "value", "wrong":
		b.WriteString("[Scenario.Reporting.LogLevelDestinations]\n")
		for _, p := range d.LogDests {
			fmt.Fprintf(&b, "%s = %s\n", p.K, p.Raw)
		}
	}
	if d.UserDetail == "table" {
		b.WriteString("[Scenario.UserDetail]\nAuthor = \"verif\"\nRevision = 3\n")
	}
	b.WriteString("[Annealer]\n")
	kv("Type", d.AnnealerType)
	kv("EventNotifier", d.EventNotifier)
	for _, u := range d.Unknown {
		if strings.HasPrefix(u, "Annealer.") {
			fmt.Fprintf(&b, "%s = 1\n", strings.TrimPrefix(u, "Annealer."))
		}
	}
	if d.AnnealerParamsScalar {
		b.WriteString("Parameters = 3\n")
	} else if len(d.AnnealerParams) > 0 {
		b.WriteString("[Annealer.Parameters]\n")
		for _, p := range d.AnnealerParams {
			fmt.Fprintf(&b, "%s = %s\n", p.K, p.Raw)
		}
	}
	b.WriteString("[Model]\n")
	kv("Type", d.ModelType)
	for _, u := range d.Unknown {
		if strings.HasPrefix(u, "Model.") {
			fmt.Fprintf(&b, "%s = 1\n", strings.TrimPrefix(u, "Model."))
		}
	}
	if d.ModelParamsScalar {
		b.WriteString("Parameters = 3\n")
	} else if len(d.ModelParams) > 0 {
		b.WriteString("[Model.Parameters]\n")
		for _, p := range d.ModelParams {
			fmt.Fprintf(&b, "%s = %s\n", p.K, p.Raw)
		}
	}
	for _, u := range d.Unknown {
		if strings.HasPrefix(u, "[") {
			fmt.Fprintf(&b, "%s\nA = 1\n", u)
		}
	}
	return b.String()
}

func c19ValueJ(v interface{}) J {
	switch t := v.(type) {
	case int64:
		return J{"t": "int", "v": strconv.FormatInt(t, 10)}
	case float64:
		return J{"t": "float", "f": flOf(t)}
	case string:
		return J{"t": "string", "s": t}
	case bool:
		return J{"t": "bool", "b": t}
	case []interface{}:
		return J{"t": "array"}
	}
	return J{"t": "other"}
}

func c19ParamsJ(ps []c19Param, scalar bool) []J {
	res := []J{}
	if scalar {
		return res
	}
	for _, p := range ps {
		res = append(res, J{"k": p.K, "v": c19ValueJ(p.V)})
	}
	return res
}

// the abstract reading handed to the model
func (d *c19Doc) abstract() J {
	ld := J{"state": "absent"}
	switch d.LogDestsState {
	case "value":
		l := []J{}
		for _, p := range d.LogDests {
			l = append(l, J{"k": p.K, "v": p.V.(string)})
		}
		ld = J{"state": "value", "v": l}
	case "wrong":
		ld = J{"state": "wrong"}
	}
	return J{
		"decodes": d.SyntaxOk && !d.MetaBad, "unknown": len(d.Unknown) > 0,
		"name": d.Name, "run_number": d.RunNumber, "max_concurrent": d.MaxConcurrent, "output_path": d.OutputPath,
		"output_type": d.OutputType, "output_level": d.OutputLevel, "cpu_profile": d.CpuProfile,
		"report_every": d.ReportEvery, "check_invariant": d.CheckInvariant, "logger_type": d.LoggerType, "formatter": d.Formatter,
		"log_dests": ld, "annealer_type": d.AnnealerType, "event_notifier": d.EventNotifier,
		"annealer_params": c19ParamsJ(d.AnnealerParams, d.AnnealerParamsScalar),
		"model_type":      d.ModelType, "model_params": c19ParamsJ(d.ModelParams, d.ModelParamsScalar),
	}
}

// ======================================================================================
// generator
// ======================================================================================

const (
	c19DataOk        = "data/ValidModel.csv"
	c19DataMalformed = "data/InvalidModel.csv"
	c19DataPlain     = "plain.txt"
	c19DataDir       = "data"
	c19DataMissing   = "nonexistent.csv"
	c19DataDeep      = "deep.csv" // a meta table whose Actions table lacks the columns the model reads (written into the child's cwd)
)

const c19DeepMeta = "TableName, FilePath\nSubcatchments, data/ValidSubcatchments.csv\nGullies, data/ValidGullies.csv\nActions, data/InvalidActions.csv\n"

const c19SubDir = "sub" // an empty directory in every child's working directory

var c19DataClass = map[string]int{c19DataOk: 2, c19DataMalformed: 0, c19DataDeep: 1, c19DataPlain: 0, c19DataDir: 0, c19DataMissing: 0, "": 0}

type c19Gen struct {
	p      *prng
	nextId int
	mid    [6]float64 // a binding, attainable limit per variable
	far    [6]float64 // a limit no state violates
}

func (g *c19Gen) iterations() int64 { return []int64{0, 1, 2, 3, 7, 20, 50}[g.p.intn(7)] }

func c19SetParam(ps []c19Param, np c19Param) []c19Param {
	for i, p := range ps {
		if p.K == np.K {
			ps[i] = np
			return ps
		}
	}
	return append(ps, np)
}

func c19AddOnce(l []string, s string) []string {
	for _, x := range l {
		if x == s {
			return l
		}
	}
	return append(l, s)
}

func c19DelParam(ps []c19Param, k string) []c19Param {
	res := []c19Param{}
	for _, p := range ps {
		if p.K != k {
			res = append(res, p)
		}
	}
	return res
}

// a configuration that loads, interprets and runs: family 0 kirkpatrick, 1 suppapitnarm, 2 averaged;
// model 0 catchment, 1 dumb, 2 modumb
func (g *c19Gen) base(fam, mod int) *c19Doc {
	d := &c19Doc{Id: g.nextId, Hazard: "none", SyntaxOk: true, Runs: 1, LogDestsState: "absent"}
	g.nextId++
	d.Name = c19Str("P")
	d.OutputPath = c19Str("out")
	for _, f := range []*c19Field{&d.RunNumber, &d.MaxConcurrent, &d.OutputType, &d.OutputLevel, &d.CpuProfile, &d.ReportEvery,
		&d.CheckInvariant, &d.LoggerType, &d.Formatter, &d.EventNotifier} {
		*f = c19Absent()
	}
	d.AnnealerType = c19Str([]string{"Kirkpatrick", "Suppapitnarm", "AveragedSuppapitnarm"}[fam])
	d.ModelType = c19Str([]string{"CatchmentModel", "DumbModel", "MultiObjectiveDumbModel"}[mod])
	d.AnnealerParams = []c19Param{c19PI("MaximumIterations", g.iterations())}
	if g.p.chance(0.5) {
		d.AnnealerParams = append(d.AnnealerParams, c19PF("StartingTemperature", []float64{0, 1, 10, 1000.5}[g.p.intn(4)]),
			c19PF("CoolingFactor", []float64{0, 0.5, 0.95, 1}[g.p.intn(4)]))
	}
	if fam == 0 {
		switch mod {
		case 0:
			d.AnnealerParams = append(d.AnnealerParams, c19PS("DecisionVariable", catchVarNames[g.p.intn(6)]))
		case 2:
			d.AnnealerParams = append(d.AnnealerParams, c19PS("DecisionVariable", fmt.Sprintf("Objective_%d", g.p.intn(3))))
		case 1:
			if g.p.chance(0.5) {
				d.AnnealerParams = append(d.AnnealerParams, c19PS("DecisionVariable", "ObjectiveValue"))
			}
		}
		if g.p.chance(0.3) {
			d.AnnealerParams = append(d.AnnealerParams, c19PS("OptimisationDirection", []string{"Minimising", "Maximising"}[g.p.intn(2)]))
		}
	} else if g.p.chance(0.4) {
		d.AnnealerParams = append(d.AnnealerParams, c19PI("InitialReturnToBaseStep", []int64{0, 1, 2, 3, 20000}[g.p.intn(5)]),
			c19PI("MinimumReturnToBaseRate", []int64{0, 1, 10}[g.p.intn(3)]), c19PB("CheckNonDominance", g.p.chance(0.5)))
		// the legal end points of the two return-to-base fractions, with steps small enough that several returns
		// to base happen inside a short run
		if g.p.chance(0.6) {
			d.AnnealerParams = append(d.AnnealerParams,
				c19PF("ReturnToBaseIsolationFraction", []float64{0, 1e-6, 0.9, 1}[g.p.intn(4)]),
				c19PF("ReturnToBaseAdjustmentFactor", []float64{0, 0.5, 0.95, 1}[g.p.intn(4)]))
		}
	}
	if mod == 0 {
		d.ModelParams = []c19Param{c19PS("DataSourcePath", c19DataOk)}
	}
	return d
}

func (g *c19Gen) randomBase() *c19Doc {
	fam, mod := g.p.intn(3), g.p.intn(3)
	return g.base(fam, mod)
}

type c19Pert struct {
	name   string
	hazard string                          // "" = harmless (may be combined freely)
	apply  func(g *c19Gen, d *c19Doc) bool // false = not applicable to this document
}

func c19IsCatchment(d *c19Doc) bool   { s, _ := d.ModelType.str(); return s == "CatchmentModel" }
func c19IsKirkpatrick(d *c19Doc) bool { s, _ := d.AnnealerType.str(); return s == "Kirkpatrick" }

func c19Perturbations() []c19Pert {
	P := []c19Pert{}
	add := func(name, hazard string, f func(g *c19Gen, d *c19Doc) bool) { P = append(P, c19Pert{name, hazard, f}) }
	set := func(name string, pick func(d *c19Doc) *c19Field, f c19Field) {
		add(name, "", func(g *c19Gen, d *c19Doc) bool { *pick(d) = f; return true })
	}
	nameF := func(d *c19Doc) *c19Field { return &d.Name }
	set("Name absent", nameF, c19Absent())
	set("Name empty", nameF, c19Str(""))
	set("Name int", nameF, c19Wrong("5"))
	set("Name with slash", nameF, c19Str("a/b"))
	set("Name with frac", nameF, c19Str("x (1/1)"))
	set("Name with spaces", nameF, c19Str("Two Words"))
	runF := func(d *c19Doc) *c19Field { return &d.RunNumber }
	set("RunNumber 0", runF, c19Int(0))
	set("RunNumber 1", runF, c19Int(1))
	set("RunNumber 2", runF, c19Int(2))
	set("RunNumber 3", runF, c19Int(3))
	set("RunNumber string", runF, c19Wrong("\"2\""))
	set("RunNumber float", runF, c19Wrong("1.5"))
	add("RunNumber -1", "", func(g *c19Gen, d *c19Doc) bool { d.RunNumber = c19Int(-1); return true })
	conF := func(d *c19Doc) *c19Field { return &d.MaxConcurrent }
	set("MaximumConcurrentRunNumber 0", conF, c19Int(0))
	set("MaximumConcurrentRunNumber 1", conF, c19Int(1))
	set("MaximumConcurrentRunNumber 2", conF, c19Int(2))
	set("MaximumConcurrentRunNumber bool", conF, c19Wrong("true"))
	add("MaximumConcurrentRunNumber -1", "", func(g *c19Gen, d *c19Doc) bool { d.MaxConcurrent = c19Int(-1); return true })
	outF := func(d *c19Doc) *c19Field { return &d.OutputPath }
	set("OutputPath absent", outF, c19Absent())
	set("OutputPath nested", outF, c19Str("out/sub/dir"))
	set("OutputPath int", outF, c19Wrong("7"))
	add("OutputPath is a file", "", func(g *c19Gen, d *c19Doc) bool { d.OutputPath = c19Str("notadir"); return true })
	add("OutputPath below a file", "", func(g *c19Gen, d *c19Doc) bool { d.OutputPath = c19Str("notadir/sub"); return true })
	add("OutputPath cannot be created", "output-directory-cannot-be-created", func(g *c19Gen, d *c19Doc) bool {
		d.OutputPath = c19Str("/proc/verif-c19-no-such-directory/out") // does not exist (nothing to object to) and mkdir fails there: nothing is written
		return true
	})
	otF := func(d *c19Doc) *c19Field { return &d.OutputType }
	set("OutputType CSV", otF, c19Str("CSV"))
	set("OutputType JSON", otF, c19Str("JSON"))
	set("OutputType XML", otF, c19Str("XML"))
	set("OutputType lower case", otF, c19Str("csv"))
	set("OutputType int", otF, c19Wrong("3"))
	add("OutputType EXCEL", "", func(g *c19Gen, d *c19Doc) bool { d.OutputType = c19Str("EXCEL"); return true })
	olF := func(d *c19Doc) *c19Field { return &d.OutputLevel }
	set("OutputLevel Summary", olF, c19Str("Summary"))
	set("OutputLevel Detail", olF, c19Str("Detail"))
	set("OutputLevel Huge", olF, c19Str("Huge"))
	cpF := func(d *c19Doc) *c19Field { return &d.CpuProfile }
	set("CpuProfilePath good", cpF, c19Str("prof.pprof"))
	set("CpuProfilePath empty", cpF, c19Str(""))
	set("CpuProfilePath int", cpF, c19Wrong("1"))
	add("CpuProfilePath uncreatable", "", func(g *c19Gen, d *c19Doc) bool { d.CpuProfile = c19Str("missing/prof.pprof"); return true })
	reF := func(d *c19Doc) *c19Field { return &d.ReportEvery }
	set("ReportEvery 0", reF, c19Int(0))
	set("ReportEvery 1", reF, c19Int(1))
	set("ReportEvery 2", reF, c19Int(2))
	set("ReportEvery 7", reF, c19Int(7))
	set("ReportEvery -1", reF, c19Int(-1))
	set("ReportEvery string", reF, c19Wrong("\"often\""))
	ciF := func(d *c19Doc) *c19Field { return &d.CheckInvariant }
	set("CheckingLoopInvariant true", ciF, c19Bool(true))
	set("CheckingLoopInvariant false", ciF, c19Bool(false))
	set("CheckingLoopInvariant string", ciF, c19Wrong("\"yes\""))
	ltF := func(d *c19Doc) *c19Field { return &d.LoggerType }
	set("Logger NativeLibrary", ltF, c19Str("NativeLibrary"))
	set("Logger BareBones", ltF, c19Str("BareBones"))
	set("Logger Bogus", ltF, c19Str("Bogus"))
	foF := func(d *c19Doc) *c19Field { return &d.Formatter }
	set("Formatter RawMessage", foF, c19Str("RawMessage"))
	set("Formatter JSON", foF, c19Str("JSON"))
	set("Formatter NameValuePair", foF, c19Str("NameValuePair"))
	set("Formatter Bogus", foF, c19Str("Bogus"))
	dests := func(name, state string, ps ...c19Param) {
		add(name, "", func(g *c19Gen, d *c19Doc) bool { d.LogDestsState, d.LogDests = state, ps; return true })
	}
	dests("LogLevelDestinations Annealing discarded", "value", c19PS("Annealing", "Discarded"))
	dests("LogLevelDestinations several", "value", c19PS("Annealing", "StandardOutput"), c19PS("Model", "StandardError"), c19PS("Debugging", "Discarded"))
	dests("LogLevelDestinations unknown destination", "value", c19PS("Annealing", "Nowhere"), c19PS("Foo", "Else"), c19PS("Model", "Discarded"))
	dests("LogLevelDestinations int value", "wrong", c19Param{"Annealing", int64(3), "3"})
	dests("LogLevelDestinations scalar", "scalar")
	atF := func(d *c19Doc) *c19Field { return &d.AnnealerType }
	set("Annealer.Type absent", atF, c19Absent())
	set("Annealer.Type Bogus", atF, c19Str("Bogus"))
	set("Annealer.Type empty", atF, c19Str(""))
	set("Annealer.Type int", atF, c19Wrong("3"))
	enF := func(d *c19Doc) *c19Field { return &d.EventNotifier }
	set("EventNotifier Sequential", enF, c19Str("Sequential"))
	set("EventNotifier Concurrent", enF, c19Str("Concurrent"))
	set("EventNotifier Bogus", enF, c19Str("Bogus"))
	mtF := func(d *c19Doc) *c19Field { return &d.ModelType }
	add("Model.Type absent", "", func(g *c19Gen, d *c19Doc) bool { d.ModelType = c19Absent(); return true })
	set("Model.Type Bogus", mtF, c19Str("Bogus"))
	set("Model.Type int", mtF, c19Wrong("4"))
	add("Model.Type NullModel", "", func(g *c19Gen, d *c19Doc) bool {
		d.ModelType, d.ModelParams = c19Str("NullModel"), nil
		d.AnnealerParams = c19DelParam(d.AnnealerParams, "DecisionVariable")
		return true
	})
	// annealer parameters
	ap := func(name string, p c19Param) {
		add(name, "", func(g *c19Gen, d *c19Doc) bool { d.AnnealerParams = c19SetParam(d.AnnealerParams, p); return true })
	}
	add("MaximumIterations absent", "", func(g *c19Gen, d *c19Doc) bool {
		d.AnnealerParams = c19DelParam(d.AnnealerParams, "MaximumIterations")
		return true
	})
	ap("MaximumIterations -1", c19PI("MaximumIterations", -1))
	ap("MaximumIterations float", c19PF("MaximumIterations", 5))
	ap("MaximumIterations string", c19PS("MaximumIterations", "10"))
	ap("StartingTemperature int", c19PI("StartingTemperature", 10))
	ap("StartingTemperature negative", c19PF("StartingTemperature", -1))
	ap("StartingTemperature array", c19Param{"StartingTemperature", []interface{}{1, 2}, "[1, 2]"})
	ap("StartingTemperature datetime", c19Param{"StartingTemperature", "datetime-marker", "1979-05-27T07:32:00Z"})
	ap("CoolingFactor 1.5", c19PF("CoolingFactor", 1.5))
	ap("CoolingFactor negative", c19PF("CoolingFactor", -0.5))
	ap("CoolingFactor bool", c19PB("CoolingFactor", true))
	ap("OptimisationDirection Sideways", c19PS("OptimisationDirection", "Sideways"))
	ap("OptimisationDirection int", c19PI("OptimisationDirection", 1))
	ap("InitialReturnToBaseStep string", c19PS("InitialReturnToBaseStep", "x"))
	ap("InitialReturnToBaseStep -1", c19PI("InitialReturnToBaseStep", -1))
	ap("ReturnToBaseAdjustmentFactor 2", c19PF("ReturnToBaseAdjustmentFactor", 2))
	ap("ReturnToBaseIsolationFraction 0.5", c19PF("ReturnToBaseIsolationFraction", 0.5))
	ap("CheckNonDominance int", c19PI("CheckNonDominance", 1))
	ap("annealer unknown parameter", c19PI("Bogus", 1))
	ap("ExplorableDecisionVariables", c19PS("ExplorableDecisionVariables", "SedimentProduced,ImplementationCost"))
	add("Annealer.Parameters scalar", "", func(g *c19Gen, d *c19Doc) bool {
		d.AnnealerParamsScalar = true
		return true
	})
	add("DecisionVariable int", "", func(g *c19Gen, d *c19Doc) bool {
		if !c19IsKirkpatrick(d) {
			return false
		}
		d.AnnealerParams = c19SetParam(d.AnnealerParams, c19PI("DecisionVariable", 3))
		return true
	})
	add("DecisionVariable not offered", "", func(g *c19Gen, d *c19Doc) bool {
		s, _ := d.ModelType.str()
		if !c19IsKirkpatrick(d) {
			return false
		}
		if s == "DumbModel" {
			d.AnnealerParams = c19SetParam(d.AnnealerParams, c19PS("DecisionVariable", "AnythingGoes"))
			return true
		}
		if g.p.chance(0.5) {
			d.AnnealerParams = c19DelParam(d.AnnealerParams, "DecisionVariable") // the default "ObjectiveValue"
		} else {
			d.AnnealerParams = c19SetParam(d.AnnealerParams, c19PS("DecisionVariable", "Bogus"))
		}
		return true
	})
	// model parameters
	mp := func(name string, only string, p c19Param) {
		add(name, "", func(g *c19Gen, d *c19Doc) bool {
			if s, _ := d.ModelType.str(); s != only {
				return false
			}
			d.ModelParams = c19SetParam(d.ModelParams, p)
			return true
		})
	}
	mp("model unknown parameter", "CatchmentModel", c19PI("Bogus", 1))
	mp("dumb unknown parameter", "DumbModel", c19PS("Bogus", "x"))
	mp("YearsOfErosion 0", "CatchmentModel", c19PI("YearsOfErosion", 0))
	mp("YearsOfErosion 1", "CatchmentModel", c19PI("YearsOfErosion", 1))
	mp("YearsOfErosion float", "CatchmentModel", c19PF("YearsOfErosion", 100))
	mp("SedimentDensity 2.0", "CatchmentModel", c19PF("SedimentDensity", 2))
	mp("BankErosionFudgeFactor too big", "CatchmentModel", c19PF("BankErosionFudgeFactor", 1))
	mp("InitialObjectiveValue 5", "DumbModel", c19PF("InitialObjectiveValue", 5))
	mp("InitialObjectiveValue int", "DumbModel", c19PI("InitialObjectiveValue", 5))
	mp("DataSourcePath missing file", "CatchmentModel", c19PS("DataSourcePath", c19DataMissing))
	mp("DataSourcePath int", "CatchmentModel", c19PI("DataSourcePath", 1))
	add("Model.Parameters scalar", "", func(g *c19Gen, d *c19Doc) bool {
		if c19IsCatchment(d) {
			return false
		}
		d.ModelParamsScalar = true
		return true
	})
	hz := func(name, hazard, path string) {
		add(name, hazard, func(g *c19Gen, d *c19Doc) bool {
			if !c19IsCatchment(d) {
				return false
			}
			if path == "" {
				d.ModelParams = c19DelParam(d.ModelParams, "DataSourcePath")
			} else {
				d.ModelParams = c19SetParam(d.ModelParams, c19PS("DataSourcePath", path))
			}
			return true
		})
	}
	hz("DataSourcePath absent", "", "")
	hz("DataSourcePath plain file", "", c19DataPlain)
	hz("DataSourcePath directory", "", c19DataDir)
	hz("DataSourcePath data set without its tables", "", c19DataMalformed)
	hz("DataSourcePath data set without its columns", "", c19DataDeep)
	add("two limits", "", func(g *c19Gen, d *c19Doc) bool {
		if !c19IsCatchment(d) {
			return false
		}
		d.ModelParams = c19SetParam(c19SetParam(d.ModelParams, c19PF("MaximumImplementationCost", 1)), c19PF("MaximumOpportunityCost", 1))
		return true
	})
	add("limit int", "", func(g *c19Gen, d *c19Doc) bool {
		if !c19IsCatchment(d) {
			return false
		}
		d.ModelParams = c19SetParam(d.ModelParams, c19PI("MaximumSedimentProduction", 600))
		return true
	})
	add("limit negative", "", func(g *c19Gen, d *c19Doc) bool {
		if !c19IsCatchment(d) {
			return false
		}
		d.ModelParams = c19SetParam(d.ModelParams, c19PF("MaximumImplementationCost", -1))
		return true
	})
	for k := 0; k < 6; k++ {
		k := k
		lim := func(name string, hazard string, val func(g *c19Gen) float64) {
			add(fmt.Sprintf("%s %s", catchLimitKeys[k], name), hazard, func(g *c19Gen, d *c19Doc) bool {
				if !c19IsCatchment(d) {
					return false
				}
				d.ModelParams = c19SetParam(d.ModelParams, c19PF(catchLimitKeys[k], val(g)))
				d.Runs = 3
				return true
			})
		}
		lim("0", "", func(g *c19Gen) float64 { return 0 })
		lim("mid-range", "", func(g *c19Gen) float64 { return g.mid[k] })
		lim("above everything", "", func(g *c19Gen) float64 { return g.far[k] })
	}
	// ---- floats at the edge of what the log / file formatters and math.RoundFloat take
	mp("InitialObjectiveValue 1e303", "DumbModel", c19PF("InitialObjectiveValue", 1e303))
	mp("InitialObjectiveValue -1e303", "DumbModel", c19PF("InitialObjectiveValue", -1e303))
	mp("InitialObjectiveOneValue 1e303", "MultiObjectiveDumbModel", c19PF("InitialObjectiveOneValue", 1e303))
	ap("StartingTemperature 1e303", c19PF("StartingTemperature", 1e303))
	ap("StartingTemperature 1e308", c19PF("StartingTemperature", 1e308))
	add("InitialObjectiveValue 1e306", "dumb-initial-objective-beyond-roundfloat-range", func(g *c19Gen, d *c19Doc) bool {
		if s, _ := d.ModelType.str(); s != "DumbModel" {
			return false
		}
		d.ModelParams = c19SetParam(d.ModelParams, c19PF("InitialObjectiveValue", []float64{1e306, -1e306, 1.7e308}[g.p.intn(3)]))
		return true
	})
	// ---- data sources whose tables disagree with each other / hold cells the model cannot read
	for _, v := range c19Variants {
		v := v
		add("data source "+v.Name, "", func(g *c19Gen, d *c19Doc) bool {
			if !c19IsCatchment(d) {
				return false
			}
			d.ModelParams = c19SetParam(d.ModelParams, c19PS("DataSourcePath", v.meta()))
			if strings.HasPrefix(v.Name, "gully") {
				// the gully actions are reached by the random walk, not by the as-is initialisation
				d.AnnealerParams = c19SetParam(d.AnnealerParams, c19PI("MaximumIterations", 50))
				d.Runs = 2
			}
			return true
		})
	}
	// ---- paths that collide
	paths := func(name, hazard string, out, prof *string, data string) {
		add(name, hazard, func(g *c19Gen, d *c19Doc) bool {
			if data != "" {
				if !c19IsCatchment(d) {
					return false
				}
				d.ModelParams = c19SetParam(d.ModelParams, c19PS("DataSourcePath", data))
			}
			if out != nil {
				d.OutputPath = c19Str(*out)
			}
			if prof != nil {
				d.CpuProfile = c19Str(*prof)
			}
			return true
		})
	}
	str := func(s string) *string { return &s }
	local := c19VariantNamed("local")
	paths("CpuProfilePath equals OutputPath", "", str("out"), str("out"), "")
	paths("CpuProfilePath equals OutputPath, spelled differently", "", str("out"), str("./"+c19SubDir+"/../out"), "")
	paths("OutputPath below CpuProfilePath", "", str("prof.pprof/out"), str("prof.pprof"), "")
	paths("CpuProfilePath inside OutputPath", "", str(c19SubDir), str(c19SubDir+"/prof.pprof"), "")
	paths("CpuProfilePath next to OutputPath", "", str(c19SubDir+"/out"), str(c19SubDir+"/outer"), "")
	paths("CpuProfilePath is a directory", "profile-path-is-a-directory", nil, str(c19SubDir), "")
	paths("OutputPath empty", "", str(""), nil, "")
	paths("CpuProfilePath is the default OutputPath", "", str(""), str("solutions"), "")
	paths("CpuProfilePath is the data source", "", nil, str(local.meta()), local.meta())
	paths("CpuProfilePath is a table of the data source", "", nil, str(local.dir()+"/G.csv"), local.meta())
	paths("CpuProfilePath is a table of the data source, spelled differently", "", nil, str("./"+c19SubDir+"/../"+local.dir()+"/A.csv"), local.meta())
	paths("CpuProfilePath next to the data source", "", nil, str(local.dir()+"/prof.pprof"), local.meta())
	paths("CpuProfilePath is a table of another data source", "", nil, str(local.dir()+"/S.csv"), c19DataOk)
	paths("OutputPath is the data source's directory", "", str(local.dir()), nil, local.meta())
	paths("OutputPath is the data source", "", str(local.meta()), nil, local.meta())
	// ---- scenario names made of what the saver derives ids, labels and file names from; three runs, one result each
	names := func(name, hazard, text string) {
		add(name, hazard, func(g *c19Gen, d *c19Doc) bool {
			d.Name = c19Str(text)
			d.RunNumber = c19Int(3)
			return true
		})
	}
	names("Name with a solution marker", "", "x Solution (1/2) y")
	names("Name Solution(", "", "Solution(")
	names("Name like an as-is id", "", "As-Is (1/1) Solution (As-Is)")
	names("Name like a run id", "", "P (2/3)")
	names("Name with percent", "", "100%s %d")
	names("Name with backslash", "", "a\\b")
	names("Name dotdot", "", "..")
	names("Name with line break", "", "line\nbreak")
	names("Name with quote and comma", "", "q\"uote,comma")
	names("Name blank", "", " ")
	names("Name ends with slash", "", "x/")
	names("Name too long for a file name", "result-file-cannot-be-created", strings.Repeat("n", 260))
	// the document as a whole
	add("unknown key Scenario.Bogus", "", func(g *c19Gen, d *c19Doc) bool { d.Unknown = c19AddOnce(d.Unknown, "Scenario.Bogus"); return true })
	add("unknown key Scenario.Reporting.Bogus", "", func(g *c19Gen, d *c19Doc) bool {
		d.Unknown = c19AddOnce(d.Unknown, "Scenario.Reporting.Bogus")
		return true
	})
	add("unknown key Annealer.Bogus", "", func(g *c19Gen, d *c19Doc) bool { d.Unknown = c19AddOnce(d.Unknown, "Annealer.Bogus"); return true })
	add("unknown key Model.Bogus", "", func(g *c19Gen, d *c19Doc) bool { d.Unknown = c19AddOnce(d.Unknown, "Model.Bogus"); return true })
	add("unknown section", "", func(g *c19Gen, d *c19Doc) bool { d.Unknown = c19AddOnce(d.Unknown, "[Bogus]"); return true })
	add("syntax error", "", func(g *c19Gen, d *c19Doc) bool { d.SyntaxOk = false; return true })
	add("MetaData.FilePath string", "", func(g *c19Gen, d *c19Doc) bool { d.MetaOk = true; return true })
	add("MetaData.FilePath int", "", func(g *c19Gen, d *c19Doc) bool { d.MetaBad = true; return true })
	add("UserDetail table", "", func(g *c19Gen, d *c19Doc) bool { d.UserDetail = "table"; return true })
	add("UserDetail scalar", "", func(g *c19Gen, d *c19Doc) bool { d.UserDetail = "scalar"; return true })
	return P
}

// ======================================================================================
// running a document
// ======================================================================================

type c19Exec struct {
	Code   int      // outcome code of the model (0..7)
	Tags   []string // error tags
	Files  []string // *-Summary.* in the output directory
	All    []string // every file in the output directory
	Stderr string
}

var (
	c19reMust    = regexp.MustCompile(`(?m)^\s*([A-Z][A-Za-z.]+[A-Za-z])\s+must be supplied`)
	c19reParam   = regexp.MustCompile(`Parameter \[([^\]]+)\]`)
	c19reLevel   = regexp.MustCompile(`attempted to map log level \[([^\]]*)\]`)
	c19rePanicLn = regexp.MustCompile(`(?m)^\s*panic: .*$`)
)

func c19Tags(code int, text string) []string {
	set := map[string]bool{}
	text = strings.Replace(strings.Replace(text, "C19LOADERR ", "\n", 1), "C19INTERPRETERR ", "\n", 1)
	if code == 0 {
		if strings.Contains(text, "failed retrieving config") {
			set["EDecode"] = true
		}
		if strings.Contains(text, "unrecognised configuration key") {
			set["EUnknownKeys"] = true
		}
		for _, m := range c19reMust.FindAllStringSubmatch(text, -1) {
			set["EMandatory:"+m[1]] = true
		}
	} else {
		section := ""
		trialFailed := false
		for _, ln := range strings.Split(text, "\n") {
			switch {
			case strings.Contains(ln, "building model ["):
				section = "EModelParam"
			case strings.Contains(ln, "building annealer ["):
				section = "EAnnealerParam"
			case strings.Contains(ln, "Logging Configuration") || strings.Contains(ln, "Scenario Configuration"):
				section = ""
			}
			if strings.Contains(ln, "no models are registered") {
				set["EModelUnregistered"] = true
			}
			if strings.Contains(ln, "no annealers are registered") {
				set["EAnnealerUnregistered"] = true
			}
			if strings.Contains(ln, "Only one of") {
				set["EModelLimits"] = true
			} else if section == "EModelParam" || section == "EAnnealerParam" {
				for _, m := range c19reParam.FindAllStringSubmatch(ln, -1) {
					set[section+":"+m[1]] = true
				}
			}
			if strings.Contains(ln, "is not a valid OptimisationDirection") {
				set["EAnnealerParam:OptimisationDirection"] = true
			}
			if strings.Contains(ln, "not recognised by model") {
				set["EAnnealerParam:DecisionVariable"] = true
			}
			if strings.Contains(ln, "is not offered by the configured model") {
				set["EDecisionVariable"] = true
			}
			if strings.Contains(ln, "initialising model [") {
				section = "trial"
				trialFailed = true
			}
			if strings.Contains(ln, "satisfied by every combination of management actions") {
				set["ELimitNotBinding"] = true
			}
			if strings.Contains(ln, "Scenario.OutputPath [") && !strings.Contains(ln, "is in the way of Scenario.OutputPath") {
				set["EOutputPath"] = true
			}
			if strings.Contains(ln, "needs Excel") {
				set["EExcel"] = true
			}
			if strings.Contains(ln, "the directory of Scenario.CpuProfilePath") {
				set["EProfilePath"] = true
			}
			if strings.Contains(ln, "is in the way of Scenario.OutputPath") {
				set["EProfileBlocksOutput"] = true
			}
			if strings.Contains(ln, "is a file the configured model reads its data from") {
				set["EProfileOverwritesInput"] = true
			}
			for _, m := range c19reLevel.FindAllStringSubmatch(ln, -1) {
				set["ELogDestination:"+m[1]] = true
			}
			if strings.Contains(ln, "Missing mandatory scenario name") {
				set["EScenarioName"] = true
			}
		}
		if trialFailed && !set["ELimitNotBinding"] {
			set["EModelData"] = true
		}
	}
	res := []string{}
	for k := range set {
		res = append(res, k)
	}
	sort.Strings(res)
	return res
}

func c19OutDir(d *c19Doc, cwd string) string {
	if s, ok := d.OutputPath.str(); ok {
		if s == "" {
			s = "solutions" // Saver.WithOutputPath keeps its default
		}
		if filepath.IsAbs(s) {
			return s
		}
		return filepath.Join(cwd, s)
	}
	return cwd // default "."
}

func c19RunOnce(root string, d *c19Doc, k int, text string) c19Exec {
	cwd := filepath.Join(root, fmt.Sprintf("d%d-%d", d.Id, k))
	if d.writesThroughSymlink() {
		panic("generated document writes through the data symlink: " + text)
	}
	defer os.RemoveAll(cwd)
	c19WriteLayout(cwd, d.variants())
	tomlPath := filepath.Join(cwd, "scenario.toml")
	os.WriteFile(tomlPath, []byte(text), 0o644)
	outDir := c19OutDir(d, cwd)
	exe, _ := os.Executable()
	cmd := exec.Command(exe, "C19child", tomlPath, cwd, outDir)
	var so, se bytes.Buffer
	cmd.Stdout, cmd.Stderr = &so, &se
	if err := cmd.Start(); err != nil {
		panic(err)
	}
	done := make(chan error, 1)
	go func() { done <- cmd.Wait() }()
	var werr error
	select {
	case werr = <-done:
	case <-time.After(20 * time.Second):
		cmd.Process.Kill()
		<-done
		return c19Exec{Code: 7, Stderr: "no end within 20 s"}
	}
	stderr := se.String()
	rc := 0
	if werr != nil {
		if ee, ok := werr.(*exec.ExitError); ok {
			rc = ee.ExitCode()
		} else {
			rc = -1
		}
	}
	x := c19Exec{}
	tail := stderr
	if ms := c19rePanicLn.FindAllString(stderr, -1); len(ms) > 0 {
		tail = strings.Join(ms, " | ")
	}
	if len(tail) > 600 {
		tail = tail[:600]
	}
	x.Stderr = tail
	switch rc {
	case 0:
		x.Code = 2
		for _, ln := range strings.Split(so.String(), "\n") {
			if strings.HasPrefix(ln, "C19RESULT ") {
				var r struct{ Files []string }
				json.Unmarshal([]byte(strings.TrimPrefix(ln, "C19RESULT ")), &r)
				x.All = r.Files
				for _, f := range r.Files {
					if strings.Contains(f, "-Summary.") {
						x.Files = append(x.Files, f)
					}
				}
			}
		}
	case 10:
		x.Code = 0
		x.Tags = c19Tags(0, stderr)
	case 11:
		x.Code = 1
		x.Tags = c19Tags(1, stderr)
	case 12:
		x.Code = 3
	case 20:
		x.Code = 4
	case 21:
		x.Code = 5
	default:
		x.Code = 6
	}
	return x
}

type c19Result struct {
	d     *c19Doc
	text  string
	execs []c19Exec
}

func c19RunAll(root string, docs []*c19Doc) []c19Result {
	res := make([]c19Result, len(docs))
	type job struct{ i, k int }
	jobs := make(chan job)
	var mu sync.Mutex
	var wg sync.WaitGroup
	for w := 0; w < 8; w++ {
		wg.Add(1)
		go func() {
			defer wg.Done()
			for j := range jobs {
				x := c19RunOnce(root, docs[j.i], j.k, res[j.i].text)
				mu.Lock()
				res[j.i].execs = append(res[j.i].execs, x)
				mu.Unlock()
			}
		}()
	}
	for i, d := range docs {
		res[i].d, res[i].text = d, d.render()
	}
	for i, d := range docs {
		for k := 0; k < d.Runs; k++ {
			jobs <- job{i, k}
		}
	}
	close(jobs)
	wg.Wait()
	return res
}

func c19ExpectedRuns(d *c19Doc) int {
	if d.RunNumber.State == "value" {
		return int(d.RunNumber.V.(int64))
	}
	return 1
}

// ======================================================================================
// parent
// ======================================================================================
func runC19(args []string) {
	tier := "quick"
	if len(args) > 0 {
		tier = args[0]
	}
	// (the shared splitmix streams of two consecutive seeds are shifted copies of each other: decorrelate through the salt)
	seed, _ := strconv.ParseUint(os.Getenv("VERIF_SEED"), 10, 64)
	g := &c19Gen{p: newPrng(1919 + seed*0xD1B54A32D192ED03)}
	ds := "ValidModel.csv"
	base := catchOpen(catchTestdata(ds), nil)
	emit(base.export(ds))
	for k := 0; k < 6; k++ {
		g.mid[k] = c03Limit(ds, k, 0.45)
		asIs, allActive := c03Range(ds, k)
		hi := asIs
		if allActive > hi {
			hi = allActive
		}
		g.far[k] = hi*1000 + 1e9
	}
	perts := c19Perturbations()
	docs := []*c19Doc{}
	// (1) every base configuration as it is
	for fam := 0; fam < 3; fam++ {
		for mod := 0; mod < 3; mod++ {
			docs = append(docs, g.base(fam, mod))
		}
	}
	// (1b) runs that really OVERLAP: several concurrent runs with budgets long enough that they are in flight together, with
	// and without the loop-invariant observer (one observer instance serves every run of a scenario) and event reporting
	for fam := 0; fam < 3; fam++ {
		for mod := 0; mod < 3; mod++ {
			for _, inv := range []bool{true, false} {
				d := g.base(fam, mod)
				d.RunNumber, d.MaxConcurrent = c19Int(4), c19Int(4)
				d.CheckInvariant = c19Bool(inv)
				iters := int64(1500)
				if mod == 0 {
					iters = 300
				}
				d.AnnealerParams = c19SetParam(d.AnnealerParams, c19PI("MaximumIterations", iters))
				d.AnnealerParams = c19SetParam(d.AnnealerParams, c19PF("StartingTemperature", 10))
				d.AnnealerParams = c19SetParam(d.AnnealerParams, c19PF("CoolingFactor", 0.999))
				d.Note = []string{"overlapping concurrent runs"}
				docs = append(docs, d)
			}
		}
	}
	// (2) every perturbation alone, on `rounds` applicable bases each
	rounds, randomDocs := 3, 200
	if tier == "thorough" {
		rounds, randomDocs = 9, 9000
	}
	for _, pt := range perts {
		got := 0
		for try := 0; try < 60 && got < rounds; try++ {
			var d *c19Doc
			if tier == "thorough" && try < 9 {
				d = g.base(try/3, try%3)
			} else {
				d = g.randomBase()
			}
			if !pt.apply(g, d) {
				continue
			}
			d.Note = []string{pt.name}
			if pt.hazard != "" {
				d.Hazard = pt.hazard
			}
			if tier == "thorough" && d.Runs > 1 {
				d.Runs = 10
			}
			docs = append(docs, d)
			got++
		}
	}
	// (3) random combinations of 2..4 perturbations, at most one hazard
	for i := 0; i < randomDocs; i++ {
		d := g.randomBase()
		n := 2 + g.p.intn(3)
		for j := 0; j < n; j++ {
			pt := perts[g.p.intn(len(perts))]
			if pt.hazard != "" && (d.Hazard != "none" || g.p.chance(0.7)) {
				continue
			}
			if !pt.apply(g, d) {
				continue
			}
			d.Note = append(d.Note, pt.name)
			if pt.hazard != "" {
				d.Hazard = pt.hazard
			}
		}
		if tier == "thorough" && d.Runs > 1 {
			d.Runs = 6
		}
		docs = append(docs, d)
	}
	root, err := os.MkdirTemp("", "verif-c19-")
	if err != nil {
		panic(err)
	}
	defer os.RemoveAll(root)
	// a directory laid out like every child's working directory, with every generated data source: the shapes of their tables
	// (own CSV reader) and -- where the real loader and the model's initialisation take them -- the constants the model derives
	probe := filepath.Join(root, "probe")
	c19WriteLayout(probe, c19Variants)
	shapes := map[string]J{}
	dsIndex := map[string]int{}
	nextDs := 1
	for _, v := range c19Variants {
		shapes[v.Name] = v.shape(probe)
		dsIndex[v.Name] = 0
		var inst *catchInst
		var exported J
		if panicked, _ := protect(func() {
			if c, ok := catchTryOpen(filepath.Join(probe, v.meta())); ok {
				inst = c
				exported = c.export(v.dir())
			}
		}); !panicked && inst != nil && exported != nil {
			emit(exported)
			dsIndex[v.Name] = nextDs
			nextDs++
		}
	}
	results := c19RunAll(root, docs)

	stats := map[string]int{"documents": len(docs)}
	for _, r := range results {
		d := r.d
		codes := map[int]bool{}
		var tags, files []string
		for _, x := range r.execs {
			codes[x.Code] = true
			stats["executions"]++
			stats[fmt.Sprintf("outcome_%d", x.Code)]++
			if x.Code <= 1 {
				tags = x.Tags
			}
			if x.Code == 2 {
				files = x.Files
			}
		}
		codeList := []int{}
		for c := range codes {
			codeList = append(codeList, c)
		}
		sort.Ints(codeList)
		stats["hazard_"+d.Hazard]++
		for _, n := range d.Note {
			stats["pert "+n]++
		}
		// oracle bits of the environment: asked of the file system in a directory laid out like every child's (never of crem)
		readable := []string{}
		data := []J{}
		dataFiles := []J{}
		for _, p := range d.ModelParams {
			if p.K == "DataSourcePath" {
				if s, ok := p.V.(string); ok {
					if f, err := os.OpenFile(filepath.Join(probe, s), os.O_RDONLY, 0o666); err == nil {
						f.Close()
						readable = append(readable, s)
					}
					if vs := c19VariantsIn(s); len(vs) == 1 && s == vs[0].meta() {
						data = append(data, J{"k": s, "shape": shapes[vs[0].Name], "di": dsIndex[vs[0].Name]})
						dataFiles = append(dataFiles, J{"k": s, "v": vs[0].files()})
					} else {
						data = append(data, J{"k": s, "class": c19DataClass[s]})
						if s == c19DataOk {
							dataFiles = append(dataFiles, J{"k": s, "v": []string{"data/ValidModel.csv", "data/ValidSubcatchments.csv", "data/ValidGullies.csv", "data/ValidActions.csv"}})
						}
					}
				}
			}
		}
		outIsFile := false // os.Stat: an existing non-directory, or an error other than "does not exist"
		outCreatable := true
		if s, ok := d.OutputPath.str(); ok {
			full := s
			if !filepath.IsAbs(s) {
				full = filepath.Join(probe, s)
			}
			if s == "" {
				full = "" // os.Stat("") : does not exist
			}
			if fi, err := os.Stat(full); err == nil {
				outIsFile = !fi.IsDir()
			} else if !os.IsNotExist(err) {
				outIsFile = true
			}
			if strings.HasPrefix(s, "/proc/") {
				outCreatable = false
			}
		}
		profDirOk, profCreatable := true, true
		if s, ok := d.CpuProfile.str(); ok && s != "" {
			fi, err := os.Stat(filepath.Dir(filepath.Join(probe, s)))
			profDirOk = err == nil && fi.IsDir()
			profCreatable = profDirOk
			if fi, err := os.Stat(filepath.Join(probe, s)); err == nil && fi.IsDir() {
				profCreatable = false
			}
		}
		fileCreatable := true // can the file system hold a summary file for this scenario name?
		if s, ok := d.Name.str(); ok {
			stem := strings.ReplaceAll(strings.ReplaceAll(s, " ", ""), "/", "_of_") + "(3_of_3)-Summary.json"
			if f, err := os.Create(filepath.Join(probe, c19SubDir, stem)); err == nil {
				f.Close()
				os.Remove(filepath.Join(probe, c19SubDir, stem))
			} else {
				fileCreatable = false
			}
		}
		emit(J{"kind": "case", "id": d.Id, "note": d.Note, "hazard": d.Hazard, "toml": r.text, "config": d.abstract(),
			"readable": readable, "data": data, "data_files": dataFiles, "out_is_file": outIsFile, "out_creatable": outCreatable,
			"profile_dir_ok": profDirOk, "profile_creatable": profCreatable, "file_creatable": fileCreatable,
			"outcomes": codeList, "errs": tags, "summaries": files})
		// ---- the property itself, evaluated on what the real code did
		for _, x := range r.execs {
			bad := ""
			switch x.Code {
			case 0, 1:
			case 2:
				if len(x.Files) != c19ExpectedRuns(d) {
					bad = fmt.Sprintf("completed, but %d summary file(s) for %d run(s): %v", len(x.Files), c19ExpectedRuns(d), x.All)
				} else if lvl, _ := d.OutputLevel.str(); lvl == "Detail" {
					// Detail level: besides its summary every run writes at least the files of its as-is solution, whether the
					// output type is spelled out or left to its default (CSV)
					ot, otGiven := d.OutputType.str()
					name, _ := d.Name.str()
					if (!d.OutputType.present() || (otGiven && (ot == "CSV" || ot == "JSON"))) && len(name) <= 100 && c19ExpectedRuns(d) > 0 &&
						len(x.All)-len(x.Files) < c19ExpectedRuns(d) {
						bad = fmt.Sprintf("completed at Detail level, but only %d file(s) besides the %d summary file(s) were written: %v", len(x.All)-len(x.Files), len(x.Files), x.All)
					}
				}
			case 3:
				bad = "accepted, but Scenario.Run() returned an error"
			case 4:
				bad = "the loader panicked"
			case 5:
				bad = "the interpreter panicked"
			case 6:
				bad = "accepted, but the process died while running"
			case 7:
				bad = "accepted, but the run did not end within 20 s"
			}
			if bad != "" {
				emit(J{"kind": "oracle", "what": bad, "class": d.Hazard, "stderr": x.Stderr, "note": d.Note, "toml": r.text, "outcome": x.Code})
				stats["oracle_lines"]++
				break
			}
		}
	}
	emit(J{"kind": "stat", "stats": stats})
}

// ======================================================================================
// generated data sources (variants of the shipped ValidModel data set, written into the child's working directory)
// ======================================================================================

type c19Variant struct {
	Name string // directory "ds_<Name>" holding m.csv (meta-file), S.csv, G.csv, A.csv
	Mut  func(t *c19Tables)
}

type c19Tables struct{ Sub, Gul, Act []string } // lines, header first

func (v *c19Variant) dir() string  { return "ds_" + v.Name }
func (v *c19Variant) meta() string { return v.dir() + "/m.csv" }
func (v *c19Variant) files() []string {
	return []string{v.dir() + "/m.csv", v.dir() + "/S.csv", v.dir() + "/G.csv", v.dir() + "/A.csv"}
}

func c19ReadLines(n string) []string {
	b, err := os.ReadFile(catchTestdata(n))
	if err != nil {
		panic(err)
	}
	lines := []string{}
	for _, l := range strings.Split(strings.ReplaceAll(string(b), "\r\n", "\n"), "\n") {
		if strings.TrimSpace(l) != "" {
			lines = append(lines, l)
		}
	}
	return lines
}

// the first row of the Actions table with this type, moved to subcatchment `pu`
func c19ActionRow(t *c19Tables, ty string, pu string) string {
	for _, l := range t.Act[1:] {
		f := strings.Split(l, ",")
		if f[1] == ty {
			f[0] = pu
			return strings.Join(f, ",")
		}
	}
	panic("no action row of type " + ty)
}

func c19SetCell(line string, col int, text string) string {
	f := strings.Split(line, ",")
	f[col] = text
	return strings.Join(f, ",")
}

var c19Variants = []*c19Variant{
	{"local", func(t *c19Tables) {}}, // an unchanged private copy (for the path collisions)
	// ---- references between the tables
	{"gully99", func(t *c19Tables) { t.Gul = append(t.Gul, "3,99,3859.73,178.417") }},            // a gully in a subcatchment that is not listed
	{"gullyonly99", func(t *c19Tables) { t.Gul = []string{t.Gul[0], "1,99,3859.73,178.417"} }},   // ... and no other gully
	{"hill99", func(t *c19Tables) { t.Act = append(t.Act, c19ActionRow(t, "Hillslope", "99")) }}, // action rows for a planning unit that does not exist
	{"gullyact99", func(t *c19Tables) { t.Act = append(t.Act, c19ActionRow(t, "Gully", "99")) }}, //
	{"rip99", func(t *c19Tables) { t.Act = append(t.Act, c19ActionRow(t, "Riparian", "99")) }},   //
	{"wet99", func(t *c19Tables) { t.Act = append(t.Act, c19ActionRow(t, "Wetland", "99")) }},    // (ignored by the model)
	{"bogustype", func(t *c19Tables) {
		t.Act = append(t.Act, c19ActionRow(t, "Gully", "17"))
		n := len(t.Act) - 1
		t.Act[n] = c19SetCell(t.Act[n], 1, "Bogus")
	}},
	{"gully19", func(t *c19Tables) { t.Gul = append(t.Gul, "3,19,3859.73,178.417") }}, // a gully where the Actions table has no Gully row: a free action
	{"gullyfrac", func(t *c19Tables) { // <largest id>.5 is planning unit <largest id> (rounding up would leave the table)
		top := 0.0
		for _, l := range t.Sub[1:] {
			if f, err := strconv.ParseFloat(strings.Split(l, ",")[0], 64); err == nil && f > top {
				top = f
			}
		}
		t.Gul = append(t.Gul, fmt.Sprintf("3,%v,100.5,10.5", top+0.5))
	}},
	// ---- duplicates
	{"dupsub", func(t *c19Tables) { t.Sub = append(t.Sub, t.Sub[1]) }},
	{"dupact", func(t *c19Tables) { t.Act = append(t.Act, t.Act[2]) }},
	{"dupgully", func(t *c19Tables) { t.Gul = append(t.Gul, t.Gul[1]) }},
	// ---- cells
	{"misssub", func(t *c19Tables) { t.Sub[1] = c19SetCell(t.Sub[1], 2, "") }},
	{"missgully", func(t *c19Tables) { t.Gul[1] = c19SetCell(t.Gul[1], 2, "") }},
	{"missact", func(t *c19Tables) { t.Act[1] = c19SetCell(t.Act[1], 3, "") }},
	{"textsub", func(t *c19Tables) { t.Sub[2] = c19SetCell(t.Sub[2], 8, "lots") }},
	{"textgully", func(t *c19Tables) { t.Gul[2] = c19SetCell(t.Gul[2], 1, "north") }},
	{"textact", func(t *c19Tables) { t.Act[len(t.Act)-1] = c19SetCell(t.Act[len(t.Act)-1], 14, "x") }},
	{"textactid", func(t *c19Tables) { t.Act[3] = c19SetCell(t.Act[3], 0, "seventeen") }},
	// ---- empty tables
	{"nogullies", func(t *c19Tables) { t.Gul = t.Gul[:1] }},
	{"noactions", func(t *c19Tables) { t.Act = t.Act[:1] }},
	{"nosubs", func(t *c19Tables) { t.Sub = t.Sub[:1] }},
	{"nothing", func(t *c19Tables) { t.Sub, t.Gul, t.Act = t.Sub[:1], t.Gul[:1], t.Act[:1] }},
}

func c19VariantNamed(name string) *c19Variant {
	for _, v := range c19Variants {
		if v.Name == name {
			return v
		}
	}
	panic("no variant " + name)
}

// the variant whose directory the path lies in ("ds_x/...", "./ds_x/...", "sub/../ds_x/...")
func c19VariantsIn(path string) []*c19Variant {
	res := []*c19Variant{}
	for _, v := range c19Variants {
		for _, seg := range strings.Split(path, "/") {
			if seg == v.dir() {
				res = append(res, v)
				break
			}
		}
	}
	return res
}

var c19BaseTables *c19Tables

func (v *c19Variant) write(cwd string) {
	if c19BaseTables == nil {
		c19BaseTables = &c19Tables{c19ReadLines("ValidSubcatchments.csv"), c19ReadLines("ValidGullies.csv"), c19ReadLines("ValidActions.csv")}
	}
	t := &c19Tables{append([]string{}, c19BaseTables.Sub...), append([]string{}, c19BaseTables.Gul...), append([]string{}, c19BaseTables.Act...)}
	v.Mut(t)
	dir := filepath.Join(cwd, v.dir())
	if err := os.MkdirAll(dir, 0o755); err != nil {
		panic(err)
	}
	w := func(n string, lines []string) {
		if err := os.WriteFile(filepath.Join(dir, n), []byte(strings.Join(lines, "\n")+"\n"), 0o644); err != nil {
			panic(err)
		}
	}
	w("S.csv", t.Sub)
	w("G.csv", t.Gul)
	w("A.csv", t.Act)
	w("m.csv", []string{"TableName, FilePath", "Subcatchments, S.csv", "Gullies, G.csv", "Actions, A.csv"})
}

// the shape of the three tables as an independent CSV reader sees them
func c19CellJ(text string) J {
	if f, err := strconv.ParseFloat(strings.TrimSpace(text), 64); err == nil {
		return J{"num": true, "id": strconv.FormatInt(int64(f), 10)}
	}
	return J{"num": false}
}

func c19IsNum(text string) bool {
	_, err := strconv.ParseFloat(strings.TrimSpace(text), 64)
	return err == nil
}

func (v *c19Variant) shape(cwd string) J {
	read := func(n string) [][]string {
		f, err := os.Open(filepath.Join(cwd, v.dir(), n))
		if err != nil {
			panic(err)
		}
		defer f.Close()
		r := csv.NewReader(f)
		r.TrimLeadingSpace = true
		recs, err := r.ReadAll()
		if err != nil {
			panic(err)
		}
		return recs[1:]
	}
	sub, gul, act := read("S.csv"), read("G.csv"), read("A.csv")
	subs, subOk := []J{}, true
	for _, r := range sub {
		subs = append(subs, c19CellJ(r[0]))
		for _, c := range r[1:] {
			subOk = subOk && c19IsNum(c)
		}
	}
	guls, gulOk := []J{}, true
	for _, r := range gul {
		guls = append(guls, c19CellJ(r[1]))
		gulOk = gulOk && c19IsNum(r[0]) && c19IsNum(r[2]) && c19IsNum(r[3])
	}
	acts, actOk := []J{}, true
	for _, r := range act {
		acts = append(acts, J{"pu": c19CellJ(r[0]), "type": r[1]})
		for _, c := range r[2:] {
			actOk = actOk && c19IsNum(c)
		}
	}
	return J{"subs": subs, "sub_ok": subOk, "gullies": guls, "gully_ok": gulOk, "actions": acts, "action_ok": actOk}
}

// everything a child's working directory holds before the child starts
func c19WriteLayout(cwd string, variants []*c19Variant) {
	if err := os.MkdirAll(cwd, 0o755); err != nil {
		panic(err)
	}
	if err := os.Symlink(filepath.Join(catchRepoRoot(), "internal/pkg/model/models/catchment/testdata"), filepath.Join(cwd, "data")); err != nil {
		panic(err)
	}
	os.WriteFile(filepath.Join(cwd, c19DataPlain), []byte("not a data set\n"), 0o644)
	os.WriteFile(filepath.Join(cwd, "notadir"), []byte("a file\n"), 0o644)
	os.WriteFile(filepath.Join(cwd, c19DataDeep), []byte(c19DeepMeta), 0o644)
	os.MkdirAll(filepath.Join(cwd, c19SubDir), 0o755)
	for _, v := range variants {
		v.write(cwd)
	}
}

func (d *c19Doc) paths() []string {
	res := []string{}
	for _, f := range []c19Field{d.OutputPath, d.CpuProfile} {
		if s, ok := f.str(); ok {
			res = append(res, s)
		}
	}
	for _, p := range d.ModelParams {
		if s, ok := p.V.(string); ok && p.K == "DataSourcePath" {
			res = append(res, s)
		}
	}
	return res
}

func (d *c19Doc) variants() []*c19Variant {
	seen := map[string]bool{}
	res := []*c19Variant{}
	for _, p := range d.paths() {
		for _, v := range c19VariantsIn(p) {
			if !seen[v.Name] {
				seen[v.Name] = true
				res = append(res, v)
			}
		}
	}
	return res
}

// A document must never name, as something that is WRITTEN (CpuProfilePath, OutputPath), a path through the "data" symlink:
// it leads into the repository.
func (d *c19Doc) writesThroughSymlink() bool {
	for _, f := range []c19Field{d.OutputPath, d.CpuProfile} {
		if s, ok := f.str(); ok {
			for _, seg := range strings.Split(s, "/") {
				if seg == c19DataDir {
					return true
				}
			}
		}
	}
	return false
}
