//go:build verif

package main

import (
	stdcsv "encoding/csv"
	"encoding/hex"
	"fmt"
	"math"
	"os"
	"path/filepath"
	"strconv"
	"strings"
	"time"

	"github.com/LindsayBradford/crem/internal/pkg/dataset"
	"github.com/LindsayBradford/crem/internal/pkg/dataset/csv"
	myStrings "github.com/LindsayBradford/crem/pkg/strings"
)

// C20: csv.DataSet.ParseCsvTextIntoTable + the table accessors, on structured and malformed byte strings.
//
// The model (coq/theories/CsvTable.v) starts from what encoding/csv returned and from the caster's verdict per
// field; both are obtained here from the trusted oracles themselves (an encoding/csv reader configured like
// crem's, and crem's own BaseCaster), never from the code under test.

var c20stats = map[string]int{}
var c20caster = new(myStrings.BaseCaster).WithNumbersAsFloats()
var c20oracleSeen = map[string]bool{}

func c20hex(s string) string { return hex.EncodeToString([]byte(s)) }

// exact export of what the caster made of a field
func c20field(s string) J {
	v := c20caster.Cast(s)
	j := J{"s": c20hex(s)}
	switch x := v.(type) {
	case float64:
		j["t"] = "N"
		c20num(j, x)
		j["f"] = c20hex(fmt.Sprintf("%v", x))
		c20stats["field_number"]++
	case bool:
		j["t"] = "B"
		j["b"] = x
		c20stats["field_bool"]++
	case string:
		j["t"] = "T"
		c20stats["field_text"]++
	default:
		panic("caster returned an unexpected type")
	}
	return j
}

func c20num(j J, x float64) {
	switch {
	case math.IsNaN(x):
		j["sp"] = "nan"
	case math.IsInf(x, 1):
		j["sp"] = "+inf"
	case math.IsInf(x, -1):
		j["sp"] = "-inf"
	default:
		j["sp"] = ""
		j["neg"] = math.Signbit(x)
		j["fl"] = flOf(math.Abs(x))
	}
}

func c20cellObs(v interface{}) J {
	switch x := v.(type) {
	case float64:
		j := J{"t": "N"}
		c20num(j, x)
		return j
	case bool:
		return J{"t": "B", "b": x}
	case string:
		return J{"t": "S", "s": c20hex(x)}
	case nil:
		return J{"t": "nil"}
	}
	return J{"t": "other"}
}

func c20reader(text string) ([][]string, error) {
	r := stdcsv.NewReader(strings.NewReader(text))
	r.TrimLeadingSpace = true
	return r.ReadAll()
}

func c20oracle(what string, extra J) {
	key := what + "|" + fmt.Sprint(extra["field"]) + "|" + fmt.Sprint(extra["class"])
	if c20oracleSeen[key] {
		return
	}
	c20oracleSeen[key] = true
	j := J{"kind": "oracle", "what": what}
	for k, v := range extra {
		j[k] = v
	}
	emit(j)
}

// one text through the real loader
// how the text reaches the loader: nil = ParseCsvTextIntoTable (the engine's route); otherwise the file route
// (DataSet.Load of a meta-file naming one table file that holds the text)
var c20fileDir string
var c20LargeRecipe string

func c20loadViaFile(text string) (ds *csv.DataSet, table dataset.Table, dsErr, tableErr error) {
	tablePath := filepath.Join(c20fileDir, "t.csv")
	if err := os.WriteFile(tablePath, []byte(text), 0o666); err != nil {
		panic(err)
	}
	// same modification time for every version of the file (a file replaced within the same clock second)
	os.Chtimes(tablePath, c20fileTime, c20fileTime)
	ds = csv.NewDataSet("c20")
	ds.Load(filepath.Join(c20fileDir, "meta.csv"))
	dsErr = ds.Errors()
	table, tableErr = ds.Table("t")
	return
}

var c20fileTime = time.Unix(1700000000, 0)

func c20case(text string, class string) { c20caseVia(text, class, false) }

func c20caseVia(text string, class string, viaFile bool) {
	if viaFile {
		class = "file:" + class
	}
	c20stats["text_"+class]++
	records, readErr := c20reader(text)
	// a LARGE generated text (c20LargeRecipe != "") is judged by the implementation-side oracle only: its case is not
	// emitted for the Coq correspondence (a megabyte string literal is out of vm_compute's reach) and reports carry the
	// recipe instead of the text
	large := c20LargeRecipe != ""
	thex := c20hex(text)
	emitCase := func(j J) {
		if !large {
			emit(j)
		}
	}
	if large {
		thex = "(large generated text) " + c20LargeRecipe
	}
	cj := J{"kind": "case", "class": class, "text": thex}
	if readErr != nil {
		cj["csv"] = nil
		c20stats["reader_error"]++
	} else {
		recs := make([][]J, len(records))
		for i, r := range records {
			recs[i] = make([]J, len(r))
			for k, f := range r {
				recs[i][k] = c20field(f)
			}
		}
		cj["csv"] = recs
		switch {
		case len(records) == 0:
			c20stats["reader_zero_records"]++
		case len(records) == 1:
			c20stats["reader_header_only"]++
		default:
			c20stats["reader_with_rows"]++
		}
	}

	var ds *csv.DataSet
	var table dataset.Table
	var tableErr, dsErr error
	panicked, what := protect(func() {
		if viaFile {
			ds, table, dsErr, tableErr = c20loadViaFile(text)
			return
		}
		ds = csv.NewDataSet("c20")
		ds.ParseCsvTextIntoTable("t", text)
		dsErr = ds.Errors()
		table, tableErr = ds.Table("t")
	})
	textShown := text
	if len(textShown) > 200 {
		textShown = textShown[:200] + "..."
	}
	if panicked {
		cj["outcome"] = "panic"
		c20stats["outcome_panic"]++
		emitCase(cj)
		c20oracle("loader panicked", J{"text": textShown, "text_hex": thex, "panic": what, "class": class})
		return
	}
	if dsErr != nil || tableErr != nil || table == nil {
		cj["outcome"] = "rejected"
		c20stats["outcome_rejected"]++
		emitCase(cj)
		if (dsErr != nil) != (tableErr != nil) {
			c20oracle("error reported but table present (or the reverse)", J{"text": textShown, "text_hex": thex, "class": class})
		}
		if readErr == nil && len(records) > 0 {
			c20oracle("well-formed csv text rejected", J{"text": textShown, "text_hex": thex, "error": fmt.Sprint(dsErr), "class": class})
		}
		return
	}
	cj["outcome"] = "loaded"
	c20stats["outcome_loaded"]++
	if readErr != nil || len(records) == 0 {
		c20oracle("text without records (or with a reader error) was loaded", J{"text": textShown, "text_hex": thex, "class": class})
	}
	ht, isHeadings := table.(dataset.HeadingsTable)
	if !isHeadings {
		panic("loaded table is not a HeadingsTable")
	}
	hdr := ht.Header()
	hs := make([]string, len(hdr))
	for i, h := range hdr {
		hs[i] = c20hex(h)
	}
	cj["header"] = hs

	var cols, rows uint
	dimsPanicked, dimsWhat := protect(func() { cols, rows = table.ColumnAndRowSize() })
	if dimsPanicked {
		cj["dims"] = nil
		cj["cells"] = [][]J{}
		cj["probes"] = [][]interface{}{}
		emitCase(cj)
		c20oracle("ColumnAndRowSize panicked on a loaded table", J{"text": textShown, "text_hex": thex, "panic": dimsWhat, "class": class})
		return
	}
	cj["dims"] = []uint{cols, rows}
	cells := make([][]J, rows)
	for r := uint(0); r < rows; r++ {
		cells[r] = make([]J, cols)
		for c := uint(0); c < cols; c++ {
			o := J{}
			var v interface{}
			var s string
			p1, _ := protect(func() { v = table.Cell(c, r) })
			p2, _ := protect(func() { s = table.CellString(c, r) })
			if p1 {
				o["cell"] = nil
			} else {
				o["cell"] = c20cellObs(v)
			}
			if p2 {
				o["str"] = nil
			} else {
				o["str"] = c20hex(s)
			}
			cells[r][c] = o
		}
	}
	cj["cells"] = cells
	probes := [][]interface{}{}
	probe := func(c, r uint) {
		p, _ := protect(func() { _ = table.Cell(c, r) })
		probes = append(probes, []interface{}{c, r, p})
	}
	probe(0, 0)
	probe(cols, 0)
	probe(0, rows)
	probe(cols, rows)
	if cols > 0 && rows > 0 {
		probe(cols-1, rows-1)
		probe(cols-1, rows)
		probe(cols, rows-1)
	}
	probe(1000, 0)
	probe(0, 1000)
	cj["probes"] = probes
	emitCase(cj)

	// ---- implementation-side oracle: the property itself, evaluated on the real outputs ----
	if readErr != nil || len(records) == 0 {
		return
	}
	okHeader := len(hdr) == len(records[0])
	for i := 0; okHeader && i < len(hdr); i++ {
		okHeader = hdr[i] == records[0][i]
	}
	if !okHeader {
		c20oracle("header differs from the first record", J{"text": textShown, "text_hex": thex, "class": class})
	}
	if cols != uint(len(records[0])) || rows != uint(len(records)-1) {
		c20oracle("reported dimensions differ from (header columns, data rows)",
			J{"text": textShown, "text_hex": thex, "cols": cols, "rows": rows, "class": class})
		return
	}
	for r := uint(0); r < rows; r++ {
		for c := uint(0); c < cols; c++ {
			f := records[r+1][c]
			var v interface{}
			var s string
			p, _ := protect(func() { v = table.Cell(c, r); s = table.CellString(c, r) })
			if p {
				c20oracle("cell below the reported dimensions cannot be read", J{"text": textShown, "text_hex": thex, "class": class})
				continue
			}
			if s != f {
				c20oracle("field is not read back verbatim by CellString",
					J{"field": f, "observed_cell": fmt.Sprintf("%T(%v)", v, v), "observed_cell_string": s, "class": class})
			}
			want, err := strconv.ParseFloat(f, 64)
			if err == nil {
				got, isFloat := v.(float64)
				if !isFloat || !(got == want || (math.IsNaN(got) && math.IsNaN(want))) {
					c20oracle("numeric field is not loaded as that number", J{"field": f, "observed": fmt.Sprint(v), "class": class})
				}
			} else {
				gotS, isString := v.(string)
				if !isString || gotS != f {
					c20oracle("non-numeric field is not loaded as a text cell",
						J{"field": f, "observed_cell": fmt.Sprintf("%T(%v)", v, v), "observed_cell_string": s})
				}
			}
		}
	}
}

// ---- generators ----

var c20boolish = []string{"t", "T", "TRUE", "true", "True", "f", "F", "FALSE", "false", "False"}

func c20genField(rng *prng) (string, string) {
	letters := "abcdefghijklmnopqrstuvwxyzABCDEFGHIJKLMNOPQRSTUVWXYZ"
	word := func(n int) string {
		b := make([]byte, n)
		for i := range b {
			b[i] = letters[rng.intn(len(letters))]
		}
		return string(b)
	}
	digits := func(n int) string {
		b := make([]byte, n)
		for i := range b {
			b[i] = byte('0' + rng.intn(10))
		}
		return string(b)
	}
	switch rng.intn(16) {
	case 0:
		return word(1 + rng.intn(8)), "word"
	case 1:
		return strconv.Itoa(rng.intn(2000) - 200), "small_int"
	case 2:
		return digits(1 + rng.intn(25)), "digit_string"
	case 3:
		return []string{"12.5", ".5", "5.", "-0.0", "-0", "+3.25", "0.001", "1123.266", "00.10", "1.2.3", "."}[rng.intn(11)], "decimal"
	case 4:
		return []string{"1E3", "2e-3", "1e309", "1E308", "0E999", "1e-400", "1e", "e1", "1e+", "12E05", "1E+2", "9E15", "1E16", "1e22", "1.5e300",
			"179769313486231570814527423731704356798070567525844996598917476803157260780028538760589558632766878171540458953514382464234321326889464182768467546703537516986049910576551282076245490090389328944075868508455133942304583236903222948165808559332123348274797826204144723168738177180919299881250404026184124858368",
			"179769313486231580793728971405303415079934132710037826936173778980444968292764750946649017977587207096330286416692887910946555547851940402630657488671505820681908902000708383676273854845817711531764475730270069855571366959622842914819860834936475292719074168444365510704342711559699508093042880177904174497791",
			"179769313486231580793728971405303415079934132710037826936173778980444968292764750946649017977587207096330286416692887910946555547851940402630657488671505820681908902000708383676273854845817711531764475730270069855571366959622842914819860834936475292719074168444365510704342711559699508093042880177904174497792"}[rng.intn(18)], "exponent"
	case 5:
		return c20boolish[rng.intn(len(c20boolish))], "bool_literal"
	case 6:
		return []string{"tRUE", "yes", "no", "TrUe", "tt", "ff", "fALSE", "truE", "1", "0", "T ", "on"}[rng.intn(12)], "bool_near_miss"
	case 7:
		return []string{"inf", "-Inf", "NaN", "nan", "Infinity", "+infinity", "infin", "+nan", "0x1p-2", "0X1P3", "1_000", "0x", "_1", "1__0", "0x_1p0"}[rng.intn(15)], "special_float_syntax"
	case 8:
		hexd := "0123456789ABCDEF"
		n := 1 + rng.intn(6)
		b := make([]byte, n)
		for i := range b {
			b[i] = hexd[rng.intn(16)]
		}
		if rng.chance(0.3) {
			return string(b) + ":" + string(b[:1+rng.intn(n)]), "hex_encoding"
		}
		return string(b), "hex_encoding"
	case 9:
		return []string{"a,b", "say \"hi\"", "line1\nline2", "cr\rlf", ",", "\"", "a, b", "1,5"}[rng.intn(8)], "needs_quoting"
	case 10:
		return []string{" x", "  12", " T", "x ", "12 ", " ", "\tq"}[rng.intn(7)], "spaces"
	case 11:
		return "", "empty"
	case 12:
		return []string{"\xff\xfe", "caf\xc3\xa9", "\xe2\x82\xac", "\x00", "\x80abc", "\xef\xbb\xbfid"}[rng.intn(6)], "non_ascii_bytes"
	case 13:
		return []string{"As-Is", "12-of-40", "Optimised", "Pareto front member 3 of 8", "As-is state; zero active management actions"}[rng.intn(5)], "summary_words"
	case 14:
		return fmt.Sprintf("%.3f", (rng.float()-0.2)*20000), "three_decimals"
	default:
		return strconv.FormatFloat(math.Ldexp(rng.float()-0.5, rng.intn(120)-60), 'g', -1, 64), "shortest_float"
	}
}

func c20quote(f string, rng *prng) string {
	must := strings.ContainsAny(f, ",\"\n\r") || (len(f) > 0 && (f[0] == ' ' || f[0] == '\t'))
	if must || rng.chance(0.1) {
		return "\"" + strings.ReplaceAll(f, "\"", "\"\"") + "\""
	}
	return f
}

func c20structured(rng *prng) (string, string) {
	cols := 1 + rng.intn(5)
	rows := rng.intn(6)
	if rng.chance(0.1) {
		rows = 0
	}
	eol := "\n"
	if rng.chance(0.3) {
		eol = "\r\n"
	}
	sep := ","
	if rng.chance(0.3) {
		sep = ", " // crem's own marshaller writes ", "
	}
	class := "structured"
	var sb strings.Builder
	if rng.chance(0.08) {
		sb.WriteString("\xef\xbb\xbf")
		class = "structured_bom"
	}
	ragged := rng.chance(0.12)
	for r := 0; r <= rows; r++ {
		n := cols
		if ragged && r > 0 && rng.chance(0.5) {
			n = cols + rng.intn(3) - 1
			if n < 1 {
				n = 1
			}
			if n != cols {
				class = "ragged"
			}
		}
		for c := 0; c < n; c++ {
			if c > 0 {
				sb.WriteString(sep)
			}
			var f string
			if r == 0 && rng.chance(0.7) {
				f = []string{"Solution", "Actions", "Summary", "SedimentProduced", "id", "v", "PlanningUnit"}[rng.intn(7)]
			} else {
				var k string
				f, k = c20genField(rng)
				c20stats["gen_"+k]++
			}
			sb.WriteString(c20quote(f, rng))
		}
		if r < rows || rng.chance(0.8) {
			sb.WriteString(eol)
		}
		if rng.chance(0.05) {
			sb.WriteString(eol) // blank line: skipped by the reader
		}
	}
	return sb.String(), class
}

func c20malformed(rng *prng) string {
	alphabet := []string{",", "\"", "\n", "\r", " ", "a", "1", "T", ".", "e", "\xff", "F", "-", "0"}
	n := rng.intn(40)
	var sb strings.Builder
	for i := 0; i < n; i++ {
		sb.WriteString(alphabet[rng.intn(len(alphabet))])
	}
	return sb.String()
}

// a text of the same length that differs from t in one character of its data (after the header line): a digit becomes
// another digit, a letter another letter
func c20sameLengthVariant(t string, rng *prng) (string, bool) {
	nl := strings.IndexByte(t, '\n')
	if nl < 0 || nl+1 >= len(t) {
		return "", false
	}
	b := []byte(t)
	var cand []int
	for i := nl + 1; i < len(b); i++ {
		if (b[i] >= '0' && b[i] <= '9') || (b[i] >= 'a' && b[i] <= 'z') {
			cand = append(cand, i)
		}
	}
	if len(cand) == 0 {
		return "", false
	}
	i := cand[rng.intn(len(cand))]
	if b[i] >= '0' && b[i] <= '9' {
		b[i] = '0' + (b[i]-'0'+1+byte(rng.intn(8)))%10
	} else {
		b[i] = 'a' + (b[i]-'a'+1+byte(rng.intn(24)))%26
	}
	return string(b), true
}

func runC20(args []string) {
	tier := "quick"
	if len(args) > 0 {
		tier = args[0]
	}
	rng := newPrng(20)

	// fixed degenerate and boundary texts
	fixed := []string{
		"", "\n", "\n\n\n", "\r\n", " ", "a", "a\n", "a,b\n", "a,b", ",\n", ",", "\"\"\n", "\"\"", "\"", "a\"b\n", "\"a\"b\n",
		"a\nT\n", "a\nF\n", "a\ntrue\n", "a,b\nt,f\n", "a\n1E3\n", "a\n1000000\n", "a\n0123\n",
		"a,b\n1\n", "a,b\n1,2,3\n", "a\n1\n\n2\n", "a,b\r\n1,2\r\n", "\xef\xbb\xbfa,b\n1,2\n",
		"a,b\n1,\"x\ny\"\n", "a,b\n\"1\",\"T\"\n", "a, b\n 1, 2\n", "T\n", "1\n", "1,2\n3,4\n",
		"Solution, V, Actions, Summary\nAs-Is, 1.000, 0, note\n1-of-2, 2.500, 1E3, other\n2-of-2, 2.500, F, x\n",
		"a\n\"unterminated\n", "a\n\"x\"y\"\n", "#c\n1\n", "a;b\n1;2\n", "a\tb\n1\t2\n",
		"a\n" + strings.Repeat("9", 400) + "\n", "a\n1e99999\n", "a\n-1e-99999\n", "a\n0." + strings.Repeat("0", 350) + "1\n",
	}
	for _, t := range fixed {
		c20case(t, "fixed_degenerate")
	}
	// very long field / many rows
	c20case("h\n"+strings.Repeat("x", 5000)+"\n", "very_long_field")
	c20case("h\n"+strings.Repeat("7", 5000)+"\n", "very_long_field")
	{
		var sb strings.Builder
		sb.WriteString("a,b,c\n")
		n := 120
		if tier == "thorough" {
			n = 600
		}
		for i := 0; i < n; i++ {
			sb.WriteString(fmt.Sprintf("%d,%s,%.3f\n", i, c20boolish[i%len(c20boolish)], float64(i)*1.25))
		}
		c20case(sb.String(), "many_rows")
	}
	// every bool literal and the near misses, alone in a cell
	for _, b := range c20boolish {
		c20case("h\n"+b+"\n", "bool_literal_alone")
	}
	nStructured, nMalformed := 500, 300
	if tier == "thorough" {
		nStructured, nMalformed = 9000, 6000
	}
	for i := 0; i < nStructured; i++ {
		t, class := c20structured(rng)
		c20case(t, class)
	}
	for i := 0; i < nMalformed; i++ {
		c20case(c20malformed(rng), "malformed_random")
	}
	// the file route: the same kinds of text loaded through DataSet.Load from ONE table file that is replaced again and
	// again (same path, same modification time); every other text is a same-length variant of its predecessor (one
	// character of the data changed), which is what an edited input file looks like
	{
		dir, err := os.MkdirTemp("", "c20files")
		if err != nil {
			panic(err)
		}
		defer os.RemoveAll(dir)
		c20fileDir = dir
		if err := os.WriteFile(filepath.Join(dir, "meta.csv"), []byte("TableName,FilePath\nt,t.csv\n"), 0o666); err != nil {
			panic(err)
		}
		nFile := 120
		if tier == "thorough" {
			nFile = 2000
		}
		for _, t := range fixed {
			c20caseVia(t, "fixed_degenerate", true)
		}
		for i := 0; i < nFile; i++ {
			t, class := c20structured(rng)
			c20caseVia(t, class, true)
			if v, ok := c20sameLengthVariant(t, rng); ok {
				c20caseVia(v, "replaced_same_length", true)
				c20stats["file_replaced_same_length"]++
			}
		}
	}
	// tables larger than the usual buffer and limit sizes (64 KiB, 1 MiB, a few MiB), by both routes: the heading is
	// padded so that the size marks fall on a row boundary, inside the last column and inside an earlier column
	{
		sizes := []int{70000, 1100000}
		if tier == "thorough" {
			sizes = []int{70000, 600000, 1100000, 2200000, 4300000}
		}
		for _, size := range sizes {
			for pad := 0; pad < 6; pad++ {
				var sb strings.Builder
				sb.WriteString("id,label" + strings.Repeat("x", pad*3) + ",amount\n")
				rows := 0
				for sb.Len() < size {
					sb.WriteString(fmt.Sprintf("%d,row %d,%d.25\n", rows, rows, rows))
					rows++
				}
				c20LargeRecipe = fmt.Sprintf("heading 'id,label'+%d*'x'+',amount', then rows 'i,row i,i.25' for i = 0..%d (%d bytes)", pad*3, rows-1, sb.Len())
				c20caseVia(sb.String(), "large_table", false)
				c20caseVia(sb.String(), "large_table", true)
				c20LargeRecipe = ""
				c20stats["large_tables"]++
			}
		}
	}
	// the refutation witness of Properties/C20.v, replayed on the implementation
	{
		ds := csv.NewDataSet("w")
		ds.ParseCsvTextIntoTable("t", "a\nT\n")
		confirmed := false
		if t, err := ds.Table("t"); err == nil && ds.Errors() == nil {
			_, isBool := t.Cell(0, 0).(bool)
			confirmed = isBool && t.CellString(0, 0) == "T"
		}
		emit(J{"kind": "witness", "name": "C20_non_numeric_as_text_cell_refuted", "input": "a\\nT\\n", "confirmed": confirmed})
	}
	emit(J{"kind": "stat", "stats": c20stats})
}

func init() { register("C20", runC20) }
