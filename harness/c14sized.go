//go:build verif

package main

// C14 -- the request streams of c14.go on engines configured with scenarios over GENERATED catchments whose number of
// management actions sits on and around the 64-bit word boundaries of the action encoding (pkg/archive.BooleanArchive:
// 64 actions per word).  The shipped engine scenario offers 19 actions, so nothing of c14.go ever reaches an encoding
// with a full last word or with more than one word.
//
// Per size n (catchSizedDataset: exactly n actions, through the real loader):
//   * route triples: the SAME target action set reached from the SAME prefix state by whole-table upload / per-subcatchment
//     updates / encoding patch, on three engines; targets fill, empty and straddle the last word (all actions, none, only
//     the last action, only action 62 / 63 / 64, actions 62..64, all but the last word, only the last word, all but the
//     last action, random); the prefix state differs from the target at the word-boundary actions, so every route has to
//     SET and to CLEAR there.  Compared between the routes: every readable resource (GET /model, /model/actions/active,
//     /model/actions/applicable, /model/subcatchment/<id> for every planning unit, the texts);
//   * the independent oracle: the served active set IS the target; GET /model's Encoding is the canonical encoding of
//     the served set computed by c14CanonEncoding (no code of pkg/archive); the served variables equal a fresh model's
//     valuation of the served set (c14Desc.freshEval); a request answered with an error status changes no resource;
//   * failed writes around a state whose last word is in use (encodings with a word too few / too many, a 17-digit word,
//     a good encoding followed by a bad one, tables with a bad cell, unsupported action types, wrong content types);
//   * random walks (c14Gen.step) and a history of replaced solution summaries with the generators biased to those sets.
// Everything goes through c14Engine.send: the Coq model (Engine.v, parameterised by the scenario descriptor: action
// list, planning units, as-is values; valuation = the served set itself, checked against a fresh instance; the sampled
// served totals recomputed by Catchment.canon_total from the exported data set) decides every response and every
// resource after every request exactly as for the shipped scenario.

import (
	"encoding/json"
	"fmt"
	"os"
	"path/filepath"
	"sort"
	"strconv"
	"strings"
)

// c14CanonEncoding: the canonical text of an action set, written from the format's description alone: ceil(n/64) words,
// action k = bit (k mod 64) of word (k div 64), each word in upper-case hexadecimal without leading zeros, joined by ':'.
func c14CanonEncoding(bits []bool) string {
	nw := (len(bits) + 63) / 64
	words := make([]string, nw)
	for w := 0; w < nw; w++ {
		var v uint64
		for k := 0; k < 64 && 64*w+k < len(bits); k++ {
			if bits[64*w+k] {
				v |= uint64(1) << uint(k)
			}
		}
		words[w] = strings.ToUpper(strconv.FormatUint(v, 16))
	}
	return strings.Join(words, ":")
}

// c14IndependentDecode: the action set an encoding text denotes for n actions, read from the format's description alone:
// exactly ceil(n/64) ':'-separated words, each a non-empty run of hexadecimal digits (either case; no sign, prefix,
// underscore or space) whose value fits 64 bits; bits of the last word beyond action n-1 are ignored.  ok = false: no encoding of n actions.
func c14IndependentDecode(n int, text string) (bits []bool, ok bool) {
	words := strings.Split(text, ":")
	if len(words) != (n+63)/64 {
		return nil, false
	}
	bits = make([]bool, n)
	for w, word := range words {
		if len(word) == 0 {
			return nil, false
		}
		digits := strings.TrimLeft(word, "0")
		if len(digits) > 16 {
			return nil, false
		}
		var v uint64
		for i := 0; i < len(digits); i++ {
			c := digits[i]
			var dgt uint64
			switch {
			case c >= '0' && c <= '9':
				dgt = uint64(c - '0')
			case c >= 'a' && c <= 'f':
				dgt = uint64(c-'a') + 10
			case c >= 'A' && c <= 'F':
				dgt = uint64(c-'A') + 10
			default:
				return nil, false
			}
			v = v<<4 | dgt
		}
		for k := 0; k < 64 && 64*w+k < n; k++ {
			bits[64*w+k] = v>>uint(k)&1 == 1
		}
	}
	return bits, true
}

// c14RouteDiff: the first readable resource (as fetched after the engines' last requests) on which two engines differ
func c14RouteDiff(a, b *c14Engine) string {
	paths := []string{}
	for p := range a.raw {
		paths = append(paths, p)
	}
	for p := range b.raw {
		if _, both := a.raw[p]; !both {
			paths = append(paths, p)
		}
	}
	sort.Strings(paths)
	for _, p := range paths {
		x, y := a.raw[p], b.raw[p]
		if x.Status != y.Status || x.Ctype != y.Ctype || c14NoTime(x.Body) != c14NoTime(y.Body) {
			return p
		}
	}
	return ""
}

type c14Sized struct {
	n       int
	text    string // the scenario over the generated data set
	limited string // the same data set under an implementation-cost limit that some action sets exceed ("" if none)
	d       *c14Desc
	sets    [][]bool
	names   []string
	summary string // a valid solution summary for this scenario, in the shape of the shipped one
}

func c14BitsOf(n int, on func(i int) bool) []bool {
	b := make([]bool, n)
	for i := range b {
		b[i] = on(i)
	}
	return b
}

// c14BoundarySets: the action sets that fill, empty and straddle the words of the encoding of n actions
func c14BoundarySets(p *prng, n int, nrandom int) (sets [][]bool, names []string) {
	seen := map[string]bool{}
	add := func(name string, b []bool) {
		if k := c14BitKey(b); !seen[k] {
			seen[k] = true
			sets = append(sets, b)
			names = append(names, name)
		}
	}
	lastWord := (n - 1) / 64
	add("all", c14BitsOf(n, func(int) bool { return true }))
	add("none", c14BitsOf(n, func(int) bool { return false }))
	add("only-the-last-action", c14BitsOf(n, func(i int) bool { return i == n-1 }))
	for _, k := range []int{62, 63, 64, 127, 128, 191, 192} {
		if k < n {
			k := k
			add("only-action-"+strconv.Itoa(k), c14BitsOf(n, func(i int) bool { return i == k }))
		}
	}
	add("actions-62-63-64", c14BitsOf(n, func(i int) bool { return i >= 62 && i <= 64 }))
	add("all-but-the-last-word", c14BitsOf(n, func(i int) bool { return i/64 != lastWord }))
	add("only-the-last-word", c14BitsOf(n, func(i int) bool { return i/64 == lastWord }))
	add("all-but-the-last-action", c14BitsOf(n, func(i int) bool { return i != n-1 }))
	add("only-the-first-action", c14BitsOf(n, func(i int) bool { return i == 0 }))
	for t := 0; t < nrandom; t++ {
		dens := p.float()
		add("random-"+strconv.Itoa(t), c14BitsOf(n, func(int) bool { return p.chance(dens) }))
	}
	return sets, names
}

func c14ActiveIndices(bits []bool) []int {
	out := []int{}
	for i, b := range bits {
		if b {
			out = append(out, i)
		}
	}
	return out
}

// c14SubPutsDiff: per-subcatchment updates that take the model from [from] to [to]: one PUT (listing every action of the
// unit with its target state) for every planning unit with an action that differs, plus [extra] units that do not
func c14SubPutsDiff(d *c14Desc, from, to []bool, extra int) []c14Req {
	reqs := []c14Req{}
	for _, pu := range d.puIds {
		entries := []string{}
		differs := false
		for i, a := range d.actions {
			if d.actPu[i] == pu {
				v := "Inactive"
				if to[i] {
					v = "Active"
				}
				differs = differs || from[i] != to[i]
				entries = append(entries, fmt.Sprintf(`{"Name":%q,"Value":%q}`, a[1], v))
			}
		}
		if len(entries) == 0 {
			continue
		}
		if !differs {
			if extra <= 0 {
				continue
			}
			extra--
		}
		reqs = append(reqs, c14Req{"PUT", c14Api + "/model/subcatchment/" + strconv.FormatUint(pu, 10), c14Json, "[" + strings.Join(entries, ",") + "]"})
	}
	return reqs
}

func c14ReqsJ(rs []c14Req) []J {
	out := []J{}
	for _, q := range rs {
		out = append(out, J{"method": q.Method, "path": q.Path, "ctype": q.Ctype, "body": c14S(q.Body)})
	}
	return out
}

// sizedSetup: the scenario texts over one generated data set, their descriptors, the boundary sets, a valid summary
func (g *c14Gen) sizedSetup(n int, meta string, composition J, nrandom int, servedCap int) *c14Sized {
	w := g.w
	rel := meta
	if wd, err := os.Getwd(); err == nil {
		// catchment.Model.deriveDataSourcePath joins the working directory and the configured path unconditionally
		// (see harness/c13.go: c13scenarioText), so the data set is named relative to the working directory
		if r, relErr := filepath.Rel(wd, meta); relErr == nil {
			rel = filepath.ToSlash(r)
		}
	}
	scenario := func(name string, tail string) string {
		t := strings.Replace(g.valid, `Name = "Kirkpatrick"`, "Name = "+strconv.Quote(name), 1)
		return strings.Replace(t, "testdata/ValidModel.csv", rel, 1) + tail
	}
	z := &c14Sized{n: n, text: scenario(fmt.Sprintf("Generated catchment, %d management actions", n), "")}
	if w.tomlView(z.text)["k"] != "ok" || w.descs[z.text] == nil {
		w.stats["sized:scenario_not_accepted"]++
		emit(J{"kind": "note", "what": "the scenario over a generated catchment did not build a model; size skipped", "actions": n, "view": w.views[z.text]})
		return nil
	}
	z.d = w.descs[z.text]
	if len(z.d.actions) != n {
		panic("generated catchment does not offer the requested number of actions to the engine's model")
	}
	files := J{}
	if names, _ := filepath.Glob(filepath.Join(filepath.Dir(meta), "*.csv")); names != nil {
		for _, f := range names {
			b, _ := os.ReadFile(f)
			files[filepath.Base(f)] = string(b)
		}
	}
	z.d.gen = J{"actions": n, "composition": composition, "scenario": z.text, "dataset_files": files,
		"note": "the scenario's DataSourcePath names SizedModel.csv of these files relative to the engine's working directory"}
	z.d.servedCap = servedCap
	z.sets, z.names = c14BoundarySets(g.p, n, nrandom)
	// a limit that the all-active set exceeds and the as-is state respects: half of the full implementation cost
	if cm, kind := c14BuildModel(z.d.config); kind == "ok" {
		for i := 0; i < n; i++ {
			cm.SetManagementAction(i, true)
		}
		if v, has := (*cm.NameMappedVariables())["ImplementationCost"]; has && v.Value() > 2 {
			z.limited = scenario(fmt.Sprintf("Generated catchment, %d management actions, limited", n),
				"MaximumImplementationCost = "+strconv.FormatFloat(float64(int64(v.Value()/2)), 'f', 1, 64)+"\n")
		}
	}
	if z.limited != "" {
		if w.tomlView(z.limited)["k"] != "ok" || w.descs[z.limited] == nil {
			z.limited = ""
		} else {
			dl := w.descs[z.limited]
			dl.gen = J{"actions": n, "composition": composition, "scenario": z.limited, "dataset_files": files}
			dl.servedCap = 2
		}
	}
	// the summary: the shipped header, the As-Is row with this model's as-is values, eight rows of boundary sets
	hdr := strings.Split(g.summary, "\n")[0]
	cols := strings.Split(hdr, ", ")
	asis := []string{"As-Is"}
	for _, c := range cols[1 : len(cols)-2] {
		asis = append(asis, strconv.FormatFloat(z.d.asis[c], 'f', -1, 64))
	}
	none := make([]bool, n)
	asis = append(asis, c14CanonEncoding(none), "As-is state; zero active management actions")
	lines := []string{hdr, strings.Join(asis, ", ")}
	for k := 1; k <= 8; k++ {
		set := z.sets[(k*5)%len(z.sets)]
		row := []string{fmt.Sprintf("%d-of-8", k)}
		for range cols[1 : len(cols)-2] {
			row = append(row, strconv.Itoa(k)+".5")
		}
		row = append(row, c14CanonEncoding(set), fmt.Sprintf("Pareto front member %d of 8", k))
		lines = append(lines, strings.Join(row, ", "))
	}
	z.summary = strings.Join(lines, "\n") + "\n"
	w.stats["sized:catchments"]++
	w.stats[fmt.Sprintf("sized:actions:%03d", n)]++
	return z
}

// sizedTriple: [target] reached from the state [from] by the three write routes, on three engines
func (g *c14Gen) sizedTriple(z *c14Sized, tag string, name string, from, target []bool, fullSweep bool) {
	w, p, d := g.w, g.p, z.d
	prefix := []c14Req{{"POST", c14Api + "/scenario", c14Toml, z.text}}
	if p.chance(0.25) {
		prefix = append(prefix, c14Req{"POST", c14Api + "/solutions", c14Csv, z.summary})
	}
	if len(c14ActiveIndices(from)) > 0 || p.chance(0.5) {
		prefix = append(prefix, c14Req{"PUT", c14Api + "/model/actions/active", c14Csv, c14TableFor(d, from)})
	}
	subs := c14SubPutsDiff(d, from, target, 1)
	if fullSweep {
		subs = c14SubPutsFor(d, target)
	}
	routeNames := []string{"whole-table upload", "per-subcatchment updates", "encoding patch"}
	routes := [][]c14Req{
		{{"PUT", c14Api + "/model/actions/active", c14Csv, c14TableFor(d, target)}},
		subs,
		{{"PATCH", c14Api + "/model", c14Json, `[{"Name":"Encoding","Value":"` + c14CanonEncoding(target) + `"}]`}},
	}
	failing := func(what, detail string, extra J) {
		w.oracle++
		last := routes[2][0]
		line := J{"kind": "oracle", "what": what, "shape": "route triple on a generated catchment", "detail": detail,
			"actions": z.n, "target_set": name, "target_active_action_indices": c14ActiveIndices(target), "target_encoding": c14CanonEncoding(target),
			"state_before_active_action_indices": c14ActiveIndices(from),
			"method": last.Method, "path": last.Path, "body": c14Short(last.Body),
			"prefix_requests": c14ReqsJ(prefix),
			"route_requests": J{"whole_table_upload": c14ReqsJ(routes[0]), "per_subcatchment_updates": c14ReqsJ(routes[1]), "encoding_patch": c14ReqsJ(routes[2])}}
		for k, v := range extra {
			line[k] = v
		}
		if d.genShown {
			line["generated_catchment"] = J{"actions": z.n, "see": "the first oracle line on this catchment"}
		} else {
			line["generated_catchment"] = d.gen
			d.genShown = true
		}
		emit(line)
	}
	engines := []*c14Engine{}
	for ri, route := range routes {
		e := w.newEngine(fmt.Sprintf("sized-%d-%s-%d", z.n, tag, ri))
		engines = append(engines, e)
		for _, q := range prefix {
			e.send(q)
		}
		status := 0
		for _, q := range route {
			status = e.send(q).Status
		}
		e.finish("sized-route-triple")
		if e.dead {
			continue // the panic has its own oracle line
		}
		served, ok := e.servedBits(d)
		if !ok || c14BitKey(served) != c14BitKey(target) {
			failing("route-did-not-reach-its-action-set", fmt.Sprintf("%s: the last request was answered %d, but GET /model/actions/active then serves the actions %v where the route sets %v",
				routeNames[ri], status, c14ActiveIndices(served), c14ActiveIndices(target)), J{"route": routeNames[ri]})
		}
		// the Encoding attribute GET /model serves, against the harness's own encoding of the TARGET
		var doc map[string]interface{}
		json.Unmarshal([]byte(e.raw[c14Api+"/model"].Body), &doc)
		attrs, _ := doc["Attributes"].([]interface{})
		servedEnc := interface{}(nil)
		for _, a := range attrs {
			if obj, _ := a.(map[string]interface{}); obj != nil && obj["Name"] == "Encoding" {
				servedEnc = obj["Value"]
			}
		}
		if servedEnc != c14CanonEncoding(target) {
			failing("served-encoding-is-not-the-encoding-of-the-set-written", fmt.Sprintf("%s: GET /model serves Encoding %v, the canonical encoding of the set written is %s",
				routeNames[ri], servedEnc, c14CanonEncoding(target)), J{"route": routeNames[ri]})
		}
	}
	w.stats["sized:route_triples"]++
	w.stats["sized:route_triples:"+strings.TrimRight(name, "-0123456789")]++
	for _, other := range []int{1, 2} {
		if engines[0].dead || engines[other].dead {
			continue
		}
		if diff := c14RouteDiff(engines[0], engines[other]); diff != "" {
			failing("routes-disagree", fmt.Sprintf("%s and %s reach the same action set but GET %s differs between them", routeNames[0], routeNames[other], diff),
				J{"differing_resource": diff, "via_" + strings.ReplaceAll(routeNames[0], " ", "_"): c14Short(c14NoTime(engines[0].raw[diff].Body)),
					"via_" + strings.ReplaceAll(routeNames[other], " ", "_"): c14Short(c14NoTime(engines[other].raw[diff].Body))})
		}
	}
}

// sizedTriples: one triple per boundary set; the state before differs from the target at the word-boundary actions
func (g *c14Gen) sizedTriples(z *c14Sized, maxTriples int, sweep bool) {
	p := g.p
	n := z.n
	count := 0
	for k, target := range z.sets {
		if count >= maxTriples {
			break
		}
		from := append([]bool{}, target...)
		flipped := 0
		for _, i := range []int{0, 62, 63, 64, 65, 127, 128, 191, 192, 255, n - 2, n - 1} {
			if i >= 0 && i < n && p.chance(0.6) {
				from[i] = !target[i]
				flipped++
			}
		}
		for t := 0; t < 2 || flipped == 0; t++ {
			i := p.intn(n)
			from[i] = !target[i]
			flipped++
		}
		if c14BitKey(from) == c14BitKey(target) { // an index flipped twice
			from[n-1] = !target[n-1]
		}
		g.sizedTriple(z, strconv.Itoa(k), z.names[k], from, target, false)
		count++
	}
	if sweep {
		// one full sweep: from the freshly posted scenario, a PUT for EVERY planning unit
		target := z.sets[len(z.sets)-1]
		if len(c14ActiveIndices(target)) == 0 {
			target = z.sets[0]
		}
		g.sizedTriple(z, "sweep", "full-sweep-"+z.names[len(z.names)-1], make([]bool, n), target, true)
	}
}

// sizedFailedWrites: refused writes around a state whose last word is in use; send() checks after each of them that no
// readable resource changed and (by replaying the history with and without it) that nothing hidden changed either
func (g *c14Gen) sizedFailedWrites(z *c14Sized) {
	w, p, d, n := g.w, g.p, z.d, z.n
	e := w.newEngine(fmt.Sprintf("sized-%d-failed-writes", n))
	state := c14BitsOf(n, func(i int) bool { return i == n-1 || i == 63 || (i%7 == 3 && i/64 == (n-1)/64) })
	other := c14BitsOf(n, func(i int) bool { return i == 0 || i == 62 || i == 64 })
	e.send(c14Req{"POST", c14Api + "/scenario", c14Toml, z.text})
	e.send(c14Req{"PUT", c14Api + "/model/actions/active", c14Csv, c14TableFor(d, state)})
	good := c14CanonEncoding(other)
	words := strings.Split(good, ":")
	patch := func(encs ...string) c14Req {
		entries := []string{}
		for _, enc := range encs {
			entries = append(entries, `{"Name":"Encoding","Value":"`+enc+`"}`)
		}
		return c14Req{"PATCH", c14Api + "/model", c14Json, "[" + strings.Join(entries, ",") + "]"}
	}
	lastPu := strconv.FormatUint(d.actPu[n-1], 10)
	unsupported := ""
	for _, ty := range c14Types {
		offered := false
		for i, a := range d.actions {
			if d.actPu[i] == d.actPu[n-1] && a[1] == ty {
				offered = true
			}
		}
		if !offered {
			unsupported = ty
		}
	}
	table := c14TableFor(d, other)
	bad := []c14Req{
		patch(good + ":0"),                           // a word too many
		patch(strings.Join(words[:len(words)-1], ":")), // a word too few ("" for one word)
		patch(strings.Join(append(append([]string{}, words[:len(words)-1]...), "1FFFFFFFFFFFFFFFF"), ":")), // 17 digits in the last word
		patch(good, "zz"),                                // a good encoding, then a bad one: all or nothing
		patch(good, good+":"),                            // ... then one with an empty last word
		{"PATCH", c14Api + "/model", c14Json, `[{"Name":"Encoding","Value":"` + good + `"},{"Name":"ValidAgainstScenario","Value":false}]`},
		{"PATCH", c14Api + "/model", c14Csv, patch(good).Body},
		{"PUT", c14Api + "/model/actions/active", c14Csv, table + lastPu + ", 2, 0, 0, 0\n"},     // every row good but the last
		{"PUT", c14Api + "/model/actions/active", c14Csv, table + "x" + lastPu + ", 1, 1, 1, 1\n"}, // a planning unit that is no number
		{"PUT", c14Api + "/model/actions/active", c14Json, table},
		{"PUT", c14Api + "/model/actions/active", c14Csv, strings.Replace(table, "SubCatchment", "Subcatchment", 1)},
		{"PUT", c14Api + "/model/subcatchment/" + lastPu, c14Json, `[{"Name":"` + d.actions[n-1][1] + `","Value":"Inactive"},{"Name":"` + d.actions[n-1][1] + `","Value":"inactive"}]`},
		{"PUT", c14Api + "/model/subcatchment/999999", c14Json, `[{"Name":"` + d.actions[n-1][1] + `","Value":"Inactive"}]`},
		{"POST", c14Api + "/solutions", c14Csv, strings.Replace(z.summary, ", "+c14CanonEncoding(z.sets[5%len(z.sets)])+",", ", "+good+":0,", 1)},
		{"POST", c14Api + "/scenario", c14Toml, strings.Replace(z.text, "SizedModel.csv", "NoSuchModel.csv", 1)},
		{"POST", c14Api + "/scenario", c14Json, z.text},
	}
	if unsupported != "" {
		bad = append(bad, c14Req{"PUT", c14Api + "/model/subcatchment/" + lastPu, c14Json, `[{"Name":"` + d.actions[n-1][1] + `","Value":"Inactive"},{"Name":"` + unsupported + `","Value":"Active"}]`})
	}
	for _, k := range c14Perm(p, len(bad)) {
		if e.dead {
			break
		}
		r := e.send(bad[k])
		if !r.Panicked && r.Status == 200 {
			w.stats["sized:failed_write_candidates_answered_200"]++ // the model decides; kept for the evidence
		} else {
			w.stats["sized:failed_writes"]++
		}
	}
	// and the engine still takes the good form of what was refused
	if !e.dead {
		e.send(patch(good))
	}
	if !e.dead {
		e.send(c14Req{"PUT", c14Api + "/model/subcatchment/" + lastPu, c14Json, `[{"Name":"` + d.actions[n-1][1] + `","Value":"Active"}]`})
	}
	e.finish("sized-failed-writes")
}

// sizedWalks: the random walks and a summary history of c14.go, with the generators switched to this catchment
func (g *c14Gen) sizedWalks(z *c14Sized, nwalks int, maxLen int, histories int) {
	w := g.w
	savedScen, savedSummary, savedSets := g.scen, g.summary, g.bsets
	defer func() { g.scen, g.summary, g.bsets = savedScen, savedSummary, savedSets }()
	g.scen = []string{z.text, z.text}
	if z.limited != "" {
		g.scen = append(g.scen, z.limited)
	}
	g.summary, g.bsets = z.summary, z.sets
	for i := 0; i < nwalks; i++ {
		e := w.newEngine(fmt.Sprintf("sized-%d-walk-%d", z.n, i))
		if g.p.chance(0.3) {
			e.chunks = c14ChunkPatterns[1+g.p.intn(len(c14ChunkPatterns)-1)]
		}
		e.send(c14Req{"POST", c14Api + "/scenario", c14Toml, g.pick(g.scen)})
		if g.p.chance(0.4) {
			e.send(c14Req{"POST", c14Api + "/solutions", c14Csv, g.summaryTable(e.currentDesc(), true)})
		}
		n := 4 + g.p.intn(maxLen-3)
		for len(e.steps) < n && !e.dead {
			e.send(g.step(e, 0.2))
		}
		e.finish("sized-walk")
		w.stats["sized:walks"]++
	}
	for i := 0; i < histories; i++ {
		g.summaryHistory(100000+1000*z.n+i, 2+g.p.intn(3), 0.2)
		w.stats["sized:summary_histories"]++
	}
}

// sizedCatchments: all of the above per size; returns the function that removes the generated data sets (they are read
// again whenever a scenario is posted or a fresh instance is evaluated, so they live until the run ends)
func (g *c14Gen) sizedCatchments(tier string) (cleanup func()) {
	saved := g.p
	g.p = newPrng(1464)
	defer func() { g.p = saved }()
	cleanups := []func(){}
	cleanup = func() {
		for _, c := range cleanups {
			c()
		}
	}
	type plan struct {
		n, triples, walks, walkLen, histories, nrandom, served int
		sweep                                                  bool
	}
	tiny := 1 + g.p.intn(2)
	plans := []plan{
		{tiny, 4, 1, 10, 0, 1, 3, true},
		{63, 14, 2, 10, 0, 1, 3, false},
		{64, 14, 3, 12, 1, 2, 4, true},
		{65, 14, 2, 10, 0, 1, 3, false},
		{128, 14, 3, 12, 1, 1, 4, false},
	}
	if tier == "thorough" {
		plans = []plan{}
		for _, n := range []int{1, 2, 3, 63, 64, 65, 127, 128, 129, 191, 192, 193, 256} {
			plans = append(plans, plan{n, 30, 6, 25, 2, 6, 8, true})
		}
	}
	for _, pl := range plans {
		meta, clean, composition := catchSizedDataset(g.p, pl.n)
		cleanups = append(cleanups, clean)
		z := g.sizedSetup(pl.n, meta, composition, pl.nrandom, pl.served)
		if z == nil {
			continue
		}
		g.sizedTriples(z, pl.triples, pl.sweep)
		g.sizedFailedWrites(z)
		g.sizedWalks(z, pl.walks, pl.walkLen, pl.histories)
	}
	return cleanup
}
