//go:build verif

package main

// C15probe: replays the request shapes of the findings D11 / D12c-j (DESIGN.md section 7) and a few ordering
// suspicions through the real Mux.ServeHTTP under recover, printing one JSON line per step.  Used to (re)confirm
// the refutation witnesses on whatever tree the harness was compiled against.

import (
	"fmt"
	"io/ioutil"
	"net/http/httptest"
	"os"
	"path/filepath"
	"strings"

	engineApi "github.com/LindsayBradford/crem/cmd/cremengine/engine/api"
	"github.com/LindsayBradford/crem/pkg/logging/loggers"
	"github.com/LindsayBradford/crem/pkg/threading"
)

func init() { register("C15probe", runC15probe) }

type c15Resp struct {
	Panicked bool
	Panic    string
	Status   int
	Ctype    string
	Body     string
}

func c15NewMux() *engineApi.Mux {
	threading.ResetMainThreadChannel()
	ch := threading.GetMainThreadChannel()
	m := new(engineApi.Mux).Initialise().WithMainThreadChannel(&ch)
	m.SetLogger(loggers.NewNullLogger())
	return m
}

func c15Send(m *engineApi.Mux, method, path, ctype, body string) (r c15Resp) {
	defer func() {
		if p := recover(); p != nil {
			r.Panicked = true
			r.Panic = fmt.Sprint(p)
		}
	}()
	w := httptest.NewRecorder()
	req := httptest.NewRequest(method, "http://dummyUrl"+path, strings.NewReader(body))
	if ctype != "" {
		req.Header.Add("Content-Type", ctype)
	}
	m.ServeHTTP(w, req)
	res := w.Result()
	b, _ := ioutil.ReadAll(res.Body)
	r.Status = res.StatusCode
	r.Ctype = res.Header.Get("Content-Type")
	r.Body = string(b)
	return r
}

func c15Chdir() string {
	repo, _ := os.Getwd()
	dir := filepath.Join(repo, "cmd", "cremengine", "engine", "api")
	if err := os.Chdir(dir); err != nil {
		panic(err)
	}
	return dir
}

func c15ReadFile(p string) string {
	b, err := ioutil.ReadFile(p)
	if err != nil {
		panic(err)
	}
	return string(b)
}

func runC15probe(args []string) {
	c15Chdir()
	valid := c15ReadFile("testdata/ValidTestScenario.toml")
	invalidModel := c15ReadFile("testdata/InvalidModelTestScenario.toml")
	summary := c15ReadFile("testdata/ValidSolutions-Summary.csv")
	const toml, csv, js = "application/toml", "text/csv", "application/json"
	short := func(s string) string {
		s = strings.ReplaceAll(s, "\n", " ")
		if len(s) > 260 {
			return s[:260] + "..."
		}
		return s
	}
	show := func(name string, r c15Resp) {
		emit(J{"kind": "probe", "name": name, "panicked": r.Panicked, "panic": short(r.Panic), "status": r.Status, "ctype": r.Ctype, "body": short(r.Body)})
	}
	fresh := func() *engineApi.Mux {
		m := c15NewMux()
		r := c15Send(m, "POST", "/api/v1/scenario", toml, valid)
		if r.Status != 200 {
			show("SETUP-FAILED", r)
		}
		return m
	}
	// D11
	{
		m := fresh()
		show("D11 failed POST /scenario", c15Send(m, "POST", "/api/v1/scenario", toml, invalidModel))
		r := c15Send(m, "GET", "/api/v1/scenario", "", "")
		emit(J{"kind": "probe", "name": "D11 GET /scenario after failed POST returns the failed text", "value": r.Body == invalidModel, "still_valid_text": r.Body == valid})
		show("D11 GET /model after failed POST", c15Send(m, "GET", "/api/v1/model", "", ""))
		show("D11 valid POST after failed POST", c15Send(m, "POST", "/api/v1/scenario", toml, valid))
		m2 := c15NewMux()
		show("D11b first POST invalid", c15Send(m2, "POST", "/api/v1/scenario", toml, invalidModel))
		show("D11b GET /scenario", c15Send(m2, "GET", "/api/v1/scenario", "", ""))
		show("D11b GET /model", c15Send(m2, "GET", "/api/v1/model", "", ""))
		show("D11b POST /solutions with model nil", c15Send(m2, "POST", "/api/v1/solutions", csv, summary))
	}
	show("D12c PATCH /model Encoding non-string", c15Send(fresh(), "PATCH", "/api/v1/model", js, `[{"Name":"Encoding","Value":5}]`))
	show("D12d PUT subcatchment non-string value", c15Send(fresh(), "PUT", "/api/v1/model/subcatchment/18", js, `[{"Name":"RiverBankRestoration","Value":5}]`))
	show("D12e GET subcatchment id beyond int", c15Send(fresh(), "GET", "/api/v1/model/subcatchment/99999999999999999999", "", ""))
	show("D12e PUT subcatchment id beyond int", c15Send(fresh(), "PUT", "/api/v1/model/subcatchment/99999999999999999999", js, `[]`))
	show("D12f PUT actions text SubCatchment", c15Send(fresh(), "PUT", "/api/v1/model/actions/active", csv, "SubCatchment, GullyRestoration\nabc, 1\n"))
	show("D12g POST /solutions text in As-Is row", c15Send(fresh(), "POST", "/api/v1/solutions", csv,
		strings.Replace(summary, "As-Is, 13.682", "As-Is, abc", 1)))
	show("D12h POST /solutions unknown variable", c15Send(fresh(), "POST", "/api/v1/solutions", csv,
		strings.Replace(summary, "DissolvedNitrogen", "Dissolved", 1)))
	show("D12i POST /solutions one column", c15Send(fresh(), "POST", "/api/v1/solutions", csv, "Solution\nAs-Is\n"))
	show("D12i POST /solutions four columns", c15Send(fresh(), "POST", "/api/v1/solutions", csv, "Solution, SedimentProduction, Actions, Summary\nAs-Is, 1059.911, 0, x\n"))
	{
		m := fresh()
		noAsIs := "Solution, DissolvedNitrogen, ImplementationCost, OpportunityCost, ParticulateNitrogen, SedimentProduction, TotalNitrogen, Actions, Summary\n" +
			"1-of-8, 18.377, 101198.000, 4982.000, 2.347, 1122.881, 0, 40, Pareto front member 1 of 8\n"
		show("D12j POST /solutions first row not As-Is", c15Send(m, "POST", "/api/v1/solutions", csv, noAsIs))
		show("D12j GET /solutions/1-of-8", c15Send(m, "GET", "/api/v1/solutions/1-of-8", "", ""))
	}
	// further scenario shapes
	{
		dumb := strings.Replace(valid, `Type = "CatchmentModel"`, `Type = "DumbModel"`, 1)
		show("K1 first POST /scenario with DumbModel", c15Send(c15NewMux(), "POST", "/api/v1/scenario", toml, dumb))
		m := fresh()
		show("K1b second POST /scenario with NullModel", c15Send(m, "POST", "/api/v1/scenario", toml, strings.Replace(valid, `Type = "CatchmentModel"`, `Type = "NullModel"`, 1)))
		r := c15Send(m, "GET", "/api/v1/scenario", "", "")
		emit(J{"kind": "probe", "name": "K1b scenario text replaced although model was not", "value": r.Body != valid})
		for _, ds := range []string{"testdata/Nope.csv", "testdata/ValidGullies.csv", "testdata/ValidTestScenario.toml", "testdata", "testdata/ValidActions.csv"} {
			m := c15NewMux()
			show("K2 POST /scenario DataSourcePath="+ds, c15Send(m, "POST", "/api/v1/scenario", toml, strings.Replace(valid, "testdata/ValidModel.csv", ds, 1)))
			show("K2   then GET /model", c15Send(m, "GET", "/api/v1/model", "", ""))
		}
		show("K3 POST /scenario YearsOfErosion=0", c15Send(c15NewMux(), "POST", "/api/v1/scenario", toml, valid+"YearsOfErosion = 0\n"))
		show("K4 POST /scenario empty text", c15Send(c15NewMux(), "POST", "/api/v1/scenario", toml, ""))
		m = fresh()
		c15Send(m, "PUT", "/api/v1/model/actions/active", csv, "SubCatchment, RiverBankRestoration\n18, 1\n")
		show("K5 failed POST after a write", c15Send(m, "POST", "/api/v1/scenario", toml, invalidModel))
		r = c15Send(m, "GET", "/api/v1/model/actions/active", "", "")
		emit(J{"kind": "probe", "name": "K5 active actions after failed POST /scenario", "body": short(r.Body)})
		r = c15Send(m, "PUT", "/api/v1/model/actions/active", csv, "SubCatchment, GullyRestoration\n17, 0\n")
		r = c15Send(m, "GET", "/api/v1/model/actions/active", "", "")
		emit(J{"kind": "probe", "name": "K5 active actions after a later no-op write", "body": short(r.Body)})
	}
	// U: Actions cells that pass the hex pattern but do not decode for the scenario's action count
	for _, enc := range []string{"1:2", "10000000000000000", ":", ""} {
		m := fresh()
		text := strings.Replace(summary, "1122.881, 0, 40,", "1122.881, 0, "+enc+",", 1)
		show("U POST /solutions with Actions cell ["+enc+"]", c15Send(m, "POST", "/api/v1/solutions", csv, text))
		r := c15Send(m, "GET", "/api/v1/solutions/1-of-8", "", "")
		i := strings.Index(r.Body, `"ActiveManagementActions"`)
		if i < 0 {
			i = 0
		}
		emit(J{"kind": "probe", "name": "U GET /solutions/1-of-8 for [" + enc + "]", "status": r.Status, "panicked": r.Panicked, "panic": r.Panic, "tail": short(r.Body[i:])})
		show("U PATCH /model Encoding ["+enc+"]", c15Send(m, "PATCH", "/api/v1/model", js, `[{"Name":"Encoding","Value":"`+enc+`"}]`))
	}
	// suspicion S1: per-subcatchment PUT rebuilds the snapshot BEFORE the derived attributes -> stale Encoding in GET /model
	{
		m := fresh()
		show("S1 PUT subcatchment 18 RiverBank Active", c15Send(m, "PUT", "/api/v1/model/subcatchment/18", js, `[{"Name":"RiverBankRestoration","Value":"Active"}]`))
		r := c15Send(m, "GET", "/api/v1/model", "", "")
		i := strings.Index(r.Body, `"Attributes"`)
		emit(J{"kind": "probe", "name": "S1 GET /model attributes after subcatchment PUT", "attrs": short(r.Body[i:])})
		m2 := fresh()
		c15Send(m2, "PUT", "/api/v1/model/actions/active", csv, "SubCatchment, RiverBankRestoration\n18, 1\n")
		r2 := c15Send(m2, "GET", "/api/v1/model", "", "")
		i2 := strings.Index(r2.Body, `"Attributes"`)
		emit(J{"kind": "probe", "name": "S1 GET /model attributes after table PUT", "attrs": short(r2.Body[i2:]), "same_body": r.Body == r2.Body})
	}
	// suspicion S2: PATCH joins foreign attributes before validating; visible only after a later write
	{
		m := fresh()
		show("S2 PATCH foreign attr + bad encoding", c15Send(m, "PATCH", "/api/v1/model", js, `[{"Name":"Foo","Value":"bar"},{"Name":"Encoding","Value":"zz"}]`))
		r := c15Send(m, "GET", "/api/v1/model", "", "")
		emit(J{"kind": "probe", "name": "S2 Foo visible right after failed PATCH", "value": strings.Contains(r.Body, "Foo")})
		c15Send(m, "PUT", "/api/v1/model/actions/active", csv, "SubCatchment, RiverBankRestoration\n18, 1\n")
		r = c15Send(m, "GET", "/api/v1/model", "", "")
		emit(J{"kind": "probe", "name": "S2 Foo visible after a later successful write", "value": strings.Contains(r.Body, "Foo")})
		m = fresh()
		show("S2b PATCH foreign attr only", c15Send(m, "PATCH", "/api/v1/model", js, `[{"Name":"Foo","Value":"bar"}]`))
		r = c15Send(m, "GET", "/api/v1/model", "", "")
		emit(J{"kind": "probe", "name": "S2b Foo visible right after successful PATCH", "value": strings.Contains(r.Body, "Foo")})
		show("S2c PATCH two encodings, second bad", c15Send(m, "PATCH", "/api/v1/model", js, `[{"Name":"Encoding","Value":"40"},{"Name":"Encoding","Value":"zz"}]`))
		r = c15Send(m, "GET", "/api/v1/model/actions/active", "", "")
		emit(J{"kind": "probe", "name": "S2c active actions after 400", "body": short(r.Body)})
	}
	// suspicion S3: solution pool is not reset by a new POST /solutions
	{
		m := fresh()
		c15Send(m, "POST", "/api/v1/solutions", csv, summary)
		r1 := c15Send(m, "GET", "/api/v1/solutions/1-of-8", "", "")
		other := strings.Replace(summary, "1122.881, 0, 40,", "1122.881, 0, 148,", 1)
		show("S3 second POST /solutions", c15Send(m, "POST", "/api/v1/solutions", csv, other))
		r2 := c15Send(m, "GET", "/api/v1/solutions/1-of-8", "", "")
		emit(J{"kind": "probe", "name": "S3 GET /solutions/1-of-8 unchanged after the table changed its encoding", "value": r1.Body == r2.Body})
	}
}
