//go:build verif

package main

import (
	"encoding/json"
	"fmt"
	"io/ioutil"
	"math"
	"net/http"
	"net/http/httptest"
	"os"
	"path/filepath"
	"sort"
	"strconv"
	"strings"

	"github.com/LindsayBradford/crem/cmd/cremengine/engine/api"
	"github.com/LindsayBradford/crem/internal/pkg/annealing/solution"
	solenc "github.com/LindsayBradford/crem/internal/pkg/annealing/solution/encoding"
	"github.com/LindsayBradford/crem/internal/pkg/annealing/solution/set"
	setcsv "github.com/LindsayBradford/crem/internal/pkg/annealing/solution/set/encoding/csv"
	"github.com/LindsayBradford/crem/internal/pkg/model"
	marchive "github.com/LindsayBradford/crem/internal/pkg/model/archive"
	"github.com/LindsayBradford/crem/internal/pkg/model/models/catchment"
	"github.com/LindsayBradford/crem/internal/pkg/observer"
	"github.com/LindsayBradford/crem/internal/pkg/scenario"
	"github.com/LindsayBradford/crem/pkg/logging/loggers"
	"github.com/LindsayBradford/crem/pkg/threading"
)

// C13: explorer summary (real csv.SummaryMarshaler) -> POST /api/v1/solutions on the REAL engine Mux ->
// GET /api/v1/solutions/<label> for every label, PATCH /api/v1/model {"Encoding": ...} for every row.
// Plus the caster/formatter model tie: BaseCaster.Cast and fmt %v on every string up to a length over [0-9A-F:].

var c13stats = map[string]int{}
var c13oracleSeen = map[string]bool{}
var c13scenario string

const c13base = "http://verif/api/v1/"

func c13oracle(what string, extra J) {
	key := what + "|" + fmt.Sprint(extra["encoding"]) + "|" + fmt.Sprint(extra["label"]) + "|" + fmt.Sprint(extra["class"])
	if c13oracleSeen[key] {
		return
	}
	c13oracleSeen[key] = true
	j := J{"kind": "oracle", "what": what}
	for k, v := range extra {
		j[k] = v
	}
	emit(j)
}

// ---------- caster / formatter tie ----------

func c13gocastCase(s string, class string) {
	c13stats["gocast_"+class]++
	j := c20field(s)
	j["kind"] = "gc"
	v := c20caster.Cast(s)
	if f, isFloat := v.(float64); isFloat {
		_ = f
		c13stats["gocast_is_number"]++
	} else if _, isBool := v.(bool); isBool {
		c13stats["gocast_is_bool"]++
	} else {
		c13stats["gocast_is_text"]++
	}
	// what CellString would give back for a cell holding this field
	emit(j)
}

func c13allStrings(alphabet string, n int, f func(string)) {
	if n == 0 {
		f("")
		return
	}
	buf := make([]byte, n)
	var rec func(i int)
	rec = func(i int) {
		if i == n {
			f(string(buf))
			return
		}
		for k := 0; k < len(alphabet); k++ {
			buf[i] = alphabet[k]
			rec(i + 1)
		}
	}
	rec(0)
}

// ---------- the engine ----------

func c13setup() {
	if err := os.Chdir("cmd/cremengine/engine/api"); err != nil {
		panic(err)
	}
	b, err := ioutil.ReadFile("testdata/ValidTestScenario.toml")
	if err != nil {
		panic(err)
	}
	c13scenario = string(b)
}

type c13resp struct {
	status   int
	body     string
	panicked bool
	what     string
}

func c13send(mux *api.Mux, method, path, body, ctype string) c13resp {
	var r c13resp
	r.panicked, r.what = protect(func() {
		req := httptest.NewRequest(method, c13base+path, strings.NewReader(body))
		if ctype != "" {
			req.Header.Add("Content-Type", ctype)
		}
		w := httptest.NewRecorder()
		mux.ServeHTTP(w, req)
		res := w.Result()
		b, _ := ioutil.ReadAll(res.Body)
		r.status = res.StatusCode
		r.body = string(b)
	})
	return r
}

func c13newMux() *api.Mux {
	threading.ResetMainThreadChannel()
	ch := threading.GetMainThreadChannel()
	mux := new(api.Mux).Initialise().WithMainThreadChannel(&ch)
	mux.SetLogger(loggers.NewNullLogger())
	r := c13send(mux, "POST", "scenario", c13scenario, "application/toml")
	if r.panicked || r.status != http.StatusOK {
		c13oracle("the scenario fixture (testdata/ValidTestScenario.toml) is not accepted by POST /scenario: the engine cannot be configured",
			J{"status": r.status, "response": r.body, "panic": r.what, "class": "scenario_fixture"})
		return nil
	}
	return mux
}

// explorer side: the solution of the scenario's model with the given actions active
func c13solution(ref *catchment.Model, bits uint64, id string) *solution.Solution {
	clone := ref.DeepClone()
	clone.Initialise(model.AsIs)
	n := len(clone.ManagementActions())
	for i := 0; i < n; i++ {
		clone.SetManagementAction(i, bits&(1<<uint(i)) != 0)
	}
	return new(solution.SolutionBuilder).WithId(id).ForModel(clone).Build()
}

type c13row struct {
	label, enc, note string
	vars             solution.VariableSetSummary
	realBits         int64 // >= 0: the row was produced from the model with exactly these actions active
}

func c13marshal(rows []c13row) string {
	sm := make(set.Summary, 0)
	for i, r := range rows {
		sm[fmt.Sprintf("key%05d", i)] = solution.Summary{SortIndex: uint64(i), Id: r.label, Variables: r.vars,
			Actions: solution.ActionSummary(r.enc), Note: r.note}
	}
	b, err := new(setcsv.SummaryMarshaler).Marshal(&sm)
	if err != nil {
		panic(err)
	}
	return string(b)
}

// independent decoding of a single-word encoding valid for n <= 64 actions; ok=false if not such an encoding
func c13decode(enc string, n int) (uint64, bool) {
	if n > 64 || !c13decodable(enc, n) {
		return 0, false
	}
	v, _ := c13word(enc)
	if n < 64 {
		v &= (uint64(1) << uint(n)) - 1 // Decode zeroes the bits beyond the archive's size
	}
	return v, true
}

// one entry of an encoding as BooleanArchive.Decode reads it: non-empty, hexadecimal digits only, value below 2^64
// (written out here, independently of strconv.ParseUint)
func c13word(w string) (uint64, bool) {
	if w == "" {
		return 0, false
	}
	var v uint64
	for _, c := range w {
		var d uint64
		switch {
		case c >= '0' && c <= '9':
			d = uint64(c - '0')
		case c >= 'A' && c <= 'F':
			d = uint64(c-'A') + 10
		case c >= 'a' && c <= 'f':
			d = uint64(c-'a') + 10
		default:
			return 0, false
		}
		if v >= 1<<60 {
			return 0, false
		}
		v = v*16 + d
	}
	return v, true
}

// does the Actions text decode into an archive for n management actions: ceil(n/64) entries between ':', each a word
func c13decodable(enc string, n int) bool {
	words := strings.Split(enc, ":")
	if len(words) != (n+63)/64 {
		return false
	}
	for _, w := range words {
		if _, ok := c13word(w); !ok {
			return false
		}
	}
	return true
}

func c13attr(m map[string]interface{}, name string) (interface{}, bool) {
	as, _ := m["Attributes"].([]interface{})
	for _, a := range as {
		am, _ := a.(map[string]interface{})
		if am["Name"] == name {
			return am["Value"], true
		}
	}
	return nil, false
}

// active actions of a solution JSON as a sorted list "pu:type"
func c13active(m map[string]interface{}) []string {
	res := []string{}
	am, _ := m["ActiveManagementActions"].(map[string]interface{})
	for pu, ts := range am {
		for _, t := range ts.([]interface{}) {
			res = append(res, pu+":"+fmt.Sprint(t))
		}
	}
	sort.Strings(res)
	return res
}

func c13expectedActive(ref *catchment.Model, bits uint64) []string {
	res := []string{}
	for i, a := range ref.ManagementActions() {
		if bits&(1<<uint(i)) != 0 {
			res = append(res, fmt.Sprintf("%v:%v", a.PlanningUnit(), a.Type()))
		}
	}
	sort.Strings(res)
	return res
}

func c13values(m map[string]interface{}) map[string]float64 {
	res := map[string]float64{}
	vs, _ := m["DecisionVariables"].([]interface{})
	for _, v := range vs {
		vm, _ := v.(map[string]interface{})
		s := strings.ReplaceAll(fmt.Sprint(vm["Value"]), ",", "")
		s = strings.TrimPrefix(s, "$")
		f, err := strconv.ParseFloat(s, 64)
		if err == nil {
			res[fmt.Sprint(vm["Name"])] = f
		}
	}
	return res
}

func c13encClass(enc string) string {
	allDec, hasColon := true, strings.Contains(enc, ":")
	for _, c := range enc {
		if c < '0' || c > '9' {
			allDec = false
		}
	}
	_, ferr := strconv.ParseFloat(enc, 64)
	_, berr := strconv.ParseBool(enc)
	switch {
	case enc == "":
		return "empty"
	case hasColon:
		return "multi_word"
	case allDec && len(enc) >= 7:
		return "decimal_7plus_digits"
	case allDec:
		return "decimal_short"
	case ferr == nil:
		return "exponent_literal"
	case berr == nil:
		return "bool_literal"
	default:
		return "hex_with_letters"
	}
}

// one summary through a fresh engine; emits the e2e case and evaluates the property on the real responses
func c13e2e(pre [][]c13row, rows []c13row, class string, inQuantifier bool) {
	c13e2eText(pre, c13marshal(rows), rows, class, inQuantifier)
}

// rows of a summary FILE (as the explorer's saver wrote it), for the implementation-side oracle: the values of a row
// are the file's own figures, the expected actions those of the file's own encoding
func c13rowsOfText(text string) ([]c13row, bool) {
	records, err := c20reader(text)
	if err != nil || len(records) < 1 || len(records[0]) < 3 {
		return nil, false
	}
	names := records[0][1 : len(records[0])-2]
	rows := []c13row{}
	for _, r := range records[1:] {
		if len(r) != len(records[0]) {
			return nil, false
		}
		row := c13row{label: r[0], enc: r[len(r)-2], note: r[len(r)-1], realBits: -1}
		for i, n := range names {
			v, perr := strconv.ParseFloat(r[1+i], 64)
			if perr != nil {
				return nil, false
			}
			row.vars = append(row.vars, solution.VariableSummary{Name: n, Value: v})
		}
		if bits, ok := c13decode(row.enc, 64); ok {
			row.realBits = int64(bits)
		}
		rows = append(rows, row)
	}
	return rows, true
}

// one summary TEXT (rows = what it is supposed to contain, row by row) through a fresh engine
func c13e2eText(pre [][]c13row, text string, rows []c13row, class string, inQuantifier bool) {
	c13stats["e2e_"+class]++
	mux := c13newMux()
	defer protect(func() { mux.Shutdown() })
	ref := mux.VerifC13Model()
	nActions := len(ref.ManagementActions())

	records, readErr := c20reader(text)
	cj := J{"kind": "e2e", "class": class, "text": c20hex(text), "nrows": len(rows), "nw": (nActions + 63) / 64}
	if readErr != nil || len(records) != len(rows)+1 {
		// the marshalled text is not read back as one record per row: outside the model (fields not csv-safe)
		cj["csv"] = nil
		emit(cj)
		c13oracle("marshalled summary is not read back as one record per row", J{"text": text, "class": class})
		return
	}
	recs := make([][]J, len(records))
	for i, r := range records {
		recs[i] = make([]J, len(r))
		for k, f := range r {
			recs[i][k] = c20field(f)
		}
	}
	cj["csv"] = recs
	// the as-is model's variables
	asIs := c13solution(ref, 0, "asis")
	asis := []J{}
	for _, v := range asIs.DecisionVariables {
		j := J{"name": c20hex(v.Name)}
		// the engine compares the table cell with DecisionVariable(name).Value() of its own as-is model
		raw := ref.DeepClone()
		raw.Initialise(model.AsIs)
		c20num(j, raw.DecisionVariable(v.Name).Value())
		asis = append(asis, j)
	}
	cj["asis"] = asis

	// history: earlier summaries posted to the same engine, every label of theirs fetched
	preJ := []J{}
	for _, prows := range pre {
		ptext := c13marshal(prows)
		precords, perr := c20reader(ptext)
		if perr != nil {
			panic("history summary is not csv-safe")
		}
		pr := make([][]J, len(precords))
		for i, r := range precords {
			pr[i] = make([]J, len(r))
			for k, f := range r {
				pr[i][k] = c20field(f)
			}
		}
		c13send(mux, "POST", "solutions", ptext, "text/csv")
		labels := []string{}
		for _, r := range prows {
			c13send(mux, "GET", "solutions/"+r.label, "", "")
			labels = append(labels, c20hex(r.label))
		}
		// while the EARLIER summary is loaded, the model is set from the encodings of the summary that will be
		// posted next (in reverse row order, so that the last one set is the first one set again afterwards):
		// whatever the engine concluded about them then must not survive the next POST /solutions
		for i := len(rows) - 1; i >= 1; i-- {
			body, _ := json.Marshal([]J{{"Name": "Encoding", "Value": rows[i].enc}})
			c13send(mux, "PATCH", "model", string(body), "application/json")
			c13stats["history_patches"]++
		}
		preJ = append(preJ, J{"csv": pr, "labels": labels})
	}
	cj["pre"] = preJ

	post := c13send(mux, "POST", "solutions", text, "text/csv")
	switch {
	case post.panicked:
		cj["post"] = "panic"
	default:
		cj["post"] = strconv.Itoa(post.status)
	}
	c13stats["post_"+fmt.Sprint(cj["post"])]++
	if post.panicked && inQuantifier {
		c13oracle("POST /solutions panicked on a marshalled summary", J{"text": text, "panic": post.what, "class": class})
	} else if !post.panicked {
		// since 7ecfa2c every Actions cell (the As-Is row's too) must decode for the scenario's action count
		undecodable := ""
		hasUndecodable := false
		for _, r := range rows {
			if !c13decodable(r.enc, nActions) && !hasUndecodable {
				undecodable, hasUndecodable = r.enc, true
			}
		}
		if post.status != http.StatusOK && inQuantifier && !hasUndecodable {
			c13oracle("summary written by the explorer (marshaller / saver) is rejected by POST /solutions",
				J{"status": post.status, "response": post.body, "class": class, "summary_text": text})
		}
		if post.status == http.StatusOK && hasUndecodable {
			c13oracle("summary with an Actions cell that does not decode for the scenario's action count is accepted by POST /solutions",
				J{"encoding": undecodable, "encoding_class": c13encClass(undecodable), "status": post.status, "class": class, "summary_text": text})
		}
		if hasUndecodable {
			c13stats["post_with_undecodable_row"]++
		}
	}

	gets := []J{}
	patches := []J{}
	if !post.panicked && post.status == http.StatusOK {
		labels := []string{}
		for _, r := range rows {
			labels = append(labels, r.label)
		}
		labels = append(labels, "no-such-label")
		if len(rows) > 1 { // and once more: served from the pool
			labels = append(labels, rows[len(rows)-1].label)
		}
		for li, label := range labels {
			g := c13send(mux, "GET", "solutions/"+label, "", "")
			gj := J{"label": c20hex(label)}
			var jm map[string]interface{}
			switch {
			case g.panicked:
				gj["obs"] = "panic"
				if inQuantifier {
					c13oracle("GET /solutions/<label> panicked", J{"label": label, "panic": g.what, "class": class})
				}
			case g.status == http.StatusNotFound:
				gj["obs"] = "404"
			case g.status == http.StatusOK:
				json.Unmarshal([]byte(g.body), &jm)
				if _, hasSummary := c13attr(jm, "Summary"); hasSummary {
					e, _ := c13attr(jm, "Encoding")
					s, _ := c13attr(jm, "Summary")
					gj["obs"] = "decoded"
					gj["enc"] = c20hex(fmt.Sprint(e))
					gj["sum"] = c20hex(fmt.Sprint(s))
				} else {
					gj["obs"] = "asis"
				}
			default:
				gj["obs"] = "status" + strconv.Itoa(g.status)
			}
			c13stats["get_"+fmt.Sprint(gj["obs"])]++
			gets = append(gets, gj)

			// ---- the property, on the real response ----
			if li >= len(rows) || g.panicked || !inQuantifier {
				continue
			}
			row := rows[li]
			if g.status != http.StatusOK {
				c13oracle("label of a summary row is not found", J{"label": label, "encoding": row.enc, "status": g.status, "class": class})
				continue
			}
			gotActive := c13active(jm)
			if li == 0 {
				if len(gotActive) != 0 {
					c13oracle("the As-Is label returns a solution with active actions", J{"label": label, "observed_active": gotActive})
				}
				continue
			}
			wantBits, valid := c13decode(row.enc, nActions)
			e, _ := c13attr(jm, "Encoding")
			if fmt.Sprint(e) != row.enc {
				extra := J{"label": label, "encoding": row.enc, "encoding_class": c13encClass(row.enc), "observed_encoding": fmt.Sprint(e)}
				if valid {
					extra["expected_active"] = c13expectedActive(ref, wantBits)
					extra["observed_active"] = gotActive
				}
				c13oracle("solution fetched by label was not decoded from its row's own encoding", extra)
				continue
			}
			if s, _ := c13attr(jm, "Summary"); fmt.Sprint(s) != row.note {
				c13oracle("solution fetched by label does not carry its row's summary text",
					J{"label": label, "encoding": row.enc, "note": row.note, "observed": fmt.Sprint(s)})
			}
			if !valid {
				continue // not an encoding the scenario's compressor can have written: nothing to decode
			}
			wantActive := c13expectedActive(ref, wantBits)
			if strings.Join(gotActive, ",") != strings.Join(wantActive, ",") {
				c13oracle("solution fetched by label does not have the actions encoded in its row",
					J{"label": label, "encoding": row.enc, "encoding_class": c13encClass(row.enc),
						"expected_active": wantActive, "observed_active": gotActive})
				continue
			}
			if row.realBits >= 0 && uint64(row.realBits) == wantBits {
				got := c13values(jm)
				for _, v := range row.vars {
					if gv, ok := got[v.Name]; !ok || math.Abs(gv-v.Value) > 0.00501 {
						c13oracle("decision-variable value of the fetched solution differs from its row",
							J{"label": label, "encoding": row.enc, "variable": v.Name, "row": v.Value, "observed": gv})
					}
				}
			}
		}
		// front membership: set the engine's model from every row's encoding
		// non-as-is rows first (the first one is the encoding the model was last set from before the POST), as-is last
		order := []int{}
		for li := 1; li < len(rows); li++ {
			order = append(order, li)
		}
		if len(rows) > 0 {
			order = append(order, 0)
		}
		for _, li := range order {
			row := rows[li]
			pj := J{"enc": c20hex(row.enc), "row": li}
			// Encoding(Decode(e)) by the real archive code, on a clone of the scenario's model
			cm := new(archiveCompressor).recode(ref, row.enc)
			if cm == nil {
				pj["recode"] = nil
			} else {
				pj["recode"] = c20hex(*cm)
			}
			body, _ := json.Marshal([]J{{"Name": "Encoding", "Value": row.enc}})
			p := c13send(mux, "PATCH", "model", string(body), "application/json")
			switch {
			case p.panicked:
				pj["obs"] = "panic"
			case p.status == http.StatusBadRequest:
				pj["obs"] = "400"
			case p.status == http.StatusOK:
				g := c13send(mux, "GET", "model", "", "")
				var jm map[string]interface{}
				json.Unmarshal([]byte(g.body), &jm)
				v, has := c13attr(jm, "ParetoFrontMember")
				if !has {
					pj["obs"] = "none"
				} else {
					pj["obs"] = fmt.Sprint(v)
				}
			default:
				pj["obs"] = "status" + strconv.Itoa(p.status)
			}
			c13stats["patch_"+fmt.Sprint(pj["obs"])]++
			patches = append(patches, pj)
			if inQuantifier && li > 0 && cm != nil && *cm == row.enc && pj["obs"] != "true" {
				c13oracle("model set from the encoding of a non-as-is row is not marked as Pareto front member",
					J{"encoding": row.enc, "encoding_class": c13encClass(row.enc), "observed": pj["obs"], "label": row.label})
			}
		}
	}
	cj["gets"] = gets
	cj["patches"] = patches
	emit(cj)
}

// Encoding(Decode(e)) exactly as reInitialiseModelWithEncoding + deriveModelActionEncoding do it
type archiveCompressor struct{}

func (archiveCompressor) recode(ref *catchment.Model, enc string) *string {
	clone := ref.DeepClone()
	cm := c13compress(clone)
	if err := cm.Decode(enc); err != nil {
		return nil
	}
	c13decompress(cm, clone)
	s := c13compress(clone).Encoding()
	return &s
}

func c13compress(m model.Model) *marchive.CompressedModelState {
	return new(marchive.ModelCompressor).Compress(m)
}

func c13decompress(cm *marchive.CompressedModelState, m model.Model) {
	new(marchive.ModelCompressor).Decompress(cm, m)
}

func c13vars(ref *catchment.Model, bits uint64) (solution.VariableSetSummary, string) {
	s := c13solution(ref, bits, "x")
	sum := s.Summarise()
	return sum.Variables, string(sum.Actions)
}

// ---------- summary FILES written by the real scenario.Saver, driven the way the Runner drives it ----------

// mutually non-dominated, pairwise different action sets (an archive keeps them all, in this order)
func c13members(rng *prng, ref *catchment.Model, n int) []uint64 {
	nActions := len(ref.ManagementActions())
	work := ref.DeepClone()
	work.Initialise(model.AsIs)
	a := marchive.New()
	var res []uint64
	for tries := 0; len(res) < n && tries < 10000; tries++ {
		bits := rng.next() & ((1 << uint(nActions)) - 1)
		if rng.chance(0.25) {
			bits &= rng.next()
		}
		if bits == 0 {
			continue
		}
		for i := 0; i < nActions; i++ {
			work.SetManagementAction(i, bits&(1<<uint(i)) != 0)
		}
		before := a.Len()
		if a.AttemptToArchive(work) == marchive.StoredWithNoDominanceDetected && a.Len() == before+1 {
			res = append(res, bits)
		} else if a.Len() != before {
			a = marchive.New()
			res = nil
		}
	}
	if len(res) != n {
		panic("c13members: could not generate the requested number of members")
	}
	return res
}

// ONE saver instance serves the R runs of a scenario, one FinishedAnnealing event per run (scenario.Runner does
// exactly this: SetDecompressionModel once, then every run's annealer notifies the same saver).  Every summary
// file it writes is then loaded into a fresh engine configured with the same scenario.
func c13saverScenario(rng *prng, ref *catchment.Model, fam string, name string, R int, nMembers int) {
	nActions := len(ref.ManagementActions())
	tmp, err := os.MkdirTemp("", "verif-c13-saver-")
	if err != nil {
		panic(err)
	}
	defer os.RemoveAll(tmp)
	saver := scenario.NewSaver().
		WithOutputType(solenc.OutputType("CSV")).
		WithOutputLevel(scenario.OutputLevel("Summary")).
		WithLogHandler(new(loggers.NullLogger))
	saver.SetDecompressionModel(ref)
	for r := 1; r <= R; r++ {
		dir := filepath.Join(tmp, fmt.Sprintf("run%d", r))
		saver = saver.WithOutputPath(dir)
		runId := scenario.VerifC12CloneId(name, uint64(R), uint64(r))
		event := observer.NewEvent(observer.FinishedAnnealing)
		work := ref.DeepClone()
		work.Initialise(model.AsIs)
		apply := func(bits uint64) {
			for i := 0; i < nActions; i++ {
				work.SetManagementAction(i, bits&(1<<uint(i)) != 0)
			}
		}
		if fam == "suppapitnarm" {
			a := marchive.New()
			a.SetId(runId)
			for _, bits := range c13members(rng, ref, nMembers) {
				apply(bits)
				a.ForceIntoArchive(work)
			}
			event.WithAttribute(scenario.ModelArchive, *a)
		} else {
			bits := uint64(0)
			for bits == 0 {
				bits = rng.next() & ((1 << uint(nActions)) - 1)
			}
			if rng.chance(0.3) {
				bits = []uint64{0x1E3, 0xF, 0x1E0, 0x148}[rng.intn(4)] & ((1 << uint(nActions)) - 1)
			}
			apply(bits)
			st := new(marchive.ModelCompressor).Compress(work)
			st.SetId(runId)
			event.WithAttribute(scenario.CompressedModel, *st)
		}
		class := fmt.Sprintf("saver_file_%s_run%dof%d", fam, r, R)
		if p, what := protect(func() { saver.ObserveEvent(*event) }); p {
			c13oracle("the saver panicked while writing a run's summary", J{"class": class, "panic": what})
			continue
		}
		files, _ := filepath.Glob(filepath.Join(dir, "*ummary.csv"))
		if len(files) != 1 {
			listing, _ := os.ReadDir(dir)
			names := []string{}
			for _, e := range listing {
				names = append(names, e.Name())
			}
			c13oracle("the saver did not write exactly one summary file for a run", J{"class": class, "files": names})
			continue
		}
		b, rerr := os.ReadFile(files[0])
		if rerr != nil {
			panic(rerr)
		}
		text := string(b)
		rows, ok := c13rowsOfText(text)
		if !ok {
			c13oracle("summary file written by the saver is not a well-formed summary table", J{"class": class, "text": text})
			continue
		}
		c13stats["saver_files"]++
		c13stats["saver_rows"] += len(rows)
		c13e2eText(nil, text, rows, class, true)
	}
}

func runC13(args []string) {
	tier := "quick"
	if len(args) > 0 {
		tier = args[0]
	}
	rng := newPrng(13)

	// ---- 1. caster/formatter model vs the real caster: exhaustive over [0-9A-F:] up to a length ----
	maxLen := 3
	if tier == "thorough" {
		maxLen = 4
	}
	const alphabet = "0123456789ABCDEF:"
	for n := 0; n <= maxLen; n++ {
		c13allStrings(alphabet, n, func(s string) { c13gocastCase(s, fmt.Sprintf("exhaustive_len%d", n)) })
	}
	// longer shapes: decimals of every length 1..24 (incl. 2^53 neighbourhood), d+Ed+, leading zeros, lower case, signs, dots
	shapes := []string{"9007199254740991", "9007199254740992", "9007199254740993", "9999999999999999", "1000000", "999999", "0999999",
		"100000", "1E308", "1E309", "17E307", "18E307", "179769313486231570E291", "179769313486231581E291", "0E99999", "1E99999", "1e3", "1e+3", "1e-3", "1E+3", "1E-3",
		"+1", "-1", "-0", "1.5", "1.", ".5", "0.001", "1123.266", "-0.000", "101198.000", "1e", "e1", "E", "1E", "E1", "1E1E1", "1EE1", "t", "T", "true", "TRUE", "True",
		"f", "F", "false", "FALSE", "False", "tRUE", "FF", "0F", "F0", "1F", "DEADBEEF", "FFFFFFFFFFFFFFFF", "1:2", "0:0", "F:F", "1E3:1E3", ":", "1:", ":1", "", "As-Is", "1-of-8",
		"12-of-40", "Optimised", "Pareto front member 3 of 8", "As-is state; zero active management actions", "Computationally optimised solution",
		"Solution", "Actions", "Summary", "SedimentProduction"}
	for _, s := range shapes {
		c13gocastCase(s, "shape_fixed")
	}
	nShapes := 600
	if tier == "thorough" {
		nShapes = 6000
	}
	for i := 0; i < nShapes; i++ {
		var s string
		switch rng.intn(6) {
		case 0: // decimal digits, any length up to 24
			n := 1 + rng.intn(24)
			b := make([]byte, n)
			for k := range b {
				b[k] = byte('0' + rng.intn(10))
			}
			s = string(b)
		case 1: // d+Ed+
			s = strconv.Itoa(rng.intn(100000)) + "E" + strconv.Itoa(rng.intn(400))
			if rng.chance(0.3) {
				s = "0" + s
			}
		case 2: // canonical hex word
			s = strings.ToUpper(strconv.FormatUint(rng.next()>>uint(rng.intn(64)), 16))
		case 3: // several words
			s = strings.ToUpper(strconv.FormatUint(rng.next()>>uint(rng.intn(64)), 16)) + ":" + strings.ToUpper(strconv.FormatUint(rng.next()>>uint(rng.intn(64)), 16))
		case 4: // "%.3f"
			s = fmt.Sprintf("%.3f", (rng.float()-0.1)*math.Pow(10, float64(rng.intn(9))))
		default: // random over the wider alphabet of the model
			al := "0123456789ABCDEFabcdef:.+-Ee"
			n := 1 + rng.intn(7)
			b := make([]byte, n)
			for k := range b {
				b[k] = al[rng.intn(len(al))]
			}
			s = string(b)
		}
		c13gocastCase(s, "shape_random")
	}

	// ---- 2. end to end ----
	c13setup()
	probe := c13newMux()
	if probe == nil {
		emit(J{"kind": "stat", "stats": c13stats})
		return
	}
	ref := probe.VerifC13Model()
	nActions := len(ref.ManagementActions())
	c13stats["scenario_actions"] = nActions
	asVars, asEnc := c13vars(ref, 0)
	asRow := c13row{label: "As-Is", enc: asEnc, note: "As-is state; zero active management actions", vars: asVars, realBits: 0}
	realRow := func(k, n int, bits uint64) c13row {
		vs, enc := c13vars(ref, bits)
		return c13row{label: fmt.Sprintf("%d-of-%d", k, n), enc: enc, note: fmt.Sprintf("Pareto front member %d of %d", k, n), vars: vs, realBits: int64(bits)}
	}
	// (a) summaries as the explorer writes them: real values, real encodings
	nReal, realSize := 5, 10
	if tier == "thorough" {
		nReal, realSize = 40, 40
	}
	for i := 0; i < nReal; i++ {
		n := 1 + rng.intn(realSize)
		rows := []c13row{asRow}
		seen := map[uint64]bool{0: true}
		for k := 1; k <= n; k++ {
			bits := rng.next() & ((1 << uint(nActions)) - 1)
			if rng.chance(0.3) { // steer towards the interesting encodings: d+Ed+, F, all-decimal
				cands := []uint64{0xF, 0x1E3, 0x1E0, 0x2E1, 0x1E03, 0x10, 0x99, 0x1000, 0x1999, 0xE, 0x1E, 0xFF, 0x1FFF}
				bits = cands[rng.intn(len(cands))] & ((1 << uint(nActions)) - 1)
			}
			if seen[bits] {
				continue
			}
			seen[bits] = true
			rows = append(rows, realRow(len(rows), n, bits))
		}
		for k := range rows[1:] {
			rows[k+1].label = fmt.Sprintf("%d-of-%d", k+1, len(rows)-1)
			rows[k+1].note = fmt.Sprintf("Pareto front member %d of %d", k+1, len(rows)-1)
		}
		c13e2e(nil, rows, "real_rows", true)
	}
	// single-objective shape: As-Is + Optimised
	{
		vs, enc := c13vars(ref, 0x1A5&((1<<uint(nActions))-1))
		c13e2e(nil, []c13row{asRow, {label: "Optimised", enc: enc, note: "Computationally optimised solution", vars: vs, realBits: int64(0x1A5 & ((1 << uint(nActions)) - 1))}}, "real_optimised", true)
	}
	// (b) every encoding class on its own, with the real values of that action set
	for _, bits := range []uint64{0xF, 0x1E3, 0x1E0, 0x9E9, 0x1E03, 0x1E10, 0x40, 0x148, 0xC0, 0x1000, 0x1234, 0xE, 0x1E, 0xE1, 0xABC, 0x1FFF, 0x1, 0x0} {
		b := bits & ((1 << uint(nActions)) - 1)
		c13e2e(nil, []c13row{asRow, realRow(1, 1, b)}, "one_real_row_"+c13encClass(realRow(1, 1, b).enc), true)
	}
	// (c) synthetic rows: arbitrary text over [0-9A-F:] in the Actions column (as for scenarios with more actions)
	nSynth := 12
	if tier == "thorough" {
		nSynth = 300
	}
	// texts over [0-9A-F:] that decode for the scenario (one word of at most 64 bits; bits beyond the actions are dropped) ...
	synthDecodable := func() string {
		switch rng.intn(8) {
		case 0:
			return strconv.Itoa(1000000 + rng.intn(9000000))
		case 1:
			return strconv.Itoa(rng.intn(99999)) + "E" + strconv.Itoa(rng.intn(30))
		case 2:
			return "F"
		case 3:
			return strings.Repeat("0", rng.intn(20)) + strings.ToUpper(strconv.FormatUint(rng.next()>>uint(rng.intn(64)), 16))
		case 4:
			return strconv.Itoa(rng.intn(999999))
		case 5:
			return []string{"0012", "00", "0F", "1E309", "1E99999", "9007199254740993", "FFFFFFFFFFFFFFFF", "E", "1E", "E1", "FFFF", "2000", "0000000000000000000001"}[rng.intn(13)]
		default:
			return strings.ToUpper(strconv.FormatUint(rng.next()>>uint(rng.intn(64)), 16))
		}
	}
	// ... and texts over [0-9A-F:] that do not (wrong number of words, an empty word, a word beyond 64 bits)
	synthUndecodable := func() string {
		switch rng.intn(4) {
		case 0:
			return strings.ToUpper(strconv.FormatUint(rng.next(), 16)) + ":" + strings.ToUpper(strconv.FormatUint(rng.next()>>uint(rng.intn(64)), 16))
		case 1:
			return []string{":", "1:", ":1", "", "0:0", "1E3:F", "::"}[rng.intn(7)]
		case 2:
			return "1" + strings.ToUpper(strconv.FormatUint(rng.next()|(1<<63), 16)) // 17 digits
		default:
			return []string{"FFFFFFFFFFFFFFFFF", "12345678901234567890", "10000000000000000"}[rng.intn(3)]
		}
	}
	for _, u := range []string{"1:", ":", "", "0:0", "FFFFFFFFFFFFFFFFF"} { // the shapes that were accepted before 7ecfa2c
		c13e2e(nil, []c13row{asRow, {label: "1-of-1", enc: u, note: "Pareto front member 1 of 1", vars: asVars, realBits: -1}}, "synthetic_undecodable_row", true)
	}
	{
		bad := asRow
		bad.enc = "0:0"
		c13e2e(nil, []c13row{bad, realRow(1, 1, 3)}, "synthetic_undecodable_row", true)
	}
	for i := 0; i < nSynth; i++ {
		n := 1 + rng.intn(5)
		rows := []c13row{asRow}
		undecodableAt := -1
		class := "synthetic_rows"
		if rng.chance(0.25) {
			undecodableAt = 1 + rng.intn(n)
			class = "synthetic_undecodable_row"
		}
		for k := 1; k <= n; k++ {
			vs := make(solution.VariableSetSummary, len(asVars))
			for vi, v := range asVars {
				vs[vi] = solution.VariableSummary{Name: v.Name, Value: math.Round(rng.float()*2e6) / 1000}
			}
			enc := synthDecodable()
			if k == undecodableAt {
				enc = synthUndecodable()
			}
			rows = append(rows, c13row{label: fmt.Sprintf("%d-of-%d", k, n), enc: enc, note: fmt.Sprintf("Pareto front member %d of %d", k, n), vars: vs, realBits: -1})
		}
		c13e2e(nil, rows, class, true)
	}
	// (d) malformed relatives (outside the property's quantifier; they validate the model's 400 / Panic outcomes)
	{
		wrong := asRow
		wrong.vars = append(solution.VariableSetSummary{}, asVars...)
		wrong.vars[0].Value += 1
		c13e2e(nil, []c13row{wrong, realRow(1, 1, 3)}, "asis_values_of_another_scenario", false)
		c13e2e(nil, []c13row{realRow(1, 1, 3)}, "first_row_not_asis", false)
		c13e2e(nil, []c13row{asRow, {label: "1-of-1", enc: "XYZ", note: "n", vars: asVars, realBits: -1}}, "encoding_not_hex", false)
		c13e2e(nil, []c13row{asRow, {label: "1-of-1", enc: "3", note: "true", vars: asVars, realBits: -1}}, "note_is_bool_literal", false)
		c13e2e(nil, []c13row{asRow, {label: "1-of-2", enc: "3", note: "a", vars: asVars, realBits: -1}, {label: "1-of-2", enc: "5", note: "b", vars: asVars, realBits: -1}}, "duplicate_labels", false)
		c13e2e(nil, []c13row{asRow}, "asis_only", false)
		// the guards added by ac75323 / 09c7c9e: a variable column missing, a column that is no decision variable
		fewer := func(r c13row) c13row {
			r.vars = append(solution.VariableSetSummary{}, r.vars[:len(r.vars)-1]...)
			return r
		}
		c13e2e(nil, []c13row{fewer(asRow), fewer(realRow(1, 1, 3))}, "one_variable_column_missing", false)
		renamed := func(r c13row) c13row {
			r.vars = append(solution.VariableSetSummary{}, r.vars...)
			r.vars[0].Name = "NoSuchVariable"
			return r
		}
		c13e2e(nil, []c13row{renamed(asRow), renamed(realRow(1, 1, 3))}, "unknown_variable_column", false)
	}

	// ---- 2e. summary FILES written by the real scenario.Saver: one saver, R runs, both annealer families ----
	{
		type sc struct {
			fam  string
			R, n int
		}
		plan := []sc{{"kirkpatrick", 1, 1}, {"kirkpatrick", 2, 1}, {"kirkpatrick", 3, 1}, {"suppapitnarm", 1, 3}, {"suppapitnarm", 2, 3}}
		if tier == "thorough" {
			plan = append(plan, sc{"suppapitnarm", 3, 6}, sc{"kirkpatrick", 3, 1}, sc{"kirkpatrick", 2, 1}, sc{"suppapitnarm", 2, 12}, sc{"suppapitnarm", 3, 2},
				sc{"kirkpatrick", 3, 1}, sc{"suppapitnarm", 1, 20})
		}
		for i, p := range plan {
			c13saverScenario(rng, ref, p.fam, []string{"Kirkpatrick", "Suppapitnarm run", "P"}[i%3], p.R, p.n)
		}
	}

	// ---- 3. regression cases: the former refutation witnesses of D9 (b0400cb) and of the stale pool (43fcffa)
	//         must now round-trip; they are ordinary in-quantifier cases of the correspondence and of the oracle ----
	for _, bits := range []uint64{0x1E3, 0xF, 0x1E0, 0x12, 0x1E03} {
		c13e2e(nil, []c13row{asRow, realRow(1, 1, bits&((1<<uint(nActions))-1))}, "former_D9_witness_real_row", true)
	}
	for _, enc := range []string{"1000000", "9E9", "0012", "1E3", "F"} {
		vs, _ := c13vars(ref, 0)
		c13e2e(nil, []c13row{asRow, {label: "1-of-1", enc: enc, note: "Pareto front member 1 of 1", vars: vs, realBits: -1}}, "former_D9_witness_synthetic", true)
	}
	// two (three) summaries in a row on one engine, the same labels re-used with other encodings
	c13e2e([][]c13row{{asRow, realRow(1, 1, 0x3)}}, []c13row{asRow, realRow(1, 1, 0xC)}, "repost_same_label", true)
	c13e2e([][]c13row{{asRow, realRow(1, 2, 0x3), realRow(2, 2, 0x1E3)}, {asRow, realRow(1, 2, 0xF), realRow(2, 2, 0x5)}},
		[]c13row{asRow, realRow(1, 2, 0x1E0), realRow(2, 2, 0xC)}, "repost_same_label", true)
	for i := 0; i < 4; i++ {
		a := []c13row{asRow, realRow(1, 2, rng.next()&((1<<uint(nActions))-1)), realRow(2, 2, 1+rng.next()&0xFF)}
		b := []c13row{asRow, realRow(1, 2, 0x100+rng.next()&0xFF), realRow(2, 2, 0x1000+rng.next()&0xFF)}
		if a[1].enc == a[2].enc || b[1].enc == b[2].enc {
			continue
		}
		c13e2e([][]c13row{a}, b, "repost_same_label", true)
	}
	protect(func() { probe.Shutdown() })
	emit(J{"kind": "stat", "stats": c13stats})
}

func init() { register("C13", runC13) }
