//go:build verif

package main

import (
	"encoding/json"
	"fmt"
	"io/ioutil"
	"math"
	"math/big"
	"net/http"
	"net/http/httptest"
	"os"
	"os/exec"
	"path/filepath"
	"sort"
	"strconv"
	"strings"
	"time"

	"github.com/LindsayBradford/crem/cmd/cremengine/engine/api"
	explorerData "github.com/LindsayBradford/crem/cmd/cremexplorer/config/data"
	explorerInterpreter "github.com/LindsayBradford/crem/cmd/cremexplorer/config/interpreter"
	"github.com/LindsayBradford/crem/internal/pkg/annealing/solution"
	solenc "github.com/LindsayBradford/crem/internal/pkg/annealing/solution/encoding"
	"github.com/LindsayBradford/crem/internal/pkg/annealing/solution/set"
	setcsv "github.com/LindsayBradford/crem/internal/pkg/annealing/solution/set/encoding/csv"
	"github.com/LindsayBradford/crem/internal/pkg/model"
	marchive "github.com/LindsayBradford/crem/internal/pkg/model/archive"
	"github.com/LindsayBradford/crem/internal/pkg/model/models/catchment"
	"github.com/LindsayBradford/crem/internal/pkg/observer"
	"github.com/LindsayBradford/crem/internal/pkg/scenario"
	"github.com/LindsayBradford/crem/pkg/logging/loggers"
	"github.com/LindsayBradford/crem/pkg/threading"
)

// C13: explorer summary (real csv.SummaryMarshaler) -> POST /api/v1/solutions on the REAL engine Mux ->
// GET /api/v1/solutions/<label> for every label, PATCH /api/v1/model {"Encoding": ...} for every row.
// Plus the caster/formatter model tie: BaseCaster.Cast and fmt %v on every string up to a length over [0-9A-F:].

var c13stats = map[string]int{}
var c13oracleSeen = map[string]bool{}
var c13scenario string

const c13base = "http://verif/api/v1/"

func c13oracle(what string, extra J) {
	key := what + "|" + fmt.Sprint(extra["encoding"]) + "|" + fmt.Sprint(extra["label"]) + "|" + fmt.Sprint(extra["class"])
	if c13oracleSeen[key] {
		return
	}
	c13oracleSeen[key] = true
	j := J{"kind": "oracle", "what": what}
	for k, v := range extra {
		j[k] = v
	}
	emit(j)
}

// ---------- caster / formatter tie ----------

func c13gocastCase(s string, class string) {
	c13stats["gocast_"+class]++
	j := c20field(s)
	j["kind"] = "gc"
	v := c20caster.Cast(s)
	if f, isFloat := v.(float64); isFloat {
		_ = f
		c13stats["gocast_is_number"]++
	} else if _, isBool := v.(bool); isBool {
		c13stats["gocast_is_bool"]++
	} else {
		c13stats["gocast_is_text"]++
	}
	// what CellString would give back for a cell holding this field
	emit(j)
}

func c13allStrings(alphabet string, n int, f func(string)) {
	if n == 0 {
		f("")
		return
	}
	buf := make([]byte, n)
	var rec func(i int)
	rec = func(i int) {
		if i == n {
			f(string(buf))
			return
		}
		for k := 0; k < len(alphabet); k++ {
			buf[i] = alphabet[k]
			rec(i + 1)
		}
	}
	rec(0)
}

// ---------- the engine ----------

func c13setup() {
	if err := os.Chdir("cmd/cremengine/engine/api"); err != nil {
		panic(err)
	}
	b, err := ioutil.ReadFile("testdata/ValidTestScenario.toml")
	if err != nil {
		panic(err)
	}
	c13scenario = string(b)
}

type c13resp struct {
	status   int
	body     string
	panicked bool
	what     string
}

func c13send(mux *api.Mux, method, path, body, ctype string) c13resp {
	var r c13resp
	r.panicked, r.what = protect(func() {
		req := httptest.NewRequest(method, c13base+path, strings.NewReader(body))
		if ctype != "" {
			req.Header.Add("Content-Type", ctype)
		}
		w := httptest.NewRecorder()
		mux.ServeHTTP(w, req)
		res := w.Result()
		b, _ := ioutil.ReadAll(res.Body)
		r.status = res.StatusCode
		r.body = string(b)
	})
	return r
}

func c13newMux() *api.Mux { return c13newMuxFor(c13scenario, "scenario_fixture") }

// a fresh engine configured with the given scenario text (the fixture, or the very text the explorer was run with)
func c13newMuxFor(scenarioText string, class string) *api.Mux {
	threading.ResetMainThreadChannel()
	ch := threading.GetMainThreadChannel()
	mux := new(api.Mux).Initialise().WithMainThreadChannel(&ch)
	mux.SetLogger(loggers.NewNullLogger())
	r := c13send(mux, "POST", "scenario", scenarioText, "application/toml")
	if r.panicked || r.status != http.StatusOK {
		c13oracle("the scenario is not accepted by POST /scenario: the engine cannot be configured with the scenario the explorer ran",
			J{"status": r.status, "response": r.body, "panic": r.what, "class": class, "scenario": scenarioText})
		return nil
	}
	return mux
}

// explorer side: the solution of the scenario's model with the given actions active
func c13solution(ref *catchment.Model, bits uint64, id string) *solution.Solution {
	clone := ref.DeepClone()
	clone.Initialise(model.AsIs)
	n := len(clone.ManagementActions())
	for i := 0; i < n; i++ {
		clone.SetManagementAction(i, bits&(1<<uint(i)) != 0)
	}
	return new(solution.SolutionBuilder).WithId(id).ForModel(clone).Build()
}

// the same for an action set of any size (one flag per management action)
func c13solutionOfSet(ref *catchment.Model, set []bool, id string) *solution.Solution {
	clone := ref.DeepClone()
	clone.Initialise(model.AsIs)
	for i, b := range set {
		clone.SetManagementAction(i, b)
	}
	return new(solution.SolutionBuilder).WithId(id).ForModel(clone).Build()
}

type c13row struct {
	label, enc, note string
	vars             solution.VariableSetSummary
	realBits         int64  // >= 0: the row was produced from the model with exactly these actions active (<= 63 actions)
	real             []bool // non-nil: the same for any number of actions (one flag per action); takes precedence
}

// the action set whose REAL values the row carries (nil: none, the values are made up)
func (r c13row) realSet(n int) []bool {
	if r.real != nil {
		return r.real
	}
	if r.realBits < 0 || n > 63 {
		return nil
	}
	set := make([]bool, n)
	for i := range set {
		set[i] = uint64(r.realBits)&(1<<uint(i)) != 0
	}
	return set
}

func c13marshal(rows []c13row) string {
	sm := make(set.Summary, 0)
	for i, r := range rows {
		sm[fmt.Sprintf("key%05d", i)] = solution.Summary{SortIndex: uint64(i), Id: r.label, Variables: r.vars,
			Actions: solution.ActionSummary(r.enc), Note: r.note}
	}
	b, err := new(setcsv.SummaryMarshaler).Marshal(&sm)
	if err != nil {
		panic(err)
	}
	return string(b)
}

// independent decoding of an encoding for n management actions (any n): ':'-separated words, least significant word
// first, bit k of word w is action 64*w+k; the bits of the last word beyond n are dropped.  ok=false if the text
// does not decode for n actions.
func c13decodeSet(enc string, n int) ([]bool, bool) {
	if !c13decodable(enc, n) {
		return nil, false
	}
	set := make([]bool, n)
	for w, word := range strings.Split(enc, ":") {
		v, _ := c13word(word)
		for k := 0; k < 64 && 64*w+k < n; k++ {
			set[64*w+k] = v&(uint64(1)<<uint(k)) != 0
		}
	}
	return set, true
}

// independent ENcoding of an action set: one upper-case hexadecimal numeral without leading zeros per 64 actions
func c13encodeSet(set []bool) string {
	words := []string{}
	for w := 0; 64*w < len(set); w++ {
		var v uint64
		for k := 0; k < 64 && 64*w+k < len(set); k++ {
			if set[64*w+k] {
				v |= uint64(1) << uint(k)
			}
		}
		const digits = "0123456789ABCDEF"
		text := ""
		for ; v != 0; v >>= 4 {
			text = string(digits[v&15]) + text
		}
		if text == "" {
			text = "0"
		}
		words = append(words, text)
	}
	return strings.Join(words, ":")
}

func c13sameSet(a, b []bool) bool {
	if len(a) != len(b) {
		return false
	}
	for i := range a {
		if a[i] != b[i] {
			return false
		}
	}
	return true
}

// the flags of a set as a decimal number (bit i = action i), the form they travel in to the Coq correspondence
func c13setNumber(set []bool) string {
	v := new(big.Int)
	for i, b := range set {
		if b {
			v.SetBit(v, i, 1)
		}
	}
	return v.String()
}

// the active actions a response lists ("pu:type"), as flags over the reference model's action list;
// ok=false when the response names an action the scenario's model does not have, or names one twice
func c13flagsOf(ref *catchment.Model, active []string) ([]bool, bool) {
	index := map[string]int{}
	for i, a := range ref.ManagementActions() {
		index[fmt.Sprintf("%v:%v", a.PlanningUnit(), a.Type())] = i
	}
	set := make([]bool, len(index))
	for _, k := range active {
		i, known := index[k]
		if !known || set[i] {
			return nil, false
		}
		set[i] = true
	}
	return set, true
}

func c13expectedActiveOfSet(ref *catchment.Model, set []bool) []string {
	res := []string{}
	for i, a := range ref.ManagementActions() {
		if i < len(set) && set[i] {
			res = append(res, fmt.Sprintf("%v:%v", a.PlanningUnit(), a.Type()))
		}
	}
	sort.Strings(res)
	return res
}

// one entry of an encoding as BooleanArchive.Decode reads it: non-empty, hexadecimal digits only, value below 2^64
// (written out here, independently of strconv.ParseUint)
func c13word(w string) (uint64, bool) {
	if w == "" {
		return 0, false
	}
	var v uint64
	for _, c := range w {
		var d uint64
		switch {
		case c >= '0' && c <= '9':
			d = uint64(c - '0')
		case c >= 'A' && c <= 'F':
			d = uint64(c-'A') + 10
		case c >= 'a' && c <= 'f':
			d = uint64(c-'a') + 10
		default:
			return 0, false
		}
		if v >= 1<<60 {
			return 0, false
		}
		v = v*16 + d
	}
	return v, true
}

// does the Actions text decode into an archive for n management actions: ceil(n/64) entries between ':', each a word
func c13decodable(enc string, n int) bool {
	words := strings.Split(enc, ":")
	if len(words) != (n+63)/64 {
		return false
	}
	for _, w := range words {
		if _, ok := c13word(w); !ok {
			return false
		}
	}
	return true
}

func c13attr(m map[string]interface{}, name string) (interface{}, bool) {
	as, _ := m["Attributes"].([]interface{})
	for _, a := range as {
		am, _ := a.(map[string]interface{})
		if am["Name"] == name {
			return am["Value"], true
		}
	}
	return nil, false
}

// active actions of a solution JSON as a sorted list "pu:type"
func c13active(m map[string]interface{}) []string {
	res := []string{}
	am, _ := m["ActiveManagementActions"].(map[string]interface{})
	for pu, ts := range am {
		for _, t := range ts.([]interface{}) {
			res = append(res, pu+":"+fmt.Sprint(t))
		}
	}
	sort.Strings(res)
	return res
}

func c13values(m map[string]interface{}) map[string]float64 {
	res := map[string]float64{}
	vs, _ := m["DecisionVariables"].([]interface{})
	for _, v := range vs {
		vm, _ := v.(map[string]interface{})
		s := strings.ReplaceAll(fmt.Sprint(vm["Value"]), ",", "")
		s = strings.TrimPrefix(s, "$")
		f, err := strconv.ParseFloat(s, 64)
		if err == nil {
			res[fmt.Sprint(vm["Name"])] = f
		}
	}
	return res
}

func c13encClass(enc string) string {
	allDec, hasColon := true, strings.Contains(enc, ":")
	for _, c := range enc {
		if c < '0' || c > '9' {
			allDec = false
		}
	}
	_, ferr := strconv.ParseFloat(enc, 64)
	_, berr := strconv.ParseBool(enc)
	switch {
	case enc == "":
		return "empty"
	case hasColon:
		return "multi_word"
	case allDec && len(enc) >= 7:
		return "decimal_7plus_digits"
	case allDec:
		return "decimal_short"
	case ferr == nil:
		return "exponent_literal"
	case berr == nil:
		return "bool_literal"
	default:
		return "hex_with_letters"
	}
}

// one summary through a fresh engine; emits the e2e case and evaluates the property on the real responses
func c13e2e(pre [][]c13row, rows []c13row, class string, inQuantifier bool) {
	c13e2eText(pre, c13marshal(rows), rows, class, inQuantifier)
}

// rows of a summary FILE (as the explorer's saver wrote it), for the implementation-side oracle: the values of a row
// are the file's own figures, the expected actions those of the file's own encoding
func c13rowsOfText(text string, nActions int) ([]c13row, bool) {
	records, err := c20reader(text)
	if err != nil || len(records) < 1 || len(records[0]) < 3 {
		return nil, false
	}
	names := records[0][1 : len(records[0])-2]
	rows := []c13row{}
	for _, r := range records[1:] {
		if len(r) != len(records[0]) {
			return nil, false
		}
		row := c13row{label: r[0], enc: r[len(r)-2], note: r[len(r)-1], realBits: -1}
		for i, n := range names {
			v, perr := strconv.ParseFloat(r[1+i], 64)
			if perr != nil {
				return nil, false
			}
			row.vars = append(row.vars, solution.VariableSummary{Name: n, Value: v})
		}
		if set, ok := c13decodeSet(row.enc, nActions); ok {
			row.real = set
		}
		rows = append(rows, row)
	}
	return rows, true
}

// one summary TEXT (rows = what it is supposed to contain, row by row) through a fresh engine
func c13e2eText(pre [][]c13row, text string, rows []c13row, class string, inQuantifier bool) {
	c13e2eTextOn(c13scenario, pre, text, rows, class, inQuantifier)
}

// ... through a fresh engine configured with the given scenario text
func c13e2eTextOn(scenarioText string, pre [][]c13row, text string, rows []c13row, class string, inQuantifier bool) {
	c13stats["e2e_"+class]++
	mux := c13newMuxFor(scenarioText, class)
	if mux == nil {
		return
	}
	defer protect(func() { mux.Shutdown() })
	ref := mux.VerifC13Model()
	nActions := len(ref.ManagementActions())
	c13stats[fmt.Sprintf("e2e_with_%03d_actions", nActions)]++

	records, readErr := c20reader(text)
	cj := J{"kind": "e2e", "class": class, "text": c20hex(text), "nrows": len(rows), "nw": (nActions + 63) / 64, "nact": nActions}
	if readErr != nil || len(records) != len(rows)+1 {
		// the marshalled text is not read back as one record per row: outside the model (fields not csv-safe)
		cj["csv"] = nil
		emit(cj)
		c13oracle("marshalled summary is not read back as one record per row", J{"text": text, "class": class})
		return
	}
	recs := make([][]J, len(records))
	for i, r := range records {
		recs[i] = make([]J, len(r))
		for k, f := range r {
			recs[i][k] = c20field(f)
		}
	}
	cj["csv"] = recs
	// the as-is model's variables
	asIs := c13solution(ref, 0, "asis")
	asis := []J{}
	for _, v := range asIs.DecisionVariables {
		j := J{"name": c20hex(v.Name)}
		// the engine compares the table cell with DecisionVariable(name).Value() of its own as-is model
		raw := ref.DeepClone()
		raw.Initialise(model.AsIs)
		c20num(j, raw.DecisionVariable(v.Name).Value())
		asis = append(asis, j)
	}
	cj["asis"] = asis

	// history: earlier summaries posted to the same engine, every label of theirs fetched
	preJ := []J{}
	for _, prows := range pre {
		ptext := c13marshal(prows)
		precords, perr := c20reader(ptext)
		if perr != nil {
			panic("history summary is not csv-safe")
		}
		pr := make([][]J, len(precords))
		for i, r := range precords {
			pr[i] = make([]J, len(r))
			for k, f := range r {
				pr[i][k] = c20field(f)
			}
		}
		c13send(mux, "POST", "solutions", ptext, "text/csv")
		labels := []string{}
		for _, r := range prows {
			c13send(mux, "GET", "solutions/"+r.label, "", "")
			labels = append(labels, c20hex(r.label))
		}
		// while the EARLIER summary is loaded, the model is set from the encodings of the summary that will be
		// posted next (in reverse row order, so that the last one set is the first one set again afterwards):
		// whatever the engine concluded about them then must not survive the next POST /solutions
		for i := len(rows) - 1; i >= 1; i-- {
			body, _ := json.Marshal([]J{{"Name": "Encoding", "Value": rows[i].enc}})
			c13send(mux, "PATCH", "model", string(body), "application/json")
			c13stats["history_patches"]++
		}
		preJ = append(preJ, J{"csv": pr, "labels": labels})
	}
	cj["pre"] = preJ

	post := c13send(mux, "POST", "solutions", text, "text/csv")
	switch {
	case post.panicked:
		cj["post"] = "panic"
	default:
		cj["post"] = strconv.Itoa(post.status)
	}
	c13stats["post_"+fmt.Sprint(cj["post"])]++
	if post.panicked && inQuantifier {
		c13oracle("POST /solutions panicked on a marshalled summary", J{"text": text, "panic": post.what, "class": class})
	} else if !post.panicked {
		// since 7ecfa2c every Actions cell (the As-Is row's too) must decode for the scenario's action count
		undecodable := ""
		hasUndecodable := false
		for _, r := range rows {
			if !c13decodable(r.enc, nActions) && !hasUndecodable {
				undecodable, hasUndecodable = r.enc, true
			}
		}
		if post.status != http.StatusOK && inQuantifier && !hasUndecodable {
			c13oracle("summary written by the explorer (marshaller / saver) is rejected by POST /solutions",
				J{"status": post.status, "response": post.body, "class": class, "summary_text": text})
		}
		if post.status == http.StatusOK && hasUndecodable {
			c13oracle("summary with an Actions cell that does not decode for the scenario's action count is accepted by POST /solutions",
				J{"encoding": undecodable, "encoding_class": c13encClass(undecodable), "status": post.status, "class": class, "summary_text": text})
		}
		if hasUndecodable {
			c13stats["post_with_undecodable_row"]++
		}
	}

	gets := []J{}
	patches := []J{}
	if !post.panicked && post.status == http.StatusOK {
		labels := []string{}
		for _, r := range rows {
			labels = append(labels, r.label)
		}
		labels = append(labels, "no-such-label")
		if len(rows) > 1 { // and once more: served from the pool
			labels = append(labels, rows[len(rows)-1].label)
		}
		for li, label := range labels {
			g := c13send(mux, "GET", "solutions/"+label, "", "")
			gj := J{"label": c20hex(label)}
			var jm map[string]interface{}
			switch {
			case g.panicked:
				gj["obs"] = "panic"
				if inQuantifier {
					c13oracle("GET /solutions/<label> panicked", J{"label": label, "panic": g.what, "class": class})
				}
			case g.status == http.StatusNotFound:
				gj["obs"] = "404"
			case g.status == http.StatusOK:
				json.Unmarshal([]byte(g.body), &jm)
				if _, hasSummary := c13attr(jm, "Summary"); hasSummary {
					e, _ := c13attr(jm, "Encoding")
					s, _ := c13attr(jm, "Summary")
					gj["obs"] = "decoded"
					gj["enc"] = c20hex(fmt.Sprint(e))
					gj["sum"] = c20hex(fmt.Sprint(s))
				} else {
					gj["obs"] = "asis"
				}
			default:
				gj["obs"] = "status" + strconv.Itoa(g.status)
			}
			c13stats["get_"+fmt.Sprint(gj["obs"])]++
			// the active actions of the served solution, as flags over the scenario's action list
			gj["act"] = nil
			if jm != nil {
				if set, expressible := c13flagsOf(ref, c13active(jm)); expressible {
					gj["act"] = c13setNumber(set)
				} else if inQuantifier {
					c13oracle("solution fetched by label lists an action the scenario's model does not have (or lists one twice)",
						J{"label": label, "observed_active": c13active(jm), "class": class})
				}
			}
			gets = append(gets, gj)

			// ---- the property, on the real response ----
			if li >= len(rows) || g.panicked || !inQuantifier {
				continue
			}
			row := rows[li]
			if g.status != http.StatusOK {
				c13oracle("label of a summary row is not found", J{"label": label, "encoding": row.enc, "status": g.status, "class": class})
				continue
			}
			gotActive := c13active(jm)
			if li == 0 {
				if len(gotActive) != 0 {
					c13oracle("the As-Is label returns a solution with active actions", J{"label": label, "observed_active": gotActive})
				}
				continue
			}
			wantSet, valid := c13decodeSet(row.enc, nActions)
			e, _ := c13attr(jm, "Encoding")
			if fmt.Sprint(e) != row.enc {
				extra := J{"label": label, "encoding": row.enc, "encoding_class": c13encClass(row.enc), "observed_encoding": fmt.Sprint(e)}
				if valid {
					extra["expected_active"] = c13expectedActiveOfSet(ref, wantSet)
					extra["observed_active"] = gotActive
				}
				c13oracle("solution fetched by label was not decoded from its row's own encoding", extra)
				continue
			}
			if s, _ := c13attr(jm, "Summary"); fmt.Sprint(s) != row.note {
				c13oracle("solution fetched by label does not carry its row's summary text",
					J{"label": label, "encoding": row.enc, "note": row.note, "observed": fmt.Sprint(s)})
			}
			if !valid {
				continue // not an encoding the scenario's compressor can have written: nothing to decode
			}
			wantActive := c13expectedActiveOfSet(ref, wantSet)
			if strings.Join(gotActive, ",") != strings.Join(wantActive, ",") {
				c13oracle("solution fetched by label does not have the actions encoded in its row",
					J{"label": label, "encoding": row.enc, "encoding_class": c13encClass(row.enc), "actions": nActions,
						"expected_active": wantActive, "observed_active": gotActive, "class": class})
				continue
			}
			if real := row.realSet(nActions); real != nil && c13sameSet(real, wantSet) {
				got := c13values(jm)
				for _, v := range row.vars {
					if gv, ok := got[v.Name]; !ok || math.Abs(gv-v.Value) > 0.00501 {
						c13oracle("decision-variable value of the fetched solution differs from its row",
							J{"label": label, "encoding": row.enc, "variable": v.Name, "row": v.Value, "observed": gv, "actions": nActions, "class": class})
					}
				}
			}
		}
		// front membership: set the engine's model from every row's encoding
		// non-as-is rows first (the first one is the encoding the model was last set from before the POST), as-is last
		order := []int{}
		for li := 1; li < len(rows); li++ {
			order = append(order, li)
		}
		if len(rows) > 0 {
			order = append(order, 0)
		}
		// the flags of the engine's model before the first PATCH of this phase (the history may have set it)
		cj["mstart"] = nil
		if len(order) > 0 {
			g := c13send(mux, "GET", "model", "", "")
			var jm map[string]interface{}
			if !g.panicked && g.status == http.StatusOK && json.Unmarshal([]byte(g.body), &jm) == nil {
				if set, expressible := c13flagsOf(ref, c13active(jm)); expressible {
					cj["mstart"] = c13setNumber(set)
				}
			}
		}
		for _, li := range order {
			row := rows[li]
			pj := J{"enc": c20hex(row.enc), "row": li, "act": nil, "menc": nil}
			// Encoding(Decode(e)) by the real archive code, on a clone of the scenario's model
			cm := new(archiveCompressor).recode(ref, row.enc)
			if cm == nil {
				pj["recode"] = nil
			} else {
				pj["recode"] = c20hex(*cm)
			}
			body, _ := json.Marshal([]J{{"Name": "Encoding", "Value": row.enc}})
			p := c13send(mux, "PATCH", "model", string(body), "application/json")
			switch {
			case p.panicked:
				pj["obs"] = "panic"
			case p.status == http.StatusBadRequest:
				pj["obs"] = "400"
			case p.status == http.StatusOK:
				g := c13send(mux, "GET", "model", "", "")
				var jm map[string]interface{}
				json.Unmarshal([]byte(g.body), &jm)
				v, has := c13attr(jm, "ParetoFrontMember")
				if !has {
					pj["obs"] = "none"
				} else {
					pj["obs"] = fmt.Sprint(v)
				}
				// what the engine's model now is: its active actions and its own Encoding attribute
				modelSet, expressible := c13flagsOf(ref, c13active(jm))
				if expressible {
					pj["act"] = c13setNumber(modelSet)
				}
				modelEnc, hasEnc := c13attr(jm, "Encoding")
				if hasEnc {
					pj["menc"] = c20hex(fmt.Sprint(modelEnc))
				}
				if wantSet, valid := c13decodeSet(row.enc, nActions); valid && inQuantifier {
					if !expressible || !c13sameSet(modelSet, wantSet) {
						c13oracle("model set from an encoding (PATCH /model) does not have the actions the encoding names",
							J{"encoding": row.enc, "encoding_class": c13encClass(row.enc), "label": row.label, "actions": nActions, "class": class,
								"expected_active": c13expectedActiveOfSet(ref, wantSet), "observed_active": c13active(jm)})
					} else if !hasEnc || fmt.Sprint(modelEnc) != c13encodeSet(wantSet) {
						c13oracle("model set from an encoding (PATCH /model) does not report the canonical encoding of its action set",
							J{"encoding": row.enc, "encoding_class": c13encClass(row.enc), "label": row.label, "actions": nActions, "class": class,
								"expected_model_encoding": c13encodeSet(wantSet), "observed_model_encoding": fmt.Sprint(modelEnc)})
					}
				}
			default:
				pj["obs"] = "status" + strconv.Itoa(p.status)
			}
			c13stats["patch_"+fmt.Sprint(pj["obs"])]++
			patches = append(patches, pj)
			// a row other than As-Is whose text is the canonical encoding of the action set it names (independently
			// decoded and re-encoded here -- not by the archive code under test; every text the compressor writes is one)
			canonical := false
			if wantSet, valid := c13decodeSet(row.enc, nActions); valid {
				canonical = c13encodeSet(wantSet) == row.enc
			}
			if canonical {
				c13stats["patch_canonical_row"]++
			}
			if inQuantifier && li > 0 && canonical && pj["obs"] != "true" {
				c13oracle("model set from the encoding of a non-as-is row is not marked as Pareto front member",
					J{"encoding": row.enc, "encoding_class": c13encClass(row.enc), "observed": pj["obs"], "label": row.label, "actions": nActions, "class": class})
			}
			if inQuantifier && canonical && (cm == nil || *cm != row.enc) {
				c13oracle("Encoding(Decode(e)) of the archive code is not e for a canonical encoding e of the scenario's action count",
					J{"encoding": row.enc, "encoding_class": c13encClass(row.enc), "recoded": cm, "actions": nActions, "class": class})
			}
		}
	}
	cj["gets"] = gets
	cj["patches"] = patches
	emit(cj)
}

// Encoding(Decode(e)) exactly as reInitialiseModelWithEncoding + deriveModelActionEncoding do it
type archiveCompressor struct{}

func (archiveCompressor) recode(ref *catchment.Model, enc string) *string {
	clone := ref.DeepClone()
	cm := c13compress(clone)
	if err := cm.Decode(enc); err != nil {
		return nil
	}
	c13decompress(cm, clone)
	s := c13compress(clone).Encoding()
	return &s
}

func c13compress(m model.Model) *marchive.CompressedModelState {
	return new(marchive.ModelCompressor).Compress(m)
}

func c13decompress(cm *marchive.CompressedModelState, m model.Model) {
	new(marchive.ModelCompressor).Decompress(cm, m)
}

func c13vars(ref *catchment.Model, bits uint64) (solution.VariableSetSummary, string) {
	s := c13solution(ref, bits, "x")
	sum := s.Summarise()
	if n := len(ref.ManagementActions()); n <= 63 {
		set := make([]bool, n)
		for i := range set {
			set[i] = bits&(1<<uint(i)) != 0
		}
		c13written(set, string(sum.Actions), "scenario_fixture")
	}
	return sum.Variables, string(sum.Actions)
}

// ---------- summary FILES written by the real scenario.Saver, driven the way the Runner drives it ----------

// mutually non-dominated, pairwise different action sets (an archive keeps them all, in this order)
func c13members(rng *prng, ref *catchment.Model, n int) []uint64 {
	nActions := len(ref.ManagementActions())
	work := ref.DeepClone()
	work.Initialise(model.AsIs)
	a := marchive.New()
	var res []uint64
	for tries := 0; len(res) < n && tries < 10000; tries++ {
		bits := rng.next() & ((1 << uint(nActions)) - 1)
		if rng.chance(0.25) {
			bits &= rng.next()
		}
		if bits == 0 {
			continue
		}
		for i := 0; i < nActions; i++ {
			work.SetManagementAction(i, bits&(1<<uint(i)) != 0)
		}
		before := a.Len()
		if a.AttemptToArchive(work) == marchive.StoredWithNoDominanceDetected && a.Len() == before+1 {
			res = append(res, bits)
		} else if a.Len() != before {
			a = marchive.New()
			res = nil
		}
	}
	if len(res) != n {
		panic("c13members: could not generate the requested number of members")
	}
	return res
}

// ONE saver instance serves the R runs of a scenario, one FinishedAnnealing event per run (scenario.Runner does
// exactly this: SetDecompressionModel once, then every run's annealer notifies the same saver).  Every summary
// file it writes is then loaded into a fresh engine configured with the same scenario.
func c13saverScenario(rng *prng, ref *catchment.Model, fam string, name string, R int, nMembers int) {
	nActions := len(ref.ManagementActions())
	tmp, err := os.MkdirTemp("", "verif-c13-saver-")
	if err != nil {
		panic(err)
	}
	defer os.RemoveAll(tmp)
	saver := scenario.NewSaver().
		WithOutputType(solenc.OutputType("CSV")).
		WithOutputLevel(scenario.OutputLevel("Summary")).
		WithLogHandler(new(loggers.NullLogger))
	saver.SetDecompressionModel(ref)
	for r := 1; r <= R; r++ {
		dir := filepath.Join(tmp, fmt.Sprintf("run%d", r))
		saver = saver.WithOutputPath(dir)
		runId := scenario.VerifC12CloneId(name, uint64(R), uint64(r))
		event := observer.NewEvent(observer.FinishedAnnealing)
		work := ref.DeepClone()
		work.Initialise(model.AsIs)
		apply := func(bits uint64) {
			for i := 0; i < nActions; i++ {
				work.SetManagementAction(i, bits&(1<<uint(i)) != 0)
			}
		}
		if fam == "suppapitnarm" {
			a := marchive.New()
			a.SetId(runId)
			for _, bits := range c13members(rng, ref, nMembers) {
				apply(bits)
				a.ForceIntoArchive(work)
			}
			event.WithAttribute(scenario.ModelArchive, *a)
		} else {
			bits := uint64(0)
			for bits == 0 {
				bits = rng.next() & ((1 << uint(nActions)) - 1)
			}
			if rng.chance(0.3) {
				bits = []uint64{0x1E3, 0xF, 0x1E0, 0x148}[rng.intn(4)] & ((1 << uint(nActions)) - 1)
			}
			apply(bits)
			st := new(marchive.ModelCompressor).Compress(work)
			st.SetId(runId)
			event.WithAttribute(scenario.CompressedModel, *st)
		}
		class := fmt.Sprintf("saver_file_%s_run%dof%d", fam, r, R)
		if p, what := protect(func() { saver.ObserveEvent(*event) }); p {
			c13oracle("the saver panicked while writing a run's summary", J{"class": class, "panic": what})
			continue
		}
		files, _ := filepath.Glob(filepath.Join(dir, "*ummary.csv"))
		if len(files) != 1 {
			listing, _ := os.ReadDir(dir)
			names := []string{}
			for _, e := range listing {
				names = append(names, e.Name())
			}
			c13oracle("the saver did not write exactly one summary file for a run", J{"class": class, "files": names})
			continue
		}
		b, rerr := os.ReadFile(files[0])
		if rerr != nil {
			panic(rerr)
		}
		text := string(b)
		rows, ok := c13rowsOfText(text, nActions)
		if !ok {
			c13oracle("summary file written by the saver is not a well-formed summary table", J{"class": class, "text": text})
			continue
		}
		c13stats["saver_files"]++
		c13stats["saver_rows"] += len(rows)
		c13e2eText(nil, text, rows, class, true)
	}
}

// ---------- generated catchments whose action count sits on / around the 64-bit words of the encoding ----------
//
// The REAL explorer (cmd/cremexplorer's loader, interpreter and Scenario.Run(), in a child process because a panic in
// a run goroutine cannot be recovered) is run over a generated catchment with exactly n management actions, once per
// annealer family; the summary file it writes is posted to a fresh engine configured with the SAME scenario text,
// every label fetched, the model set from every row's encoding.  Plus, through the real marshaller, the action sets
// that fill / straddle the words (all actions, only the last one, only action 63 / 64 / ...), with their real values.

// child: one scenario text through the explorer.  Exit status: 0 completed; 10 loader error; 11 interpreter error;
// 12 Run() returned an error; 2 = Go's own status for a panic nobody recovered.
func runC13child(args []string) {
	text, err := os.ReadFile(args[0])
	if err != nil {
		fmt.Fprintln(os.Stderr, "C13child: cannot read", args[0], err)
		os.Exit(30)
	}
	config, loadErr := explorerData.RetrieveConfigFromString(string(text))
	if loadErr != nil {
		fmt.Fprintln(os.Stderr, "C13LOADERR", loadErr)
		os.Exit(10)
	}
	interpreter := explorerInterpreter.NewInterpreter().Interpret(config)
	if interpreter.Errors() != nil {
		fmt.Fprintln(os.Stderr, "C13INTERPRETERR", interpreter.Errors())
		os.Exit(11)
	}
	if runErr := interpreter.Scenario().Run(); runErr != nil {
		fmt.Fprintln(os.Stderr, "C13RUNERR", runErr)
		os.Exit(12)
	}
	os.Exit(0)
}

func c13runExplorer(tomlPath string) (rc int, stderr string) {
	exe, _ := os.Executable()
	cmd := exec.Command(exe, "C13child", tomlPath)
	var se strings.Builder
	cmd.Stderr = &se
	if err := cmd.Start(); err != nil {
		panic(err)
	}
	done := make(chan error, 1)
	go func() { done <- cmd.Wait() }()
	select {
	case werr := <-done:
		if werr != nil {
			rc = -1
			if ee, ok := werr.(*exec.ExitError); ok {
				rc = ee.ExitCode()
			}
		}
	case <-time.After(120 * time.Second):
		cmd.Process.Kill()
		<-done
		return 7, "no end within 120 s"
	}
	stderr = se.String()
	if len(stderr) > 800 {
		stderr = stderr[len(stderr)-800:]
	}
	return rc, stderr
}

// the explorer side of an Actions cell: the text the real solution builder / compressor writes for a model with the
// given action set.  Exported for the Coq model (ActionCodec.encoding_of) and compared with the independent encoder.
func c13written(set []bool, text string, class string) {
	key := c13setNumber(set) + "/" + strconv.Itoa(len(set))
	if c13writtenSeen[key] {
		return
	}
	c13writtenSeen[key] = true
	c13stats["written_encodings"]++
	emit(J{"kind": "wr", "n": len(set), "set": c13setNumber(set), "text": c20hex(text), "class": class})
	if want := c13encodeSet(set); text != want {
		c13oracle("the Actions text the explorer writes for an action set is not the canonical encoding of that set",
			J{"encoding": text, "expected_encoding": want, "actions": len(set), "active_flags": c13setNumber(set), "class": class})
	}
}

var c13writtenSeen = map[string]bool{}

type c13family struct{ name, annealer string }

var c13families = []c13family{
	{"Kirkpatrick", `[Annealer]
Type = "Kirkpatrick"
[Annealer.Parameters]
DecisionVariable = "SedimentProduction"
OptimisationDirection = "Minimising"
StartingTemperature = 10.0
CoolingFactor = 0.99
MaximumIterations = %d
`},
	{"Suppapitnarm", `[Annealer]
Type = "Suppapitnarm"
[Annealer.Parameters]
ExplorableDecisionVariables = "SedimentProduction,ImplementationCost"
StartingTemperature = 10.0
CoolingFactor = 0.99
MaximumIterations = %d
`},
}

// catchment.Model.deriveDataSourcePath joins the process's working directory and the configured DataSourcePath
// unconditionally (an absolute path is NOT kept), so the data set is named relative to the working directory -- the
// same for the explorer child and for the engine, which both run in this process's working directory.
func c13scenarioText(name string, fam c13family, iterations int, outDir string, dataPath string) string {
	if wd, err := os.Getwd(); err == nil {
		if rel, relErr := filepath.Rel(wd, dataPath); relErr == nil {
			dataPath = filepath.ToSlash(rel)
		}
	}
	return "[Scenario]\nName = " + strconv.Quote(name) + "\nOutputPath = " + strconv.Quote(outDir) + "\nOutputType = \"CSV\"\n" +
		"[Scenario.Reporting]\nReportEveryNumberOfIterations = 1000\n\n" + fmt.Sprintf(fam.annealer, iterations) +
		"\n[Model]\nType = \"CatchmentModel\"\n[Model.Parameters]\nDataSourcePath = " + strconv.Quote(dataPath) + "\n"
}

func c13datasetFiles(metaPath string) J {
	res := J{}
	files, _ := filepath.Glob(filepath.Join(filepath.Dir(metaPath), "*.csv"))
	for _, f := range files {
		b, _ := os.ReadFile(f)
		res[filepath.Base(f)] = string(b)
	}
	return res
}

func c13sizedCatchment(rng *prng, n int, iterations int) {
	meta, cleanup, desc := catchSizedDataset(rng, n)
	defer cleanup()
	c13stats["sized_catchments"]++
	dir := filepath.Dir(meta)
	sizeClass := fmt.Sprintf("%03d_actions", n)
	dataset := c13datasetFiles(meta)

	// (i) the real explorer, both annealer families
	for _, fam := range c13families {
		name := fmt.Sprintf("Sized %s %d", fam.name, n)
		outDir := filepath.Join(dir, "solutions-"+fam.name)
		text := c13scenarioText(name, fam, iterations, outDir, meta)
		tomlPath := filepath.Join(dir, fam.name+".toml")
		if err := os.WriteFile(tomlPath, []byte(text), 0o644); err != nil {
			panic(err)
		}
		class := "explorer_" + strings.ToLower(fam.name) + "_" + sizeClass
		rc, stderr := c13runExplorer(tomlPath)
		if rc != 0 {
			c13oracle("the explorer did not complete a run over a generated catchment (no summary to load)",
				J{"class": class, "exit_status": rc, "stderr": stderr, "scenario": text, "dataset": dataset, "composition": desc})
			continue
		}
		files, _ := filepath.Glob(filepath.Join(outDir, "*ummary.csv"))
		if len(files) != 1 {
			c13oracle("the explorer did not write exactly one summary file for its run", J{"class": class, "files": files, "scenario": text})
			continue
		}
		b, rerr := os.ReadFile(files[0])
		if rerr != nil {
			panic(rerr)
		}
		summary := string(b)
		rows, ok := c13rowsOfText(summary, n)
		if !ok {
			c13oracle("summary file written by the explorer is not a well-formed summary table", J{"class": class, "text": summary})
			continue
		}
		c13stats["explorer_summaries"]++
		c13stats["explorer_summary_rows"] += len(rows)
		before := len(c13oracleSeen)
		c13e2eTextOn(text, nil, summary, rows, class, true)
		if len(c13oracleSeen) != before {
			// the replay of a failing generated scenario needs its data set
			emit(J{"kind": "oracle", "what": "(input of the failing generated scenario above)", "class": class, "actions": n,
				"scenario": text, "dataset": dataset, "summary_text": summary, "composition": desc})
		}
	}

	// (ii) the real marshaller on the action sets that fill / straddle the words, with their real values
	fam := c13families[0]
	text := c13scenarioText(fmt.Sprintf("Sized sets %d", n), fam, iterations, filepath.Join(dir, "solutions-sets"), meta)
	probe := c13newMuxFor(text, "marshaller_"+sizeClass)
	if probe == nil {
		return
	}
	ref := probe.VerifC13Model()
	protect(func() { probe.Shutdown() })
	if len(ref.ManagementActions()) != n {
		panic("generated catchment does not offer the requested number of actions to the engine")
	}
	rowOf := func(label, note string, set []bool) c13row {
		sum := c13solutionOfSet(ref, set, "x").Summarise()
		c13written(set, string(sum.Actions), "marshaller_boundary_sets_"+sizeClass)
		return c13row{label: label, enc: string(sum.Actions), note: note, vars: sum.Variables, realBits: -1, real: set}
	}
	sets := [][]bool{}
	single := func(k int) {
		if k >= 0 && k < n {
			set := make([]bool, n)
			set[k] = true
			sets = append(sets, set)
		}
	}
	ones := make([]bool, n)
	for i := range ones {
		ones[i] = true
	}
	sets = append(sets, ones)
	for _, k := range []int{n - 1, 0, 62, 63, 64, 65, 127, 128, 191, 192} {
		if k != 0 || n > 1 {
			single(k)
		}
	}
	for w := 0; 64*w < n; w++ { // everything but one word; only the last word
		if n > 64 {
			set := make([]bool, n)
			for i := range set {
				set[i] = i/64 != w
			}
			sets = append(sets, set)
		}
	}
	for t := 0; t < 3; t++ {
		set := make([]bool, n)
		any := false
		for i := range set {
			set[i] = rng.chance(0.5)
			any = any || set[i]
		}
		if any {
			sets = append(sets, set)
		}
	}
	asRow := rowOf("As-Is", "As-is state; zero active management actions", make([]bool, n))
	rows := []c13row{asRow}
	seen := map[string]bool{asRow.enc: true}
	for _, set := range sets {
		r := rowOf("x", "x", set)
		if seen[r.enc] {
			continue
		}
		seen[r.enc] = true
		rows = append(rows, r)
	}
	for k := range rows[1:] {
		rows[k+1].label = fmt.Sprintf("%d-of-%d", k+1, len(rows)-1)
		rows[k+1].note = fmt.Sprintf("Pareto front member %d of %d", k+1, len(rows)-1)
	}
	before := len(c13oracleSeen)
	// an earlier summary under the same labels first (all actions / the last action only), then the boundary sets
	pre := [][]c13row{{asRow, rowOf("1-of-2", "Pareto front member 1 of 2", sets[len(sets)-1]), rowOf("2-of-2", "Pareto front member 2 of 2", ones)}}
	if pre[0][1].enc == pre[0][2].enc {
		pre = nil
	}
	c13e2eTextOn(text, pre, c13marshal(rows), rows, "marshaller_boundary_sets_"+sizeClass, true)
	if len(c13oracleSeen) != before {
		emit(J{"kind": "oracle", "what": "(input of the failing generated scenario above)", "class": "marshaller_boundary_sets_" + sizeClass, "actions": n,
			"scenario": text, "dataset": dataset, "composition": desc})
	}
}

func runC13(args []string) {
	tier := "quick"
	if len(args) > 0 {
		tier = args[0]
	}
	rng := newPrng(13)

	// ---- 1. caster/formatter model vs the real caster: exhaustive over [0-9A-F:] up to a length ----
	maxLen := 3
	if tier == "thorough" {
		maxLen = 4
	}
	const alphabet = "0123456789ABCDEF:"
	for n := 0; n <= maxLen; n++ {
		c13allStrings(alphabet, n, func(s string) { c13gocastCase(s, fmt.Sprintf("exhaustive_len%d", n)) })
	}
	// longer shapes: decimals of every length 1..24 (incl. 2^53 neighbourhood), d+Ed+, leading zeros, lower case, signs, dots
	shapes := []string{"9007199254740991", "9007199254740992", "9007199254740993", "9999999999999999", "1000000", "999999", "0999999",
		"100000", "1E308", "1E309", "17E307", "18E307", "179769313486231570E291", "179769313486231581E291", "0E99999", "1E99999", "1e3", "1e+3", "1e-3", "1E+3", "1E-3",
		"+1", "-1", "-0", "1.5", "1.", ".5", "0.001", "1123.266", "-0.000", "101198.000", "1e", "e1", "E", "1E", "E1", "1E1E1", "1EE1", "t", "T", "true", "TRUE", "True",
		"f", "F", "false", "FALSE", "False", "tRUE", "FF", "0F", "F0", "1F", "DEADBEEF", "FFFFFFFFFFFFFFFF", "1:2", "0:0", "F:F", "1E3:1E3", ":", "1:", ":1", "", "As-Is", "1-of-8",
		"12-of-40", "Optimised", "Pareto front member 3 of 8", "As-is state; zero active management actions", "Computationally optimised solution",
		"Solution", "Actions", "Summary", "SedimentProduction"}
	for _, s := range shapes {
		c13gocastCase(s, "shape_fixed")
	}
	nShapes := 600
	if tier == "thorough" {
		nShapes = 6000
	}
	for i := 0; i < nShapes; i++ {
		var s string
		switch rng.intn(6) {
		case 0: // decimal digits, any length up to 24
			n := 1 + rng.intn(24)
			b := make([]byte, n)
			for k := range b {
				b[k] = byte('0' + rng.intn(10))
			}
			s = string(b)
		case 1: // d+Ed+
			s = strconv.Itoa(rng.intn(100000)) + "E" + strconv.Itoa(rng.intn(400))
			if rng.chance(0.3) {
				s = "0" + s
			}
		case 2: // canonical hex word
			s = strings.ToUpper(strconv.FormatUint(rng.next()>>uint(rng.intn(64)), 16))
		case 3: // several words
			s = strings.ToUpper(strconv.FormatUint(rng.next()>>uint(rng.intn(64)), 16)) + ":" + strings.ToUpper(strconv.FormatUint(rng.next()>>uint(rng.intn(64)), 16))
		case 4: // "%.3f"
			s = fmt.Sprintf("%.3f", (rng.float()-0.1)*math.Pow(10, float64(rng.intn(9))))
		default: // random over the wider alphabet of the model
			al := "0123456789ABCDEFabcdef:.+-Ee"
			n := 1 + rng.intn(7)
			b := make([]byte, n)
			for k := range b {
				b[k] = al[rng.intn(len(al))]
			}
			s = string(b)
		}
		c13gocastCase(s, "shape_random")
	}

	// ---- 2. end to end ----
	c13setup()
	probe := c13newMux()
	if probe == nil {
		emit(J{"kind": "stat", "stats": c13stats})
		return
	}
	ref := probe.VerifC13Model()
	nActions := len(ref.ManagementActions())
	c13stats["scenario_actions"] = nActions
	asVars, asEnc := c13vars(ref, 0)
	asRow := c13row{label: "As-Is", enc: asEnc, note: "As-is state; zero active management actions", vars: asVars, realBits: 0}
	realRow := func(k, n int, bits uint64) c13row {
		vs, enc := c13vars(ref, bits)
		return c13row{label: fmt.Sprintf("%d-of-%d", k, n), enc: enc, note: fmt.Sprintf("Pareto front member %d of %d", k, n), vars: vs, realBits: int64(bits)}
	}
	// (a) summaries as the explorer writes them: real values, real encodings
	nReal, realSize := 5, 10
	if tier == "thorough" {
		nReal, realSize = 40, 40
	}
	for i := 0; i < nReal; i++ {
		n := 1 + rng.intn(realSize)
		rows := []c13row{asRow}
		seen := map[uint64]bool{0: true}
		for k := 1; k <= n; k++ {
			bits := rng.next() & ((1 << uint(nActions)) - 1)
			if rng.chance(0.3) { // steer towards the interesting encodings: d+Ed+, F, all-decimal
				cands := []uint64{0xF, 0x1E3, 0x1E0, 0x2E1, 0x1E03, 0x10, 0x99, 0x1000, 0x1999, 0xE, 0x1E, 0xFF, 0x1FFF}
				bits = cands[rng.intn(len(cands))] & ((1 << uint(nActions)) - 1)
			}
			if seen[bits] {
				continue
			}
			seen[bits] = true
			rows = append(rows, realRow(len(rows), n, bits))
		}
		for k := range rows[1:] {
			rows[k+1].label = fmt.Sprintf("%d-of-%d", k+1, len(rows)-1)
			rows[k+1].note = fmt.Sprintf("Pareto front member %d of %d", k+1, len(rows)-1)
		}
		c13e2e(nil, rows, "real_rows", true)
	}
	// single-objective shape: As-Is + Optimised
	{
		vs, enc := c13vars(ref, 0x1A5&((1<<uint(nActions))-1))
		c13e2e(nil, []c13row{asRow, {label: "Optimised", enc: enc, note: "Computationally optimised solution", vars: vs, realBits: int64(0x1A5 & ((1 << uint(nActions)) - 1))}}, "real_optimised", true)
	}
	// (b) every encoding class on its own, with the real values of that action set
	for _, bits := range []uint64{0xF, 0x1E3, 0x1E0, 0x9E9, 0x1E03, 0x1E10, 0x40, 0x148, 0xC0, 0x1000, 0x1234, 0xE, 0x1E, 0xE1, 0xABC, 0x1FFF, 0x1, 0x0} {
		b := bits & ((1 << uint(nActions)) - 1)
		c13e2e(nil, []c13row{asRow, realRow(1, 1, b)}, "one_real_row_"+c13encClass(realRow(1, 1, b).enc), true)
	}
	// (c) synthetic rows: arbitrary text over [0-9A-F:] in the Actions column (as for scenarios with more actions)
	nSynth := 12
	if tier == "thorough" {
		nSynth = 300
	}
	// texts over [0-9A-F:] that decode for the scenario (one word of at most 64 bits; bits beyond the actions are dropped) ...
	synthDecodable := func() string {
		switch rng.intn(8) {
		case 0:
			return strconv.Itoa(1000000 + rng.intn(9000000))
		case 1:
			return strconv.Itoa(rng.intn(99999)) + "E" + strconv.Itoa(rng.intn(30))
		case 2:
			return "F"
		case 3:
			return strings.Repeat("0", rng.intn(20)) + strings.ToUpper(strconv.FormatUint(rng.next()>>uint(rng.intn(64)), 16))
		case 4:
			return strconv.Itoa(rng.intn(999999))
		case 5:
			return []string{"0012", "00", "0F", "1E309", "1E99999", "9007199254740993", "FFFFFFFFFFFFFFFF", "E", "1E", "E1", "FFFF", "2000", "0000000000000000000001"}[rng.intn(13)]
		default:
			return strings.ToUpper(strconv.FormatUint(rng.next()>>uint(rng.intn(64)), 16))
		}
	}
	// ... and texts over [0-9A-F:] that do not (wrong number of words, an empty word, a word beyond 64 bits)
	synthUndecodable := func() string {
		switch rng.intn(4) {
		case 0:
			return strings.ToUpper(strconv.FormatUint(rng.next(), 16)) + ":" + strings.ToUpper(strconv.FormatUint(rng.next()>>uint(rng.intn(64)), 16))
		case 1:
			return []string{":", "1:", ":1", "", "0:0", "1E3:F", "::"}[rng.intn(7)]
		case 2:
			return "1" + strings.ToUpper(strconv.FormatUint(rng.next()|(1<<63), 16)) // 17 digits
		default:
			return []string{"FFFFFFFFFFFFFFFFF", "12345678901234567890", "10000000000000000"}[rng.intn(3)]
		}
	}
	for _, u := range []string{"1:", ":", "", "0:0", "FFFFFFFFFFFFFFFFF"} { // the shapes that were accepted before 7ecfa2c
		c13e2e(nil, []c13row{asRow, {label: "1-of-1", enc: u, note: "Pareto front member 1 of 1", vars: asVars, realBits: -1}}, "synthetic_undecodable_row", true)
	}
	{
		bad := asRow
		bad.enc = "0:0"
		c13e2e(nil, []c13row{bad, realRow(1, 1, 3)}, "synthetic_undecodable_row", true)
	}
	for i := 0; i < nSynth; i++ {
		n := 1 + rng.intn(5)
		rows := []c13row{asRow}
		undecodableAt := -1
		class := "synthetic_rows"
		if rng.chance(0.25) {
			undecodableAt = 1 + rng.intn(n)
			class = "synthetic_undecodable_row"
		}
		for k := 1; k <= n; k++ {
			vs := make(solution.VariableSetSummary, len(asVars))
			for vi, v := range asVars {
				vs[vi] = solution.VariableSummary{Name: v.Name, Value: math.Round(rng.float()*2e6) / 1000}
			}
			enc := synthDecodable()
			if k == undecodableAt {
				enc = synthUndecodable()
			}
			rows = append(rows, c13row{label: fmt.Sprintf("%d-of-%d", k, n), enc: enc, note: fmt.Sprintf("Pareto front member %d of %d", k, n), vars: vs, realBits: -1})
		}
		c13e2e(nil, rows, class, true)
	}
	// (d) malformed relatives (outside the property's quantifier; they validate the model's 400 / Panic outcomes)
	{
		wrong := asRow
		wrong.vars = append(solution.VariableSetSummary{}, asVars...)
		wrong.vars[0].Value += 1
		c13e2e(nil, []c13row{wrong, realRow(1, 1, 3)}, "asis_values_of_another_scenario", false)
		c13e2e(nil, []c13row{realRow(1, 1, 3)}, "first_row_not_asis", false)
		c13e2e(nil, []c13row{asRow, {label: "1-of-1", enc: "XYZ", note: "n", vars: asVars, realBits: -1}}, "encoding_not_hex", false)
		c13e2e(nil, []c13row{asRow, {label: "1-of-1", enc: "3", note: "true", vars: asVars, realBits: -1}}, "note_is_bool_literal", false)
		c13e2e(nil, []c13row{asRow, {label: "1-of-2", enc: "3", note: "a", vars: asVars, realBits: -1}, {label: "1-of-2", enc: "5", note: "b", vars: asVars, realBits: -1}}, "duplicate_labels", false)
		c13e2e(nil, []c13row{asRow}, "asis_only", false)
		// the guards added by ac75323 / 09c7c9e: a variable column missing, a column that is no decision variable
		fewer := func(r c13row) c13row {
			r.vars = append(solution.VariableSetSummary{}, r.vars[:len(r.vars)-1]...)
			return r
		}
		c13e2e(nil, []c13row{fewer(asRow), fewer(realRow(1, 1, 3))}, "one_variable_column_missing", false)
		renamed := func(r c13row) c13row {
			r.vars = append(solution.VariableSetSummary{}, r.vars...)
			r.vars[0].Name = "NoSuchVariable"
			return r
		}
		c13e2e(nil, []c13row{renamed(asRow), renamed(realRow(1, 1, 3))}, "unknown_variable_column", false)
	}

	// ---- 2e. summary FILES written by the real scenario.Saver: one saver, R runs, both annealer families ----
	{
		type sc struct {
			fam  string
			R, n int
		}
		plan := []sc{{"kirkpatrick", 1, 1}, {"kirkpatrick", 2, 1}, {"kirkpatrick", 3, 1}, {"suppapitnarm", 1, 3}, {"suppapitnarm", 2, 3}}
		if tier == "thorough" {
			plan = append(plan, sc{"suppapitnarm", 3, 6}, sc{"kirkpatrick", 3, 1}, sc{"kirkpatrick", 2, 1}, sc{"suppapitnarm", 2, 12}, sc{"suppapitnarm", 3, 2},
				sc{"kirkpatrick", 3, 1}, sc{"suppapitnarm", 1, 20})
		}
		for i, p := range plan {
			c13saverScenario(rng, ref, p.fam, []string{"Kirkpatrick", "Suppapitnarm run", "P"}[i%3], p.R, p.n)
		}
	}

	// ---- 2f. generated catchments with the action count on / around the 64-bit word boundaries of the encoding:
	//          real explorer (both families) -> summary file -> engine configured with the same scenario ----
	{
		sizes := []int{63, 64, 65, 128, 127, 129, 192, 1, 2}
		iterations := 300
		if tier == "thorough" {
			sizes = []int{63, 64, 65, 128, 1, 2, 3, 13, 62, 66, 127, 129, 191, 192, 193, 256, 320, 64, 128}
			for i := 0; i < 6; i++ {
				sizes = append(sizes, 1+rng.intn(200))
			}
			iterations = 1500
		}
		for _, n := range sizes {
			c13sizedCatchment(rng, n, iterations)
		}
	}

	// ---- 3. regression cases: the former refutation witnesses of D9 (b0400cb) and of the stale pool (43fcffa)
	//         must now round-trip; they are ordinary in-quantifier cases of the correspondence and of the oracle ----
	for _, bits := range []uint64{0x1E3, 0xF, 0x1E0, 0x12, 0x1E03} {
		c13e2e(nil, []c13row{asRow, realRow(1, 1, bits&((1<<uint(nActions))-1))}, "former_D9_witness_real_row", true)
	}
	for _, enc := range []string{"1000000", "9E9", "0012", "1E3", "F"} {
		vs, _ := c13vars(ref, 0)
		c13e2e(nil, []c13row{asRow, {label: "1-of-1", enc: enc, note: "Pareto front member 1 of 1", vars: vs, realBits: -1}}, "former_D9_witness_synthetic", true)
	}
	// two (three) summaries in a row on one engine, the same labels re-used with other encodings
	c13e2e([][]c13row{{asRow, realRow(1, 1, 0x3)}}, []c13row{asRow, realRow(1, 1, 0xC)}, "repost_same_label", true)
	c13e2e([][]c13row{{asRow, realRow(1, 2, 0x3), realRow(2, 2, 0x1E3)}, {asRow, realRow(1, 2, 0xF), realRow(2, 2, 0x5)}},
		[]c13row{asRow, realRow(1, 2, 0x1E0), realRow(2, 2, 0xC)}, "repost_same_label", true)
	for i := 0; i < 4; i++ {
		a := []c13row{asRow, realRow(1, 2, rng.next()&((1<<uint(nActions))-1)), realRow(2, 2, 1+rng.next()&0xFF)}
		b := []c13row{asRow, realRow(1, 2, 0x100+rng.next()&0xFF), realRow(2, 2, 0x1000+rng.next()&0xFF)}
		if a[1].enc == a[2].enc || b[1].enc == b[2].enc {
			continue
		}
		c13e2e([][]c13row{a}, b, "repost_same_label", true)
	}
	protect(func() { probe.Shutdown() })
	emit(J{"kind": "stat", "stats": c13stats})
}

func init() {
	register("C13", runC13)
	register("C13child", runC13child)
}
