//go:build verif

package main

// C14 / C15 -- large request bodies and histories of replaced solution summaries, on the differential runner of c14.go.
//
// Large bodies.  Every body-carrying write (POST /scenario, POST /solutions, PUT /model/actions/active, PUT
// /model/subcatchment/<id>, PATCH /model) is sent with bodies whose sizes sit on and next to typical buffer boundaries
// (4 KiB, 64 KiB, 1 MiB, each -1 / exactly / +1 / "the filler ends exactly on the boundary", and a few MiB).  A body is
//
//     prefix + count x unit + pad_count x pad + suffix          (pad: one inert byte, makes the size exact)
//
// and is valid as a whole; what it MEANS is decided by its suffix (the table rows / the TOML key / the JSON entries that
// matter come after the filler), so an implementation that handles only part of a body answers differently from the
// model.  Variants: "tail" (filler = real rows / entries / comment lines, prefix alone does not parse in general),
// "gap" (filler = blank lines / white space: the prefix alone parses too, and means something else), "line" (the filler
// is ONE long line / field), "trail" (everything first, then inert filler: only the echoed text can tell), "badtail"
// (valid prefix, filler, then a malformed end: the whole body must be refused and nothing may change), and for PATCH
// "value" (one attribute value of that size, stored and served back).  Bodies are delivered through c14ChunkReader in
// varying piece sizes.  The posted bytes never appear in the generated Coq cases: texts are interned tokens
// (c14Texts: same token <=> same bytes, so "GET returns the bytes posted" is decided on tokens), filler rows / entries
// are run-length encoded in the parse-level views (EngineCorr.rle), long attribute values are (length, sha256).
//
// Summary histories.  One engine, one scenario, SEVERAL different valid solution summaries posted one after the other
// (different sizes, overlapping and disjoint label sets, the same labels with other encodings, permuted rows), with
// GET /solutions/<label> for labels of the current AND of every earlier summary in between, GET /solutions, PATCH
// /model {Encoding}, failed POST /solutions (the old summary stays in force) and re-POSTs of the scenario.

import (
	stdcsv "encoding/csv"
	"encoding/json"
	"fmt"
	"sort"
	"strconv"
	"strings"
)

// ---------------------------------------------------------------------------------------------------
// building a body of an exact size

type c14Fill struct {
	Prefix, Unit, Pad, Suffix string
}

// build: total = the exact length wanted; aligned: prefix + filler is exactly [total] bytes long and the suffix follows
func (f c14Fill) build(total int, aligned bool) (string, J) {
	room := total - len(f.Prefix)
	if !aligned {
		room -= len(f.Suffix)
	}
	count, pad := 0, 0
	if room > 0 {
		count = room / len(f.Unit)
		pad = room - count*len(f.Unit)
	}
	var sb strings.Builder
	sb.Grow(len(f.Prefix) + room + len(f.Suffix) + 8)
	sb.WriteString(f.Prefix)
	for i := 0; i < count; i++ {
		sb.WriteString(f.Unit)
	}
	for i := 0; i < pad; i++ {
		sb.WriteString(f.Pad)
	}
	sb.WriteString(f.Suffix)
	body := sb.String()
	return body, J{"prefix": c14S(f.Prefix), "unit": c14S(f.Unit), "count": count, "pad": c14S(f.Pad), "pad_count": pad,
		"suffix": c14S(f.Suffix), "len": len(body), "filler_ends_at": len(body) - len(f.Suffix)}
}

func c14ShortGen(gen J) J {
	out := J{}
	for k, v := range gen {
		if s, ok := v.(string); ok && len(s) > 160 {
			out[k] = s[:70] + " ...(" + strconv.Itoa(len(s)) + " bytes)... " + s[len(s)-70:]
		} else {
			out[k] = v
		}
	}
	return out
}

type c14Size struct {
	boundary int
	kind     string // "-1", "=", "+1", "aligned", "+4K"
}

func (z c14Size) String() string { return strconv.Itoa(z.boundary) + z.kind }

func (z c14Size) total() (int, bool) {
	switch z.kind {
	case "-1":
		return z.boundary - 1, false
	case "+1":
		return z.boundary + 1, false
	case "+4K":
		return z.boundary + 4096 + 3, false
	case "aligned":
		return z.boundary, true
	}
	return z.boundary, false
}

type c14BigJob struct {
	family, variant string
	size            c14Size
}

var c14BigFamilies = []string{"scenario", "solutions", "active", "sub", "patch"}

func c14BigVariants(family string, malformedOnly bool) []string {
	if malformedOnly {
		switch family {
		case "sub", "patch":
			return []string{"badtail", "garbage", "deep"}
		}
		return []string{"badtail", "garbage"}
	}
	switch family {
	case "sub":
		return []string{"tail", "gap", "line", "trail", "badtail"}
	case "patch":
		return []string{"tail", "gap", "line", "trail", "badtail", "value"}
	}
	return []string{"tail", "gap", "line", "trail", "badtail"}
}

// c14BigJobs: which (variant, size) pairs one family gets in this tier
func (g *c14Gen) bigJobs(family, tier string, malformedOnly bool) []c14BigJob {
	vs := c14BigVariants(family, malformedOnly)
	rot := g.p.intn(len(vs))
	jobs := []c14BigJob{}
	seen := map[string]bool{}
	add := func(v string, z c14Size) {
		key := v + "/" + z.String()
		if !seen[key] {
			seen[key] = true
			jobs = append(jobs, c14BigJob{family, v, z})
		}
	}
	kinds := []string{"-1", "=", "+1", "aligned"}
	if malformedOnly {
		// the stream of C15: every malformed variant just over 1 MiB, plus one around each smaller boundary
		for i, v := range vs {
			add(v, c14Size{1 << 20, "+1"})
			add(v, c14Size{[]int{4096, 65536}[(i+rot)%2], kinds[(i+rot)%4]})
		}
		add(vs[rot], c14Size{2 << 20, "+4K"})
		if family == "sub" || family == "patch" || tier == "thorough" { // white-space filler: cheap at any size
			add("badtail", c14Size{10 << 20, "+1"})
		}
		if tier == "thorough" {
			for i, b := range []int{512, 8192, 32768, 131072, 524288, 1 << 20, 4 << 20} {
				for k, kind := range kinds {
					add(vs[(i+k+rot)%len(vs)], c14Size{b, kind})
				}
			}
		}
		return jobs
	}
	boundaries := []int{4096, 65536, 1 << 20}
	if tier == "thorough" {
		boundaries = []int{512, 4096, 8192, 32768, 65536, 131072, 524288, 1 << 20, 2 << 20, 4 << 20}
	}
	rounds := 1
	if tier == "thorough" {
		rounds = 2
	}
	for round := 0; round < rounds; round++ {
		for bi, b := range boundaries {
			for ki, kind := range kinds {
				add(vs[(bi*len(kinds)+ki+rot+round*2)%len(vs)], c14Size{b, kind})
			}
		}
	}
	// the cut of a 1 MiB cap falls exactly between the filler and the part that matters: what is left parses ("gap")
	add("tail", c14Size{1 << 20, "aligned"})
	add("gap", c14Size{1 << 20, "aligned"})
	for _, v := range vs { // every variant crosses 1 MiB
		add(v, c14Size{1 << 20, "+1"})
		if tier == "thorough" {
			add(v, c14Size{1 << 20, "aligned"})
			add(v, c14Size{65536, "+1"})
		}
	}
	add(vs[(rot+1)%len(vs)], c14Size{2 << 20, "+4K"})
	if tier == "thorough" || g.tenMiB[family] { // cheap to parse (white space / blank lines), beyond the usual 10 MB caps
		add("gap", c14Size{10 << 20, "+1"})
	}
	if tier == "thorough" {
		add("trail", c14Size{10 << 20, "+1"})
		add("gap", c14Size{32 << 20, "+1"})
		add(vs[(rot+2)%len(vs)], c14Size{3 << 20, "+1"})
		add(vs[(rot+3)%len(vs)], c14Size{8 << 20, "+4K"})
	}
	return jobs
}

var c14ChunkPatterns = [][]int{
	nil,             // strings.Reader
	{1 << 20},       // big pieces
	{65536},         //
	{32768, 1, 7},   //
	{4096},          //
	{0, 4096},       // Content-Length unknown
	{512},           //
	{0, 1000, 3},    //
	{4095, 4097},    //
	{1, 1, 65534},   //
	{0, 1 << 16, 1}, //
}

// ---------------------------------------------------------------------------------------------------
// the five families

var c14FillerComment = "# " + strings.Repeat(".", 61) + "\n" // 64 bytes

// c14Wide: filler rows / entries are given leading white space inside, so that one MiB of them is about 4000 rows rather
// than 60000 (the model evaluates every row of every table under vm_compute); bodies up to 64 KiB keep the narrow form
func c14Wide(z c14Size, narrow, wide string) string {
	if z.boundary <= 65536 {
		return narrow
	}
	return wide
}

var c14Spaces = strings.Repeat(" ", 56)

func (g *c14Gen) bigScenario(variant string) (c14Fill, bool) {
	v := g.valid
	tailKey := g.pick([]string{"MaximumSedimentProduction = 900.0\n", "MaximumImplementationCost = 150_000.0\n", "MaximumSedimentProduction = 1_000.0\n"})
	named := func(n string) string { return strings.Replace(v, `Name = "Kirkpatrick"`, `Name = "`+n+`"`, 1) }
	switch variant {
	case "tail": // the limit that decides the model's validity comes after the comment lines
		return c14Fill{named("big-tail"), c14FillerComment, "\n", tailKey}, true
	case "gap": // filler in the middle: the prefix alone is a TOML document without a model
		nv := named("big-gap")
		i := strings.Index(nv, "[Annealer]")
		return c14Fill{nv[:i], "\n", "\n", nv[i:] + tailKey}, true
	case "line": // one comment line of that length
		return c14Fill{named("big-line") + "#", ".", ".", "\n" + tailKey}, true
	case "trail": // everything first, comments after it
		return c14Fill{named("big-trail") + tailKey, c14FillerComment, "\n", ""}, true
	case "badtail": // a duplicated table at the very end
		return c14Fill{named("big-badtail") + tailKey, c14FillerComment, "\n", "[Scenario]\n"}, false
	}
	// garbage
	return c14Fill{"This isn't TOML\n", "neither is this line, nor the next = = =\n", "\n", "= end\n"}, false
}

func c14TableRows(d *c14Desc, bits []bool) string {
	t := c14TableFor(d, bits)
	return t[strings.Index(t, "\n")+1:]
}

func (g *c14Gen) differentBits(d *c14Desc, from []bool) []bool {
	bits := g.randomBits(d)
	same := len(from) == len(bits)
	for i := range bits {
		if same && bits[i] != from[i] {
			same = false
		}
	}
	if same && len(bits) > 0 {
		bits[0] = !bits[0]
	}
	return bits
}

func (g *c14Gen) bigActions(d *c14Desc, variant string, x, y []bool, z c14Size) (c14Fill, bool) {
	header := "SubCatchment, " + strings.Join(c14Types, ", ") + "\n"
	filler := c14Wide(z, "99999, 0, 1, 0, 1\n", "99999,"+c14Spaces+"0,"+c14Spaces+"1,"+c14Spaces+"0,"+c14Spaces+"1\n")
	rowsX, rowsY := c14TableRows(d, x), c14TableRows(d, y)
	switch variant {
	case "tail": // rows for sub-catchments the model does not have are legal and ignored
		return c14Fill{header + rowsX, filler, "\n", rowsY}, true
	case "gap": // blank lines: any prefix that ends in them is a table, too
		return c14Fill{header + rowsX, "\n", "\n", rowsY}, true
	case "line": // leading white space of a field
		i := strings.Index(rowsY, ",") + 1
		return c14Fill{header + rowsX + rowsY[:i], " ", " ", rowsY[i:]}, true
	case "trail":
		return c14Fill{header + rowsY, "\n", "\n", ""}, true
	case "badtail":
		return c14Fill{header + rowsY, filler, "\n", "abc, 1, 1, 1, 1\n"}, false
	}
	return c14Fill{"SubCatchment, \"GullyRestoration\n", "17, 1\n", "\n", "18, \"1\n"}, false // an unbalanced quote
}

func (g *c14Gen) bigSolutions(d *c14Desc, variant string, y []bool, tag string, z c14Size) (c14Fill, bool, []string) {
	lines := strings.Split(strings.TrimRight(g.summary, "\n"), "\n")
	hdr, asis, rest := lines[0]+"\n", lines[1]+"\n", lines[2:]
	head := strings.Join(rest[:3], "\n") + "\n"
	tailLabel := "tail-" + tag
	tail := ""
	for i, l := range rest[3:] {
		f := strings.Split(l, ", ")
		if i == 1 {
			f[0], f[7], f[8] = tailLabel, c14Encoding(y), "the row that matters 100% %s"
		}
		tail += strings.Join(f, ", ") + "\n"
	}
	labels := []string{tailLabel, strings.Split(rest[len(rest)-1], ",")[0], strings.Split(rest[0], ",")[0], "pad"}
	filler := c14Wide(z, "pad, 1, 2, 3, 4, 5, 6, 0, filler row\n", "pad, 1,"+c14Spaces+"2, 3,"+c14Spaces+"4, 5, 6,"+c14Spaces+"0,"+c14Spaces+"filler row\n")
	switch variant {
	case "tail":
		return c14Fill{hdr + asis + head, filler, "\n", tail}, true, labels
	case "gap":
		return c14Fill{hdr + asis + head, "\n", "\n", tail}, true, labels
	case "line":
		i := strings.Index(tail, ",") + 1
		return c14Fill{hdr + asis + head + tail[:i], " ", " ", tail[i:]}, true, labels
	case "trail":
		return c14Fill{hdr + asis + head + tail, "\n", "\n", ""}, true, labels
	case "badtail":
		return c14Fill{hdr + asis + head + tail, filler, "\n", "ragged, 1, 2\n"}, false, labels
	}
	return c14Fill{hdr + "As-Is, \"13.682\n", "x, y\n", "\n", "\"\n1, 2\n"}, false, labels
}

func (g *c14Gen) bigSub(ty string, variant string, z c14Size) (c14Fill, bool) {
	on, off := `{"Name":"`+ty+`","Value":"Active"}`, `{"Name":"`+ty+`","Value":"Inactive"}`
	offFiller := c14Wide(z, off+",", `{`+c14Spaces+`"Name":`+c14Spaces+`"`+ty+`",`+c14Spaces+`"Value":`+c14Spaces+`"Inactive"},`)
	switch variant {
	case "tail": // the last entry of a type wins
		return c14Fill{"[", offFiller, " ", on + "]"}, true
	case "gap":
		return c14Fill{"[" + off + ",", " ", " ", on + "]"}, true
	case "line":
		return c14Fill{"[" + off + ",", "\n", "\n", "\t" + on + "\r\n]\n"}, true
	case "trail":
		return c14Fill{"[" + on + "]", " ", "\n", ""}, true
	case "badtail":
		return c14Fill{"[" + on + "]", " ", " ", "]"}, false
	case "deep":
		return c14Fill{"", "[", "[", on}, false
	}
	return c14Fill{"[" + on + ",", "{\"Name\":", " ", "]"}, false
}

func (g *c14Gen) bigPatch(enc string, variant string, z c14Size) (c14Fill, bool) {
	set := `{"Name":"Encoding","Value":"` + enc + `"}`
	note := func(v string) string { return `{"Name":"Note","Value":"` + v + `"}` }
	noteFiller := c14Wide(z, note("filler")+",", `{`+c14Spaces+`"Name":`+c14Spaces+`"Note",`+c14Spaces+`"Value":`+c14Spaces+`"filler"},`)
	switch variant {
	case "tail": // (the attribute Note exists already: every further entry replaces its value)
		return c14Fill{"[", noteFiller, " ", note("last") + "," + set + "]"}, true
	case "gap":
		return c14Fill{"[" + note("first") + ",", " ", " ", note("after the gap") + "," + set + "]"}, true
	case "line":
		return c14Fill{"[" + note("first") + ",", "\n", "\n", "\t" + set + "\r\n]\n"}, true
	case "trail":
		return c14Fill{"[" + set + "," + note("before the filler") + "]", " ", "\n", ""}, true
	case "badtail":
		return c14Fill{"[" + set + "," + note("must not be stored") + "]", " ", " ", "x"}, false
	case "value": // one attribute value of that size: its last byte differs from the rest
		return c14Fill{`[` + set + `,{"Name":"Blob","Value":"`, "0123456789abcdef", "%", `Z"}]`}, true
	case "deep":
		return c14Fill{"", "[", "[", set}, false
	}
	return c14Fill{"[" + set + ",", "{\"Name\":", " ", "]"}, false
}

// ---------------------------------------------------------------------------------------------------
// the sequences

// target: the action set the body was built to produce (nil: none); checked on what GET /model/actions/active serves
// after a 200 -- the implementation-side oracle for "acknowledged, but applied only in part"
func (e *c14Engine) sendBig(f c14Fill, z c14Size, q c14Req, job c14BigJob, expectOk bool, target ...[]bool) c15Resp {
	total, aligned := z.total()
	body, gen := f.build(total, aligned)
	gen["family"], gen["variant"], gen["size"], gen["valid_as_a_whole"] = job.family, job.variant, z.String(), expectOk
	e.w.big[body] = gen
	q.Body = body
	e.w.stats["big:"+job.family+":"+job.variant]++
	r := e.send(q)
	if d := e.currentDesc(); !r.Panicked && r.Status == 200 && len(target) == 1 && d != nil {
		got := e.raw[c14Api+"/model/actions/active"]
		var v map[string]interface{}
		json.Unmarshal([]byte(got.Body), &v)
		m, okm := c14ActionMap(v["ActiveManagementActions"])
		bits, okb := d.bitsOf(m)
		if !okm || !okb || c14BitKey(bits) != c14BitKey(target[0]) {
			e.w.oracleLine("acknowledged-write-applied-in-part", q, r, e.w.abstract(q), "answered 200, but the active actions served afterwards are "+c14BitKey(bits)+" where the body as a whole sets "+c14BitKey(target[0]))
		}
	}
	if !r.Panicked && expectOk != (r.Status == 200) {
		// not an oracle line by itself: the model decides; kept as a statistic for the evidence
		e.w.stats["big:status_other_than_generator_expected"]++
	}
	return r
}

// servedBits: the action set GET /model/actions/active served after the last request
func (e *c14Engine) servedBits(d *c14Desc) ([]bool, bool) {
	var v map[string]interface{}
	if json.Unmarshal([]byte(e.raw[c14Api+"/model/actions/active"].Body), &v) != nil {
		return nil, false
	}
	m, ok := c14ActionMap(v["ActiveManagementActions"])
	if !ok {
		return nil, false
	}
	return d.bitsOf(m)
}

// largeBodies: per family, engines that receive that family's jobs (a few per engine), each large write followed by a
// small write to the same route (a handler that keeps a buffer between requests shows here)
func (g *c14Gen) largeBodies(tier string, malformedOnly bool) {
	w := g.w
	perEngine := 5
	first := g.p.intn(len(c14BigFamilies)) // quick tier: two of the five families get a 10 MiB body (which: by seed)
	g.tenMiB = map[string]bool{c14BigFamilies[first]: true, c14BigFamilies[(first+2)%len(c14BigFamilies)]: true}
	for _, family := range c14BigFamilies {
		jobs := g.bigJobs(family, tier, malformedOnly)
		for lo := 0; lo < len(jobs); lo += perEngine {
			hi := lo + perEngine
			if hi > len(jobs) {
				hi = len(jobs)
			}
			e := w.newEngine(fmt.Sprintf("big-%s-%d", family, lo/perEngine))
			e.chunks = c14ChunkPatterns[g.p.intn(len(c14ChunkPatterns))]
			g.bigEngine(e, family, jobs[lo:hi])
			e.finish("large-body")
		}
	}
}

func (g *c14Gen) bigEngine(e *c14Engine, family string, jobs []c14BigJob) {
	w := g.w
	scen := g.scen[[]int{0, 0, 3, 4}[g.p.intn(4)]]
	if family != "scenario" || g.p.chance(0.5) {
		e.send(c14Req{"POST", c14Api + "/scenario", c14Toml, scen})
	}
	d := e.currentDesc()
	if family != "scenario" && d == nil {
		return
	}
	if family == "patch" {
		e.send(c14Req{"PATCH", c14Api + "/model", c14Json, `[{"Name":"Note","Value":"set before the large bodies"}]`})
	}
	if family != "scenario" && g.p.chance(0.5) {
		e.send(c14Req{"POST", c14Api + "/solutions", c14Csv, g.summaryTable(d, true)})
	}
	x := []bool{}
	if d != nil {
		x = make([]bool, len(d.actions))
	}
	for ji, job := range jobs {
		if e.dead {
			return
		}
		e.chunks = c14ChunkPatterns[g.p.intn(len(c14ChunkPatterns))]
		switch family {
		case "scenario":
			f, ok := g.bigScenario(job.variant)
			e.sendBig(f, job.size, c14Req{"POST", c14Api + "/scenario", c14Toml, ""}, job, ok)
			if d = e.currentDesc(); d != nil && g.p.chance(0.6) { // the engine works on the scenario it has just accepted
				e.send(c14Req{"PUT", c14Api + "/model/actions/active", c14Csv, c14TableFor(d, g.randomBits(d))})
			}
			if g.p.chance(0.3) {
				e.send(c14Req{"POST", c14Api + "/scenario", c14Toml, g.pick(g.scen)})
			}
		case "active":
			y := g.differentBits(d, x)
			f, ok := g.bigActions(d, job.variant, g.differentBits(d, y), y, job.size)
			if ok {
				e.sendBig(f, job.size, c14Req{"PUT", c14Api + "/model/actions/active", c14Csv, ""}, job, ok, y)
			} else {
				e.sendBig(f, job.size, c14Req{"PUT", c14Api + "/model/actions/active", c14Csv, ""}, job, ok)
			}
			x = g.differentBits(d, y)
			e.send(c14Req{"PUT", c14Api + "/model/actions/active", c14Csv, c14TableFor(d, x)})
		case "solutions":
			y := g.randomBits(d)
			f, ok, labels := g.bigSolutions(d, job.variant, y, strconv.Itoa(ji), job.size)
			e.sendBig(f, job.size, c14Req{"POST", c14Api + "/solutions", c14Csv, ""}, job, ok)
			for _, l := range labels[:2+g.p.intn(3)] {
				e.send(c14Req{"GET", c14Api + "/solutions/" + l, "", ""})
			}
			e.send(c14Req{"PATCH", c14Api + "/model", c14Json, `[{"Name":"Encoding","Value":"` + c14Encoding(y) + `"}]`})
			if g.p.chance(0.5) {
				e.send(c14Req{"POST", c14Api + "/solutions", c14Csv, g.summaryTable(d, true)})
				e.send(c14Req{"GET", c14Api + "/solutions/" + labels[0], "", ""})
			}
		case "sub":
			i := g.p.intn(len(d.actions))
			pu, ty := d.actions[i][0], d.actions[i][1]
			path := c14Api + "/model/subcatchment/" + pu
			e.send(c14Req{"PUT", path, c14Json, `[{"Name":"` + ty + `","Value":"Inactive"}]`})
			f, ok := g.bigSub(ty, job.variant, job.size)
			if cur, known := e.servedBits(d); ok && known {
				cur[i] = true
				e.sendBig(f, job.size, c14Req{"PUT", path, c14Json, ""}, job, ok, cur)
			} else {
				e.sendBig(f, job.size, c14Req{"PUT", path, c14Json, ""}, job, ok)
			}
			if g.p.chance(0.5) {
				e.send(c14Req{"PUT", path, c14Json, `[]`})
			}
		case "patch":
			y := g.differentBits(d, x)
			f, ok := g.bigPatch(c14Encoding(y), job.variant, job.size)
			if ok {
				e.sendBig(f, job.size, c14Req{"PATCH", c14Api + "/model", c14Json, ""}, job, ok, y)
			} else {
				e.sendBig(f, job.size, c14Req{"PATCH", c14Api + "/model", c14Json, ""}, job, ok)
			}
			x = g.differentBits(d, y)
			e.send(c14Req{"PATCH", c14Api + "/model", c14Json, `[{"Name":"Encoding","Value":"` + c14Encoding(x) + `"},{"Name":"Blob","Value":"small"}]`})
		}
	}
	_ = w
}

// bigElsewhere (C15): large bodies where no body is expected or under the wrong content type
func (g *c14Gen) bigElsewhere() {
	e := g.w.newEngine("big-elsewhere")
	e.send(c14Req{"POST", c14Api + "/scenario", c14Toml, g.valid})
	d := e.currentDesc()
	if d == nil {
		e.finish("large-body")
		return
	}
	table, _ := c14Fill{"SubCatchment, " + strings.Join(c14Types, ", ") + "\n", "\n", "\n", c14TableRows(d, g.randomBits(d))}.build(1<<20+1, false)
	junk, _ := c14Fill{"", "\x00\xff%s%d{[\"',\n", "\x00", ""}.build(1<<20+5, false)
	g.w.big[table] = J{"what": "a valid action table padded with blank lines", "len": len(table)}
	g.w.big[junk] = J{"what": "binary junk", "len": len(junk)}
	for _, q := range []c14Req{
		{"GET", c14Api + "/model", c14Csv, table},
		{"PUT", c14Api + "/model/actions/active", c14Json, table},
		{"PUT", c14Api + "/model/actions/active", "", table},
		{"POST", c14Api + "/model/actions/active", c14Csv, table},
		{"PUT", c14Api + "/nowhere", c14Csv, table},
		{"POST", c14Api + "/scenario", c14Csv, table},
		{"POST", c14Api + "/scenario", c14Toml, junk},
		{"POST", c14Api + "/solutions", c14Csv, junk},
		{"PUT", c14Api + "/model/actions/active", c14Csv, junk},
		{"PUT", c14Api + "/model/subcatchment/" + d.actions[0][0], c14Json, junk},
		{"PATCH", c14Api + "/model", c14Json, junk},
		{"DELETE", c14Api + "/solutions/1-of-8", c14Json, junk},
		{"PUT", c14Api + "/model/actions/active", c14Csv, table},
	} {
		if e.dead {
			break
		}
		e.chunks = c14ChunkPatterns[g.p.intn(len(c14ChunkPatterns))]
		e.send(q)
	}
	e.finish("large-body")
}

// abortedUploads: the client goes away in the middle of its upload (the body reader reports io.ErrUnexpectedEOF, as
// net/http's does when fewer bytes than Content-Length arrive), at a point where what HAS arrived parses by itself.
// The engine must refuse such a request and change nothing.
func (g *c14Gen) abortedUploads() {
	e := g.w.newEngine("aborted-uploads")
	e.send(c14Req{"POST", c14Api + "/scenario", c14Toml, g.valid})
	d := e.currentDesc()
	if d == nil {
		e.finish("aborted-upload")
		return
	}
	x := g.randomBits(d)
	y := g.differentBits(d, x)
	e.send(c14Req{"PUT", c14Api + "/model/actions/active", c14Csv, c14TableFor(d, x)})
	header := "SubCatchment, " + strings.Join(c14Types, ", ") + "\n"
	rowsY := c14TableRows(d, y)
	firstRow := strings.Index(rowsY, "\n") + 1
	sum := strings.TrimRight(g.summary, "\n")
	cutSum := strings.LastIndex(sum, "\n") + 1
	sub := d.actions[0]
	type abortedUpload struct {
		q  c14Req
		at int
	}
	uploads := []abortedUpload{
		{c14Req{"PUT", c14Api + "/model/actions/active", c14Csv, header + rowsY}, len(header) + firstRow},                               // after the first row
		{c14Req{"POST", c14Api + "/scenario", c14Toml, g.valid + "# a comment\nMaximumSedimentProduction = 900.0\n"}, len(g.valid) + 5}, // inside the comment
		{c14Req{"POST", c14Api + "/solutions", c14Csv, sum + "\n"}, cutSum},                                                             // before the last row
		{c14Req{"PUT", c14Api + "/model/subcatchment/" + sub[0], c14Json, `[{"Name":"` + sub[1] + `","Value":"Active"}]` + strings.Repeat(" ", 64)}, 50 + len(sub[1])},
		{c14Req{"PATCH", c14Api + "/model", c14Json, `[{"Name":"Encoding","Value":"` + c14Encoding(y) + `"}]` + strings.Repeat("\n", 64)}, len(c14Encoding(y)) + 40},
	}
	for _, c := range uploads {
		if e.dead {
			break
		}
		e.chunks = []int{-c.at, 7}
		e.send(c.q)
		e.chunks = nil
		e.send(c14Req{"GET", c14Api + "/model", "", ""})
	}
	e.finish("aborted-upload")
}

// ---------------------------------------------------------------------------------------------------
// histories of solution summaries

// c14Summary: a valid summary for the scenario [d]: the As-Is row plus [n] rows under the given labels, every row with
// an encoding that decodes for the scenario
func (g *c14Gen) summaryWith(d *c14Desc, labels []string, encs map[string]string, note string) string {
	lines := strings.Split(strings.TrimRight(g.summary, "\n"), "\n")
	out := []string{lines[0], lines[1]}
	asIsAt := 0
	if g.p.chance(0.25) && len(labels) > 0 { // the As-Is row need not be the first
		asIsAt = 1 + g.p.intn(len(labels))
		out = []string{lines[0]}
	}
	for i, l := range labels {
		f := strings.Split(lines[2+g.p.intn(len(lines)-2)], ", ")
		f[0], f[7], f[8] = l, encs[l], note+" "+l
		out = append(out, strings.Join(f, ", "))
		if asIsAt == i+1 {
			out = append(out, lines[1])
		}
	}
	return strings.Join(out, "\n") + "\n"
}

func c14SummaryLabels(text string) []string {
	rd := stdcsv.NewReader(strings.NewReader(text))
	rd.TrimLeadingSpace = true
	rd.FieldsPerRecord = -1
	recs, err := rd.ReadAll()
	out := []string{}
	if err != nil || len(recs) < 2 {
		return out
	}
	for _, r := range recs[1:] {
		if len(r) > 0 {
			out = append(out, r[0])
		}
	}
	return out
}

// summaryHistory: several different summaries posted to ONE engine under one scenario, every label ever seen asked for
// again and again
func (g *c14Gen) summaryHistory(i int, rounds int, malformed float64) {
	p := g.p
	w := g.w
	e := w.newEngine(fmt.Sprintf("summary-history-%d", i))
	scen := g.pick(g.scen)
	e.send(c14Req{"POST", c14Api + "/scenario", c14Toml, scen})
	d := e.currentDesc()
	if d == nil {
		e.finish("summary-history")
		return
	}
	universe := []string{"1-of-8", "2-of-8", "3-of-8", "4-of-8", "5-of-8", "6-of-8", "7-of-8", "8-of-8", "1-of-2", "2-of-2", "1-of-3", "x_y-Z0", "13"}
	everSeen := map[string]bool{"As-Is": true, "never-posted": true}
	ask := func(n int) {
		cands := []string{}
		for l := range everSeen {
			cands = append(cands, l)
		}
		sort.Strings(cands)
		for k := 0; k < n && !e.dead; k++ {
			e.send(c14Req{"GET", c14Api + "/solutions/" + g.pick(cands), "", ""})
		}
	}
	var lastEncs map[string]string
	for round := 0; round < rounds && !e.dead; round++ {
		// a label set: sometimes all eight, sometimes two or three, sometimes disjoint from the previous one
		n := []int{8, 2, 3, 1, 5, 8}[p.intn(6)]
		perm := []string{}
		for _, k := range c14Perm(p, len(universe)) {
			perm = append(perm, universe[k])
		}
		labels := perm[:n]
		if p.chance(0.35) { // the first n labels in their natural order: the shape of the shipped summaries
			labels = append([]string{}, universe[:n]...)
		}
		if p.chance(0.2) && n > 1 { // a label twice: the first row counts
			labels = append(labels, labels[0])
		}
		encs := map[string]string{}
		for _, l := range labels {
			if old, had := lastEncs[l]; had && p.chance(0.4) {
				encs[l] = old
			} else {
				encs[l] = c14Encoding(g.randomBits(d))
			}
		}
		text := g.summaryWith(d, labels, encs, "round "+strconv.Itoa(round))
		if p.chance(malformed) { // refused: the previous summary must stay fully in force
			bad := []string{strings.Replace(text, "As-Is, 13.682", "As-Is, 13.683", 1), text + "ragged, 1, 2\n",
				strings.Replace(text, "Actions, Summary", "Summary, Actions", 1), strings.Split(text, "\n")[0] + "\n", "",
				strings.Replace(text, ", "+encs[labels[0]]+",", ", 1:2:3,", 1)}
			e.send(c14Req{"POST", c14Api + "/solutions", c14Csv, g.pick(bad)})
			ask(2 + p.intn(3))
			continue
		}
		r := e.send(c14Req{"POST", c14Api + "/solutions", c14Csv, text})
		if !r.Panicked && r.Status == 200 {
			lastEncs = encs
			for _, l := range labels {
				everSeen[l] = true
			}
		}
		ask(2 + p.intn(5))
		switch p.intn(8) {
		case 0:
			e.send(c14Req{"GET", c14Api + "/solutions", "", ""})
		case 1, 2: // the live model put on / off the front of the current summary
			enc := c14Encoding(g.randomBits(d))
			if p.chance(0.7) {
				enc = encs[labels[p.intn(len(labels))]]
			}
			e.send(c14Req{"PATCH", c14Api + "/model", c14Json, `[{"Name":"Encoding","Value":"` + enc + `"}]`})
		case 3: // the scenario again: the summary is forgotten, every label answers 404 until the next POST /solutions
			e.send(c14Req{"POST", c14Api + "/scenario", c14Toml, scen})
			ask(2)
		case 4:
			e.send(c14Req{"PUT", c14Api + "/model/actions/active", c14Csv, c14TableFor(d, g.randomBits(d))})
		}
	}
	ask(3)
	e.finish("summary-history")
	w.stats["summary_histories"]++
}

// summaryCanonical: the plain history, the same in every run: a long summary, its labels asked for (late and early
// rows), a short summary with other labels, the old labels asked for again, a refused summary, the long one again
func (g *c14Gen) summaryCanonical() {
	e := g.w.newEngine("summary-history-canonical")
	e.send(c14Req{"POST", c14Api + "/scenario", c14Toml, g.valid})
	d := e.currentDesc()
	if d == nil {
		e.finish("summary-history")
		return
	}
	get := func(labels ...string) {
		for _, l := range labels {
			if !e.dead {
				e.send(c14Req{"GET", c14Api + "/solutions/" + l, "", ""})
			}
		}
	}
	encs := map[string]string{}
	long := []string{"1-of-8", "2-of-8", "3-of-8", "4-of-8", "5-of-8", "6-of-8", "7-of-8", "8-of-8"}
	short := []string{"1-of-2", "2-of-2"}
	for _, l := range append(append([]string{}, long...), short...) {
		encs[l] = c14Encoding(g.randomBits(d))
	}
	e.send(c14Req{"POST", c14Api + "/solutions", c14Csv, g.summary}) // the shipped summary
	get("8-of-8", "2-of-8", "As-Is", "1-of-2")
	b := g.summaryWith(d, short, encs, "short")
	e.send(c14Req{"POST", c14Api + "/solutions", c14Csv, b})
	get("2-of-8", "8-of-8", "1-of-2", "2-of-2", "As-Is", "5-of-8")
	e.send(c14Req{"POST", c14Api + "/solutions", c14Csv, b + "ragged, 1, 2\n"}) // refused: b stays in force
	get("2-of-2", "8-of-8")
	// scenario posts refused at every stage (not TOML; interpreter error; a readable file that is no data-set meta-file, which
	// fails only when the model initialises): the scenario AND the summary in force stay in force
	for _, bad := range []string{"This isn't TOML", strings.Replace(g.valid, `Type = "CatchmentModel"`, `Type = "NullModel"`, 1),
		strings.Replace(g.valid, "testdata/ValidModel.csv", "testdata/ValidSubcatchments.csv", 1),
		strings.Replace(g.valid, "testdata/ValidModel.csv", "testdata/ValidGullies.csv", 1)} {
		e.send(c14Req{"POST", c14Api + "/scenario", c14Toml, bad})
		e.send(c14Req{"GET", c14Api + "/solutions", "", ""})
		get("1-of-2", "As-Is")
	}
	a2 := g.summaryWith(d, long, encs, "long again, other encodings")
	e.send(c14Req{"POST", c14Api + "/solutions", c14Csv, a2})
	get("2-of-2", "8-of-8", "1-of-8")
	e.send(c14Req{"PATCH", c14Api + "/model", c14Json, `[{"Name":"Encoding","Value":"` + encs["8-of-8"] + `"}]`})
	e.send(c14Req{"POST", c14Api + "/solutions", c14Csv, b})
	get("8-of-8", "2-of-2")
	e.send(c14Req{"PATCH", c14Api + "/model", c14Json, `[{"Name":"Encoding","Value":"` + encs["8-of-8"] + `"}]`})
	e.send(c14Req{"POST", c14Api + "/scenario", c14Toml, g.valid}) // the summary is forgotten with the scenario
	get("2-of-2", "As-Is")
	e.send(c14Req{"POST", c14Api + "/solutions", c14Csv, a2})
	get("2-of-2", "3-of-8")
	e.finish("summary-history")
	g.w.stats["summary_histories"]++
}

// a scenario re-posted under ITS OWN NAME with other content (a vegetation target that changes which actions it
// offers): everything the engine derived from the earlier posting -- solution pool, its reference model, the as-is
// solution -- is replaced; summaries for the new posting are served from the new posting's model
func (g *c14Gen) repostSameName() {
	e := g.w.newEngine("scenario-reposted-under-its-own-name")
	variants := []string{g.valid, g.valid + "RiparianBufferVegetationProportionTarget = 0.2\n", g.valid + "GullySedimentReductionTarget = 0.5\nHillSlopeDeliveryRatio = 0.2\n", g.valid}
	labels := []string{"1-of-3", "2-of-3", "3-of-3"}
	for round, text := range variants {
		e.send(c14Req{"POST", c14Api + "/scenario", c14Toml, text})
		d := e.currentDesc()
		if d == nil || e.dead {
			break
		}
		encs := map[string]string{}
		for _, l := range labels {
			encs[l] = c14Encoding(g.randomBits(d))
		}
		e.send(c14Req{"POST", c14Api + "/solutions", c14Csv, g.summaryWith(d, labels, encs, fmt.Sprintf("posting %d", round))})
		for _, l := range append([]string{"As-Is"}, labels...) {
			if !e.dead {
				e.send(c14Req{"GET", c14Api + "/solutions/" + l, "", ""})
			}
		}
		e.send(c14Req{"PATCH", c14Api + "/model", c14Json, `[{"Name":"Encoding","Value":"` + encs["2-of-3"] + `"}]`})
		e.send(c14Req{"GET", c14Api + "/model", "", ""})
	}
	e.finish("summary-history")
	g.w.stats["same_name_repost_histories"]++
}

// a LARGE solution set browsed label by label and the as-is row requested again afterwards (and every label a second
// time): however many solutions the engine has looked up, each label is served from its row of the current summary
func (g *c14Gen) manyLabels(n int) {
	e := g.w.newEngine("many-labels-browsed")
	e.send(c14Req{"POST", c14Api + "/scenario", c14Toml, g.valid})
	d := e.currentDesc()
	if d == nil {
		e.finish("summary-history")
		return
	}
	labels := []string{}
	encs := map[string]string{}
	for i := 1; i <= n; i++ {
		l := fmt.Sprintf("%d-of-%d", i, n)
		labels = append(labels, l)
		encs[l] = c14Encoding(g.randomBits(d))
	}
	e.send(c14Req{"POST", c14Api + "/solutions", c14Csv, g.summaryWith(d, labels, encs, "large set")})
	for pass := 0; pass < 2 && !e.dead; pass++ {
		e.send(c14Req{"GET", c14Api + "/solutions/As-Is", "", ""})
		for _, l := range labels {
			if !e.dead {
				e.send(c14Req{"GET", c14Api + "/solutions/" + l, "", ""})
			}
		}
	}
	e.send(c14Req{"GET", c14Api + "/solutions/As-Is", "", ""})
	e.finish("summary-history")
	g.w.stats["many_label_histories"]++
}

func c14Perm(p *prng, n int) []int {
	out := make([]int, n)
	for i := range out {
		out[i] = i
	}
	for i := n - 1; i > 0; i-- {
		j := p.intn(i + 1)
		out[i], out[j] = out[j], out[i]
	}
	return out
}
