"""C17 — dominance is the strict Pareto order."""
import coqgen as g

SHARD = 2500


def run(ctx):
    ctx.build_harness()
    lines = ctx.run_harness("C17", [ctx.tier])
    cases = [l for l in lines if l.get("kind") == "case"]
    for l in lines:
        if l.get("kind") == "oracle":
            ctx.failing_inputs.append(l)
        if l.get("kind") == "stat":
            ctx.stats = l["stats"]
    ctx.check_theorems("Properties/C17.v")
    nshards = 0
    allidx = []
    for si, shard in enumerate(g.chunks(cases, SHARD)):
        items = []
        for c in shard:
            items.append("mk %s %s O%s O%s O%s %s" % (g.fllist(c["x"]), g.fllist(c["y"]), c["dom"], c["by"], c["nod"], g.b(c["cmp"])))
        body = g.HEADER + "From Crem Require Import Base.Res Base.Fl Dominance DominanceCorr.\nOpen Scope Q_scope.\n"
        body += "Definition cases : list case := [\n  " + ";\n  ".join(items) + "\n].\n"
        body += "Definition M := Eval vm_compute in mismatches cases.\nPrint M.\n"
        idx = ctx.correspondence("cases_C17_%d" % si, body, ncases=len(shard))
        nshards += 1
        if idx:
            for i in idx[:5]:
                ctx.notes.append({"mismatch": shard[i]})
            # Search: the oracle lines above already evaluated the property on the same inputs.
    distinct = len({(str(c["x"]), str(c["y"])) for c in cases if len(c["x"]) == len(c["y"]) and c["x"] != c["y"]})
    ctx.coverage.update({
        "evaluations": len(cases), "distinct_nontrivial": distinct,
        "rule": "pairs of vectors: exhaustive over the grid {-1,-0.0,0,1,2} for lengths 1..2 (quick) / 1..3 (thorough), "
                "sampled length-3 grid pairs, random pairs of length 1..8 over the float64 range with forced ties and "
                "one-ulp neighbours, plus a few unequal-length pairs (Panic outcome of the model); all triples of length<=2 "
                "checked implementation-side for the order laws. distinct_nontrivial = distinct equal-length pairs with x<>y",
        "exhaustive": True,
        "correspondence_shards": nshards,
    })
    ctx.samples = cases[:2] + cases[len(cases) // 2: len(cases) // 2 + 2]
    ctx.assumptions = ["finite float64 components only (NaN/Inf outside the property's quantifier); -0.0 and 0.0 are the same rational"]
