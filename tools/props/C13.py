"""C13 — every summary the explorer can write loads in the engine, label by label."""
import importlib
import coqgen as g

c20 = importlib.import_module("props.C20")
hx, fld, num = c20.hx, c20.fld, c20.num

GSHARD = 3000
ESHARD = 40       # summaries per generated file, and ...
EVOLUME = 220     # ... rows looked up / patched per generated file (a file costs roughly 0.05 s per unit)

IMPORTS = "From Coq Require Import NArith.\nFrom Crem Require Import Base.Res Base.Fl CsvTable GoCast CsvTableCorr SummaryRoundTrip SummaryActions SummaryCorr.\n"


def gobs(j):
    o = j["obs"]
    if o == "404":
        return "GNotFound"
    if o == "asis":
        return "GAsIs"
    if o == "decoded":
        return "(GDecoded %s %s)" % (hx(j["enc"]), hx(j["sum"]))
    if o == "panic":
        return "GPanic"
    return "GOther"


def pobs(o):
    return {"400": "P400", "true": "PTrue", "false": "PFalse", "none": "PNone", "panic": "PPanic"}.get(o, "POther")


def optn(v):
    """flags as a number (bit k = action k), in hexadecimal (Coq converts long decimal literals slowly)"""
    return "None" if v is None else "(Some 0x%x%%N)" % int(v)


def opts(v):
    return "None" if v is None else "(Some %s)" % hx(v)


def e2e_term(c):
    if c.get("csv") is None:
        recs = "None"
    else:
        recs = "(Some %s)" % g.lst([g.lst([fld(f) for f in r]) for r in c["csv"]])
    asis = g.lst(["(%s, %s)" % (hx(a["name"]), num(a)) for a in c.get("asis", [])])
    post = {"200": "Post200", "400": "Post400", "panic": "PostPanic"}.get(c.get("post"), "PostOther")
    gets = g.lst(["(%s, %s, %s)" % (hx(x["label"]), gobs(x), optn(x.get("act"))) for x in c.get("gets", [])])
    patches = g.lst(["mkP %s %s %s %s %s" % (hx(p["enc"]), opts(p["recode"]), pobs(p["obs"]), optn(p.get("act")), opts(p.get("menc")))
                     for p in c.get("patches", [])])
    pre = g.lst(["(%s, %s)" % (g.lst([g.lst([fld(f) for f in r]) for r in h["csv"]]), g.lst([hx(l) for l in h["labels"]]))
                 for h in c.get("pre", [])])
    return "mkE %s %s %s %s %s %s %s %s %s %s" % (g.nat(c["nact"]), optn(c.get("mstart")), g.nat(c["nw"]), pre, recs, hx(c["text"]),
                                                 asis, post, gets, patches)


def run(ctx):
    import glob, os
    for f in glob.glob(os.path.join(os.path.dirname(os.path.dirname(os.path.dirname(os.path.abspath(__file__)))), "coq", "gen", "cases_C13_*")):
        os.remove(f)          # shards of an earlier run (their number varies)
    ctx.build_harness()
    lines = ctx.run_harness("C13", [ctx.tier])
    gcs = [l for l in lines if l.get("kind") == "gc"]
    e2es = [l for l in lines if l.get("kind") == "e2e"]
    wrs = [l for l in lines if l.get("kind") == "wr"]
    for l in lines:
        k = l.get("kind")
        if k == "oracle":
            ctx.failing_inputs.append(l)
        elif k == "stat":
            ctx.stats = l["stats"]
        elif k == "witness":
            ctx.oblige("witness:%s replayed on the implementation (%s)" % (l["name"], l["input"]), l["confirmed"],
                       "" if l["confirmed"] else "the implementation no longer shows the listed defect")
            if not l["confirmed"]:
                ctx.broken.append("refutation witness %s is no longer reproduced by the implementation" % l["name"])
    if not any(l.get("kind") == "stat" for l in lines):
        ctx.oblige("harness ran to completion", False, (ctx.last_harness.stderr or "")[-800:])
        ctx.broken.append("harness C13 did not run to completion")
    # every coqc run (the property file and each generated shard) is independent: up to 4 at a time (as C09 does)
    jobs = [lambda: ctx.check_theorems("Properties/C13.v")]

    def shard_job(name, typ, fn, items, shard, note):
        def job():
            body = g.HEADER + IMPORTS
            body += "Definition cases : list %s := [\n  " % typ + ";\n  ".join(items) + "\n].\n"
            body += "Definition M := Eval vm_compute in %s cases.\nPrint M.\n" % fn
            idx = ctx.correspondence(name, body, ncases=len(shard))
            if idx:
                for i in idx[:5]:
                    ctx.notes.append(note(shard[i]))
        jobs.append(job)

    # end-to-end summaries first (the longest jobs); shards balanced by the number of rows looked up
    eshards, shard, vol = [], [], 0
    for c in e2es:
        shard.append(c)
        vol += 4 + len(c.get("gets", [])) + len(c.get("patches", [])) + sum(len(h["labels"]) for h in c.get("pre", []))
        if len(shard) >= ESHARD or vol >= EVOLUME:
            eshards.append(shard)
            shard, vol = [], 0
    if shard:
        eshards.append(shard)
    for si, shard in enumerate(eshards):
        shard_job("cases_C13_e2e_%d" % si, "e2e", "emismatches", [e2e_term(c) for c in shard], shard,
                  lambda c: {"e2e_mismatch": {"class": c["class"], "actions": c.get("nact"),
                                              "text": bytes.fromhex(c["text"]).decode("latin-1")[:600],
                                              "post": c.get("post"), "gets": c.get("gets"), "patches": c.get("patches")}})
    for si, shard in enumerate(g.chunks(gcs, GSHARD)):
        shard_job("cases_C13_gocast_%d" % si, "fld", "gmismatches", [fld(c) for c in shard], shard,
                  lambda c: {"gocast_mismatch": bytes.fromhex(c["s"]).decode("latin-1"), "real": c})
    # the explorer side of the Actions cell: the text the real compressor wrote for an action set of n actions
    for si, shard in enumerate(g.chunks(wrs, 2000)):
        shard_job("cases_C13_written_%d" % si, "wcase", "wmismatches",
                  ["mkW %s 0x%x%%N %s" % (g.nat(c["n"]), int(c["set"]), hx(c["text"])) for c in shard], shard,
                  lambda c: {"written_mismatch": {"actions": c["n"], "set": c["set"],
                                                  "text": bytes.fromhex(c["text"]).decode("latin-1")}})
    nshards = len(jobs) - 1
    from concurrent.futures import ThreadPoolExecutor
    with ThreadPoolExecutor(max_workers=4) as ex:
        for f in [ex.submit(j) for j in jobs]:
            f.result()
    ctx.obligations.sort(key=lambda o: o[0])      # the jobs finish in any order
    distinct_gc = len({c["s"] for c in gcs})
    distinct_rows = len({(bytes.fromhex(c["text"]).decode("latin-1")) for c in e2es if c.get("post") == "200"})
    n_gets = sum(len(c.get("gets", [])) for c in e2es)
    n_patches = sum(len(c.get("patches", [])) for c in e2es)
    ctx.coverage.update({
        "evaluations": len(gcs) + n_gets + n_patches + len(e2es),
        "distinct_nontrivial": distinct_gc + distinct_rows,
        "rule": "(1) caster/formatter model vs crem's BaseCaster + fmt %%v: EVERY string of length <= %d over the 17 letters [0-9A-F:] "
                "(17^0+...), fixed longer shapes (2^53 neighbourhood, overflow boundary 1.797...E308, d+Ed+, leading zeros, signs, dots, "
                "all ParseBool literals, labels/notes/headings of real summaries) and random shapes (decimal strings up to 24 digits, d+Ed+, "
                "canonical hex words, multi-word encodings, %%.3f texts, random strings over [0-9A-Fa-f:.+-Ee]); "
                "(2) end to end through the REAL SummaryMarshaler and the REAL engine Mux (httptest, scenario fixture ValidTestScenario.toml, 13 actions): "
                "summaries with real values/encodings of random action sets (steered towards d+Ed+, F, all-decimal encodings), the single-objective "
                "shape (As-Is + Optimised), one summary per encoding class, synthetic rows with arbitrary DECODABLE text over [0-9A-F:] in the Actions column "
                "(leading zeros, bits beyond the actions, numeric / exponent / boolean look-alikes: expected 200 and the full round trip) and summaries with "
                "ONE undecodable Actions text (wrong word count, empty word, word beyond 64 bits; also in the As-Is row: expected 400, a 200 is flagged), "
                "summary FILES written by the real scenario.Saver driven as the Runner drives it (ONE saver, SetDecompressionModel once, one "
                "FinishedAnnealing event per run with CompressedModel (Kirkpatrick family) or ModelArchive (Suppapitnarm family), RunNumber 1..3, "
                "CSV/Summary into a private temp dir): every file of every run posted to a fresh engine, "
                "GENERATED catchments (catchSizedDataset, loaded through the real loader) whose number of management actions sits on and around the "
                "64-bit word boundaries of the action encoding (%s): the REAL explorer (cremexplorer loader + interpreter + "
                "Scenario.Run() in a child process) run once per annealer family (Kirkpatrick, Suppapitnarm), the summary FILE it writes posted to a "
                "fresh engine configured with the SAME scenario text (POST /scenario, POST /solutions, GET /solutions/<label> for every row, PATCH /model "
                "{Encoding} + GET /model for every row), plus one marshalled summary per catchment with the real values of the action sets that fill / "
                "straddle the words (all actions, the last one only, actions 0/62/63/64/65/127/128/191/192 alone, all but one word, random) posted after "
                "an earlier summary under the same labels; for every served solution and every patched model the ACTIVE ACTIONS (as flags over the "
                "scenario's action list) and the model's own Encoding attribute are compared with the Coq model (SummaryActions.v on C09's "
                "BooleanArchive / ModelCompressor model, ParetoFrontMember decided on the text the MODEL re-encodes to) and with an independent Go "
                "decoder/encoder; every Actions text the real compressor wrote for a known action set is compared with ActionCodec.encoding_of, "
                "the former D9 / stale-pool refutation witnesses as positive regression cases (1E3, F, 1E0, 1000000, 9E9, 0012; summaries re-posted "
                "on one engine with re-used labels after every label had been fetched), "
                "and malformed relatives (wrong as-is values, first row not As-Is, non-hex encoding, boolean note, duplicate labels, a variable "
                "column missing, an unknown variable column); for every "
                "summary: POST status, GET of every label (+ an unknown one, + one repeated), PATCH /model with every row's encoding. "
                "distinct_nontrivial = distinct strings in (1) + distinct accepted summaries in (2)" % (
                    3 if ctx.tier == "quick" else 4,
                    "63, 64, 65, 127, 128, 129, 192, 1, 2" if ctx.tier == "quick" else "1, 2, 3, 13, 62..66, 127..129, 191..193, 256, 320 and six random counts below 200"),
        "exhaustive": True,
        "exhaustive_part": "all strings up to length %d over [0-9A-F:] for the caster/formatter model" % (3 if ctx.tier == "quick" else 4),
        "correspondence_shards": nshards,
        "gocast_strings": len(gcs), "e2e_summaries": len(e2es), "labels_fetched": n_gets, "encodings_patched": n_patches,
        "written_encodings": len(wrs),
        "action_counts_end_to_end": sorted({c["nact"] for c in e2es}),
        "explorer_summaries_on_generated_catchments": len([c for c in e2es if c["class"].startswith("explorer_")]),
    })
    ctx.samples = [{"gocast": bytes.fromhex(c["s"]).decode("latin-1"), "tag": c["t"]} for c in gcs[200:203]] + \
                  [{"summary": bytes.fromhex(c["text"]).decode("latin-1")[:300], "post": c.get("post"),
                    "gets": [x["obs"] for x in c.get("gets", [])]} for c in e2es[:2]]
    ctx.assumptions = [
        "encoding/csv reads the marshalled text of csv-safe fields back as those fields (checked per summary: model records = reader records)",
        "BooleanArchive Decode/Encoding are C09's model (BoolArchive.v / ActionCodec.v): the flags of a pooled / patched model and its re-encoded text are COMPUTED by that model for the scenario's action count and compared with what the engine serves; the implementation's own Encoding(Decode e) on a clone is only compared with it",
        "the explorer seeds itself from the clock: the summaries written for the generated catchments differ from run to run (the case file carries the text; VERIF_SEED fixes the catchments)",
        "float equality of the as-is check is modelled on exact values of the floats (A-FLOAT, DESIGN section 3)",
        "theorems hold for every caster/formatter that agrees with go_cast/go_fmt_v on their modelled domain (tied exhaustively on short strings over [0-9A-F:])",
    ]
