"""C13 — every summary the explorer can write loads in the engine, label by label."""
import importlib
import coqgen as g

c20 = importlib.import_module("props.C20")
hx, fld, num = c20.hx, c20.fld, c20.num

GSHARD = 3000
ESHARD = 40

IMPORTS = "From Crem Require Import Base.Res Base.Fl CsvTable GoCast CsvTableCorr SummaryRoundTrip SummaryCorr.\n"


def gobs(j):
    o = j["obs"]
    if o == "404":
        return "GNotFound"
    if o == "asis":
        return "GAsIs"
    if o == "decoded":
        return "(GDecoded %s %s)" % (hx(j["enc"]), hx(j["sum"]))
    if o == "panic":
        return "GPanic"
    return "GOther"


def pobs(o):
    return {"400": "P400", "true": "PTrue", "false": "PFalse", "none": "PNone", "panic": "PPanic"}.get(o, "POther")


def e2e_term(c):
    if c.get("csv") is None:
        recs = "None"
    else:
        recs = "(Some %s)" % g.lst([g.lst([fld(f) for f in r]) for r in c["csv"]])
    asis = g.lst(["(%s, %s)" % (hx(a["name"]), num(a)) for a in c.get("asis", [])])
    post = {"200": "Post200", "400": "Post400", "panic": "PostPanic"}.get(c.get("post"), "PostOther")
    gets = g.lst(["(%s, %s)" % (hx(x["label"]), gobs(x)) for x in c.get("gets", [])])
    patches = g.lst(["(%s, %s, %s)" % (hx(p["enc"]), "None" if p["recode"] is None else "(Some %s)" % hx(p["recode"]), pobs(p["obs"]))
                     for p in c.get("patches", [])])
    pre = g.lst(["(%s, %s)" % (g.lst([g.lst([fld(f) for f in r]) for r in h["csv"]]), g.lst([hx(l) for l in h["labels"]]))
                 for h in c.get("pre", [])])
    return "mkE %s %s %s %s %s %s %s %s" % (g.nat(c["nw"]), pre, recs, hx(c["text"]), asis, post, gets, patches)


def run(ctx):
    ctx.build_harness()
    lines = ctx.run_harness("C13", [ctx.tier])
    gcs = [l for l in lines if l.get("kind") == "gc"]
    e2es = [l for l in lines if l.get("kind") == "e2e"]
    for l in lines:
        k = l.get("kind")
        if k == "oracle":
            ctx.failing_inputs.append(l)
        elif k == "stat":
            ctx.stats = l["stats"]
        elif k == "witness":
            ctx.oblige("witness:%s replayed on the implementation (%s)" % (l["name"], l["input"]), l["confirmed"],
                       "" if l["confirmed"] else "the implementation no longer shows the listed defect")
            if not l["confirmed"]:
                ctx.broken.append("refutation witness %s is no longer reproduced by the implementation" % l["name"])
    if not any(l.get("kind") == "stat" for l in lines):
        ctx.oblige("harness ran to completion", False, (ctx.last_harness.stderr or "")[-800:])
        ctx.broken.append("harness C13 did not run to completion")
    ctx.check_theorems("Properties/C13.v")
    nshards = 0
    stable = modelled = 0
    for si, shard in enumerate(g.chunks(gcs, GSHARD)):
        body = g.HEADER + IMPORTS
        body += "Definition cases : list fld := [\n  " + ";\n  ".join(fld(c) for c in shard) + "\n].\n"
        body += "Definition M := Eval vm_compute in gmismatches cases.\nPrint M.\n"
        idx = ctx.correspondence("cases_C13_gocast_%d" % si, body, ncases=len(shard))
        nshards += 1
        if idx:
            for i in idx[:8]:
                ctx.notes.append({"gocast_mismatch": bytes.fromhex(shard[i]["s"]).decode("latin-1"), "real": shard[i]})
    for si, shard in enumerate(g.chunks(e2es, ESHARD)):
        body = g.HEADER + IMPORTS
        body += "Definition cases : list e2e := [\n  " + ";\n  ".join(e2e_term(c) for c in shard) + "\n].\n"
        body += "Definition M := Eval vm_compute in emismatches cases.\nPrint M.\n"
        idx = ctx.correspondence("cases_C13_e2e_%d" % si, body, ncases=len(shard))
        nshards += 1
        if idx:
            for i in idx[:5]:
                c = shard[i]
                ctx.notes.append({"e2e_mismatch": {"class": c["class"], "text": bytes.fromhex(c["text"]).decode("latin-1")[:600],
                                                   "post": c.get("post"), "gets": c.get("gets"), "patches": c.get("patches")}})
    distinct_gc = len({c["s"] for c in gcs})
    distinct_rows = len({(bytes.fromhex(c["text"]).decode("latin-1")) for c in e2es if c.get("post") == "200"})
    n_gets = sum(len(c.get("gets", [])) for c in e2es)
    n_patches = sum(len(c.get("patches", [])) for c in e2es)
    ctx.coverage.update({
        "evaluations": len(gcs) + n_gets + n_patches + len(e2es),
        "distinct_nontrivial": distinct_gc + distinct_rows,
        "rule": "(1) caster/formatter model vs crem's BaseCaster + fmt %%v: EVERY string of length <= %d over the 17 letters [0-9A-F:] "
                "(17^0+...), fixed longer shapes (2^53 neighbourhood, overflow boundary 1.797...E308, d+Ed+, leading zeros, signs, dots, "
                "all ParseBool literals, labels/notes/headings of real summaries) and random shapes (decimal strings up to 24 digits, d+Ed+, "
                "canonical hex words, multi-word encodings, %%.3f texts, random strings over [0-9A-Fa-f:.+-Ee]); "
                "(2) end to end through the REAL SummaryMarshaler and the REAL engine Mux (httptest, scenario fixture ValidTestScenario.toml, 13 actions): "
                "summaries with real values/encodings of random action sets (steered towards d+Ed+, F, all-decimal encodings), the single-objective "
                "shape (As-Is + Optimised), one summary per encoding class, synthetic rows with arbitrary DECODABLE text over [0-9A-F:] in the Actions column "
                "(leading zeros, bits beyond the actions, numeric / exponent / boolean look-alikes: expected 200 and the full round trip) and summaries with "
                "ONE undecodable Actions text (wrong word count, empty word, word beyond 64 bits; also in the As-Is row: expected 400, a 200 is flagged), "
                "summary FILES written by the real scenario.Saver driven as the Runner drives it (ONE saver, SetDecompressionModel once, one "
                "FinishedAnnealing event per run with CompressedModel (Kirkpatrick family) or ModelArchive (Suppapitnarm family), RunNumber 1..3, "
                "CSV/Summary into a private temp dir): every file of every run posted to a fresh engine, "
                "the former D9 / stale-pool refutation witnesses as positive regression cases (1E3, F, 1E0, 1000000, 9E9, 0012; summaries re-posted "
                "on one engine with re-used labels after every label had been fetched), "
                "and malformed relatives (wrong as-is values, first row not As-Is, non-hex encoding, boolean note, duplicate labels, a variable "
                "column missing, an unknown variable column); for every "
                "summary: POST status, GET of every label (+ an unknown one, + one repeated), PATCH /model with every row's encoding. "
                "distinct_nontrivial = distinct strings in (1) + distinct accepted summaries in (2)" % (3 if ctx.tier == "quick" else 4),
        "exhaustive": True,
        "exhaustive_part": "all strings up to length %d over [0-9A-F:] for the caster/formatter model" % (3 if ctx.tier == "quick" else 4),
        "correspondence_shards": nshards,
        "gocast_strings": len(gcs), "e2e_summaries": len(e2es), "labels_fetched": n_gets, "encodings_patched": n_patches,
    })
    ctx.samples = [{"gocast": bytes.fromhex(c["s"]).decode("latin-1"), "tag": c["t"]} for c in gcs[200:203]] + \
                  [{"summary": bytes.fromhex(c["text"]).decode("latin-1")[:300], "post": c.get("post"),
                    "gets": [x["obs"] for x in c.get("gets", [])]} for c in e2es[:2]]
    ctx.assumptions = [
        "encoding/csv reads the marshalled text of csv-safe fields back as those fields (checked per summary: model records = reader records)",
        "BooleanArchive Decode/Encoding are C09's subject: the pool entry is modelled by the encoding text handed to AddSolution; recode = Encoding(Decode e) is supplied per case by the real archive code",
        "float equality of the as-is check is modelled on exact values of the floats (A-FLOAT, DESIGN section 3)",
        "theorems hold for every caster/formatter that agrees with go_cast/go_fmt_v on their modelled domain (tied exhaustively on short strings over [0-9A-F:])",
    ]
