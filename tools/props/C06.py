"""C06 — multi-objective step rule and return-to-base schedule (suppapitnarm explorer)."""
import coqgen as g

ITER_BUDGET = 900       # iterations of full runs per generated .v shard
SCHED_BUDGET = 40       # schedule-only cases per shard


def fl(v):
    """exact float export of harness/c06.go:c06fl -> primitive float term"""
    if v == "nan":
        return "nan"
    if v == "inf":
        return "infinity"
    if v == "-inf":
        return "neg_infinity"
    if v == "-0":
        return "(-0)%float"
    return "(mkf (%d) (%d))" % (int(v[0]), int(v[1]))


def q(v):
    if isinstance(v, str):
        raise ValueError("non-finite decision-variable value exported: %r" % (v,))
    return g.fl(v)


def acts(mask, n):
    return g.lst(["true" if (int(mask) >> i) & 1 else "false" for i in range(n)])


def entry(e, n):
    return "(mk_entry %s %s)" % (g.lst([q(x) for x in e["v"]]), acts(e["a"], n))


def params(c):
    return "(mk_params %s %s %s %s %s %s)" % (g.z(c["init"]), g.z(c["min"]), fl(c["factor"]), fl(c["cooling"]),
                                              c["ck"], g.b(c["nd"]))


def rcase(c):
    n = c["n"]
    ins = []
    for i in c["inputs"]:
        ins.append("mk_input %s %s %s %d%%nat" % (entry(i, n), g.lst([fl(x) for x in i["es"]]), g.z(i["k"]), int(i["pick"])))
    obs = []
    for o in c["obs"]:
        base = "None" if "base" not in o else "(Some %s)" % g.n_(o["base"])
        obs.append("mk_iobs %d %d %s %s %s %s %s %s %s %s %s %d" % (
            o["verdict"], o["decision"], base, g.n_(o["cur"]), g.lst([g.n_(x) for x in o["arch"]]), g.n_(o["until"]),
            fl(o["stepf"]), g.n_(o["last"]), fl(o["accprob"]), fl(o["temp"]), g.b(o["desirable"]), o["storage"]))
    return "CR (mk_rcase %s %s %s %s\n   [%s]\n   [%s]\n   %s)" % (
        params(c), entry(c["c0"], n), fl(c["t0"]), g.n_(c["until0"]),
        ";\n    ".join(ins), ";\n    ".join(obs), g.b(c["panicked"]))


def rle(returns):
    """merge consecutive returns that install the same countdown and step, one countdown apart"""
    out = []
    for it, cd, st in returns:
        if out and out[-1][1] == cd and out[-1][2] == st and out[-1][0] + out[-1][3] * cd == it:
            out[-1][3] += 1
        else:
            out.append([it, cd, st, 1])
    return out


def scase(c):
    rets = ["(%s, %s, %s, %s)" % (g.n_(r[0]), g.n_(r[1]), fl(r[2]), g.n_(r[3])) for r in rle(c["returns"])]
    return "CS (mk_scase %s %s %s [%s])" % (params(c), g.n_(c["iterations"]), g.n_(c["until0"]), "; ".join(rets))


PRELUDE = (g.HEADER +
           "From Coq Require Import Floats.\n"
           "From Crem Require Import Base.Res Base.Fl Dominance NdArchive SuppRtbFloat Suppapitnarm SuppapitnarmCorr.\n"
           "Open Scope Q_scope.\n")


def shards(cases):
    """group cases so that every shard stays small (full runs by iteration count, schedule runs by count)"""
    cur, cost = [], 0
    for c in cases:
        w = (len(c["obs"]) + 5) if c["t"] == "r" else (ITER_BUDGET // SCHED_BUDGET + len(rle(c["returns"])) // 8)
        if cur and cost + w > ITER_BUDGET:
            yield cur
            cur, cost = [], 0
        cur.append(c)
        cost += w
    if cur:
        yield cur


def run(ctx):
    ctx.build_harness()
    lines = ctx.run_harness("C06", [ctx.tier])
    cases = [l for l in lines if l.get("kind") == "case"]
    for l in lines:
        if l.get("kind") == "oracle":
            ctx.failing_inputs.append(l)
        if l.get("kind") == "stat":
            ctx.stats = l["stats"]
    # the theorem file and the correspondence shards are independent coqc runs: 4 at a time
    from concurrent.futures import ThreadPoolExecutor
    jobs = []
    with ThreadPoolExecutor(max_workers=4) as ex:
        jobs.append(ex.submit(ctx.check_theorems, "Properties/C06.v"))
        shard_list = list(shards(cases))
        for si, shard in enumerate(shard_list):
            items = [rcase(c) if c["t"] == "r" else scase(c) for c in shard]
            body = PRELUDE + "Definition cases : list case := [\n  " + ";\n  ".join(items) + "\n].\n"
            body += "Definition M := Eval vm_compute in mismatches cases.\nPrint M.\n"
            jobs.append(ex.submit(ctx.correspondence, "cases_C06_%d" % si, body, None, len(shard)))
    results = [j.result() for j in jobs]
    nshards = len(shard_list)
    for shard, idx in zip(shard_list, results[1:]):
        if idx:
            for i in idx[:3]:
                c = shard[i]
                brief = {k: c[k] for k in ("t", "init", "min", "factor", "ck", "class", "until0", "n") if k in c}
                ctx.notes.append({"mismatch": brief})
    # obligations in a deterministic order whatever the completion order was
    ctx.obligations.sort(key=lambda o: (not o[0].startswith("no_forbidden"), not o[0].startswith("theorem:"), o[0]))
    full = [c for c in cases if c["t"] == "r"]
    sched = [c for c in cases if c["t"] == "s"]
    iters = sum(len(c["obs"]) for c in full)
    distinct = len({(c["init"], c["min"], str(c["factor"]), c["ck"], i["a"], str(i["v"]), str(i["es"]), i["k"], o["verdict"],
                     o["decision"], str(o["arch"]))
                    for c in full for i, o in zip(c["inputs"], c["obs"])})
    ctx.coverage.update({
        "evaluations": iters + sum(c["iterations"] for c in sched),
        "distinct_nontrivial": distinct,
        "rule": "full runs of the real Explorer (scripted model, real coolant behind a recording wrapper, scripted rand sources): "
                "grid init{1,2,3,7} x min{1,2,10} x factor{0,0.5,0.95,1} x both coolants plus random parameters (factor incl. 1-ulp and "
                "denormal), a quarter of the runs at a temperature where exp underflows to 0 with draws forced to 0 (boundary p = u), every iteration "
                "compared on verdict, decision, base, current set, archive, countdown, step bits, LastReturnedToBase, acceptance "
                "probability bits, temperature bits; schedule-only runs over the whole grid incl. init=20000 (up to 60000 "
                "iterations) compared at every return (run-length encoded in the steady state), plus init in {2^31, 2^53-1, 2^53, 2^53+1, "
                "2^62+12345, MaxInt64} compared on the first countdown. distinct_nontrivial = distinct (parameters, candidate, exp values, draw, "
                "verdict, decision, archive) tuples among the fully compared iterations",
        "exhaustive": False,
        "full_runs": len(full), "full_iterations": iters,
        "schedule_runs": len(sched), "schedule_iterations": sum(c["iterations"] for c in sched),
        "schedule_returns_compared": sum(len(c["returns"]) for c in sched),
        "correspondence_shards": nshards,
    })
    ctx.samples = [{k: (v if k not in ("inputs", "obs", "returns") else v[:2]) for k, v in c.items()}
                   for c in (full[:2] + sched[:2])]
    ctx.assumptions = [
        "math.Exp results are inputs of the model (exported exactly); product/mean, the comparison p > u, the step recurrence "
        "and uint64(float64) are computed in Coq primitive binary64 floats and compared bit-for-bit",
        "the decision-variable vector of a model is a function of its action set (C01); vectors are finite",
        "uint64(float64) is modelled for finite 0 <= x < 2^64 only; float64(int64) for 0 <= v < 2^63 (validator ranges)",
    ]
