"""C06 — multi-objective step rule and return-to-base schedule (suppapitnarm explorer)."""
import json, os, re
import check as ck
import coqgen as g

ITER_BUDGET = 900       # iterations of full runs per generated .v shard
SCHED_BUDGET = 40       # schedule-only cases per shard


def fl(v):
    """exact float export of harness/c06.go:c06fl -> primitive float term"""
    if v == "nan":
        return "nan"
    if v == "inf":
        return "infinity"
    if v == "-inf":
        return "neg_infinity"
    if v == "-0":
        return "(-0)%float"
    return "(mkf (%d) (%d))" % (int(v[0]), int(v[1]))


def q(v):
    if isinstance(v, str):
        raise ValueError("non-finite decision-variable value exported: %r" % (v,))
    return g.fl(v)


def acts(mask, n):
    return g.lst(["true" if (int(mask) >> i) & 1 else "false" for i in range(n)])


def entry(e, n):
    return "(mk_entry %s %s)" % (g.lst([q(x) for x in e["v"]]), acts(e["a"], n))


def params(c):
    return "(mk_params %s %s %s %s %s %s)" % (g.z(c["init"]), g.z(c["min"]), fl(c["factor"]), fl(c["cooling"]),
                                              c["ck"], g.b(c["nd"]))


def rcase(c):
    n = c["n"]
    ins = []
    for i in c["inputs"]:
        ins.append("mk_input %s %s %s %d%%nat" % (entry(i, n), g.lst([fl(x) for x in i["es"]]), g.z(i["k"]), int(i["pick"])))
    obs = []
    for o in c["obs"]:
        base = "None" if "base" not in o else "(Some %s)" % g.n_(o["base"])
        obs.append("mk_iobs %d %d %s %s %s %s %s %s %s %s %s %d" % (
            o["verdict"], o["decision"], base, g.n_(o["cur"]), g.lst([g.n_(x) for x in o["arch"]]), g.n_(o["until"]),
            fl(o["stepf"]), g.n_(o["last"]), fl(o["accprob"]), fl(o["temp"]), g.b(o["desirable"]), o["storage"]))
    return "CR (mk_rcase %s %s %s %s\n   [%s]\n   [%s]\n   %s)" % (
        params(c), entry(c["c0"], n), fl(c["t0"]), g.n_(c["until0"]),
        ";\n    ".join(ins), ";\n    ".join(obs), g.b(c["panicked"]))


def rle(returns):
    """merge consecutive returns that install the same countdown and step, one countdown apart"""
    out = []
    for it, cd, st in returns:
        if out and out[-1][1] == cd and out[-1][2] == st and out[-1][0] + out[-1][3] * cd == it:
            out[-1][3] += 1
        else:
            out.append([it, cd, st, 1])
    return out


def scase(c):
    rets = ["(%s, %s, %s, %s)" % (g.n_(r[0]), g.n_(r[1]), fl(r[2]), g.n_(r[3])) for r in rle(c["returns"])]
    return "CS (mk_scase %s %s %s [%s])" % (params(c), g.n_(c["iterations"]), g.n_(c["until0"]), "; ".join(rets))


PRELUDE = (g.HEADER +
           "From Coq Require Import Floats.\n"
           "From Crem Require Import Base.Res Base.Fl Dominance NdArchive SuppRtbFloat Suppapitnarm SuppapitnarmCorr.\n"
           "Open Scope Q_scope.\n")



# ---------- source-level tie: harness/astfacts06 -> gen/Facts06.v -> obligations by computation ----------

OBLIGATIONS = [
    ("storage_result_constants_as_modelled", "strings_eqb Facts06.storage_results Suppapitnarm.storage_result_names"),
    ("verdict_codes_are_iota", "nats_eqb (map sres_code all_verdicts) (seq 0 6)"),
    ("switch_is_on_archiveStorageResult", 'String.eqb Facts06.switch_tag "ke.archiveStorageResult"'),
    ("desirable_cases_as_modelled", "nats_same_set Facts06.desirable_cases Suppapitnarm.desirable_cases"),
    ("undesirable_cases_as_modelled", "nats_same_set Facts06.undesirable_cases Suppapitnarm.undesirable_cases"),
    ("switch_has_no_default", "negb Facts06.switch_has_default"),
    ("switch_has_no_other_clause", "match Facts06.switch_other_clauses with [] => true | _ => false end "
                                   "&& Nat.eqb Facts06.switch_statements_in_function 1"),
    ("unhandled_results_are_never_returned_by_attempt", "nats_same_set Suppapitnarm.sticky_cases [4; 5]%nat"),
    ("try_random_change_order_as_modelled", "strings_eqb Facts06.try_random_change_order Suppapitnarm.try_random_change_order"),
    ("parameter_specifications_as_modelled",
     "forallb (fun e => existsb (spec_eqb e) Facts06.param_specs) Suppapitnarm.param_specs "
     "&& Nat.eqb (List.length Facts06.param_specs) (List.length Suppapitnarm.param_specs)"),
    ("schedule_getter_sites_present", "forallb (fun e => existsb (triple_eqb e) Facts06.getter_sites) getter_sites_needed"),
    ("source_defaults_satisfy_params_ok",
     'match lookup "InitialReturnToBaseStep", lookup "MinimumReturnToBaseRate", lookup "ReturnToBaseAdjustmentFactor" with '
     "| Some (DInt i), Some (DInt m), Some (DFloat f) => params_ok (mk_params i m f 1%float Product false) | _, _, _ => false end"),
]

OBL_PRELUDE = (g.HEADER +
               "From Coq Require Import Floats.\n"
               "From Crem Require Import Base.Res NdArchive SuppRtbFloat Suppapitnarm.\n"
               "From CremGen Require Facts06.\n"
               "Open Scope string_scope.\n"
               "Fixpoint nats_eqb (a b : list nat) : bool := match a, b with [], [] => true "
               "| x :: a', y :: b' => Nat.eqb x y && nats_eqb a' b' | _, _ => false end.\n"
               "Definition lookup (k : string) : option pdefault := "
               "option_map snd (find (fun e => String.eqb (fst (fst e)) k) Facts06.param_specs).\n")


def translate(ctx):
    """build and run the stand-alone go/ast translator on REPO's current source -> gen/Facts06.v"""
    tdir = os.path.join(ck.VERIF, "harness", "astfacts06")
    exe = os.path.join(ck.BUILD, "astfacts06." + ctx.pid)
    p = ck.sh(["go", "build", "-o", exe, "."], cwd=tdir, env=ck.GOENV, timeout=600)
    if p.returncode != 0:
        raise ck.Abort("astfacts06 does not build:\n" + p.stdout[-2000:] + p.stderr[-4000:])
    out = os.path.join(ck.GEN, "Facts06.v")
    p = ck.sh([exe, ck.REPO, out], env=ck.GOENV, timeout=300)
    if p.returncode != 0:
        raise ck.Abort("astfacts06: file / function / constant block not found (hard error, not a verdict):\n" + p.stderr[-4000:])
    return json.loads(p.stdout.strip().splitlines()[-1])


def source_obligations(ctx, facts):
    ok, so, se = ctx.coq_cases("Facts06", open(os.path.join(ck.GEN, "Facts06.v")).read())
    if not ok:
        raise ck.Abort("generated gen/Facts06.v does not compile:\n" + (se or so)[-3000:])
    body = OBL_PRELUDE + "Definition O := Eval vm_compute in [\n  " + \
        ";\n  ".join('("%s", %s)' % (n, e) for n, e in OBLIGATIONS) + "\n].\nPrint O.\n"
    ok, so, se = ctx.coq_cases("obl_C06", body)
    if not ok:
        raise ck.Abort("gen/obl_C06.v does not compile:\n" + (se or so)[-3000:])
    vals = dict(re.findall(r'\(\s*"([A-Za-z_0-9]+)",\s*(true|false)\)', so))
    failed = []
    for n, _ in OBLIGATIONS:
        v = vals.get(n)
        ctx.oblige("facts:" + n, v == "true", "" if v == "true" else "evaluates to %s on gen/Facts06.v" % v)
        if v != "true":
            failed.append(n)
    if failed:
        ctx.broken.append("gen/obl_C06.v: the model's assumptions about the source are false for the facts translated from the "
                          "current source: %s (extracted: %s)" % (failed, json.dumps(facts)[:1800]))
    return failed

def shards(cases):
    """group cases so that every shard stays small (full runs by iteration count, schedule runs by count)"""
    cur, cost = [], 0
    for c in cases:
        w = (len(c["obs"]) + 5) if c["t"] == "r" else (ITER_BUDGET // SCHED_BUDGET + len(rle(c["returns"])) // 8)
        if cur and cost + w > ITER_BUDGET:
            yield cur
            cur, cost = [], 0
        cur.append(c)
        cost += w
    if cur:
        yield cur


def run(ctx):
    ctx.build_harness()
    facts = translate(ctx)
    lines = ctx.run_harness("C06", [ctx.tier])
    cases = [l for l in lines if l.get("kind") == "case"]
    for l in lines:
        if l.get("kind") == "oracle":
            ctx.failing_inputs.append(l)
        if l.get("kind") == "stat":
            ctx.stats = l["stats"]
    # the theorem file and the correspondence shards are independent coqc runs: 4 at a time
    from concurrent.futures import ThreadPoolExecutor
    jobs = []
    with ThreadPoolExecutor(max_workers=4) as ex:
        jobs.append(ex.submit(ctx.check_theorems, "Properties/C06.v"))
        fjob = ex.submit(source_obligations, ctx, facts)
        shard_list = list(shards(cases))
        for si, shard in enumerate(shard_list):
            items = [rcase(c) if c["t"] == "r" else scase(c) for c in shard]
            body = PRELUDE + "Definition cases : list case := [\n  " + ";\n  ".join(items) + "\n].\n"
            body += "Definition M := Eval vm_compute in mismatches cases.\nPrint M.\n"
            jobs.append(ex.submit(ctx.correspondence, "cases_C06_%d" % si, body, None, len(shard)))
    results = [j.result() for j in jobs]
    fjob.result()
    nshards = len(shard_list)
    for shard, idx in zip(shard_list, results[1:]):
        if idx:
            for i in idx[:3]:
                c = shard[i]
                brief = {k: c[k] for k in ("t", "init", "min", "factor", "ck", "class", "until0", "n") if k in c}
                ctx.notes.append({"mismatch": brief})
    # obligations in a deterministic order whatever the completion order was
    ctx.obligations.sort(key=lambda o: (not o[0].startswith("no_forbidden"), not o[0].startswith("theorem:"),
                                        not o[0].startswith("facts:"), o[0]))
    ctx.notes.append({"source_facts(harness/astfacts06)": facts})
    full = [c for c in cases if c["t"] == "r"]
    sched = [c for c in cases if c["t"] == "s"]
    iters = sum(len(c["obs"]) for c in full)
    distinct = len({(c["init"], c["min"], str(c["factor"]), c["ck"], i["a"], str(i["v"]), str(i["es"]), i["k"], o["verdict"],
                     o["decision"], str(o["arch"]))
                    for c in full for i, o in zip(c["inputs"], c["obs"])})
    ctx.coverage.update({
        "evaluations": iters + sum(c["iterations"] for c in sched),
        "distinct_nontrivial": distinct,
        "rule": "full runs of the real Explorer (scripted model, real coolant behind a recording wrapper, scripted rand sources): "
                "grid init{1,2,3,7} x min{1,2,10} x factor{0,0.5,0.95,1} x both coolants plus random parameters (factor incl. 1-ulp and "
                "denormal), a quarter of the runs at a temperature where exp underflows to 0 with draws forced to 0 (boundary p = u), every iteration "
                "compared on verdict, decision, base, current set, archive, countdown, step bits, LastReturnedToBase, acceptance "
                "probability bits, temperature bits; schedule-only runs over the whole grid incl. init=20000 (up to 60000 "
                "iterations) compared at every return (run-length encoded in the steady state), plus init in {2^31, 2^53-1, 2^53, 2^53+1, "
                "2^62+12345, MaxInt64} compared on the first countdown. distinct_nontrivial = distinct (parameters, candidate, exp values, draw, "
                "verdict, decision, archive) tuples among the fully compared iterations",
        "exhaustive": False,
        "full_runs": len(full), "full_iterations": iters,
        "schedule_runs": len(sched), "schedule_iterations": sum(c["iterations"] for c in sched),
        "schedule_returns_compared": sum(len(c["returns"]) for c in sched),
        "correspondence_shards": nshards,
    })
    ctx.samples = [{k: (v if k not in ("inputs", "obs", "returns") else v[:2]) for k, v in c.items()}
                   for c in (full[:2] + sched[:2])]
    ctx.assumptions = [
        "math.Exp results are inputs of the model (exported exactly); product/mean, the comparison p > u, the step recurrence "
        "and uint64(float64) are computed in Coq primitive binary64 floats and compared bit-for-bit",
        "the decision-variable vector of a model is a function of its action set (C01); vectors are finite",
        "uint64(float64) is modelled for finite 0 <= x < 2^64 only; float64(int64) for 0 <= v < 2^63 (validator ranges)",
    ]
