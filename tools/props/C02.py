"""C02 — proposed changes are transactional: exact revert, accept = reported change.

Two streams: (1) the catchment model (catchgen.run_tx_correspondence, shared with C10/C11);
(2) the toy models dumb / modumb (harness/c02dumb.go, DumbModels.v): operation histories on several handles."""
from concurrent.futures import ThreadPoolExecutor
import catchgen as cg
import coqgen as g

DHEADER = g.HEADER + "From Crem Require Import Base.Res Base.Fl DumbModels DumbModelsCorr.\nOpen Scope Z_scope.\n"


def _oz(v):
    return "None" if v is None else "(Some %s)" % g.z(v)


def _ofl(v):
    return "None" if v is None else "(Some %s)" % g.fl(v)


def _zl(xs):
    return g.lst([g.z(x) for x in xs])


def dumb_op(o):
    k = o["op"]
    if k == "SETP":
        return "(DSetParams %s %s %s)" % (_oz(o.get("init")), _oz(o.get("min")), _oz(o.get("max")))
    if k in ("TRY", "DO"):
        return "(%s %s)" % ({"TRY": "DTry", "DO": "DDo"}[k], g.b(o["up"]))
    if k in ("SETACT", "SETACTU"):
        return "(%s %s %s)" % ({"SETACT": "DSetAct", "SETACTU": "DSetActU"}[k], g.nat(o["i"]), g.b(o["b"]))
    return {"INIT": "DInit", "VALID": "DValid", "ACCEPT": "DAccept", "REVERT": "DRevert", "UNDO": "DUndo", "CLONE": "DClone"}[k]


def dumb_case(c):
    steps = ["(mkDStep %s %s %s %s)" % (g.nat(s["h"]), dumb_op(s["op"]), g.b(s["valid"]), g.lst([_zl(o) for o in s["obs"]]))
             for s in c["steps"]]
    return "(mkDCase %s\n  %s)" % (g.lst([_zl(o) for o in c["init"]]), g.lst(steps))


def modumb_op(o):
    k = o["op"]
    if k == "SETP":
        n = o.get("npu")
        return "(MSetParams %s %s %s %s)" % (_ofl(o.get("i0")), _ofl(o.get("i1")), _ofl(o.get("i2")),
                                            "None" if n is None else "(Some %s)" % g.nat(n))
    if k in ("TRY", "DO"):
        return "(%s %s)" % ({"TRY": "MTry", "DO": "MDo"}[k], g.nat(o["pick"]))
    if k in ("SETACT", "SETACTU"):
        return "(%s %s %s)" % ({"SETACT": "MSetAct", "SETACTU": "MSetActU"}[k], g.nat(o["i"]), g.b(o["b"]))
    return {"INIT": "MInit", "VALID": "MValid", "ACCEPT": "MAccept", "REVERT": "MRevert", "UNDO": "MUndo", "CLONE": "MClone"}[k]


def mobs(o):
    if o is None:
        return "None"
    return "(Some (mkMO %s %s %s %s %s))" % (g.lst([g.b(x == 1) for x in o["active"]]), _zl(o["totals"]), _zl(o["changes"]),
                                             _zl(o["undoable"]), g.lst([_zl(r) for r in o["vals"]]))


def modumb_case(c):
    steps = ["(mkMStep %s %s %s %s)" % (g.nat(s["h"]), modumb_op(s["op"]), g.b(s["panic"]), g.lst([mobs(o) for o in s["obs"]]))
             for s in c["steps"]]
    return "(mkMCase %s\n  %s)" % (g.lst([mobs(o) for o in c["init"]]), g.lst(steps))


def _history(c):
    return [dict(s["op"]) for s in c["steps"]]


def run_toy_models(ctx):
    """harness C02 <tier> dumb -> gen/cases_C02_dumb_<k>.v, gen/cases_C02_modumb_<k>.v"""
    lines = ctx.run_harness("C02", [ctx.tier, "dumb"], timeout=1200)
    stats = {}
    for l in lines:
        if l.get("kind") == "oracle":
            ctx.failing_inputs.append(l)
        if l.get("kind") == "stat":
            stats = l["stats"]
    dcases = [l for l in lines if l.get("kind") == "dumbcase"]
    mcases = [l for l in lines if l.get("kind") == "modumbcase"]
    ctx.oblige("harness:C02 toy-model stream produced cases for both models", bool(dcases) and bool(mcases),
               "dumb %d, modumb %d" % (len(dcases), len(mcases)))
    if not (dcases and mcases):
        ctx.broken.append("the toy-model stream of the C02 harness produced no cases")
    jobs, k = [], 0
    for sh in g.chunks(dcases, 60 if ctx.tier == "quick" else 250):
        body = DHEADER + "Definition cases : list dcase := %s.\n" % g.lst([dumb_case(c) for c in sh])
        body += "Definition M := Eval vm_compute in d_mismatches cases 0.\nPrint M.\n"
        jobs.append(("cases_C02_dumb_%d" % k, "dumb", sh, body))
        k += 1
    k = 0
    for sh in g.chunks(mcases, 45 if ctx.tier == "quick" else 200):
        body = DHEADER + "Definition cases : list mcase := %s.\n" % g.lst([modumb_case(c) for c in sh])
        body += "Definition M := Eval vm_compute in m_mismatches cases 0.\nPrint M.\n"
        jobs.append(("cases_C02_modumb_%d" % k, "modumb", sh, body))
        k += 1

    def one(job):
        name, model, sh, body = job
        return job, ctx.correspondence(name, body, label="correspondence:C02:%s:%s" % (model, name), ncases=len(sh))

    with ThreadPoolExecutor(max_workers=8) as ex:
        results = list(ex.map(one, jobs))
    for (name, model, sh, body), idx in results:
        for i in (idx or [])[:3]:
            if i < len(sh):
                ctx.notes.append({"mismatch": {"model": model, "file": name, "history": _history(sh[i])}})
    return dcases, mcases, stats


def run(ctx):
    ctx.build_harness()
    ctx.check_theorems("Properties/C02.v")
    cases = cg.run_tx_correspondence(ctx, "C02")
    catch_stats = ctx.stats
    dcases, mcases, toy_stats = run_toy_models(ctx)
    ctx.stats = dict(catch_stats)
    ctx.stats.update({"toy:" + k: v for k, v in toy_stats.items()})
    distinct = len({(c["dataset"], str(c["bits"]), c["i"], c["accept"]) for c in cases})
    toy_steps = sum(len(c["steps"]) for c in dcases) + sum(len(c["steps"]) for c in mcases)
    toy_distinct = len({("d", str(_history(c))) for c in dcases} | {("m", str(_history(c))) for c in mcases})
    ctx.coverage.update({
        "evaluations": len(cases) + toy_steps, "distinct_nontrivial": distinct + toy_distinct,
        "rule": "CATCHMENT: (start set, proposed action, decision) triples on the two shipped data sets and a row-permuted variant of ValidModel (Subcatchments rows reversed, Actions rows rotated): start sets of density 0.1/0.5/0.9, "
                "a third of the actions per state (all in the thorough tier), both decisions; model vs implementation on the "
                "observables before / while proposed / after, the six reported changes; implementation-side oracle: values unchanged "
                "while proposed, accept = total + reported change, revert restores totals, per-unit values, action states and the "
                "solution encoding, locality. TOY MODELS (dumb, modumb): random operation histories (SetParameters from a palette that puts the "
                "initial value on / next to / outside [Minimum, Maximum]; Initialise; scripted TryRandomChange / DoRandomChange; ChangeIsValid; "
                "Accept; Revert; Undo; SetManagementAction(Unobserved); DeepClone) on up to 4 handles, what EVERY handle reports compared "
                "with the executable model after EVERY operation (value / totals, reported changes, undoable values, per-unit values, action "
                "flags, panics), plus the same clauses evaluated on the implementation alone. evaluations = catchment triples + toy-model "
                "operations; distinct_nontrivial = distinct (data set, start set, action, decision) + distinct toy-model histories",
        "exhaustive": False,
        "catchment_cases": len(cases), "toy_dumb_histories": len(dcases), "toy_modumb_histories": len(mcases), "toy_operations": toy_steps})
    ctx.samples = []
    if cases:
        c = cases[0]
        ctx.samples.append({k: c[k] for k in ("dataset", "bits", "i", "accept", "changes")})
    if dcases:
        ctx.samples.append({"model": "dumb", "history": _history(dcases[0])[:8], "reports_after_last_of_these": dcases[0]["steps"][min(7, len(dcases[0]["steps"]) - 1)]["obs"]})
    if mcases:
        ctx.samples.append({"model": "modumb", "history": _history(mcases[0])[:8]})
    ctx.assumptions = ["A-FLOAT (DESIGN 3a); 'exactly' is on the reporting grid",
                       "toy models: parameters inside DumbModels.mp_small (|initial value| <= 1e9, <= 1000 planning units); dumb initial value on the thousandths grid"]
