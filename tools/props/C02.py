"""C02 — proposed changes are transactional: exact revert, accept = reported change."""
import catchgen as cg


def run(ctx):
    ctx.build_harness()
    ctx.check_theorems("Properties/C02.v")
    cases = cg.run_tx_correspondence(ctx, "C02")
    distinct = len({(c["dataset"], str(c["bits"]), c["i"], c["accept"]) for c in cases})
    ctx.coverage.update({
        "evaluations": len(cases), "distinct_nontrivial": distinct,
        "rule": "(start set, proposed action, decision) triples on the two shipped data sets and a row-permuted variant of ValidModel (Subcatchments rows reversed, Actions rows rotated): start sets of density 0.1/0.5/0.9, "
                "a third of the actions per state (all in the thorough tier), both decisions; model vs implementation on the "
                "observables before / while proposed / after, the six reported changes; implementation-side oracle: values unchanged "
                "while proposed, accept = total + reported change, revert restores totals, per-unit values, action states and the "
                "solution encoding, locality. distinct_nontrivial = distinct (data set, start set, action, decision)",
        "exhaustive": False})
    if cases:
        c = cases[0]
        ctx.samples = [{k: c[k] for k in ("dataset", "bits", "i", "accept", "changes")}]
    ctx.assumptions = ["A-FLOAT (DESIGN 3a); 'exactly' is on the reporting grid"]
