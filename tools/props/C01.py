"""C01 — valuation depends only on the active action set (history independence)."""
import re
import coqgen as g
import catchgen as cg


def run_walk_correspondence(ctx, lines, tag, per_file=3):
    """Shared by C01/C02/C11: data sets + walks -> gen/cases_<tag>_<k>.v -> mismatch codes (files compiled in parallel)."""
    from concurrent.futures import ThreadPoolExecutor
    datasets = [l for l in lines if l.get("kind") == "dataset"]
    total_steps, nwalks, jobs = 0, 0, []
    for k, ds in enumerate(datasets):
        name = ds["name"]
        init = [l for l in lines if l.get("kind") == "init" and l["dataset"] == name][0]
        walks = [l for l in lines if l.get("kind") == "case" and l["dataset"] == name]
        dterm = cg.dataset(ds)
        groups = list(g.chunks(walks, per_file)) or [[]]
        for j, grp in enumerate(groups):
            body = cg.HEADER
            body += "Definition d : dataset :=\n  %s.\n" % dterm
            body += "Definition c : dcase := mkDCase d %s\n  %s.\n" % (cg.obs(init["obs"]), g.lst([cg.walk(w) for w in grp]))
            body += "Definition R := Eval vm_compute in check_dcase c.\nPrint R.\n"
            body += "Definition M := Eval vm_compute in codes R.\nPrint M.\n"
            jobs.append(("cases_%s_%d_%d" % (tag, k, j), body, "correspondence:%s:%s:%d" % (tag, name, j), len(grp) + 3, name))
        nwalks += len(walks)
        total_steps += sum(len(w["ops"]) for w in walks)

    def one(job):
        fname, body, label, n, name = job
        return job, ctx.correspondence(fname, body, label=label, ncases=n, timeout=3000)

    with ThreadPoolExecutor(max_workers=8) as ex:
        results = list(ex.map(one, jobs))
    for (fname, body, label, n, name), idx in results:
        if idx:
            ctx.notes.append({"dataset": name, "file": fname, "codes": idx,
                              "meaning": "0 wf_dataset false; 1 base attributes != original constants; 2 initial observables; 10+w walk w of this file"})
    return len(datasets), nwalks, total_steps


def run(ctx):
    ctx.build_harness()
    lines = ctx.run_harness("C01", [ctx.tier], timeout=3000)
    for l in lines:
        if l.get("kind") == "oracle":
            ctx.failing_inputs.append(l)
        if l.get("kind") == "stat":
            ctx.stats = l["stats"]
    ctx.check_theorems("Properties/C01.v")
    nds, nwalks, nsteps = run_walk_correspondence(ctx, lines, "C01")
    walks = [l for l in lines if l.get("kind") == "case"]
    distinct = len({(w["dataset"], str(o["active"])) for w in walks for o in w["obs"]})
    ctx.coverage.update({
        "evaluations": nsteps + ctx.stats.get("gray_states", 0),
        "distinct_nontrivial": distinct + ctx.stats.get("gray_states", 0),
        "rule": "random walks over the operation alphabet {propose+accept, propose+revert, propose+accept+revert, set(i,b), "
                "initialising (de)activation with/without lastApplied, synchronise/decompress(bits), re-initialise} on the two shipped "
                "data sets, every step compared model vs implementation on all six totals, every per-unit value and the active bits "
                "(hidden attributes at the end of each walk); plus a Gray-code walk over the action sets (all 2^n in the thorough tier) "
                "checked implementation-side against a fresh instance at every state. distinct_nontrivial = distinct (data set, "
                "active set) states visited by the compared walks + Gray-code states",
        "exhaustive": ctx.tier == "thorough",
        "datasets": nds, "walks": nwalks, "compared_steps": nsteps,
    })
    if walks:
        w = walks[0]
        ctx.samples = [{"dataset": w["dataset"], "ops": w["ops"][:8], "obs_after_first_op": w["obs"][0]}]
    ctx.assumptions = ["A-FLOAT (DESIGN 3a): values the Go code stores after RoundFloat are canonical doubles of grid points; "
                       "exact-rational valuation vs float64 can differ only at a rounding tie (none observed: the correspondence is exact)",
                       "well-formed histories: a proposal is decided (accept/revert) before the next one; indices within range"]
