"""C11 — aggregates are consistent: total = sum of unit shares; total N = PN + DN."""
import catchgen as cg


def run(ctx):
    ctx.build_harness()
    ctx.check_theorems("Properties/C11.v")
    cases = cg.run_tx_correspondence(ctx, "C11")
    distinct = len({(c["dataset"], str(c["after"]["active"])) for c in cases} | {(c["dataset"], str(c["before"]["active"])) for c in cases})
    ctx.coverage.update({
        "evaluations": 2 * len(cases), "distinct_nontrivial": distinct,
        "rule": "states before and after (start set, action, decision) transactions on the two shipped data sets and a row-permuted variant of ValidModel (Subcatchments rows reversed, Actions rows rotated); implementation-side "
                "oracle at every state: grid total == sum of grid per-unit values for all six variables, TN == PN + DN per unit and in "
                "total, and the same for the figures SolutionBuilder copies into solution files / the engine serves; model vs "
                "implementation on all of these values. distinct_nontrivial = distinct (data set, active set) states checked",
        "exhaustive": False})
    if cases:
        c = cases[0]
        ctx.samples = [{"dataset": c["dataset"], "state": c["after"]}]
    ctx.assumptions = ["A-FLOAT (DESIGN 3a): 'to the variable's reporting precision' = equality of grid integers"]
