"""C09 — action-set encodings are canonical, lossless and portable across model instances."""
import coqgen as g

ARCH_VOLUME = 100000  # JSON characters of archive operations per generated file (~5 s of coqc each)
PSHARD = 1000         # portability cases per generated file


def s_(v):
    """a Go string exported byte-exactly: JSON string (printable ASCII) or list of byte values.
    (coqgen.string emits one ')' too many for non-printable input, so the term is built here.)"""
    bs = bytes(v) if isinstance(v, list) else v.encode("latin-1")
    if all(32 <= c < 127 and c != 34 for c in bs):
        return '"' + bs.decode("latin-1") + '"%string'
    t = "EmptyString"
    for c in reversed(bs):
        t = "(String (Ascii.ascii_of_nat %d) %s)" % (c, t)
    return t


def nhex(n):
    """N literal in hexadecimal (Coq converts long decimal literals slowly)"""
    return "0x%x%%N" % int(n)


def obs(o):
    return {"T": "OT", "F": "OF", "P": "OP"}[o]


def bits(bs):
    return g.lst([g.b(x) for x in bs])


def key(k):
    return "(%s, %s)" % (g.n_(k[0]), s_(k[1]))


def keys(ks):
    return g.lst([key(k) for k in ks])


def op(o):
    t = o[0]
    if t == "S":
        return "CSet %s %s %s" % (g.z(o[1]), g.b(o[2]), g.b(o[3]))
    if t == "V":
        return "CVal %s %s" % (g.z(o[1]), obs(o[2]))
    if t == "E":
        return "CEnc %s" % s_(o[1])
    if t == "D":
        return "CDec %s %s" % (s_(o[1]), obs(o[2]))
    if t == "Q":
        return "CEqv %s %s %s" % (g.nat(o[1]), nhex(o[2]), obs(o[3]))
    if t == "B":
        return "CBuild %s" % nhex(o[1])
    if t == "W":
        return "CVals %s" % nhex(o[1])
    if t == "R":
        m = o[2]
        memo = {"empty": "MEmpty", "last": "MLast"}[m] if isinstance(m, str) else "(MText %s)" % s_(m[1])
        return "CRaw %s %s" % (g.lst([nhex(w) for w in o[1]]), memo)
    raise ValueError(t)


IMPORTS = "From Crem Require Import Base.Res BoolArchive ActionOrder ActionCodec BoolArchiveCorr.\n"


def run(ctx):
    import glob, os
    for f in glob.glob(os.path.join(os.path.dirname(os.path.dirname(os.path.dirname(os.path.abspath(__file__)))), "coq", "gen", "cases_C09_*")):
        os.remove(f)          # shards of an earlier run (their number varies with the tier)
    ctx.build_harness()
    lines = ctx.run_harness("C09", [ctx.tier])
    cases = [l for l in lines if l.get("kind") == "case"]
    for l in lines:
        if l.get("kind") == "oracle":
            ctx.failing_inputs.append(l)
        if l.get("kind") == "stat":
            ctx.stats = l["stats"]
    arch = [c for c in cases if c["t"] == "arch"]
    order = [c for c in cases if c["t"] == "order"]
    inst = [c for c in cases if c["t"] == "inst"]
    port = [c for c in cases if c["t"] == "port"]

    # every coqc run (the property file and each generated shard) is independent: run up to 4 at a time
    jobs = [lambda: ctx.check_theorems("Properties/C09.v")]

    def shard_job(name, typ, fn, items, shard):
        def job():
            body = g.HEADER + IMPORTS
            body += "Definition cases : list %s := [\n  " % typ + ";\n  ".join(items) + "\n].\n"
            body += "Definition M := Eval vm_compute in %s cases.\nPrint M.\n" % fn
            idx = ctx.correspondence(name, body, ncases=len(shard))
            if idx:
                for i in idx[:3]:
                    ctx.notes.append({"mismatch_in": name, "case": shard[i]})
        jobs.append(job)

    # operation sequences on archives; shards balanced by text volume (Coq elaborates ~1 ms per literal)
    shard, vol, si = [], 0, 0
    for c in arch + [None]:
        if c is None or vol > ARCH_VOLUME:
            if shard:
                items = ["mk %s %s" % (g.nat(x["n"]), g.lst([op(o) for o in x["ops"]])) for x in shard]
                shard_job("cases_C09_arch_%d" % si, "case", "mismatches", items, shard)
                si += 1
            shard, vol = [], 0
        if c is not None:
            shard.append(c)
            vol += sum(len(str(o)) for o in c["ops"])
    # Less matrices and sort results
    for si, shard in enumerate(g.chunks(order, 40)):
        items = ["mko %s %s %s" % (keys(c["keys"]), bits(c["less"]), keys(c["sorted"])) for c in shard]
        shard_job("cases_C09_order_%d" % si, "ocase", "omismatches", items, shard)
    # key sequences of independently constructed model instances
    if inst:
        items = [g.lst([keys(ks) for ks in c["instances"]]) for c in inst]
        shard_job("cases_C09_inst", "(list (list key))", "imismatches", items, inst)
    # Compress / Encoding / Decode / Decompress between instances
    for si, shard in enumerate(g.chunks(port, PSHARD)):
        items = ["mkp %s %s %s %s %s" % (bits(c["bits"]), s_(c["enc"]), g.b(c["ok"]), bits(c["before2"]), bits(c["active2"]))
                 for c in shard]
        shard_job("cases_C09_port_%d" % si, "pcase", "pmismatches", items, shard)
    nshards = len(jobs) - 1
    from concurrent.futures import ThreadPoolExecutor
    with ThreadPoolExecutor(max_workers=4) as ex:
        for f in [ex.submit(j) for j in jobs]:
            f.result()
    ctx.obligations.sort(key=lambda o: o[0])      # the jobs finish in any order

    nops = sum(len(c["ops"]) for c in arch)
    distinct_states = len({(c["n"], str(o[1])) for c in arch for o in c["ops"] if o[0] == "R"})
    distinct_port = len({(c["dataset"], str(c["bits"])) for c in port})
    distinct_dec = len({(c["n"], str(o[1])) for c in arch for o in c["ops"] if o[0] == "D"})
    exh = 10 if ctx.tier == "quick" else 12
    ctx.coverage.update({
        "evaluations": nops + sum(len(c["less"]) for c in order) + len(port) + sum(len(c["instances"]) for c in inst),
        "distinct_nontrivial": distinct_states + distinct_port + distinct_dec,
        "rule": "archive operation sequences (SetValue/Value/Encoding/Decode/IsEquivalentTo + raw word array and memo field after "
                "mutations): ALL bit patterns for sizes 1..%d, structured patterns (single bits at 0,62,63,64,65,127,128,n-1; all ones; "
                "alternating; random) and random walks for sizes 1..200 incl. out-of-range and negative indices; Decode of canonical, "
                "lower-case, zero-padded, garbage-in-unused-bits, wrong word count, empty, too-large, non-hex, signed/prefixed texts; "
                "Less on all pairs of a 96-key grid and of random lists, sort.Sort results; the pre-sort gathering orders (Go map iteration) and "
                "the sorted key sequences of independently constructed catchment instances; Compress/Encoding/Decode/Decompress between instances for %s action sets of ValidModel.csv (13 actions) "
                "and TestingModel.csv (15 actions), and -- on GENERATED catchments with %s management actions (loaded through the real loader; "
                "3 further instances each) -- for the action sets that fill / straddle the 64-bit words of the encoding (all, none, alternating, each "
                "single action at 0/62/63/64/65/126..129/190..192/n-2/n-1 and its complement, one word's worth, random), each encoding also compared with an "
                "independently written canonical text. distinct_nontrivial = distinct (size, word array) states observed + distinct "
                "(size, decode text) + distinct (dataset, action set) transferred" % (exh, "all 2^13 / all 2^15" if ctx.tier == "thorough" else "400 / 400 sampled",
                                                                               "1, 2, 62..66, 127..129, 191..193, 256" if ctx.tier == "thorough" else "63, 64, 65, 128"),
        "exhaustive": True,
        "exhaustive_part": "bit patterns of sizes 1..%d; all key pairs of the 96-key grid%s" % (exh, "; all 8192 action sets of ValidModel.csv and all 32768 of TestingModel.csv" if ctx.tier == "thorough" else ""),
        "correspondence_shards": nshards,
        "archive_cases": len(arch), "archive_operations": nops, "order_cases": len(order), "portability_cases": len(port),
    })
    ctx.samples = [{k: (v if k != "ops" else v[:12]) for k, v in c.items()} for c in (arch[:1] + arch[len(arch) // 2: len(arch) // 2 + 1] + port[:1])]
    ctx.assumptions = [
        "sort.Sort, strconv.ParseUint, fmt %X, strings.Split are modelled from their documentation (DESIGN section 6) and compared on every case",
        "archive sizes >= 1 (an archive of size 0 encodes to \"\" which Decode rejects: stated as C09_size0_not_roundtrip); sizes below 2^53 (archiveSize goes through float64)",
        "Decode as repaired by fix C09-1 (parse all entries, then store): on a tree without that fix the check alarms",
        "decision-variable values are a function of the active set: property C01 (the corollary here is stated over an abstract valuation)",
    ]
